(** * DtorsRun: when a call returns, every destructor it queued has run.

    The destructor of a value [p] starts when the frame [FDtorStart p] is
    executed (the step logs [EvDtor (pid p)]).  A value is QUEUED for
    destruction when it sits on the machine stack in a frame [FDtorStart p]
    (last drop of an object, drop of a loose value) or in a frame [FInners es]
    (the members of a collected group): [stack_pend].  Frames are consumed
    only from the top of the stack, unwinding keeps both kinds of frames, and
    [Finished] is returned only on the empty stack.  Hence (C03): all the
    objects of a collected set — and every other value queued during a call —
    have been destroyed when the call returns, normally or by a panic.

    Nothing here needs an invariant or a discipline hypothesis: the theorems
    hold for EVERY configuration and EVERY run.  Together with [PidInv]
    (the log has no duplicates) every queued destructor runs exactly once. *)
From Coq Require Import Permutation.
From CR Require Import Base Atomic Machine HeapFacts Tokens PidInv.

(** ** the log of one atomic piece *)

Lemma act_eff_log s s1 push : act_eff s s1 push -> dtor_log s1 = dtor_log s.
Proof. intros (fresh & gone & _ & L & _). exact L. Qed.

(** an action of a script (or a top-level call) starts no destructor itself:
    it can only queue one *)
Lemma exec_act_dtor_log s self a s1 self1 r push :
  exec_act s self a = AO s1 self1 r push -> dtor_log s1 = dtor_log s.
Proof. intros H. apply exec_act_eff in H as [Eff _]. apply act_eff_log in Eff. exact Eff. Qed.

Lemma exec_new_dtor_log s self dst sc s1 self1 r push :
  exec_new s self dst sc = AO s1 self1 r push -> dtor_log s1 = dtor_log s.
Proof. intros H. apply exec_new_eff in H as [Eff _]. apply act_eff_log in Eff. exact Eff. Qed.

Lemma drop_strong_dtor_log pri s o s1 push :
  drop_strong pri s o = Ok (s1, push) -> dtor_log s1 = dtor_log s.
Proof. intros H. apply drop_strong_eff in H. apply act_eff_log in H. exact H. Qed.

Lemma dtor_log_add_ev s e : dtor_log (add_ev s e) = ev_dtor e ++ dtor_log s.
Proof. reflexivity. Qed.

Lemma dtor_log_set_heap s h : dtor_log (set_heap s h) = dtor_log s.
Proof. reflexivity. Qed.

Lemma stack_pend_cons f k : stack_pend (f :: k) = frame_pend f ++ stack_pend k.
Proof. reflexivity. Qed.

(** ** one step, exactly

    A step of the machine is of one of two kinds:
    - it starts no destructor, and every queued value stays queued (new ones
      may be queued in front);
    - it executes [FDtorStart p]: the destructor of [p] is logged, and [p] is
      the first queued value and leaves the queue; the others stay. *)
Lemma step_pend_cases pri c c' :
  step pri c = Running c' ->
  (dtor_log (st c') = dtor_log (st c) /\
   exists fresh, stack_pend (stack c') = fresh ++ stack_pend (stack c)) \/
  (exists p k, stack c = FDtorStart p :: k /\ stack c' = FRunDtor p (script p) :: k /\
     dtor_log (st c') = pid p :: dtor_log (st c) /\
     stack_pend (stack c) = pid p :: stack_pend (stack c')).
Proof.
  destruct c as [s k0 u]. cbn [st stack]. unfold step. cbn [st stack unw].
  destruct k0 as [|f k]; [discriminate|].
  destruct f as [o|p|p pc|ss|o|es|o|keys|r0].
  - (* FDropStrong *)
    destruct (drop_strong pri s o) as [[s1 push]|] eqn:E; [|discriminate].
    intros H; injection H as <-. cbn [st stack]. left. split.
    + eapply drop_strong_dtor_log; exact E.
    + exists (stack_pend push). rewrite stack_pend_app. reflexivity.
  - (* FDtorStart *)
    intros H; injection H as <-. cbn [st stack]. right. exists p, k.
    repeat split; reflexivity.
  - (* FRunDtor *)
    destruct pc as [|a pc].
    + intros H; injection H as <-. cbn [st stack]. left. split; [reflexivity|].
      exists []. reflexivity.
    + destruct (exec_act s (Some p) a) as [s1 self1 r push| |] eqn:E; [|discriminate|].
      * intros H; injection H as <-. cbn [st stack]. left. split.
        -- eapply exec_act_dtor_log; exact E.
        -- exists (stack_pend push). rewrite stack_pend_app. reflexivity.
      * destruct u; [discriminate|].
        destruct (unwind_stack s k) as [s1 k1] eqn:Eu. intros H; injection H as <-. cbn [st stack].
        apply unwind_stack_pids in Eu as (_ & _ & C & D & _).
        left. split; [exact C|]. exists []. rewrite !stack_pend_cons. cbn [frame_pend app].
        exact D.
  - (* FDropSlots *)
    destruct ss as [|sl ss].
    + intros H; injection H as <-. cbn [st stack]. left. split; [reflexivity|]. exists []. reflexivity.
    + destruct sl as [o|w|].
      * intros H; injection H as <-. cbn [st stack]. left. split; [reflexivity|]. exists []. reflexivity.
      * destruct (weak_drop (heap_of s) w) as [h1|] eqn:E; [|discriminate].
        intros H; injection H as <-. cbn [st stack]. left. split; [reflexivity|]. exists []. reflexivity.
      * intros H; injection H as <-. cbn [st stack]. left. split; [reflexivity|]. exists []. reflexivity.
  - (* FAfterValue *)
    destruct (getb (heap_of s) o) as [b|] eqn:G; [|discriminate].
    destruct (links b) as [t|]; [|discriminate].
    destruct (dec_weak_free (setb (heap_of s) o (with_links b None)) o) as [h2|] eqn:E; [|discriminate].
    intros H; injection H as <-. cbn [st stack]. left. split; [reflexivity|]. exists []. reflexivity.
  - (* FInners *)
    destruct es as [|[[o v] t] es].
    + intros H; injection H as <-. cbn [st stack]. left. split; [reflexivity|]. exists []. reflexivity.
    + intros H; injection H as <-. cbn [st stack]. left. split; [reflexivity|]. exists []. reflexivity.
  - (* FTableDrop *)
    intros H; injection H as <-. cbn [st stack]. left. split; [reflexivity|]. exists []. reflexivity.
  - (* FFinishGroup *)
    destruct (finish_group (heap_of s) keys) as [h1|] eqn:E; [|discriminate].
    intros H; injection H as <-. cbn [st stack]. left. split; [reflexivity|]. exists []. reflexivity.
  - (* FRes *)
    intros H; injection H as <-. cbn [st stack]. left. split; [reflexivity|]. exists []. reflexivity.
Qed.

(** The log of started destructors only grows (it is extended at the front,
    by at most one entry per step). *)
Lemma dtor_log_step pri c c' :
  step pri c = Running c' -> exists l, dtor_log (st c') = l ++ dtor_log (st c).
Proof.
  intros H. apply step_pend_cases in H as [[L _]|(p & k & _ & _ & L & _)].
  - exists []. exact L.
  - exists [pid p]. exact L.
Qed.

(** 1. a destructor that has started stays in the log *)
Lemma dtor_log_mono pri c c' :
  step pri c = Running c' -> incl (dtor_log (st c)) (dtor_log (st c')).
Proof.
  intros H. apply dtor_log_step in H as [l E]. rewrite E. apply incl_appr, incl_refl.
Qed.

(** 2. a queued value stays queued until its destructor starts: no step
    (drop, script action, teardown, unwinding) discards a queued value *)
Lemma pend_step pri c c' :
  step pri c = Running c' ->
  forall x, In x (stack_pend (stack c)) ->
            In x (stack_pend (stack c')) \/ In x (dtor_log (st c')).
Proof.
  intros H x Hx. apply step_pend_cases in H as [[_ [fresh E]]|(p & k & _ & _ & L & E)].
  - left. rewrite E. apply in_or_app. now right.
  - rewrite E in Hx. destruct Hx as [<-|Hx]; [right|left; exact Hx].
    rewrite L. now left.
Qed.

(** ** facts about [run] *)

(** [Finished] is returned only on the empty stack, with the current state *)
Lemma step_finished pri c s b :
  step pri c = Finished s b -> stack c = [] /\ s = st c /\ b = unw c.
Proof.
  intros E. unfold step in E. destruct (stack c) as [|f k] eqn:Ek.
  - injection E as <- <-. auto.
  - exfalso. destruct f as [o|p|p [|a pc]|[|[o|w|] ss]|o|[|[[o v] t] es]|o|keys|r0];
      try discriminate E.
    + destruct (drop_strong pri (st c) o) as [[s1 push]|]; discriminate E.
    + destruct (exec_act (st c) (Some p) a); try discriminate E.
      destruct (unw c); [discriminate E|]. destruct (unwind_stack (st c) k); discriminate E.
    + destruct (weak_drop (heap_of (st c)) w); discriminate E.
    + destruct (getb (heap_of (st c)) o) as [b0|]; [|discriminate E].
      destruct (links b0); [|discriminate E].
      destruct (dec_weak_free (setb (heap_of (st c)) o (with_links b0 None)) o); discriminate E.
    + destruct (finish_group (heap_of (st c)) keys); discriminate E.
Qed.

Lemma run_add pri n : forall m c c1,
  run pri n c = Running c1 -> run pri (n + m) c = run pri m c1.
Proof.
  induction n as [|n IH]; intros m c c1 H; cbn [run Nat.add] in *.
  - injection H as ->. reflexivity.
  - destruct (step pri c) as [c'|s' b|s' e]; try discriminate H. apply IH. exact H.
Qed.

Lemma run_snoc pri n c c0 c1 :
  run pri n c = Running c0 -> step pri c0 = Running c1 -> run pri (S n) c = Running c1.
Proof.
  intros H E. replace (S n) with (n + 1)%nat by lia. rewrite (run_add pri n 1 c c0 H).
  cbn [run]. rewrite E. reflexivity.
Qed.

Lemma run_finished_add pri n : forall m c s b,
  run pri n c = Finished s b -> run pri (n + m) c = Finished s b.
Proof.
  induction n as [|n IH]; intros m c s b H; cbn [run Nat.add] in *; [discriminate H|].
  destruct (step pri c) as [c'|s' b'|s' e]; try discriminate H.
  - apply IH. exact H.
  - exact H.
Qed.

(** a run that is still going after [n] steps and returns with [fuel]: the
    rest of the run from the intermediate configuration returns the same *)
Lemma run_split pri n fuel c c1 s' b :
  run pri n c = Running c1 -> run pri fuel c = Finished s' b ->
  (n <= fuel)%nat /\ run pri (fuel - n) c1 = Finished s' b.
Proof.
  intros H1 H2. destruct (Nat.le_gt_cases n fuel) as [Hle|Hgt].
  - split; [exact Hle|]. rewrite <- (run_add pri n (fuel - n) c c1 H1).
    replace (n + (fuel - n))%nat with fuel by lia. exact H2.
  - exfalso. apply (run_finished_add pri fuel (n - fuel)) in H2.
    replace (fuel + (n - fuel))%nat with n in H2 by lia. congruence.
Qed.

(** the log only grows along a run *)
Lemma run_dtor_log_mono pri n : forall c,
  match run pri n c with
  | Running c1 => incl (dtor_log (st c)) (dtor_log (st c1))
  | Finished s' _ => incl (dtor_log (st c)) (dtor_log s')
  | Halted s' _ => incl (dtor_log (st c)) (dtor_log s')
  end.
Proof.
  induction n as [|n IH]; intros c; cbn [run]; [apply incl_refl|].
  destruct (step pri c) as [c'|s' b|s' e] eqn:E.
  - specialize (IH c'). apply dtor_log_mono in E.
    destruct (run pri n c') as [c1|s1 b1|s1 e1]; eapply incl_tran; eauto.
  - apply step_finished in E as (_ & -> & _). apply incl_refl.
  - assert (s' = st c) as ->; [|apply incl_refl].
    unfold step in E. destruct (stack c) as [|f k]; [discriminate E|].
    destruct f as [o|p|p [|a pc]|[|[o|w|] ss]|o|[|[[o v] t] es]|o|keys|r0];
      try discriminate E.
    + destruct (drop_strong pri (st c) o) as [[s1 push]|]; [discriminate E|].
      injection E as <- _. reflexivity.
    + destruct (exec_act (st c) (Some p) a); try discriminate E.
      * injection E as <- _. reflexivity.
      * destruct (unw c); [injection E as <- _; reflexivity|].
        destruct (unwind_stack (st c) k); discriminate E.
    + destruct (weak_drop (heap_of (st c)) w); [discriminate E|]. injection E as <- _. reflexivity.
    + destruct (getb (heap_of (st c)) o) as [b0|]; [|injection E as <- _; reflexivity].
      destruct (links b0); [|injection E as <- _; reflexivity].
      destruct (dec_weak_free (setb (heap_of (st c)) o (with_links b0 None)) o);
        [discriminate E|injection E as <- _; reflexivity].
    + destruct (finish_group (heap_of (st c)) keys); [discriminate E|]. injection E as <- _. reflexivity.
Qed.

(** ** 3. runs that return *)

Lemma run_finished_pend pri fuel : forall c s' b,
  run pri fuel c = Finished s' b ->
  incl (stack_pend (stack c)) (dtor_log s') /\ incl (dtor_log (st c)) (dtor_log s').
Proof.
  induction fuel as [|fuel IH]; intros c s' b H; cbn [run] in H; [discriminate H|].
  destruct (step pri c) as [c'|s1 b1|s1 e1] eqn:E; [| |discriminate H].
  - destruct (IH c' s' b H) as [IH1 IH2]. split.
    + intros x Hx. destruct (pend_step pri c c' E x Hx) as [Hp|Hl].
      * apply IH1. exact Hp.
      * apply IH2. exact Hl.
    + eapply incl_tran; [eapply dtor_log_mono; exact E|exact IH2].
  - injection H as -> ->. apply step_finished in E as (Ek & -> & _). rewrite Ek.
    split; [intros x []|apply incl_refl].
Qed.

(** If a run returns ([Finished]: the stack is empty again, normally or after
    a panic was caught at the top), the destructor of every value that was
    queued on the stack at its beginning has been started. *)
Theorem queued_dtors_run pri fuel c s' b :
  run pri fuel c = Finished s' b ->
  forall x, In x (stack_pend (stack c)) -> In x (dtor_log s').
Proof. intros H. apply (run_finished_pend pri fuel c s' b H). Qed.

(** The same for every configuration on the way (the hypothesis [n <= fuel] of
    the informal statement is not needed: it follows). *)
Theorem queued_dtors_run_mid pri n fuel c c1 s' b :
  run pri n c = Running c1 -> run pri fuel c = Finished s' b ->
  incl (stack_pend (stack c1)) (dtor_log s').
Proof.
  intros H1 H2. destruct (run_split pri n fuel c c1 s' b H1 H2) as [_ H].
  apply (run_finished_pend pri _ c1 s' b H).
Qed.

(** ... and whatever had been destroyed at that point stays destroyed *)
Theorem dtor_log_run_mid pri n fuel c c1 s' b :
  run pri n c = Running c1 -> run pri fuel c = Finished s' b ->
  incl (dtor_log (st c1)) (dtor_log s').
Proof.
  intros H1 H2. destruct (run_split pri n fuel c c1 s' b H1 H2) as [_ H].
  apply (run_finished_pend pri _ c1 s' b H).
Qed.

(** C03 for a run: when [Rc::drop] decides to collect a group (the step on
    [FDropStrong o] pushes the teardown [FInners es; FFinishGroup keys]) and
    the run returns, the destructor of every member of the group has been
    started before the return. *)
Theorem group_destroyed_run pri n fuel c c0 c1 o k es keys s' b :
  run pri n c = Running c0 ->
  stack c0 = FDropStrong o :: k ->
  step pri c0 = Running c1 ->
  stack c1 = FInners es :: FFinishGroup keys :: k ->
  run pri fuel c = Finished s' b ->
  forall e, In e es -> In (pid (snd (fst e))) (dtor_log s').
Proof.
  intros Hn _ Hs Hk Hf e He.
  apply (queued_dtors_run_mid pri (S n) fuel c c1 s' b); [eapply run_snoc; eauto|exact Hf|].
  rewrite Hk, stack_pend_cons. apply in_or_app. left. cbn [frame_pend].
  unfold inner_pids. apply (in_map (fun e0 : inner => pid (snd (fst e0)))). exact He.
Qed.

(** the same, stated with [drop_strong] (drop.rs) itself *)
Theorem group_destroyed_run' pri n fuel c c0 o k s1 es keys s' b :
  run pri n c = Running c0 ->
  stack c0 = FDropStrong o :: k ->
  drop_strong pri (st c0) o = Ok (s1, [FInners es; FFinishGroup keys]) ->
  run pri fuel c = Finished s' b ->
  forall e, In e es -> In (pid (snd (fst e))) (dtor_log s').
Proof.
  intros Hn Hk Hd Hf.
  eapply (group_destroyed_run pri n fuel c c0
            {| st := s1; stack := [FInners es; FFinishGroup keys] ++ k; unw := unw c0 |});
    [exact Hn|exact Hk| |reflexivity|exact Hf].
  unfold step. rewrite Hk, Hd. reflexivity.
Qed.

(** the last drop of an object: its value is destroyed before the return *)
Theorem last_drop_destroyed_run pri n fuel c c0 o k s1 v s' b :
  run pri n c = Running c0 ->
  stack c0 = FDropStrong o :: k ->
  drop_strong pri (st c0) o = Ok (s1, [FDtorStart v; FAfterValue o]) ->
  run pri fuel c = Finished s' b ->
  In (pid v) (dtor_log s').
Proof.
  intros Hn Hk Hd Hf.
  apply (queued_dtors_run_mid pri (S n) fuel c
           {| st := s1; stack := [FDtorStart v; FAfterValue o] ++ k; unw := unw c0 |} s' b);
    [|exact Hf|now left].
  eapply run_snoc; [exact Hn|]. unfold step. rewrite Hk, Hd. reflexivity.
Qed.

(** ** 4. top-level calls *)

(** the atomic first part of a call *)
Definition call_start (s : state) (o : op) : aout :=
  match o with
  | OAct a => exec_act s None a
  | ONewS dst sc => exec_new s None dst sc
  end.

(** the first configuration of the run of a call *)
Definition call_cfg (s1 : state) (push : list frame) : config :=
  {| st := s1; stack := push; unw := false |}.

(** the call returned to its caller: normally or by a panic (not a fault, not
    out of fuel) *)
Definition returned (r : op_outcome) : Prop :=
  match r with ODone _ | OPanicked => True | OHalt _ | OFuel => False end.

Lemma call_start_dtor_log s o s1 self1 r push :
  call_start s o = AO s1 self1 r push -> dtor_log s1 = dtor_log s.
Proof.
  destruct o as [a|dst sc]; cbn [call_start].
  - apply exec_act_dtor_log.
  - apply exec_new_dtor_log.
Qed.

(** a call that returned and whose first part queued something ran the
    machine to [Finished] *)
Lemma exec_op_returned_run pri fuel s o s' out s1 self1 r push :
  exec_op pri fuel s o = (s', out) -> returned out ->
  call_start s o = AO s1 self1 r push ->
  exists b, run pri fuel (call_cfg s1 push) = Finished s' b.
Proof.
  unfold exec_op. fold (call_start s o). intros H Hr E. rewrite E in H.
  fold (call_cfg s1 push) in H.
  destruct (run pri fuel (call_cfg s1 push)) as [c'|s2 [|]|s2 e].
  - injection H as <- <-. destruct Hr.
  - injection H as <- <-. eauto.
  - injection H as <- <-. eauto.
  - injection H as <- <-. destruct Hr.
Qed.

(** the log only grows over a call, however it ends *)
Theorem exec_op_dtor_log_mono pri fuel s o :
  incl (dtor_log s) (dtor_log (fst (exec_op pri fuel s o))).
Proof.
  unfold exec_op. fold (call_start s o).
  destruct (call_start s o) as [s1 self1 r push|e|] eqn:E; cbn [fst]; try apply incl_refl.
  apply call_start_dtor_log in E. rewrite <- E.
  pose proof (run_dtor_log_mono pri fuel (call_cfg s1 push)) as H.
  fold (call_cfg s1 push).
  destruct (run pri fuel (call_cfg s1 push)) as [c'|s2 [|]|s2 e]; cbn [fst]; exact H.
Qed.

(** Every value that is queued for destruction at ANY point of a call
    (by the call itself, by [Rc::drop], by a destructor's script, before or
    during unwinding) has had its destructor started when the call returns. *)
Theorem queued_dtors_call pri fuel s o s' out s1 self1 r push n c1 :
  exec_op pri fuel s o = (s', out) -> returned out ->
  call_start s o = AO s1 self1 r push ->
  run pri n (call_cfg s1 push) = Running c1 ->
  incl (stack_pend (stack c1)) (dtor_log s').
Proof.
  intros H Hr E Hn. destruct (exec_op_returned_run _ _ _ _ _ _ _ _ _ _ H Hr E) as [b Hf].
  eapply queued_dtors_run_mid; eauto.
Qed.

(** in particular what the call itself queued (e.g. [drop] of a loose value) *)
Corollary queued_dtors_call_first pri fuel s o s' out s1 self1 r push :
  exec_op pri fuel s o = (s', out) -> returned out ->
  call_start s o = AO s1 self1 r push ->
  incl (stack_pend push) (dtor_log s').
Proof.
  intros H Hr E.
  apply (queued_dtors_call pri fuel s o s' out s1 self1 r push 0 (call_cfg s1 push) H Hr E).
  reflexivity.
Qed.

(** C03: "all objects of the set are destroyed before the drop returns".
    If at some point of a call an [Rc::drop] finds an orphaned group and queues
    its members [es], and the call returns (normally or panicking), then the
    destructor of every member has been started before the return. *)
Theorem C03_group_destroyed_before_return
        pri fuel s op s' out s1 self1 r push n c0 c1 o k es keys :
  exec_op pri fuel s op = (s', out) -> returned out ->
  call_start s op = AO s1 self1 r push ->
  run pri n (call_cfg s1 push) = Running c0 ->
  stack c0 = FDropStrong o :: k ->
  step pri c0 = Running c1 ->
  stack c1 = FInners es :: FFinishGroup keys :: k ->
  forall e, In e es -> In (pid (snd (fst e))) (dtor_log s').
Proof.
  intros H Hr E Hn Hk Hs Hk1.
  destruct (exec_op_returned_run _ _ _ _ _ _ _ _ _ _ H Hr E) as [b Hf].
  eapply group_destroyed_run; eauto.
Qed.

(** the same with [drop_strong] itself *)
Theorem C03_group_destroyed_before_return'
        pri fuel s op s' out s1 self1 r push n c0 o k s2 es keys :
  exec_op pri fuel s op = (s', out) -> returned out ->
  call_start s op = AO s1 self1 r push ->
  run pri n (call_cfg s1 push) = Running c0 ->
  stack c0 = FDropStrong o :: k ->
  drop_strong pri (st c0) o = Ok (s2, [FInners es; FFinishGroup keys]) ->
  forall e, In e es -> In (pid (snd (fst e))) (dtor_log s').
Proof.
  intros H Hr E Hn Hk Hd.
  destruct (exec_op_returned_run _ _ _ _ _ _ _ _ _ _ H Hr E) as [b Hf].
  eapply group_destroyed_run'; eauto.
Qed.

(** the last drop of an object inside a call *)
Theorem C03_last_drop_destroyed_before_return
        pri fuel s op s' out s1 self1 r push n c0 o k s2 v :
  exec_op pri fuel s op = (s', out) -> returned out ->
  call_start s op = AO s1 self1 r push ->
  run pri n (call_cfg s1 push) = Running c0 ->
  stack c0 = FDropStrong o :: k ->
  drop_strong pri (st c0) o = Ok (s2, [FDtorStart v; FAfterValue o]) ->
  In (pid v) (dtor_log s').
Proof.
  intros H Hr E Hn Hk Hd.
  destruct (exec_op_returned_run _ _ _ _ _ _ _ _ _ _ H Hr E) as [b Hf].
  eapply last_drop_destroyed_run; eauto.
Qed.

(** ** 5. exactly once *)

Lemma NoDup_count_one (l : list nat) x :
  NoDup l -> In x l -> count_occ Nat.eq_dec l x = 1%nat.
Proof. intros Hn. apply (proj1 (NoDup_count_occ' Nat.eq_dec l) Hn). Qed.

(** a run from a configuration satisfying [PidInv] (every configuration
    reachable from the initial state does) that returns: every value that was
    queued at some point has been destroyed exactly once *)
Theorem queued_dtors_run_exactly_once pri n fuel c c1 s' b :
  PidInv (st c) (stack c) ->
  run pri n c = Running c1 -> run pri fuel c = Finished s' b ->
  forall x, In x (stack_pend (stack c1)) -> count_occ Nat.eq_dec (dtor_log s') x = 1%nat.
Proof.
  intros HI H1 H2 x Hx. apply NoDup_count_one.
  - pose proof (dtor_at_most_once pri fuel c HI) as H. rewrite H2 in H. exact H.
  - eapply queued_dtors_run_mid; eauto.
Qed.

(** one call between two calls *)
Theorem queued_dtors_call_exactly_once pri fuel s o s' out s1 self1 r push n c1 :
  PidInv s [] ->
  exec_op pri fuel s o = (s', out) -> returned out ->
  call_start s o = AO s1 self1 r push ->
  run pri n (call_cfg s1 push) = Running c1 ->
  forall x, In x (stack_pend (stack c1)) -> count_occ Nat.eq_dec (dtor_log s') x = 1%nat.
Proof.
  intros HI H Hr E Hn x Hx. apply NoDup_count_one.
  - pose proof (exec_op_dtor_at_most_once pri fuel s o HI) as Hd. rewrite H in Hd. exact Hd.
  - eapply queued_dtors_call; eauto.
Qed.

(** C03 + C02: the destructor of every member of a collected group has run
    exactly once when the call returns *)
Theorem C03_group_destroyed_exactly_once
        pri fuel s op s' out s1 self1 r push n c0 o k s2 es keys :
  PidInv s [] ->
  exec_op pri fuel s op = (s', out) -> returned out ->
  call_start s op = AO s1 self1 r push ->
  run pri n (call_cfg s1 push) = Running c0 ->
  stack c0 = FDropStrong o :: k ->
  drop_strong pri (st c0) o = Ok (s2, [FInners es; FFinishGroup keys]) ->
  forall e, In e es -> count_occ Nat.eq_dec (dtor_log s') (pid (snd (fst e))) = 1%nat.
Proof.
  intros HI H Hr E Hn Hk Hd e He. apply NoDup_count_one.
  - pose proof (exec_op_dtor_at_most_once pri fuel s op HI) as Hl. rewrite H in Hl. exact Hl.
  - eapply C03_group_destroyed_before_return'; eauto.
Qed.

(** ** histories from the initial state *)

(** the log only grows over a history *)
Theorem run_history_dtor_log_mono fuel h : forall s,
  incl (dtor_log s) (dtor_log (fst (run_history fuel s h))).
Proof.
  induction h as [|[o pri] h IH]; intros s; cbn [run_history]; [apply incl_refl|].
  pose proof (exec_op_dtor_log_mono pri fuel s o) as H.
  destruct (exec_op pri fuel s o) as [s1 r]. cbn [fst] in H.
  specialize (IH s1).
  destruct r as [r| |e|]; cbn [fst]; try exact H;
    destruct (run_history fuel s1 h) as [s2 rs]; cbn [fst] in *; eapply incl_tran; eauto.
Qed.

(** a history all of whose calls returned ends between two calls *)
Lemma run_history_returned_pid fuel h : forall s,
  PidInv s [] -> Forall returned (snd (run_history fuel s h)) ->
  PidInv (fst (run_history fuel s h)) [].
Proof.
  induction h as [|[o pri] h IH]; intros s HI; cbn [run_history]; [intros _; exact HI|].
  pose proof (exec_op_pid pri fuel s o HI) as H.
  destruct (exec_op pri fuel s o) as [s1 r]. cbn [fst snd] in H.
  destruct r as [r| |e|]; cbn [fst snd].
  - specialize (IH s1 H). destruct (run_history fuel s1 h) as [s2 rs]. cbn [fst snd] in *.
    intros Hf. apply IH. inversion Hf; assumption.
  - specialize (IH s1 H). destruct (run_history fuel s1 h) as [s2 rs]. cbn [fst snd] in *.
    intros Hf. apply IH. inversion Hf; assumption.
  - intros Hf. inversion Hf as [|x l Hx Hl]. destruct Hx.
  - intros Hf. inversion Hf as [|x l Hx Hl]. destruct Hx.
Qed.

(** C03 + C02 from the initial state.  After any history of API calls that
    all returned (with any oracles, including panicking calls), consider one
    more call that returns: every value queued for destruction at any point of
    that call — in particular every member of a group collected by an
    [Rc::drop] inside it — has had its destructor run exactly once in the
    whole history, and it ran before the call returned. *)
Theorem history_queued_dtors_exactly_once fuel h pri o s' out s1 self1 r push n c1 :
  let s := fst (run_history fuel init_state h) in
  Forall returned (snd (run_history fuel init_state h)) ->
  exec_op pri fuel s o = (s', out) -> returned out ->
  call_start s o = AO s1 self1 r push ->
  run pri n (call_cfg s1 push) = Running c1 ->
  forall x, In x (stack_pend (stack c1)) -> count_occ Nat.eq_dec (dtor_log s') x = 1%nat.
Proof.
  intros s Hh. eapply queued_dtors_call_exactly_once.
  apply run_history_returned_pid; [exact PidInv_init|exact Hh].
Qed.

Theorem history_group_destroyed_exactly_once
        fuel h pri op s' out s1 self1 r push n c0 o k s2 es keys :
  let s := fst (run_history fuel init_state h) in
  Forall returned (snd (run_history fuel init_state h)) ->
  exec_op pri fuel s op = (s', out) -> returned out ->
  call_start s op = AO s1 self1 r push ->
  run pri n (call_cfg s1 push) = Running c0 ->
  stack c0 = FDropStrong o :: k ->
  drop_strong pri (st c0) o = Ok (s2, [FInners es; FFinishGroup keys]) ->
  forall e, In e es -> count_occ Nat.eq_dec (dtor_log s') (pid (snd (fst e))) = 1%nat.
Proof.
  intros s Hh. eapply C03_group_destroyed_exactly_once.
  apply run_history_returned_pid; [exact PidInv_init|exact Hh].
Qed.

(** ... and it stays so for the rest of the history: a destroyed value is
    never destroyed again and never forgotten *)
Theorem history_destroyed_stays fuel h s x :
  In x (dtor_log s) -> In x (dtor_log (fst (run_history fuel s h))).
Proof. apply run_history_dtor_log_mono. Qed.

(** ** order: the queue is served from the front

    [subseq a l]: [a] is obtained from [l] by deleting elements. *)
Inductive subseq {A} : list A -> list A -> Prop :=
| ss_nil : subseq [] []
| ss_skip a l x : subseq a l -> subseq a (x :: l)
| ss_take a l x : subseq a l -> subseq (x :: a) (x :: l).

Lemma subseq_nil_l {A} (l : list A) : subseq [] l.
Proof. induction l as [|x l IH]; [constructor|apply ss_skip; exact IH]. Qed.

Lemma subseq_refl {A} (l : list A) : subseq l l.
Proof. induction l as [|x l IH]; [constructor|apply ss_take; exact IH]. Qed.

Lemma subseq_app {A} (a l : list A) :
  subseq a l -> forall b m, subseq b m -> subseq (a ++ b) (l ++ m).
Proof.
  induction 1 as [|a l x H IH|a l x H IH]; intros b m Hb; cbn [app].
  - exact Hb.
  - apply ss_skip. apply IH. exact Hb.
  - apply ss_take. apply IH. exact Hb.
Qed.

Lemma subseq_app_l {A} (a b : list A) : forall l, subseq (a ++ b) l -> subseq a l.
Proof.
  intros l H. remember (a ++ b) as ab eqn:E. revert a b E.
  induction H as [|ab l x H IH|ab l x H IH]; intros a b E.
  - destruct a; [constructor|discriminate E].
  - apply ss_skip. eapply IH. exact E.
  - destruct a as [|y a]; [apply subseq_nil_l|].
    cbn [app] in E. injection E as -> ->. apply ss_take. eapply IH. reflexivity.
Qed.

Lemma subseq_app_r {A} (a b : list A) : forall l, subseq (a ++ b) l -> subseq b l.
Proof.
  induction a as [|x a IH]; intros l H; [exact H|].
  cbn [app] in H. remember (x :: a ++ b) as ab eqn:E.
  induction H as [|ab l y H IHs|ab l y H IHs]; [discriminate E| |].
  - apply ss_skip. apply IHs. exact E.
  - injection E as -> ->. apply ss_skip. apply IH. exact H.
Qed.

Lemma subseq_incl {A} (a l : list A) : subseq a l -> incl a l.
Proof.
  induction 1 as [|a l x H IH|a l x H IH]; intros y Hy.
  - exact Hy.
  - right. apply IH. exact Hy.
  - destruct Hy as [<-|Hy]; [now left|right; apply IH; exact Hy].
Qed.

(** If a run returns, the destructors of the values queued at its beginning
    were all started DURING the run (they are in the new part [l] of the log,
    which is newest first), in the order of the queue: the top of the stack
    first, the members of a group in the order of [inners]. *)
Theorem queued_dtors_run_in_order pri fuel : forall c s' b,
  run pri fuel c = Finished s' b ->
  exists l, dtor_log s' = l ++ dtor_log (st c) /\ subseq (rev (stack_pend (stack c))) l.
Proof.
  induction fuel as [|fuel IH]; intros c s' b H; cbn [run] in H; [discriminate H|].
  destruct (step pri c) as [c'|s1 b1|s1 e1] eqn:E; [| |discriminate H].
  - destruct (IH c' s' b H) as (l & El & Hs).
    apply step_pend_cases in E as [[L [fresh Ep]]|(p & k & _ & _ & L & Ep)].
    + exists l. rewrite <- L. split; [exact El|].
      rewrite Ep, rev_app_distr in Hs. eapply subseq_app_l. exact Hs.
    + exists (l ++ [pid p]). rewrite <- app_assoc. cbn [app]. rewrite <- L. split; [exact El|].
      rewrite Ep. cbn [rev]. apply subseq_app; [exact Hs|apply subseq_refl].
  - injection H as -> ->. apply step_finished in E as (Ek & -> & _). rewrite Ek.
    exists []. split; [reflexivity|constructor].
Qed.

(** C03, with order: the members of a collected group are destroyed after the
    drop decided to collect them and before the run returns, in the order of
    [es] (the order of [EvGroup keys]). *)
Theorem group_destroyed_in_order pri n fuel c c0 o k s1 es keys s' b :
  run pri n c = Running c0 ->
  stack c0 = FDropStrong o :: k ->
  drop_strong pri (st c0) o = Ok (s1, [FInners es; FFinishGroup keys]) ->
  run pri fuel c = Finished s' b ->
  exists l, dtor_log s' = l ++ dtor_log (st c0) /\ subseq (rev (inner_pids es)) l.
Proof.
  intros Hn Hk Hd Hf.
  set (c1 := {| st := s1; stack := [FInners es; FFinishGroup keys] ++ k; unw := unw c0 |}).
  assert (Hs : run pri (S n) c = Running c1).
  { eapply run_snoc; [exact Hn|]. unfold step. rewrite Hk, Hd. reflexivity. }
  destruct (run_split pri (S n) fuel c c1 s' b Hs Hf) as [_ H].
  apply queued_dtors_run_in_order in H as (l & El & Hsub).
  exists l. split.
  - rewrite El. f_equal. eapply drop_strong_dtor_log. exact Hd.
  - subst c1. cbn [stack app] in Hsub. rewrite !stack_pend_cons in Hsub.
    cbn [frame_pend app] in Hsub. rewrite rev_app_distr in Hsub.
    (* the members are the front of the queue, i.e. the END of the reversed queue *)
    eapply subseq_app_r. exact Hsub.
Qed.

Print Assumptions dtor_log_mono.
Print Assumptions queued_dtors_run_in_order.
Print Assumptions group_destroyed_in_order.
Print Assumptions pend_step.
Print Assumptions queued_dtors_run.
Print Assumptions queued_dtors_run_mid.
Print Assumptions queued_dtors_call.
Print Assumptions C03_group_destroyed_before_return.
Print Assumptions C03_group_destroyed_before_return'.
Print Assumptions C03_last_drop_destroyed_before_return.
Print Assumptions C03_group_destroyed_exactly_once.
Print Assumptions history_queued_dtors_exactly_once.
Print Assumptions history_group_destroyed_exactly_once.
