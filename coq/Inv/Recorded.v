(** * "Keeping every stored handle recorded is enough" (the user-level reading
    of C09's precondition).

    The safety theorems ([step_inv], [run_inv], [exec_op_inv],
    [run_history_inv]) assume, at every nested [Rc::drop] of a teardown, that
    the heap is disciplined ([discb]).  Here the condition a user can actually
    check — every strong handle stored in a value is recorded as a Forward
    adoption of its owner, and nothing else is — is shown to be needed only AT
    CALL BOUNDARIES: for programs whose values have no destructor scripts (the
    destructor of a value only drops its fields) it is preserved by every
    step of the machine and implies the per-step hypothesis. *)
From CR Require Import Base Atomic Machine LinksFacts HeapFacts Local Tokens InvDef InvLemmas
  ActBase ActClone ActHandles ActAdopt DropLast StepInv RunInv Consequences TablesFrame.
Local Open Scope N_scope.

(** ** the user-level condition *)

(** every strong handle stored in the value of an object is recorded as a
    Forward adoption by that object, and vice versa, with multiplicity *)
Definition recorded (h : heap) : Prop :=
  forall a b p, nth_error h a = Some b -> value b = Some p ->
    forall y, lget h a (y, Fwd) = total (sw_strong y) (slots p).

(** the destructor of the value does nothing but drop the fields *)
Definition no_scripts_payload (p : payload) : Prop := script p = [].

Definition ns_inner (e : inner) : Prop := no_scripts_payload (snd (fst e)).

Definition ns_frame (f : frame) : Prop :=
  match f with
  | FDtorStart p => no_scripts_payload p
  | FRunDtor p pc => no_scripts_payload p /\ pc = []
  | FInners es => Forall ns_inner es
  | _ => True
  end.

Definition ns_reg (r : reg) : Prop :=
  match r with RLoose p => no_scripts_payload p | _ => True end.

Definition ns_heap (h : heap) : Prop :=
  forall a b p, nth_error h a = Some b -> value b = Some p -> no_scripts_payload p.

(** no value anywhere in the configuration — inside a box, returned by
    try_unwrap, or being destroyed — has a destructor script *)
Definition no_scripts (c : config) : Prop :=
  ns_heap (heap_of (st c)) /\ Forall ns_reg (regs (st c)) /\ Forall ns_frame (stack c).

(** ** CORE GOAL 1: [recorded] implies the discipline hypothesis *)

(** Rust reading: a program that records exactly the handles it stores
    satisfies the precondition under which [Rc::drop] is proved safe. *)
Lemma recorded_disc h : recorded h -> disc h.
Proof. intros H a b p Hb Hv y. rewrite (H a b p Hb Hv y). lia. Qed.

Lemma tbl_get_entry t l c : NoDup (keys t) -> In (l, c) t -> tbl_get t l = c.
Proof.
  induction t as [|[l' c'] t IH]; cbn [keys map fst In tbl_get]; intros Hnd Hin; [destruct Hin|].
  inversion Hnd as [|x xs Hni Hnd']; subst.
  destruct Hin as [E|Hin].
  - injection E as -> ->. rewrite link_eqb_refl. reflexivity.
  - destruct (link_eqb l l') eqn:E.
    + apply link_eqb_eq in E. subst l'. elim Hni. apply in_map_iff. exists (l, c). auto.
    + apply IH; assumption.
Qed.

Lemma recorded_discb h : heap_wf h -> recorded h -> discb h = true.
Proof.
  intros Hwf H. unfold discb. apply forallb_forall. intros b Hin.
  destruct (In_nth_error _ _ Hin) as (a & Hb).
  destruct (value b) as [p|] eqn:Hv; [|reflexivity].
  apply forallb_forall. intros [[y kd] c] He. destruct kd; try reflexivity.
  apply N.leb_le. pose proof (H a b p Hb Hv y) as E. unfold lget in E. rewrite Hb in E.
  destruct (Hwf a b Hb) as [Hnd _].
  rewrite (tbl_get_entry _ _ _ Hnd He) in E. lia.
Qed.

(** ** values: which boxes hold which value *)

(** every value that sits in a box afterwards sat in the same box before,
    unchanged; or the box is new and its value holds no handle and has no
    script ([Rc::new]) *)
Definition values_kept (h h' : heap) : Prop :=
  (length h <= length h')%nat /\
  forall a b' p, nth_error h' a = Some b' -> value b' = Some p ->
    (exists b, nth_error h a = Some b /\ value b = Some p) \/
    ((length h <= a)%nat /\ slots p = empty_slots /\ script p = []).

Lemma vk_refl h : values_kept h h.
Proof. split; [lia|]. intros a b' p Hb Hv. left. exists b'. auto. Qed.

Lemma vk_trans h1 h2 h3 : values_kept h1 h2 -> values_kept h2 h3 -> values_kept h1 h3.
Proof.
  intros [L1 H1] [L2 H2]. split; [lia|]. intros a b3 p Hb3 Hv3.
  destruct (H2 a b3 p Hb3 Hv3) as [(b2 & Hb2 & Hv2)|(Hge & Hs)].
  - apply (H1 a b2 p Hb2 Hv2).
  - right. split; [lia|exact Hs].
Qed.

Lemma vk_setb h o b' :
  (forall p, value b' = Some p -> exists b, nth_error h o = Some b /\ value b = Some p) ->
  values_kept h (setb h o b').
Proof.
  intros Hb'. split; [unfold setb; rewrite upd_length; lia|].
  intros a ba p Ha Hv. left. unfold setb in Ha. rewrite nth_error_upd in Ha.
  destruct (Nat.eqb_spec o a) as [<-|Hne].
  - destruct (Nat.ltb o (length h)); [|discriminate]. injection Ha as <-. apply Hb'. exact Hv.
  - exists ba. auto.
Qed.

(** a box is replaced by one with the same value, or with the value moved out *)
Lemma vk_setb_getb h o b b' : getb h o = Ok b -> (value b' = value b \/ value b' = None) ->
  values_kept h (setb h o b').
Proof.
  intros G Hv. apply vk_setb. intros p Hp. exists b. split; [apply getb_nth; exact G|].
  destruct Hv as [E|E]; congruence.
Qed.

Lemma vk_hsl h h' : heap_same_but_links h h' -> values_kept h h'.
Proof.
  intros [Hlen Hs]. split; [lia|]. intros a b' p Hb' Hv. left.
  destruct (nth_error h a) as [b|] eqn:Hb.
  - destruct (Hs a b Hb) as (b2 & Hb2 & _ & _ & Ev & _). exists b. split; [reflexivity|].
    assert (b2 = b') as -> by congruence. congruence.
  - apply nth_error_None in Hb. assert (a < length h')%nat by (apply nth_error_Some; congruence). lia.
Qed.

Lemma vk_snoc h b : (forall p, value b = Some p -> slots p = empty_slots /\ script p = []) ->
  values_kept h (h ++ [b]).
Proof.
  intros Hb. split; [rewrite app_length; lia|]. intros a ba p Ha Hv.
  apply nth_error_snoc_cases in Ha as [Ha|[-> ->]].
  - left. exists ba. auto.
  - right. split; [lia|]. apply Hb. exact Hv.
Qed.

Lemma ns_heap_vk h h' : values_kept h h' -> ns_heap h -> ns_heap h'.
Proof.
  intros [_ H] Hn a b' p Hb' Hv. destruct (H a b' p Hb' Hv) as [(b & Hb & Hvb)|(_ & _ & E)].
  - apply (Hn a b p Hb Hvb).
  - exact E.
Qed.

Lemma inc_strong_vk h o h' : inc_strong h o = Ok h' -> values_kept h h'.
Proof.
  unfold inc_strong, bind. destruct (getb h o) as [b|] eqn:G; [|discriminate].
  destruct (strong b) as [n|]; [|discriminate]. destruct (n =? 0); [discriminate|].
  intros H; injection H as <-. eapply vk_setb_getb; [exact G|left; reflexivity].
Qed.

Lemma inc_weak_vk h o h' : inc_weak h o = Ok h' -> values_kept h h'.
Proof.
  unfold inc_weak, bind. destruct (getb h o) as [b|] eqn:G; [|discriminate].
  destruct (weak b =? 0); [discriminate|].
  intros H; injection H as <-. eapply vk_setb_getb; [exact G|left; reflexivity].
Qed.

Lemma dec_weak_free_vk h o h' : dec_weak_free h o = Ok h' -> values_kept h h'.
Proof.
  unfold dec_weak_free, bind. destruct (getb h o) as [b|] eqn:G; [|discriminate].
  destruct (weak b =? 0); [discriminate|].
  intros H; injection H as <-. eapply vk_setb_getb; [exact G|left].
  destruct (weak b - 1 =? 0); reflexivity.
Qed.

Lemma weak_drop_vk h w h' : weak_drop h w = Ok h' -> values_kept h h'.
Proof.
  destruct w as [o|]; cbn [weak_drop]; [apply dec_weak_free_vk|].
  intros H; injection H as <-. apply vk_refl.
Qed.

Lemma finish_group_vk keys : forall h h', finish_group h keys = Ok h' -> values_kept h h'.
Proof.
  induction keys as [|x keys IH]; intros h h'; cbn [finish_group].
  - intros H; injection H as <-. apply vk_refl.
  - unfold bind. destruct (getb h x) as [b|]; [|discriminate].
    destruct (is_dead (strong b)); [|apply IH].
    destruct (dec_weak_free h x) as [h1|] eqn:E; [|discriminate]. intros H.
    eapply vk_trans; [eapply dec_weak_free_vk; exact E|apply IH; exact H].
Qed.

Lemma purge_loop_vk o entries h h2 :
  heap_wf h -> purge_loop h o entries = Ok h2 -> values_kept h h2 /\ heap_wf h2.
Proof.
  intros Hwf E. destruct (purge_loop_frame o entries h h2 Hwf E) as (W & S & _).
  split; [apply vk_hsl; exact S|exact W].
Qed.

Lemma release_links_vk h o h3 : heap_wf h -> release_links h o = Ok h3 -> values_kept h h3.
Proof.
  intros Hwf. unfold release_links, purge_peers, bind.
  destruct (get_links h o) as [t|]; [|discriminate].
  destruct (purge_loop h o t) as [h1|] eqn:E; [|discriminate].
  destruct (getb h1 o) as [b1|] eqn:G1; [|discriminate].
  destruct (links b1) as [t1|]; [|discriminate]. intros H; injection H as <-.
  eapply vk_trans; [eapply purge_loop_vk; eassumption|].
  eapply vk_setb_getb; [exact G1|left; reflexivity].
Qed.

(** phase one of drop_cycle changes tables and counters only *)
Lemma bust_all_vk keys : forall cyc h h2, bust_all h keys cyc = Ok h2 -> values_kept h h2.
Proof.
  induction cyc as [|[k c] cyc IH]; intros h h2; cbn [bust_all].
  - intros H; injection H as <-. apply vk_refl.
  - unfold bind. destruct (bust_one h keys k c) as [h1|] eqn:E1; [|discriminate]. intros H.
    eapply vk_trans; [|apply (IH h1 h2 H)].
    unfold bust_one, bind in E1. destruct (getb h k) as [b|] eqn:G; [|discriminate].
    destruct (links b) as [t|]; [|discriminate]. cbn [strong with_links] in E1.
    destruct (strong b) as [n|]; [|discriminate]. injection E1 as <-.
    eapply vk_setb_getb; [exact G|left; reflexivity].
Qed.

(** phase two moves the members' values, as they are, into [inners] *)
Lemma gather_ns : forall keys h acc h3 inn,
  ns_heap h -> Forall ns_inner acc -> gather h keys acc = Ok (h3, inn) ->
  values_kept h h3 /\ Forall ns_inner inn.
Proof.
  induction keys as [|k keys IH]; intros h acc h3 inn Hn Ha; cbn [gather].
  - intros H; injection H as <- <-. split; [apply vk_refl|exact Ha].
  - unfold bind. destruct (getb h k) as [b|] eqn:G; [|discriminate].
    destruct (negb (is_dead (strong b))); [apply IH; assumption|].
    destruct (is_uninit (strong b)); [apply IH; assumption|].
    destruct (value b) as [v|] eqn:Ev; [|discriminate].
    destruct (links b) as [t|]; [|discriminate]. intros H.
    assert (V1 : values_kept h (setb h k (with_links (with_value (with_strong b Uninit) None) None))).
    { eapply vk_setb_getb; [exact G|right; reflexivity]. }
    assert (Ha' : Forall ns_inner (acc ++ [(k, v, t)])).
    { apply Forall_app. split; [exact Ha|]. constructor; [|constructor].
      unfold ns_inner. cbn [fst snd]. apply (Hn k b v); [apply getb_nth; exact G|exact Ev]. }
    destruct (IH _ _ _ _ (ns_heap_vk _ _ V1 Hn) Ha' H) as [V2 Hi].
    split; [eapply vk_trans; eassumption|exact Hi].
Qed.

(** ** what one library step does to values, registers and frames *)
Lemma start_unreachable_struct s o s1 push :
  ns_heap (heap_of s) -> start_unreachable s o = Ok (s1, push) ->
  values_kept (heap_of s) (heap_of s1) /\ regs s1 = regs s /\ Forall ns_frame push.
Proof.
  intros Hn. unfold start_unreachable, bind. destruct (getb (heap_of s) o) as [b|] eqn:G; [|discriminate].
  destruct (value b) as [v|] eqn:Ev; [|discriminate]. intros H; injection H as <- <-.
  cbn [heap_of regs set_heap mk]. split; [|split; [reflexivity|]].
  - eapply vk_setb_getb; [exact G|right; reflexivity].
  - constructor; [|constructor; [exact I|constructor]].
    cbn [ns_frame]. apply (Hn o b v); [apply getb_nth; exact G|exact Ev].
Qed.

(** [Rc::drop]: values stay in their boxes or move, unchanged, into the
    frames that will run their destructors; no register changes *)
Lemma drop_strong_struct pri s o s1 push :
  heap_wf (heap_of s) -> ns_heap (heap_of s) -> drop_strong pri s o = Ok (s1, push) ->
  values_kept (heap_of s) (heap_of s1) /\ regs s1 = regs s /\ Forall ns_frame push.
Proof.
  intros Hwf Hn H. unfold drop_strong, bind in H.
  destruct (getb (heap_of s) o) as [b|] eqn:G; [|discriminate].
  destruct (strong b) as [n|] eqn:Es.
  2:{ injection H as <- <-. split; [apply vk_refl|split; [reflexivity|constructor]]. }
  destruct (n =? 0).
  { injection H as <- <-. split; [apply vk_refl|split; [reflexivity|constructor]]. }
  assert (V1 : values_kept (heap_of s) (setb (heap_of s) o (with_strong b (Cnt (n - 1))))).
  { eapply vk_setb_getb; [exact G|left; reflexivity]. }
  assert (W1 : heap_wf (setb (heap_of s) o (with_strong b (Cnt (n - 1))))).
  { apply heap_wf_setb; [exact Hwf|]. intros b0 Hb0. apply getb_nth in G.
    assert (b0 = b) as -> by congruence. reflexivity. }
  pose proof (ns_heap_vk _ _ V1 Hn) as N1.
  destruct (get_links (setb (heap_of s) o (with_strong b (Cnt (n - 1)))) o) as [t|] eqn:GL; [|discriminate].
  destruct t as [|e t'].
  { destruct (n - 1 =? 0).
    - apply start_unreachable_struct in H as (V2 & R2 & F2); [|exact N1].
      cbn [heap_of regs set_heap mk] in V2, R2. split; [eapply vk_trans; eassumption|auto].
    - injection H as <- <-. cbn [heap_of regs set_heap mk]. split; [exact V1|split; [reflexivity|constructor]]. }
  destruct (n - 1 =? 0).
  { destruct (purge_loop (setb (heap_of s) o (with_strong b (Cnt (n - 1)))) o (e :: t')) as [h2|] eqn:EP; [|discriminate].
    destruct (set_links h2 o []) as [h3|] eqn:ES; [|discriminate].
    destruct (purge_loop_vk _ _ _ _ W1 EP) as [V2 W2].
    assert (V3 : values_kept h2 h3).
    { unfold set_links, bind in ES. destruct (getb h2 o) as [b2|] eqn:G2; [|discriminate].
      injection ES as <-. eapply vk_setb_getb; [exact G2|left; reflexivity]. }
    assert (V13 : values_kept (heap_of s) h3).
    { eapply vk_trans; [exact V1|]. eapply vk_trans; eassumption. }
    apply start_unreachable_struct in H as (V4 & R4 & F4).
    - cbn [heap_of regs set_heap mk] in V4, R4. split; [eapply vk_trans; eassumption|auto].
    - cbn [heap_of set_heap mk]. apply (ns_heap_vk _ _ V13 Hn). }
  destruct (orphaned_cycle (setb (heap_of s) o (with_strong b (Cnt (n - 1)))) o) as [[[oc pops] visits]|]; [|discriminate].
  destruct oc as [cyc|].
  2:{ injection H as <- <-. cbn [heap_of regs set_heap add_ev mk]. split; [exact V1|split; [reflexivity|constructor]]. }
  destruct (bust_all (setb (heap_of s) o (with_strong b (Cnt (n - 1)))) (map fst (order_cycle pri cyc)) (order_cycle pri cyc))
    as [h2|] eqn:EB; [|discriminate].
  destruct (gather h2 (map fst (order_cycle pri cyc)) []) as [[h3 inners]|] eqn:EG; [|discriminate].
  injection H as <- <-. cbn [heap_of regs set_heap add_ev mk].
  pose proof (bust_all_vk _ _ _ _ EB) as V2.
  destruct (gather_ns _ _ _ _ _ (ns_heap_vk _ _ V2 N1) (Forall_nil _) EG) as [V3 Hi].
  split; [|split; [reflexivity|]].
  - eapply vk_trans; [exact V1|]. eapply vk_trans; eassumption.
  - constructor; [exact Hi|constructor; [exact I|constructor]].
Qed.

(** a library step: no value in a box changes, no register changes, and the
    values that the new frames carry have no scripts either *)
Lemma step_struct pri c c' :
  heap_wf (heap_of (st c)) -> no_scripts c -> step pri c = Running c' ->
  values_kept (heap_of (st c)) (heap_of (st c')) /\ no_scripts c'.
Proof.
  destruct c as [s k u]. unfold no_scripts. cbn [st stack unw]. intros Hwf (Hn & Hr & Hk) H.
  assert (Hgoal : values_kept (heap_of s) (heap_of (st c')) /\ regs (st c') = regs s /\ Forall ns_frame (stack c')).
  2:{ destruct Hgoal as (V & R & F). split; [exact V|]. split; [eapply ns_heap_vk; eassumption|].
      split; [rewrite R; exact Hr|exact F]. }
  destruct k as [|fr k]; [discriminate|]. inversion Hk as [|x xs Hfr Hk']; subst x xs.
  destruct fr as [o|p|p pc|ss|o|es|o|keys|r]; cbn [step st stack unw] in H.
  - destruct (drop_strong pri s o) as [[s1 push]|] eqn:E; [|discriminate].
    injection H as <-. cbn [st stack]. destruct (drop_strong_struct pri s o s1 push Hwf Hn E) as (V & R & F).
    split; [exact V|split; [exact R|]]. apply Forall_app. auto.
  - injection H as <-. cbn [st stack heap_of regs add_ev mk]. split; [apply vk_refl|split; [reflexivity|]].
    constructor; [|exact Hk']. cbn [ns_frame] in *. split; [exact Hfr|exact Hfr].
  - cbn [ns_frame] in Hfr. destruct Hfr as [Hp ->]. injection H as <-. cbn [st stack].
    split; [apply vk_refl|split; [reflexivity|]]. constructor; [exact I|exact Hk'].
  - destruct ss as [|[o|w|] ss].
    + injection H as <-. cbn [st stack]. split; [apply vk_refl|split; [reflexivity|exact Hk']].
    + injection H as <-. cbn [st stack]. split; [apply vk_refl|split; [reflexivity|]].
      constructor; [exact I|constructor; [exact I|exact Hk']].
    + destruct (weak_drop (heap_of s) w) as [h1|] eqn:E; [|discriminate]. injection H as <-.
      cbn [st stack heap_of regs set_heap mk]. split; [eapply weak_drop_vk; exact E|split; [reflexivity|]].
      constructor; [exact I|exact Hk'].
    + injection H as <-. cbn [st stack]. split; [apply vk_refl|split; [reflexivity|]].
      constructor; [exact I|exact Hk'].
  - destruct (getb (heap_of s) o) as [b|] eqn:G; [|discriminate].
    destruct (links b) as [t|]; [|discriminate].
    destruct (dec_weak_free (setb (heap_of s) o (with_links b None)) o) as [h2|] eqn:E; [|discriminate].
    injection H as <-. cbn [st stack heap_of regs set_heap add_ev mk]. split; [|split; [reflexivity|exact Hk']].
    eapply vk_trans; [|eapply dec_weak_free_vk; exact E].
    eapply vk_setb_getb; [exact G|left; reflexivity].
  - destruct es as [|[[o v] t] es]; injection H as <-; cbn [st stack].
    + split; [apply vk_refl|split; [reflexivity|exact Hk']].
    + split; [apply vk_refl|split; [reflexivity|]]. cbn [ns_frame] in Hfr.
      inversion Hfr as [|x xs Hv Hes]; subst x xs.
      constructor; [exact Hv|]. constructor; [exact I|]. constructor; [exact Hes|exact Hk'].
  - injection H as <-. cbn [st stack heap_of regs add_ev mk]. split; [apply vk_refl|split; [reflexivity|exact Hk']].
  - destruct (finish_group (heap_of s) keys) as [h1|] eqn:E; [|discriminate]. injection H as <-.
    cbn [st stack heap_of regs set_heap mk]. split; [eapply finish_group_vk; exact E|split; [reflexivity|exact Hk']].
  - injection H as <-. cbn [st stack heap_of regs add_ev mk]. split; [apply vk_refl|split; [reflexivity|exact Hk']].
Qed.

(** ** the transfer lemma

    Between two states that satisfy the invariant: when the tables changed only
    as the ledger frame allows (records between survivors kept, nothing grew,
    fresh boxes have empty tables) and no value inside a box changed, then
    [recorded] carries over.  A record that disappeared named a destroyed
    object, and no surviving value holds a handle to a destroyed object
    ([nodangling] of the new state). *)
Lemma value_live s k a b p : Inv s k -> nth_error (heap_of s) a = Some b -> value b = Some p -> live b = true.
Proof.
  intros HI Hb Hv. destruct (live b) eqn:El; [reflexivity|].
  destruct (inv_shape s k HI a b Hb) as (_ & S2 & _). destruct (S2 El) as [E _]. congruence.
Qed.

Lemma stored_token s a b p y : nth_error (heap_of s) a = Some b -> value b = Some p ->
  0 < total (sw_strong y) (slots p) -> 0 < w_held (sw_strong y) s.
Proof.
  intros Hb Hv Hp. unfold w_held.
  pose proof (nth_error_total_le (w_box (sw_strong y)) _ _ _ Hb) as H1.
  rewrite (w_box_value _ _ _ Hv) in H1. unfold w_payload in H1. lia.
Qed.

Theorem recorded_transfer s k s' k' :
  Inv s k -> Inv s' k' -> recorded (heap_of s) ->
  ledger_frame (heap_of s) (heap_of s') -> values_kept (heap_of s) (heap_of s') ->
  recorded (heap_of s').
Proof.
  intros HI HI' Hrec (Hlen & _ & Hkept & Hgrow & Hfresh) [_ Hvk] a b' p Hb' Hv y.
  destruct (Hvk a b' p Hb' Hv) as [(b & Hb & Hvb)|(Hge & Hs & _)].
  2:{ rewrite (Hfresh a _ Hge), Hs. symmetry. apply total_repeat. reflexivity. }
  rewrite <- (Hrec a b p Hb Hvb y).
  assert (Hla : (a < length (heap_of s))%nat) by (apply nth_error_Some; congruence).
  destruct (N.eq_dec (lget (heap_of s) a (y, Fwd)) 0) as [E0|E0].
  - pose proof (Hgrow a (y, Fwd) Hla) as Hle. lia.
  - assert (Hpos : 0 < lget (heap_of s) a (y, Fwd)) by lia.
    destruct (ti_names _ (inv_tbl _ _ HI) a y Fwd Hpos) as (by_ & Hby & _).
    assert (Hly : (y < length (heap_of s))%nat) by (apply nth_error_Some; congruence).
    apply Hkept; [| |exact Hla|exact Hly].
    + exists b'. split; [exact Hb'|]. eapply value_live; eassumption.
    + apply (inv_nd _ _ HI' y). eapply stored_token; [exact Hb'|exact Hv|].
      rewrite <- (Hrec a b p Hb Hvb y). exact Hpos.
Qed.

(** ** CORE GOAL 2: one step *)

(** with no scripts, the hypotheses of a step follow from [recorded] *)
Lemma recorded_step_hyp c : recorded (heap_of (st c)) -> no_scripts c -> step_hyp c /\ ledger_cfg c.
Proof.
  intros Hrec (_ & _ & Hk). unfold step_hyp, ledger_cfg.
  destruct (stack c) as [|[o|p|p [|a pc]|ss|o|es|o|keys|r] k]; auto.
  - split; [|exact I]. apply disc_traced. apply recorded_disc. exact Hrec.
  - inversion Hk as [|x xs Hfr _]; subst. cbn [ns_frame] in Hfr. destruct Hfr as [_ Hfr]. discriminate.
Qed.

(** Rust reading: while a value without a destructor script is torn down —
    [Rc::drop], the orphan test, the group teardown, the field drop glue, the
    deferred deallocation — the surviving objects keep recording exactly the
    handles they store. *)
Theorem step_recorded pri c c' :
  Inv_cfg c -> recorded (heap_of (st c)) -> no_scripts c -> step pri c = Running c' ->
  recorded (heap_of (st c')) /\ no_scripts c'.
Proof.
  intros HI Hrec Hns H. destruct (recorded_step_hyp c Hrec Hns) as [Hhyp Hled].
  assert (HI' : Inv_cfg c') by (pose proof (step_inv pri c HI Hhyp) as Hg; rewrite H in Hg; exact Hg).
  destruct (step_struct pri c c' (ti_wf _ (inv_tbl _ _ HI)) Hns H) as [V Hns'].
  split; [|exact Hns'].
  eapply recorded_transfer; [exact HI|exact HI'|exact Hrec| |exact V].
  eapply step_ledger; eassumption.
Qed.

(** ** CORE GOAL 3: whole runs *)
Lemma recorded_step_ok c : Inv_cfg c -> recorded (heap_of (st c)) -> no_scripts c -> step_ok c = true.
Proof.
  intros HI Hrec (_ & _ & Hk). unfold step_ok.
  destruct (stack c) as [|[o|p|p [|a pc]|ss|o|es|o|keys|r] k]; auto.
  - apply recorded_discb; [exact (ti_wf _ (inv_tbl _ _ HI))|exact Hrec].
  - inversion Hk as [|x xs Hfr _]; subst. cbn [ns_frame] in Hfr. destruct Hfr as [_ Hfr]. discriminate.
Qed.

(** Rust reading: a teardown that starts in a state where every stored handle
    is recorded meets the discipline hypothesis at every nested [Rc::drop]. *)
Theorem run_recorded_ok pri fuel : forall c,
  Inv_cfg c -> recorded (heap_of (st c)) -> no_scripts c -> run_ok pri fuel c = true.
Proof.
  induction fuel as [|f IH]; intros c HI Hrec Hns; cbn [run_ok]; [reflexivity|].
  apply andb_true_iff. split; [apply recorded_step_ok; assumption|].
  destruct (step pri c) as [c'|s' b|s' h] eqn:E; try reflexivity.
  destruct (step_recorded pri c c' HI Hrec Hns E) as [Hrec' Hns'].
  apply IH; [|assumption|assumption].
  destruct (recorded_step_hyp c Hrec Hns) as [Hhyp _].
  pose proof (step_inv pri c HI Hhyp) as Hg. rewrite E in Hg. exact Hg.
Qed.

(** the state a run stops in *)
Definition run_rec_goal (out : outcome) : Prop :=
  match out with
  | Running c' => Inv_cfg c' /\ recorded (heap_of (st c')) /\ no_scripts c'
  | Finished s' _ => Inv s' [] /\ recorded (heap_of s') /\ no_scripts {| st := s'; stack := []; unw := false |}
  | Halted _ h => h = HAbort
  end.

Theorem run_recorded pri fuel : forall c,
  Inv_cfg c -> recorded (heap_of (st c)) -> no_scripts c -> run_rec_goal (run pri fuel c).
Proof.
  induction fuel as [|f IH]; intros c HI Hrec Hns; cbn [run]; [cbn [run_rec_goal]; auto|].
  destruct (recorded_step_hyp c Hrec Hns) as [Hhyp _].
  pose proof (step_inv pri c HI Hhyp) as Hg.
  destruct (step pri c) as [c'|s' b|s' h] eqn:E; cbn [step_goal] in Hg.
  - destruct (step_recorded pri c c' HI Hrec Hns E) as [Hrec' Hns']. apply IH; assumption.
  - destruct Hg as [Hk ->]. cbn [run_rec_goal]. unfold Inv_cfg in HI. rewrite Hk in HI.
    split; [exact HI|]. split; [exact Hrec|]. destruct Hns as (N1 & N2 & _). split; [exact N1|]. split; [exact N2|constructor].
  - exact Hg.
Qed.

(** ** CORE GOAL 4: calls *)

(** the top-level calls that do not themselves change which strong handles
    are stored or recorded.  Excluded: adopt / unadopt (change the records),
    store / take (change the stored handles), [Rc::new] of a value with a
    destructor script, panic, and [Rc::make_mut] — its cloning and stealing
    branches put a copy of the value, with all the strong handles it holds,
    into a NEW allocation whose table is empty, so [recorded] fails for the
    new object.  [Rc::try_unwrap] is included: the value leaves its box. *)
Definition quiet_act (a : act) : bool :=
  match a with
  | AAdopt _ _ | AUnadopt _ _ | AStore _ _ _ | ATake _ _ _ | AMakeMut _ | APanic => false
  | _ => true
  end.

Definition quiet_op (o : op) : bool :=
  match o with
  | OAct a => quiet_act a
  | ONewS _ sc => match sc with [] => true | _ :: _ => false end
  end.

Lemma Forall_upd {A} (P : A -> Prop) l i x : Forall P l -> P x -> Forall P (upd l i x).
Proof.
  intros Hl Hx. revert i. induction Hl as [|a l Ha Hl IH]; intros [|i]; cbn [upd]; constructor; auto.
Qed.

Lemma reg_get_ns s r : Forall ns_reg (regs s) -> ns_reg (reg_get s r).
Proof.
  intros H. unfold reg_get. destruct (nth_in_or_default r (regs s) REmpty) as [Hin| ->]; [|exact I].
  rewrite Forall_forall in H. apply H. exact Hin.
Qed.

Definition act_struct_goal (s s1 : state) (push : list frame) : Prop :=
  values_kept (heap_of s) (heap_of s1) /\ Forall ns_reg (regs s1) /\ Forall ns_frame push.

Lemma exec_new_struct s self dst s1 self1 r push :
  Forall ns_reg (regs s) -> exec_new s self dst [] = AO s1 self1 r push -> act_struct_goal s s1 push.
Proof.
  intros Hr. unfold exec_new, invalid. destruct (reg_free s dst); intros H; injection H as <- _ _ <-.
  - cbn [heap_of regs set_reg set_heap mk]. split; [|split; [|constructor]].
    + apply vk_snoc. cbn [new_box value]. intros p Hp. injection Hp as <-. auto.
    + apply Forall_upd; [exact Hr|exact I].
  - split; [apply vk_refl|split; [exact Hr|constructor]].
Qed.

Ltac struct_done :=
  split; [cbn [heap_of set_reg set_heap add_ev mk];
          first [ apply vk_refl
                | eapply inc_strong_vk; eassumption
                | eapply inc_weak_vk; eassumption
                | eapply weak_drop_vk; eassumption ]
         |split; [cbn [regs set_reg set_heap add_ev mk]; repeat apply Forall_upd; try assumption; exact I
                 |repeat constructor]].

Lemma try_unwrap_struct r dst s self s1 self1 res push :
  heap_wf (heap_of s) -> ns_heap (heap_of s) -> Forall ns_reg (regs s) ->
  exec_act s self (ATryUnwrap r dst) = AO s1 self1 res push -> act_struct_goal s s1 push.
Proof.
  intros Hwf Hn Hr H. cbn [exec_act] in H. unfold invalid in H. unfold act_struct_goal.
  destruct (reg_get s r) as [o|w|o|p|]; try (injection H as <- _ _ <-; struct_done).
  destruct (reg_free s dst); [|injection H as <- _ _ <-; struct_done].
  destruct (getb (heap_of s) o) as [b|] eqn:G; [|discriminate].
  destruct (strong b) as [[|[q|q|]]|]; try (injection H as <- _ _ <-; struct_done).
  unfold lift in H. destruct (release_links (heap_of s) o) as [h3|] eqn:ER; [|discriminate].
  cbn [heap_of set_heap mk] in H.
  destruct (getb h3 o) as [b1|] eqn:G1; [|discriminate].
  destruct (value b1) as [p|] eqn:Ev1; [|discriminate].
  destruct (weak_drop (setb h3 o (with_strong (with_value b1 None) (Cnt 0))) (Some o)) as [h4|] eqn:EW; [|discriminate].
  injection H as <- _ _ <-. cbn [heap_of regs set_reg set_heap add_ev mk].
  pose proof (release_links_vk _ _ _ Hwf ER) as V1.
  split; [|split; [|constructor]].
  - eapply vk_trans; [exact V1|]. eapply vk_trans; [|eapply weak_drop_vk; exact EW].
    eapply vk_setb_getb; [exact G1|right; reflexivity].
  - apply Forall_upd; [apply Forall_upd; [exact Hr|exact I]|].
    cbn [ns_reg]. apply (ns_heap_vk _ _ V1 Hn o b1 p); [apply getb_nth; exact G1|exact Ev1].
Qed.

Lemma drop_struct r s self s1 self1 res push :
  Forall ns_reg (regs s) ->
  exec_act s self (ADrop r) = AO s1 self1 res push -> act_struct_goal s s1 push.
Proof.
  intros Hr H. cbn [exec_act] in H. unfold invalid, lift in H. unfold act_struct_goal.
  pose proof (reg_get_ns s r Hr) as Hp.
  destruct (reg_get s r) as [o|w|o|p|]; try (injection H as <- _ _ <-; struct_done).
  - destruct (weak_drop (heap_of s) w) as [h1|] eqn:E; [|discriminate]. injection H as <- _ _ <-. struct_done.
  - cbn [ns_reg] in Hp. exact Hp.
Qed.

(** the first, atomic part of a quiet call *)
Lemma act_struct a s self s1 self1 r push :
  quiet_act a = true -> heap_wf (heap_of s) -> ns_heap (heap_of s) -> Forall ns_reg (regs s) ->
  exec_act s self a = AO s1 self1 r push -> act_struct_goal s s1 push.
Proof.
  intros Hq Hwf Hn Hr H.
  destruct a; cbn [quiet_act] in Hq; try discriminate Hq;
    try (eapply try_unwrap_struct; eassumption);
    try (eapply drop_struct; eassumption);
    try (cbn [exec_act] in H; eapply exec_new_struct; eassumption);
    cbn [exec_act] in H; unfold lift, invalid in H; brk H; try discriminate H;
    injection H as <- _ _ <-; unfold act_struct_goal; struct_done.
Qed.

Lemma quiet_act_ledger a : quiet_act a = true -> ledger_act a.
Proof. destruct a; cbn; intros H; try exact I; discriminate. Qed.

(** the first action of a quiet call keeps [recorded] and introduces no script *)
Lemma op_start_recorded s o s1 self1 r push :
  Inv s [] -> recorded (heap_of s) -> no_scripts {| st := s; stack := []; unw := false |} ->
  quiet_op o = true -> op_start s o = AO s1 self1 r push ->
  Inv s1 push /\ recorded (heap_of s1) /\ no_scripts {| st := s1; stack := push; unw := false |}.
Proof.
  intros HI Hrec (Hn & Hr & _) Hq E. cbn [st stack] in Hn, Hr.
  pose proof (op_start_inv s o HI) as HI1. rewrite E in HI1.
  pose proof (ti_wf _ (inv_tbl _ _ HI)) as Hwf.
  assert (HS : act_struct_goal s s1 push /\ ledger_frame (heap_of s) (heap_of s1)).
  { destruct o as [a|dst sc]; cbn [op_start quiet_op] in E, Hq.
    - split; [eapply act_struct; eassumption|].
      eapply act_ledger; [apply quiet_act_ledger; exact Hq|exact Hwf|exact E].
    - destruct sc; [|discriminate]. split; [eapply exec_new_struct; eassumption|].
      apply quiet_ledger. eapply exec_new_quiet; exact E. }
  destruct HS as [(V & R & F) L]. split; [exact HI1|]. split.
  - eapply recorded_transfer; [exact HI|exact HI1|exact Hrec|exact L|exact V].
  - split; [eapply ns_heap_vk; eassumption|]. split; [exact R|exact F].
Qed.

(** Rust reading: a call of any method other than adopt / unadopt / a field
    write / make_mut, made in a state where every stored handle is recorded,
    satisfies the hypotheses of the safety theorem all the way through the
    teardowns it triggers, and returns to a state where every stored handle
    is recorded again. *)
Theorem exec_op_recorded pri fuel s o :
  Inv s [] -> recorded (heap_of s) -> no_scripts {| st := s; stack := []; unw := false |} ->
  quiet_op o = true ->
  op_ok pri fuel s o = true /\
  (match snd (exec_op pri fuel s o) with
   | ODone _ | OPanicked =>
       recorded (heap_of (fst (exec_op pri fuel s o))) /\
       no_scripts {| st := fst (exec_op pri fuel s o); stack := []; unw := false |}
   | _ => True
   end).
Proof.
  intros HI Hrec Hns Hq. unfold op_ok, exec_op.
  change (match o with OAct a => exec_act s None a | ONewS dst sc => exec_new s None dst sc end) with (op_start s o).
  destruct (op_start s o) as [s1 self1 r push|h|] eqn:E; cbn [fst snd].
  2:{ split; [reflexivity|exact I]. }
  2:{ split; [reflexivity|]. split; assumption. }
  destruct (op_start_recorded s o s1 self1 r push HI Hrec Hns Hq E) as (HI1 & Hrec1 & Hns1).
  split; [apply run_recorded_ok; assumption|].
  pose proof (run_recorded pri fuel {| st := s1; stack := push; unw := false |} HI1 Hrec1 Hns1) as Hr.
  destruct (run pri fuel {| st := s1; stack := push; unw := false |}) as [c'|s' [|]|s' h];
    cbn [run_rec_goal fst snd] in *; try exact I; destruct Hr as (_ & H1 & H2); auto.
Qed.

(** the full boundary statement, [Inv] included *)
Corollary exec_op_recorded_inv pri fuel s o :
  Inv s [] -> recorded (heap_of s) -> no_scripts {| st := s; stack := []; unw := false |} ->
  quiet_op o = true ->
  match snd (exec_op pri fuel s o) with
  | ODone _ | OPanicked =>
      Inv (fst (exec_op pri fuel s o)) [] /\
      recorded (heap_of (fst (exec_op pri fuel s o))) /\
      no_scripts {| st := fst (exec_op pri fuel s o); stack := []; unw := false |}
  | OHalt h => h = HAbort
  | OFuel => True
  end.
Proof.
  intros HI Hrec Hns Hq. destruct (exec_op_recorded pri fuel s o HI Hrec Hns Hq) as [Hok Hr].
  pose proof (exec_op_inv pri fuel s o HI Hok) as Hg. unfold op_goal in Hg.
  destruct (snd (exec_op pri fuel s o)); auto.
Qed.

(** ** STRETCH 5: the link / unlink idiom

    Storing a handle and recording it are two calls; between them [recorded]
    is off by exactly one for one pair of objects. *)
Definition bnd (s : state) : config := {| st := s; stack := []; unw := false |}.

Definition bump (a0 y0 a y : oid) : N := if Nat.eqb a a0 then sw_strong y (SStrong y0) else 0.

(** [a0] records one adoption of [y0] more than its value holds handles *)
Definition over_recorded (h : heap) (a0 y0 : oid) : Prop :=
  forall a b p, nth_error h a = Some b -> value b = Some p ->
    forall y, lget h a (y, Fwd) = total (sw_strong y) (slots p) + bump a0 y0 a y.

(** [a0] records one adoption of [y0] less than its value holds handles *)
Definition under_recorded (h : heap) (a0 y0 : oid) : Prop :=
  forall a b p, nth_error h a = Some b -> value b = Some p ->
    forall y, lget h a (y, Fwd) + bump a0 y0 a y = total (sw_strong y) (slots p).

Lemma hsl_back h h' a b' : heap_same_but_links h h' -> nth_error h' a = Some b' ->
  exists b, nth_error h a = Some b /\ value b' = value b.
Proof.
  intros [Hlen Hs] Hb'. destruct (nth_error h a) as [b|] eqn:Hb.
  - destruct (Hs a b Hb) as (b2 & Hb2 & _ & _ & Ev & _). exists b. split; [reflexivity|].
    assert (b2 = b') as -> by congruence. exact Ev.
  - apply nth_error_None in Hb. assert (a < length h')%nat by (apply nth_error_Some; congruence). lia.
Qed.

Lemma fwd_eqb y b : link_eqb (y, Fwd) (b, Fwd) = Nat.eqb y b.
Proof. unfold link_eqb. cbn [fst snd kind_eqb]. apply andb_true_r. Qed.

Lemma fwd_bwd_eqb y b : link_eqb (y, Fwd) (b, Bwd) = false.
Proof. unfold link_eqb. cbn [fst snd kind_eqb]. apply andb_false_r. Qed.

(** [adopt_unchecked] before the handle is stored *)
Lemma adopt_over h a b h' : recorded h -> adopt h false a b = Ok h' -> over_recorded h' a b.
Proof.
  intros Hrec E. destruct (adopt_spec _ _ _ _ E) as [S P]. intros x bx' p Hbx' Hv y.
  destruct (hsl_back _ _ _ _ P Hbx') as (bx & Hbx & Ev). rewrite Hv in Ev. symmetry in Ev.
  rewrite S, (Hrec x bx p Hbx Ev y), fwd_eqb, fwd_bwd_eqb, andb_false_r.
  unfold bump. cbn [sw_strong]. rewrite (Nat.eqb_sym b y).
  destruct (Nat.eqb x a); destruct (Nat.eqb y b); cbn [andb]; cbv iota; lia.
Qed.

(** [unadopt] while the handle is still stored *)
Lemma unadopt_under h a b h' ba pa :
  heap_wf h -> recorded h -> nth_error h a = Some ba -> value ba = Some pa ->
  0 < total (sw_strong b) (slots pa) ->
  unadopt h false a b = Ok h' -> under_recorded h' a b.
Proof.
  intros Hwf Hrec Hba Hva Hpos E. destruct (unadopt_spec _ _ _ _ Hwf E) as (S & P & _).
  intros x bx' p Hbx' Hv y.
  destruct (hsl_back _ _ _ _ P Hbx') as (bx & Hbx & Ev). rewrite Hv in Ev. symmetry in Ev.
  rewrite S, fwd_bwd_eqb, andb_false_r, fwd_eqb. unfold bump. cbn [sw_strong]. rewrite (Nat.eqb_sym b y).
  destruct (Nat.eqb_spec x a) as [->|Hx]; cbn [andb]; cbv iota.
  - assert (bx = ba) as -> by congruence. assert (p = pa) as -> by congruence.
    destruct (Nat.eqb_spec y b) as [->|Hy].
    + rewrite (Hrec a ba pa Hba Hva b). lia.
    + rewrite (Hrec a ba pa Hba Hva y). lia.
  - rewrite (Hrec x bx p Hbx Ev y). lia.
Qed.

(** writing one slot of one value *)
Lemma write_recorded_gen h oa b p k old new :
  nth_error h oa = Some b -> value b = Some p -> nth_error (slots p) k = Some old ->
  (forall a ba pa, nth_error h a = Some ba -> value ba = Some pa -> a <> oa ->
     forall y, lget h a (y, Fwd) = total (sw_strong y) (slots pa)) ->
  (forall y, lget h oa (y, Fwd) + sw_strong y old = total (sw_strong y) (slots p) + sw_strong y new) ->
  recorded (setb h oa (with_value b (Some (set_payload_slot p k new)))).
Proof.
  intros Hb Hv Hk Hoth Hoa a b' p' Hb' Hv' y.
  rewrite (lget_setb_same_table h oa b (with_value b (Some (set_payload_slot p k new))) Hb eq_refl).
  unfold setb in Hb'. rewrite nth_error_upd in Hb'.
  destruct (Nat.eqb_spec oa a) as [<-|Hne].
  - destruct (Nat.ltb oa (length h)); [|discriminate]. injection Hb' as <-.
    cbn [value with_value] in Hv'. injection Hv' as <-. cbn [slots set_payload_slot].
    pose proof (total_upd (sw_strong y) (slots p) k old new Hk) as Hu. specialize (Hoa y). lia.
  - apply (Hoth a b' p' Hb' Hv'). congruence.
Qed.

(** the handle is stored after it was recorded *)
Lemma store_fix h oa ob b p k :
  over_recorded h oa ob -> nth_error h oa = Some b -> value b = Some p ->
  nth_error (slots p) k = Some SEmpty ->
  recorded (setb h oa (with_value b (Some (set_payload_slot p k (SStrong ob))))).
Proof.
  intros Hov Hb Hv Hk. eapply write_recorded_gen; try eassumption.
  - intros a ba pa Hba Hva Hne y. rewrite (Hov a ba pa Hba Hva y). unfold bump.
    apply Nat.eqb_neq in Hne. rewrite Hne. lia.
  - intros y. rewrite (Hov oa b p Hb Hv y). unfold bump. rewrite Nat.eqb_refl. cbn [sw_strong]. lia.
Qed.

(** the handle is taken out after it was unrecorded *)
Lemma take_fix h oa ob b p k :
  under_recorded h oa ob -> nth_error h oa = Some b -> value b = Some p ->
  nth_error (slots p) k = Some (SStrong ob) ->
  recorded (setb h oa (with_value b (Some (set_payload_slot p k SEmpty)))).
Proof.
  intros Hun Hb Hv Hk. eapply write_recorded_gen; try eassumption.
  - intros a ba pa Hba Hva Hne y. rewrite <- (Hun a ba pa Hba Hva y). unfold bump.
    apply Nat.eqb_neq in Hne. rewrite Hne. lia.
  - intros y. rewrite <- (Hun oa b p Hb Hv y). unfold bump. rewrite Nat.eqb_refl. cbn [sw_strong]. lia.
Qed.

(** *** registers *)
Lemma nth_nth_error {A} (l : list A) i d :
  nth i l d = match nth_error l i with Some x => x | None => d end.
Proof. revert i; induction l as [|a l IH]; intros [|i]; cbn; auto. Qed.

Lemma reg_get_set_reg s t x r : reg_get (set_reg s t x) r =
  if Nat.eqb t r then (if Nat.ltb t (length (regs s)) then x else REmpty) else reg_get s r.
Proof.
  unfold reg_get. cbn [regs set_reg mk]. rewrite !nth_nth_error, nth_error_upd.
  destruct (Nat.eqb t r); [|reflexivity]. destruct (Nat.ltb t (length (regs s))); reflexivity.
Qed.

Lemma reg_free_lt s t : reg_free s t = true ->
  Nat.ltb t (length (regs s)) = true /\ reg_get s t = REmpty.
Proof.
  unfold reg_free. rewrite andb_true_iff. intros [H1 H2]. split; [exact H1|].
  destruct (reg_get s t); try discriminate; reflexivity.
Qed.

(** *** the table operations fault, they never abort *)
Lemma getb_fault h o e : getb h o = Bad e -> e <> HAbort.
Proof.
  unfold getb. destruct (nth_error h o) as [b|]; [destruct (freed b)|]; intros H; try discriminate H;
    injection H as <-; discriminate.
Qed.

Lemma links_insert_fault h o l e : links_insert h o l = Bad e -> e <> HAbort.
Proof.
  unfold links_insert, bind. destruct (getb h o) as [b|e0] eqn:G.
  - destruct (links b); [discriminate|]. intros H; injection H as <-. discriminate.
  - intros H; injection H as <-. eapply getb_fault; exact G.
Qed.

Lemma links_remove_fault h o l n e : links_remove h o l n = Bad e -> e <> HAbort.
Proof.
  unfold links_remove, get_links, set_links, bind. destruct (getb h o) as [b|e0] eqn:G.
  - destruct (links b); [discriminate|]. intros H; injection H as <-. discriminate.
  - intros H; injection H as <-. eapply getb_fault; exact G.
Qed.

Lemma adopt_fault h same a b e : adopt h same a b = Bad e -> e <> HAbort.
Proof.
  unfold adopt, bind. destruct same; [apply links_insert_fault|].
  destruct (links_insert h a (b, Fwd)) as [h1|e0] eqn:E1; [apply links_insert_fault|].
  intros H; injection H as <-. eapply links_insert_fault; exact E1.
Qed.

Lemma unadopt_fault h same a b e : unadopt h same a b = Bad e -> e <> HAbort.
Proof.
  unfold unadopt, bind. destruct same; [apply links_remove_fault|].
  destruct (links_remove h a (b, Fwd) 1) as [h1|e0] eqn:E1; [apply links_remove_fault|].
  intros H; injection H as <-. eapply links_remove_fault; exact E1.
Qed.

Lemma atomic_inv s a s1 self1 r push :
  Inv s [] -> exec_act s None a = AO s1 self1 r push -> Inv s1 push.
Proof.
  intros HI E. pose proof (op_start_inv s (OAct a) HI) as H. cbn [op_start] in H. rewrite E in H. exact H.
Qed.

Lemma atomic_no_fault s a e : Inv s [] -> exec_act s None a = AHalt e -> e = HAbort.
Proof.
  intros HI E. pose proof (op_start_inv s (OAct a) HI) as H. cbn [op_start] in H. rewrite E in H. exact H.
Qed.

(** *** values, forwards *)
Definition values_fwd (h h' : heap) : Prop :=
  forall a b, nth_error h a = Some b -> exists b', nth_error h' a = Some b' /\ value b' = value b.

Lemma inc_strong_fwd h o h' : inc_strong h o = Ok h' -> values_fwd h h'.
Proof.
  unfold inc_strong, bind. destruct (getb h o) as [b|] eqn:G; [|discriminate].
  destruct (strong b) as [n|]; [|discriminate]. destruct (n =? 0); [discriminate|].
  intros H; injection H as <-. intros a ba Ha. unfold setb. rewrite nth_error_upd.
  destruct (Nat.eqb_spec o a) as [<-|Hne]; [|exists ba; auto].
  pose proof (getb_lt _ _ _ G) as Hlt. apply Nat.ltb_lt in Hlt. rewrite Hlt.
  apply getb_nth in G. assert (ba = b) as -> by congruence. eexists. split; reflexivity.
Qed.

Lemma hsl_fwd h h' : heap_same_but_links h h' -> values_fwd h h'.
Proof.
  intros [_ Hs] a b Hb. destruct (Hs a b Hb) as (b' & Hb' & _ & _ & Ev & _). exists b'. auto.
Qed.

Lemma ns_heap_set_slot h oa b p k sl :
  ns_heap h -> nth_error h oa = Some b -> value b = Some p ->
  ns_heap (setb h oa (with_value b (Some (set_payload_slot p k sl)))).
Proof.
  intros Hn Hb Hv a b' p' Hb' Hv'. unfold setb in Hb'. rewrite nth_error_upd in Hb'.
  destruct (Nat.eqb_spec oa a) as [<-|Hne]; [|apply (Hn a b' p' Hb' Hv')].
  destruct (Nat.ltb oa (length h)); [|discriminate]. injection Hb' as <-.
  cbn [value with_value] in Hv'. injection Hv' as <-. unfold no_scripts_payload. cbn [script set_payload_slot].
  apply (Hn oa b p Hb Hv).
Qed.

(** *** the five calls of the idiom, executed *)
Lemma clone_exec s rb t ob : Inv s [] -> reg_get s rb = RStrong ob -> reg_free s t = true ->
  exists h1, inc_strong (heap_of s) ob = Ok h1 /\
    exec_act s None (AClone (HReg rb) t) = AO (set_reg (set_heap s h1) t (RStrong ob)) None RUnit [].
Proof.
  intros HI Hr Hf. destruct (reg_strong_live s None [] [] HI ob rb (or_introl Hr)) as (b & G & Hl).
  destruct (live_true b Hl) as (n & Hs & Hn).
  assert (E : inc_strong (heap_of s) ob = Ok (setb (heap_of s) ob (with_strong b (Cnt (n + 1))))).
  { apply (inc_strong_live _ _ _ _ G Hs). lia. }
  eexists. split; [exact E|].
  cbn [exec_act resolve_strong]. rewrite Hr, Hf. unfold lift. rewrite E. reflexivity.
Qed.

Lemma adopt_exec s ra t oa ob :
  Inv s [] -> reg_get s ra = RStrong oa -> reg_get s t = RStrong ob -> ra <> t ->
  exists h2, adopt (heap_of s) false oa ob = Ok h2 /\
    exec_act s None (AAdopt (HReg ra) (HReg t)) = AO (set_heap s h2) None RUnit [].
Proof.
  intros HI Ha Ht Hne.
  assert (E : exec_act s None (AAdopt (HReg ra) (HReg t)) =
              lift s None (adopt (heap_of s) false oa ob) (fun s1 => AO s1 None RUnit [])).
  { cbn [exec_act resolve_strong]. rewrite Ha, Ht. cbn [hloc_eqb]. apply Nat.eqb_neq in Hne. rewrite Hne. reflexivity. }
  destruct (adopt (heap_of s) false oa ob) as [h2|e] eqn:EA.
  - exists h2. split; [reflexivity|]. rewrite E. reflexivity.
  - exfalso. unfold lift in E. apply (adopt_fault _ _ _ _ _ EA). eapply atomic_no_fault; eassumption.
Qed.

Lemma store_exec s ra t k oa ob b p :
  reg_get s t = RStrong ob -> reg_get s ra = RStrong oa ->
  nth_error (heap_of s) oa = Some b -> value b = Some p -> nth_error (slots p) k = Some SEmpty ->
  exec_act s None (AStore t (OReg ra) k) =
    AO (set_heap (set_reg s t REmpty)
          (setb (heap_of s) oa (with_value b (Some (set_payload_slot p k (SStrong ob))))))
       None RUnit [].
Proof.
  intros Ht Ha Hb Hv Hk. cbn [exec_act]. rewrite Ht. cbn [slot_of_reg].
  unfold resolve_slot, resolve_owner. rewrite Ha, Hb, Hv. cbn [owner_payload]. rewrite Hk.
  unfold write_slot. cbn [heap_of set_reg mk]. rewrite Hb. reflexivity.
Qed.

Lemma unadopt_exec s ra k oa ob b p :
  Inv s [] -> reg_get s ra = RStrong oa ->
  nth_error (heap_of s) oa = Some b -> value b = Some p -> nth_error (slots p) k = Some (SStrong ob) ->
  exists h1, unadopt (heap_of s) false oa ob = Ok h1 /\
    exec_act s None (AUnadopt (HReg ra) (HSlot (OReg ra) k)) = AO (set_heap s h1) None RUnit [].
Proof.
  intros HI Ha Hb Hv Hk.
  assert (E : exec_act s None (AUnadopt (HReg ra) (HSlot (OReg ra) k)) =
              lift s None (unadopt (heap_of s) false oa ob) (fun s1 => AO s1 None RUnit [])).
  { cbn [exec_act resolve_strong]. unfold resolve_slot, resolve_owner. rewrite Ha, Hb, Hv.
    cbn [owner_payload]. rewrite Hk. cbn [owner_loc hloc_eqb]. reflexivity. }
  destruct (unadopt (heap_of s) false oa ob) as [h1|e] eqn:EU.
  - exists h1. split; [reflexivity|]. rewrite E. reflexivity.
  - exfalso. unfold lift in E. apply (unadopt_fault _ _ _ _ _ EU). eapply atomic_no_fault; eassumption.
Qed.

Lemma take_exec s ra k t oa ob b p :
  reg_get s ra = RStrong oa -> nth_error (heap_of s) oa = Some b -> value b = Some p ->
  nth_error (slots p) k = Some (SStrong ob) -> reg_free s t = true ->
  exec_act s None (ATake (OReg ra) k t) =
    AO (set_reg (set_heap s (setb (heap_of s) oa (with_value b (Some (set_payload_slot p k SEmpty)))))
          t (RStrong ob))
       None RUnit [].
Proof.
  intros Ha Hb Hv Hk Hf. cbn [exec_act]. unfold resolve_slot, resolve_owner. rewrite Ha, Hb, Hv.
  cbn [owner_payload]. rewrite Hk. cbn [reg_of_slot]. rewrite Hf. unfold write_slot. rewrite Hb. reflexivity.
Qed.

(** *** the two blocks *)

(** a call boundary at which everything the theorems need holds *)
Definition good (s : state) : Prop :=
  Inv s [] /\ recorded (heap_of s) /\ no_scripts (bnd s).

(** [ra], [rb] hold strong handles, [t] is a free register and slot [k] of
    [ra]'s object is empty *)
Definition link_pre (s : state) (ra rb t k : nat) : Prop :=
  exists oa ob b p, reg_get s ra = RStrong oa /\ reg_get s rb = RStrong ob /\ reg_free s t = true /\
    nth_error (heap_of s) oa = Some b /\ value b = Some p /\ nth_error (slots p) k = Some SEmpty.

(** slot [k] of [ra]'s object holds a strong handle and [t] is a free register *)
Definition unlink_pre (s : state) (ra k t : nat) : Prop :=
  exists oa ob b p, reg_get s ra = RStrong oa /\ reg_free s t = true /\
    nth_error (heap_of s) oa = Some b /\ value b = Some p /\ nth_error (slots p) k = Some (SStrong ob).

(** Rust reading: [let h = rb.clone(); Rc::adopt_unchecked(&ra, &h);
    ra.field[k] = h;] — the three calls succeed and afterwards every stored
    handle is recorded again. *)
Theorem link_acts s ra rb t k : good s -> link_pre s ra rb t k ->
  exists s1 s2 s3,
    exec_act s None (AClone (HReg rb) t) = AO s1 None RUnit [] /\
    exec_act s1 None (AAdopt (HReg ra) (HReg t)) = AO s2 None RUnit [] /\
    exec_act s2 None (AStore t (OReg ra) k) = AO s3 None RUnit [] /\ good s3.
Proof.
  intros (HI & Hrec & Hns) (oa & ob & b & p & Ha & Hb & Hf & Hbx & Hv & Hk).
  destruct (clone_exec s rb t ob HI Hb Hf) as (h1 & E1 & X1).
  set (s1 := set_reg (set_heap s h1) t (RStrong ob)) in *.
  destruct (op_start_recorded s (OAct (AClone (HReg rb) t)) s1 None RUnit [] HI Hrec Hns eq_refl X1)
    as (HI1 & Hrec1 & (Hn1 & Hr1 & _)).
  cbn [st stack bnd] in Hn1, Hr1.
  destruct (reg_free_lt s t Hf) as [Hlt Ht0].
  assert (Hne : ra <> t) by (intros ->; rewrite Ha in Ht0; discriminate).
  assert (Ha1 : reg_get s1 ra = RStrong oa).
  { unfold s1. rewrite reg_get_set_reg. assert (Nat.eqb t ra = false) as -> by (apply Nat.eqb_neq; congruence).
    exact Ha. }
  assert (Ht1 : reg_get s1 t = RStrong ob).
  { unfold s1. rewrite reg_get_set_reg, Nat.eqb_refl. cbn [regs set_heap mk]. rewrite Hlt. reflexivity. }
  destruct (inc_strong_fwd _ _ _ E1 oa b Hbx) as (b1 & Hb1 & Ev1).
  destruct (adopt_exec s1 ra t oa ob HI1 Ha1 Ht1 Hne) as (h2 & E2 & X2).
  set (s2 := set_heap s1 h2) in *.
  pose proof (atomic_inv _ _ _ _ _ _ HI1 X2) as HI2.
  pose proof (adopt_over _ _ _ _ Hrec1 E2) as Hov. pose proof (adopt_hsl _ _ _ _ _ E2) as P2.
  destruct (hsl_fwd _ _ P2 oa b1 Hb1) as (b2 & Hb2 & Ev2).
  assert (Hv2 : value b2 = Some p) by congruence.
  pose proof (store_exec s2 ra t k oa ob b2 p Ht1 Ha1 Hb2 Hv2 Hk) as X3.
  exists s1, s2. eexists. split; [exact X1|]. split; [exact X2|]. split; [exact X3|].
  split; [eapply atomic_inv; [exact HI2|exact X3]|]. split.
  - cbn [heap_of set_heap set_reg mk]. apply store_fix; assumption.
  - unfold no_scripts, bnd. cbn [st stack heap_of regs set_heap set_reg mk]. split; [|split; [|constructor]].
    + apply ns_heap_set_slot; [|exact Hb2|exact Hv2]. apply (ns_heap_vk _ _ (vk_hsl _ _ P2)). exact Hn1.
    + apply Forall_upd; [exact Hr1|exact I].
Qed.

(** Rust reading: [Rc::unadopt(&ra, &ra.field[k]); let h = ra.field[k].take();]
    — afterwards every stored handle is recorded again and [h] (register [t])
    is an ordinary handle that can be dropped by a quiet call. *)
Theorem unlink_acts s ra k t : good s -> unlink_pre s ra k t ->
  exists s1 s2,
    exec_act s None (AUnadopt (HReg ra) (HSlot (OReg ra) k)) = AO s1 None RUnit [] /\
    exec_act s1 None (ATake (OReg ra) k t) = AO s2 None RUnit [] /\ good s2 /\
    exists ob, reg_get s2 t = RStrong ob.
Proof.
  intros (HI & Hrec & (Hn & Hr & _)) (oa & ob & b & p & Ha & Hf & Hbx & Hv & Hk).
  cbn [st stack bnd] in Hn, Hr.
  destruct (unadopt_exec s ra k oa ob b p HI Ha Hbx Hv Hk) as (h1 & E1 & X1).
  set (s1 := set_heap s h1) in *.
  pose proof (atomic_inv _ _ _ _ _ _ HI X1) as HI1.
  pose proof (ti_wf _ (inv_tbl _ _ HI)) as Hwf.
  assert (Hpos : 0 < total (sw_strong ob) (slots p)).
  { pose proof (nth_error_total_le (sw_strong ob) _ _ _ Hk) as H. rewrite sw_strong_self in H. lia. }
  pose proof (unadopt_under _ _ _ _ _ _ Hwf Hrec Hbx Hv Hpos E1) as Hun.
  pose proof (unadopt_hsl _ _ _ _ _ Hwf E1) as P1.
  destruct (hsl_fwd _ _ P1 oa b Hbx) as (b1 & Hb1 & Ev1).
  assert (Hv1 : value b1 = Some p) by congruence.
  pose proof (take_exec s1 ra k t oa ob b1 p Ha Hb1 Hv1 Hk Hf) as X2.
  exists s1. eexists. split; [exact X1|]. split; [exact X2|]. split.
  - split; [eapply atomic_inv; [exact HI1|exact X2]|]. split.
    + cbn [heap_of set_heap set_reg mk]. apply (take_fix h1 oa ob); assumption.
    + unfold no_scripts, bnd. cbn [st stack heap_of regs set_heap set_reg mk]. split; [|split; [|constructor]].
      * apply ns_heap_set_slot; [|exact Hb1|exact Hv1]. apply (ns_heap_vk _ _ (vk_hsl _ _ P1)). exact Hn.
      * apply Forall_upd; [exact Hr|exact I].
  - exists ob. rewrite reg_get_set_reg, Nat.eqb_refl. unfold s1. cbn [regs set_heap mk].
    destruct (reg_free_lt s t Hf) as [Hlt _]. rewrite Hlt. reflexivity.
Qed.

(** *** histories *)

(** a call that pushes no frame returns at once *)
Lemma exec_op_atomic pri f s a s1 self1 r :
  exec_act s None a = AO s1 self1 r [] ->
  exec_op pri (S f) s (OAct a) = (s1, ODone r) /\ op_ok pri (S f) s (OAct a) = true.
Proof.
  intros E. unfold exec_op, op_ok. cbn [op_start]. rewrite E.
  cbn [run run_ok step step_ok st stack unw andb]. split; reflexivity.
Qed.

Lemma hist_atomic f s a pri s1 self1 r rest :
  exec_act s None a = AO s1 self1 r [] ->
  hist_ok (S f) s ((OAct a, pri) :: rest) = hist_ok (S f) s1 rest /\
  run_history (S f) s ((OAct a, pri) :: rest) =
    (fst (run_history (S f) s1 rest), ODone r :: snd (run_history (S f) s1 rest)).
Proof.
  intros E. destruct (exec_op_atomic pri f s a s1 self1 r E) as [X O].
  cbn [hist_ok run_history]. rewrite O, X. cbn [andb]. split; [reflexivity|].
  destruct (run_history (S f) s1 rest); reflexivity.
Qed.

Definition link_block (ra rb t k : nat) (p1 p2 p3 : list oid) : list (op * list oid) :=
  [(OAct (AClone (HReg rb) t), p1); (OAct (AAdopt (HReg ra) (HReg t)), p2);
   (OAct (AStore t (OReg ra) k), p3)].

Definition unlink_block (ra k t : nat) (p1 p2 : list oid) : list (op * list oid) :=
  [(OAct (AUnadopt (HReg ra) (HSlot (OReg ra) k)), p1); (OAct (ATake (OReg ra) k t), p2)].

Theorem link_block_good f s ra rb t k p1 p2 p3 : good s -> link_pre s ra rb t k ->
  exists s3, good s3 /\ forall rest,
    hist_ok (S f) s (link_block ra rb t k p1 p2 p3 ++ rest) = hist_ok (S f) s3 rest /\
    run_history (S f) s (link_block ra rb t k p1 p2 p3 ++ rest) =
      (fst (run_history (S f) s3 rest),
       ODone RUnit :: ODone RUnit :: ODone RUnit :: snd (run_history (S f) s3 rest)).
Proof.
  intros Hg Hpre. destruct (link_acts s ra rb t k Hg Hpre) as (s1 & s2 & s3 & X1 & X2 & X3 & Hg3).
  exists s3. split; [exact Hg3|]. intros rest. unfold link_block. cbn [app].
  destruct (hist_atomic f s _ p1 s1 None RUnit
              ((OAct (AAdopt (HReg ra) (HReg t)), p2) :: (OAct (AStore t (OReg ra) k), p3) :: rest) X1) as [A1 B1].
  destruct (hist_atomic f s1 _ p2 s2 None RUnit ((OAct (AStore t (OReg ra) k), p3) :: rest) X2) as [A2 B2].
  destruct (hist_atomic f s2 _ p3 s3 None RUnit rest X3) as [A3 B3].
  rewrite A1, A2, A3, B1, B2, B3. cbn [fst snd]. split; reflexivity.
Qed.

Theorem unlink_block_good f s ra k t p1 p2 : good s -> unlink_pre s ra k t ->
  exists s2, good s2 /\ (exists ob, reg_get s2 t = RStrong ob) /\ forall rest,
    hist_ok (S f) s (unlink_block ra k t p1 p2 ++ rest) = hist_ok (S f) s2 rest /\
    run_history (S f) s (unlink_block ra k t p1 p2 ++ rest) =
      (fst (run_history (S f) s2 rest),
       ODone RUnit :: ODone RUnit :: snd (run_history (S f) s2 rest)).
Proof.
  intros Hg Hpre. destruct (unlink_acts s ra k t Hg Hpre) as (s1 & s2 & X1 & X2 & Hg2 & Hob).
  exists s2. split; [exact Hg2|]. split; [exact Hob|]. intros rest. unfold unlink_block. cbn [app].
  destruct (hist_atomic f s _ p1 s1 None RUnit ((OAct (ATake (OReg ra) k t), p2) :: rest) X1) as [A1 B1].
  destruct (hist_atomic f s1 _ p2 s2 None RUnit rest X2) as [A2 B2].
  rewrite A1, A2, B1, B2. cbn [fst snd]. split; reflexivity.
Qed.

(** histories built from quiet calls and the two blocks; the side conditions
    of a block are checked in the state in which the block starts, and only
    what follows a completed call matters *)
Inductive rec_hist (fuel : nat) : state -> list (op * list oid) -> Prop :=
| rh_nil s : rec_hist fuel s []
| rh_quiet s o pri h : quiet_op o = true ->
    (completed (snd (exec_op pri fuel s o)) = true -> rec_hist fuel (fst (exec_op pri fuel s o)) h) ->
    rec_hist fuel s ((o, pri) :: h)
| rh_link s ra rb t k p1 p2 p3 h : link_pre s ra rb t k ->
    rec_hist fuel (fst (run_history fuel s (link_block ra rb t k p1 p2 p3))) h ->
    rec_hist fuel s (link_block ra rb t k p1 p2 p3 ++ h)
| rh_unlink s ra k t p1 p2 h : unlink_pre s ra k t ->
    rec_hist fuel (fst (run_history fuel s (unlink_block ra k t p1 p2))) h ->
    rec_hist fuel s (unlink_block ra k t p1 p2 ++ h).

(** FINAL COROLLARY.  Rust reading: a program whose values have no destructor
    scripts and which changes the stored handles only through the link and
    unlink idioms satisfies the hypotheses of the safety theorem
    ([run_history_inv]) for its whole history; at every call boundary every
    stored handle is recorded. *)
Theorem rec_hist_ok f h : forall s, good s -> rec_hist (S f) s h ->
  hist_ok (S f) s h = true /\
  (forallb completed (snd (run_history (S f) s h)) = true -> good (fst (run_history (S f) s h))).
Proof.
  intros s Hg Hr. revert Hg.
  induction Hr as [s|s o pri h Hq _ IH|s ra rb t k p1 p2 p3 h Hpre _ IH|s ra k t p1 p2 h Hpre _ IH]; intros Hg.
  - cbn [hist_ok run_history fst snd]. split; [reflexivity|intros _; exact Hg].
  - destruct Hg as (HI & Hrec & Hns).
    destruct (exec_op_recorded pri (S f) s o HI Hrec Hns Hq) as [Hok _].
    pose proof (exec_op_recorded_inv pri (S f) s o HI Hrec Hns Hq) as Hall.
    cbn [hist_ok run_history]. rewrite Hok. cbn [andb].
    destruct (exec_op pri (S f) s o) as [s1 r] eqn:E. cbn [fst snd] in *.
    destruct r as [res| |e|]; cbn [completed] in IH.
    + destruct (IH eq_refl Hall) as [I1 I2]. split; [exact I1|].
      destruct (run_history (S f) s1 h) as [s2 rs]. cbn [fst snd forallb completed andb] in *. exact I2.
    + destruct (IH eq_refl Hall) as [I1 I2]. split; [exact I1|].
      destruct (run_history (S f) s1 h) as [s2 rs]. cbn [fst snd forallb completed andb] in *. exact I2.
    + split; [reflexivity|]. cbn [fst snd forallb completed andb]. discriminate.
    + split; [reflexivity|]. cbn [fst snd forallb completed andb]. discriminate.
  - destruct (link_block_good f s ra rb t k p1 p2 p3 Hg Hpre) as (s3 & Hg3 & Hrest).
    destruct (Hrest []) as [_ B0]. rewrite app_nil_r in B0. rewrite B0 in IH. cbn [run_history fst] in IH.
    destruct (Hrest h) as [A B]. rewrite A, B. destruct (IH Hg3) as [I1 I2]. split; [exact I1|].
    cbn [fst snd forallb completed andb]. exact I2.
  - destruct (unlink_block_good f s ra k t p1 p2 Hg Hpre) as (s2 & Hg2 & _ & Hrest).
    destruct (Hrest []) as [_ B0]. rewrite app_nil_r in B0. rewrite B0 in IH. cbn [run_history fst] in IH.
    destruct (Hrest h) as [A B]. rewrite A, B. destruct (IH Hg2) as [I1 I2]. split; [exact I1|].
    cbn [fst snd forallb completed andb]. exact I2.
Qed.

(** the initial state is a good call boundary *)
Lemma good_init : good init_state.
Proof.
  split; [exact Inv_init|]. split.
  - intros a b p Hb. destruct a; discriminate.
  - split; [intros a b p Hb; destruct a; discriminate|]. split; [|constructor].
    unfold init_state. cbn [st bnd regs mk]. apply Forall_forall. intros x Hx.
    apply repeat_spec in Hx. subst x. exact I.
Qed.

(** such a program never touches released or moved-out memory *)
Corollary rec_hist_safe f h : rec_hist (S f) init_state h ->
  Forall (fun r => match r with OHalt e => e = HAbort | _ => True end)
         (snd (run_history (S f) init_state h)).
Proof.
  intros Hr. destruct (rec_hist_ok f h init_state good_init Hr) as [Hok _].
  apply (run_history_from_init (S f) h Hok).
Qed.

(** after the unlink block the handle in [t] is dropped by a quiet call *)
Example drop_is_quiet t : quiet_op (OAct (ADrop t)) = true.
Proof. reflexivity. Qed.

(** the conditions are not vacuous: two objects linked into a cycle by the
    idiom, then both outside handles dropped (the second drop collects the
    cycle) *)
Ltac norm_state :=
  match goal with |- rec_hist _ ?s _ => let s' := eval vm_compute in s in change s with s' end.

Example cycle_by_idiom :
  rec_hist 30 init_state
    ((OAct (ANew 0), []) :: (OAct (ANew 1), []) ::
     link_block 0 1 2 0 [] [] [] ++
     link_block 1 0 2 0 [] [] [] ++
     (OAct (ADrop 1), []) :: (OAct (ADrop 0), []) :: []).
Proof.
  apply rh_quiet; [reflexivity|intros _]. norm_state.
  apply rh_quiet; [reflexivity|intros _]. norm_state.
  apply rh_link; [eexists _, _, _, _; repeat split; reflexivity|]. norm_state.
  apply rh_link; [eexists _, _, _, _; repeat split; reflexivity|]. norm_state.
  apply rh_quiet; [reflexivity|intros _]. norm_state.
  apply rh_quiet; [reflexivity|intros _]. norm_state.
  apply rh_nil.
Qed.

Print Assumptions recorded_disc.
Print Assumptions recorded_discb.
Print Assumptions step_recorded.
Print Assumptions run_recorded_ok.
Print Assumptions run_recorded.
Print Assumptions exec_op_recorded.
Print Assumptions exec_op_recorded_inv.
Print Assumptions link_acts.
Print Assumptions unlink_acts.
Print Assumptions link_block_good.
Print Assumptions unlink_block_good.
Print Assumptions rec_hist_ok.
Print Assumptions rec_hist_safe.
