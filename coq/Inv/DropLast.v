(** * [Rc::drop]: a handle to an object that is already destroyed, and the
    last strong handle of an object.

    The two remaining simple cases of [drop_strong] (the plain decrement is in
    DropDec.v, the collection of an orphaned group elsewhere):
    - the target is dead (C16, C02 "inert handles"): nothing happens;
    - the counter is 1: the object is destroyed (drop_unreachable and
      drop_unreachable_with_adoptions of drop.rs). *)
From CR Require Import Base Atomic Machine LinksFacts HeapFacts Local Tokens InvDef InvLemmas
  ActBase ActClone ActAdopt StepFrames Purge ActMove DropDec.
Local Open Scope N_scope.

(** ** the handle owned by a pending [Rc::drop] *)

(** the allocation behind the handle that [Rc::drop] is about to consume exists
    and has not been released; its object is live or completely destroyed *)
Lemma drop_top_token s o k : Inv s (FDropStrong o :: k) ->
  exists b, getb (heap_of s) o = Ok b /\ (live b = true \/ strong b = Uninit).
Proof.
  intros HI. apply (inv_top_token s (FDropStrong o) k o HI).
  cbn [w_frame]. rewrite sw_strong_self. lia.
Qed.

(** a dead target of a pending [Rc::drop] carries the uninit marker: a counter
    of 0 would have to count the handle being dropped *)
Lemma top_dead_uninit s o k b :
  Inv s (FDropStrong o :: k) -> nth_error (heap_of s) o = Some b ->
  is_dead (strong b) = true -> strong b = Uninit.
Proof.
  intros HI Hb Hd. destruct (strong b) as [n|] eqn:Hs; [|reflexivity]. exfalso.
  cbn [is_dead] in Hd. apply N.eqb_eq in Hd. subst n.
  pose proof (ci_strong s _ (inv_cnt s _ HI) o b 0 Hb Hs) as E.
  rewrite W_cons in E. cbn [w_frame] in E. rewrite sw_strong_self in E. lia.
Qed.

(** a strong handle to a destroyed object disappears from the top of the
    stack: no clause of the invariant counted it *)
Lemma Inv_pop_uninit s o k b :
  Inv s (FDropStrong o :: k) -> nth_error (heap_of s) o = Some b -> strong b = Uninit ->
  Inv s k.
Proof.
  intros [Hshape Htbl [C1 C2 C3 C4 C5 C6] Hnd Hin] Hb Hu.
  split; [exact Hshape|exact Htbl| |exact Hnd|exact (proj2 Hin)].
  split.
  - intros y by' n Hy Hn. pose proof (C1 y by' n Hy Hn) as E.
    rewrite W_cons in E. cbn [w_frame] in E.
    destruct (Nat.eq_dec o y) as [<-|Hne]; [congruence|].
    rewrite sw_strong_other in E by exact Hne. lia.
  - intros y by' Hy. pose proof (C2 y by' Hy) as E.
    rewrite W_cons, n_after_cons, n_fin_cons in E. cbn [w_frame f_after f_fin] in E.
    rewrite sw_weak_strong in E. lia.
  - intros y by' Hy. pose proof (C3 y by' Hy) as E. rewrite n_after_cons in E.
    cbn [f_after] in E. exact E.
  - intros y by' Hy Hp. apply (C4 y by' Hy). rewrite n_fin_cons. cbn [f_fin]. lia.
  - intros y Hy. destruct (C5 y Hy) as (E1 & E2 & E3 & E4 & E5).
    rewrite W_cons in E1, E2. rewrite n_after_cons in E3. rewrite n_fin_cons in E4.
    cbn [f_after f_fin] in E3, E4. repeat split; try lia; assumption.
  - exact C6.
Qed.

(** [Rc::drop] on a handle whose object is already destroyed (a member of a
    collected group still referenced by another member's fields, C16 / C02):
    the call returns at once, no counter and no table is touched, and the
    invariant holds for the rest of the stack. *)
Theorem drop_dead_inv pri s o k b :
  Inv s (FDropStrong o :: k) -> getb (heap_of s) o = Ok b -> is_dead (strong b) = true ->
  drop_strong pri s o = Ok (s, []) /\ Inv s k.
Proof.
  intros HI Hg Hd. split; [exact (drop_dead_noop pri s o b Hg Hd)|].
  apply getb_ok in Hg as [Hb _].
  apply (Inv_pop_uninit s o k b HI Hb). exact (top_dead_uninit s o k b HI Hb Hd).
Qed.

(** ** tables: a box nobody names *)

(** replacing a box by one with the same table changes no recorded count *)
Lemma lget_setb_same_table h o b b' :
  nth_error h o = Some b -> btable b' = btable b ->
  forall a l, lget (setb h o b') a l = lget h a l.
Proof.
  intros Hb Ht a l. unfold lget, setb. rewrite nth_error_upd.
  destruct (Nat.eqb_spec o a) as [<-|Hne]; [|reflexivity].
  assert (Hlt : (o < length h)%nat) by (apply nth_error_Some; congruence).
  apply Nat.ltb_lt in Hlt. rewrite Hlt, Hb, Ht. reflexivity.
Qed.

(** An object whose own table is empty is named by no record at all: its
    forward and backward records mirror records of its peers (symmetry), and a
    Loopback record naming it could only be in its own table. *)
Lemma unnamed_of_empty_table h (o : oid) b :
  TblInv h -> nth_error h o = Some b -> btable b = [] ->
  forall a kd, lget h a (o, kd) = 0.
Proof.
  intros HT Hb Ht a kd.
  assert (Hown : forall l, lget h o l = 0) by (intros l; unfold lget; rewrite Hb, Ht; reflexivity).
  destruct kd.
  - rewrite (ti_sym h HT a o). apply Hown.
  - rewrite <- (ti_sym h HT o a). apply Hown.
  - destruct (N.eq_dec (lget h a (o, Loop)) 0) as [E|E]; [exact E|].
    assert (o = a) by (apply (ti_loop h HT a o); lia). subst a. apply Hown.
Qed.

(** a box that no record names may change its lifecycle state at will (in
    particular die) as long as its table stays the same *)
Lemma TblInv_unnamed h (o : oid) b b' :
  TblInv h -> nth_error h o = Some b -> btable b' = btable b ->
  (forall a kd, lget h a (o, kd) = 0) -> TblInv (setb h o b').
Proof.
  intros HT Hb Ht Hno. pose proof (lget_setb_same_table h o b b' Hb Ht) as HL.
  assert (Hlt : (o < length h)%nat) by (apply nth_error_Some; congruence).
  split.
  - intros a ba. unfold setb. rewrite nth_error_upd.
    destruct (Nat.eqb_spec o a) as [<-|Hne]; [|apply (ti_wf h HT)].
    apply Nat.ltb_lt in Hlt. rewrite Hlt. intros H; injection H as <-.
    unfold box_wf. rewrite Ht. apply (ti_wf h HT o b Hb).
  - intros a c. rewrite !HL. apply (ti_sym h HT).
  - intros a x kd Hp. rewrite HL in Hp.
    destruct (ti_names h HT a x kd Hp) as (bx & Hbx & Hl).
    assert (Hx : x <> o) by (intros ->; rewrite Hno in Hp; lia).
    exists bx. split; [|exact Hl]. unfold setb. rewrite nth_error_upd_other by congruence. exact Hbx.
  - intros a x Hp. rewrite HL in Hp. apply (ti_loop h HT a x Hp).
Qed.

(** ** frames: only the boxes the stack points to matter *)
Lemma inert_ok_pointed h h' lg k :
  (forall y b, 0 < total (w_frame (sw_strong y)) k -> nth_error h y = Some b ->
     exists b', nth_error h' y = Some b' /\
       (live b = true -> live b' = true) /\ (strong b = Uninit -> strong b' = Uninit)) ->
  inert_ok h lg k -> inert_ok h' lg k.
Proof.
  induction k as [|fr k IH]; cbn [inert_ok]; [tauto|]. intros Hm [Hf Hk]. split.
  - intros y Hy. destruct (Hf y Hy) as (b & Hb & Hc).
    destruct (Hm y b) as (b' & Hb' & Hl & Hu); [cbn [total]; lia|exact Hb|].
    exists b'. split; [exact Hb'|]. destruct Hc as [Hc|[Hc Hp]]; [left; auto|right; auto].
  - apply IH; [|exact Hk]. intros y b Hy Hb. apply (Hm y b); [cbn [total]; lia|exact Hb].
Qed.

(** ** the transfer lemma: an object dies

    Box [o] holds the count 1, the handle counted is the one the pending
    [Rc::drop] consumes, and [o]'s table is empty.  The object is destroyed:
    the counter becomes the uninit marker, the value moves out of the box into
    the frame that will run its destructor, and the rest of
    drop_unreachable (drop the table, give up the implicit weak) becomes the
    pending obligation [FAfterValue o].  All handle counts are unchanged (the
    handles of the value are now owned by the frame); the implicit weak is
    accounted for by the obligation instead of by liveness. *)
Lemma die_inv s o k b v :
  Inv s (FDropStrong o :: k) -> nth_error (heap_of s) o = Some b ->
  strong b = Cnt 1 -> links b = Some [] -> value b = Some v ->
  Inv (set_heap s (setb (heap_of s) o (with_value (with_strong b Uninit) None)))
      (FDtorStart v :: FAfterValue o :: k).
Proof.
  intros HI Hb Hs Hlk Hv. set (bF := with_value (with_strong b Uninit) None).
  assert (Hlive : live b = true) by (unfold live; rewrite Hs; reflexivity).
  (* no obligation of a live object was ever skipped *)
  assert (Hleak : n_leak o (log s) = 0).
  { destruct (N.eq_dec (n_leak o (log s)) 0) as [E|E]; [exact E|]. exfalso.
    assert (Hu : strong b = Uninit) by (apply (ci_leak s _ (inv_cnt s _ HI) o b Hb); lia).
    congruence. }
  assert (Hlt : (o < length (heap_of s))%nat) by (apply nth_error_Some; congruence).
  assert (Hnth : forall y, nth_error (setb (heap_of s) o bF) y =
                           if Nat.eqb o y then Some bF else nth_error (heap_of s) y).
  { intros y. unfold setb. rewrite nth_error_upd. apply Nat.ltb_lt in Hlt. rewrite Hlt. reflexivity. }
  (* the census: the value's handles move from the heap to the frame, the
     consumed handle is gone *)
  assert (HWk : forall f, W f (set_heap s (setb (heap_of s) o bF)) (FDtorStart v :: FAfterValue o :: k)
                          = W f s k).
  { intros f. pose proof (W_setb f s o b bF (FDtorStart v :: FAfterValue o :: k) Hb) as H1.
    rewrite (w_box_value f b v Hv) in H1. change (w_box f bF) with 0 in H1.
    rewrite !W_cons in H1. rewrite !W_cons. cbn [w_frame] in H1 |- *. lia. }
  assert (Hheld : forall f, w_held f (set_heap s (setb (heap_of s) o bF)) + w_payload f v = w_held f s).
  { intros f. pose proof (W_setb f s o b bF [] Hb) as H1.
    rewrite (w_box_value f b v Hv) in H1. change (w_box f bF) with 0 in H1.
    unfold W in H1. cbn [total] in H1. lia. }
  (* the consumed handle was the only one *)
  assert (HWo : W (sw_strong o) s k = 0).
  { pose proof (ci_strong s _ (inv_cnt s _ HI) o b 1 Hb Hs) as E.
    rewrite W_cons in E. cbn [w_frame] in E. rewrite sw_strong_self in E. lia. }
  assert (Hheld_o : w_held (sw_strong o) s = 0) by (unfold W in HWo; lia).
  assert (Hstack_o : total (w_frame (sw_strong o)) k = 0) by (unfold W in HWo; lia).
  destruct HI as [Hshape Htbl Hcnt Hnd Hin]. split.
  - (* shape *)
    intros y by' Hy. cbn [heap_of set_heap mk] in Hy. rewrite Hnth in Hy.
    destruct (Nat.eqb_spec o y) as [<-|Hne]; [|apply (Hshape y by' Hy)].
    injection Hy as <-. destruct (Hshape o b Hb) as (S1 & S2 & S3 & S4).
    assert (Hd : live bF = false) by reflexivity.
    unfold shape_ok. rewrite Hd. split; [discriminate|]. split; [|split].
    + intros _. split; [reflexivity|]. unfold btable, bF. cbn [links with_value with_strong].
      rewrite Hlk. reflexivity.
    + cbn [bF strong with_value with_strong]. discriminate.
    + cbn [bF freed weak with_value with_strong]. exact S4.
  - (* tables *)
    cbn [heap_of set_heap mk]. apply TblInv_unnamed with (b := b); [exact Htbl|exact Hb|reflexivity|].
    apply (unnamed_of_empty_table _ o b Htbl Hb). unfold btable. rewrite Hlk. reflexivity.
  - (* counters *)
    destruct Hcnt as [C1 C2 C3 C4 C5 C6]. split; cbn [heap_of set_heap mk log].
    + intros y by' n Hy Hn. rewrite Hnth in Hy. rewrite HWk.
      destruct (Nat.eqb_spec o y) as [<-|Hne].
      * injection Hy as <-. cbn [bF strong with_value with_strong] in Hn. discriminate.
      * pose proof (C1 y by' n Hy Hn) as E. rewrite W_cons in E. cbn [w_frame] in E.
        rewrite sw_strong_other in E by exact Hne. lia.
    + intros y by' Hy. rewrite Hnth in Hy. rewrite HWk, !n_after_cons, !n_fin_cons.
      cbn [f_after f_fin].
      destruct (Nat.eqb_spec o y) as [<-|Hne].
      * injection Hy as <-. pose proof (C2 o b Hb) as E.
        rewrite W_cons, n_after_cons, n_fin_cons in E. cbn [w_frame f_after f_fin] in E.
        rewrite sw_weak_strong in E. unfold liveN in *. rewrite Hlive in E.
        change (live bF) with false. cbn [bF weak with_value with_strong]. lia.
      * pose proof (C2 y by' Hy) as E.
        rewrite W_cons, n_after_cons, n_fin_cons in E. cbn [w_frame f_after f_fin] in E.
        rewrite sw_weak_strong in E. lia.
    + intros y by' Hy. rewrite Hnth in Hy. rewrite !n_after_cons. cbn [f_after].
      destruct (Nat.eqb_spec o y) as [<-|Hne].
      * injection Hy as <-.
        assert (is_dying bF = true) as ->.
        { unfold is_dying, bF. cbn [strong links with_value with_strong]. rewrite Hlk. reflexivity. }
        pose proof (C3 o b Hb) as E.
        assert (is_dying b = false) as Hnd0 by (unfold is_dying; rewrite Hs; reflexivity).
        rewrite Hnd0, n_after_cons in E. cbn [f_after] in E. lia.
      * pose proof (C3 y by' Hy) as E. rewrite n_after_cons in E. cbn [f_after] in E. exact E.
    + intros y by' Hy Hp. rewrite Hnth in Hy. rewrite !n_fin_cons in Hp. cbn [f_fin] in Hp.
      destruct (Nat.eqb_spec o y) as [<-|Hne].
      * exfalso. destruct (C4 o b Hb) as [E _]; [rewrite n_fin_cons; cbn [f_fin]; lia|congruence].
      * apply (C4 y by' Hy). rewrite n_fin_cons. cbn [f_fin]. lia.
    + intros y Hy. assert (Hy' : nth_error (heap_of s) y = None).
      { apply nth_error_None. apply nth_error_None in Hy. unfold setb in Hy.
        rewrite upd_length in Hy. exact Hy. }
      assert (Hne : Nat.eqb o y = false) by (apply Nat.eqb_neq; intros ->; congruence).
      destruct (C5 y Hy') as (E1 & E2 & E3 & E4 & E5).
      rewrite !HWk, !n_after_cons, !n_fin_cons. cbn [f_after f_fin]. rewrite Hne.
      rewrite W_cons in E1, E2. rewrite n_after_cons in E3. rewrite n_fin_cons in E4.
      cbn [f_after f_fin] in E3, E4. repeat split; try lia; assumption.
    + intros y by' Hy Hp. rewrite Hnth in Hy.
      destruct (Nat.eqb_spec o y) as [<-|Hne]; [|apply (C6 y by' Hy Hp)].
      injection Hy as <-. reflexivity.
  - (* no dangling handle *)
    intros y Hy. cbn [heap_of set_heap mk]. rewrite Hnth. pose proof (Hheld (sw_strong y)) as Hh.
    destruct (Hnd y) as (by_ & Hby & Hl); [lia|].
    destruct (Nat.eqb_spec o y) as [<-|Hne]; [exfalso; lia|]. exists by_. auto.
  - (* frames *)
    cbn [heap_of set_heap mk log]. apply inert_ok_cons. split; [|apply inert_ok_cons; split].
    + (* the value was inside a box: its handles target live objects, none of them [o] *)
      intros y Hy. cbn [w_frame] in Hy. pose proof (Hheld (sw_strong y)) as Hh.
      destruct (Hnd y) as (by_ & Hby & Hl); [lia|].
      assert (Hne : Nat.eqb o y = false).
      { apply Nat.eqb_neq. intros <-. lia. }
      exists by_. split; [|left; exact Hl]. rewrite Hnth, Hne. exact Hby.
    + intros y Hy. cbn [w_frame] in Hy. lia.
    + destruct Hin as [_ Hin]. eapply inert_ok_pointed; [|exact Hin].
      intros y by_ Hy Hby.
      assert (Hne : Nat.eqb o y = false).
      { apply Nat.eqb_neq. intros <-. lia. }
      exists by_. split; [|auto]. rewrite Hnth, Hne. exact Hby.
Qed.

(** ** the purge seen on its own

    drop_unreachable_with_adoptions first sets the counter to 0, then runs the
    purge loop and clears the object's own registry.  Had the counter not been
    touched, the purge alone would preserve the invariant (records are only
    removed): this is the heap [setb h3 o (with_strong b3 (strong b))] below,
    a state the machine never shows but from which the object dies exactly as
    an object without adoptions does. *)
Lemma purge_keep_inv s K (o : oid) b t :
  Inv s K -> getb (heap_of s) o = Ok b -> links b = Some t ->
  exists h2 h3 b3,
    purge_loop (setb (heap_of s) o (with_strong b (Cnt 0))) o t = Ok h2 /\
    set_links h2 o [] = Ok h3 /\
    getb h3 o = Ok b3 /\ links b3 = Some [] /\ kept (with_strong b (Cnt 0)) b3 /\
    Inv (set_heap s (setb h3 o (with_strong b3 (strong b)))) K.
Proof.
  intros HI Hg Hlk. pose proof (getb_ok _ _ _ Hg) as [Hb Hfr].
  pose proof (inv_tbl s K HI) as HT.
  pose proof (shape_live_has_table _ (inv_shape s K HI)) as Hlt.
  pose proof (TblInv_no_foreign_loop _ o HT) as Hnl.
  set (b1 := with_strong b (Cnt 0)).
  assert (Hlk1 : links b1 = Some t) by exact Hlk.
  assert (Hfr1 : freed b1 = false) by exact Hfr.
  destruct (purge_dying_tblinv (heap_of s) o b b1 t HT Hlt Hnl Hg Hlk Hlk1 Hfr1)
    as (h2 & h3 & E2 & E3 & W3 & S3 & N3 & L3 & [Klen K3] & (b3 & Hb3 & Lk3 & Kb3) & Hiff).
  destruct (purge_dying_TblInv (heap_of s) o b b1 t h2 h3 HT Hlt Hnl Hg Hlk Hlk1 Hfr1 E2 E3)
    as (HT3 & Hno3 & _).
  exists h2, h3, b3. split; [exact E2|]. split; [exact E3|].
  destruct Kb3 as (Ks & Kw & Kv & Kf & Kta).
  split; [apply getb_intro; [exact Hb3|congruence]|]. split; [exact Lk3|].
  split; [unfold kept; auto|].
  set (bM := with_strong b3 (strong b)).
  assert (Hlen3 : length h3 = length (heap_of s)).
  { rewrite Klen. unfold setb. apply upd_length. }
  assert (Hlt3 : (o < length h3)%nat).
  { rewrite Hlen3. apply nth_error_Some. congruence. }
  assert (HTM : TblInv (setb h3 o bM)).
  { apply TblInv_unnamed with (b := b3); [exact HT3|exact Hb3|reflexivity|exact Hno3]. }
  apply Inv_links_shrink; [exact HI| |exact (ti_wf _ HTM)|exact (ti_sym _ HTM)|].
  - split; [unfold setb; rewrite upd_length; exact Hlen3|].
    intros a ba Ha. destruct (Nat.eq_dec a o) as [->|Hne].
    + exists bM. split; [unfold setb; apply nth_error_upd_same; exact Hlt3|].
      assert (ba = b) as -> by congruence.
      unfold same_but_links, bM. cbn [strong weak value freed links with_strong].
      rewrite Kw, Kv, Kf, Lk3, Hlk. cbn [b1 weak value freed with_strong].
      repeat split; try reflexivity; intros C; discriminate.
    + assert (Ha1 : nth_error (setb (heap_of s) o b1) a = Some ba).
      { unfold setb. rewrite nth_error_upd_other by congruence. exact Ha. }
      destruct (K3 a ba Ha1) as (ba' & Hba' & Ks' & Kw' & Kv' & Kf' & _).
      exists ba'. split; [unfold setb; rewrite nth_error_upd_other by congruence; exact Hba'|].
      unfold same_but_links. repeat split; try assumption; apply (Hiff a ba ba' Hne Ha Hba').
  - intros y l. rewrite (lget_setb_same_table h3 o b3 bM Hb3 eq_refl), L3.
    destruct (Nat.eqb y o || names_o o y l); lia.
Qed.

(** ** the last handle *)

(** what [drop_strong] computes when the counter is 1 *)
Lemma drop_strong_last pri s o b t :
  getb (heap_of s) o = Ok b -> strong b = Cnt 1 -> links b = Some t ->
  drop_strong pri s o =
    let h1 := setb (heap_of s) o (with_strong b (Cnt 0)) in
    match t with
    | [] => start_unreachable (set_heap s h1) o
    | _ :: _ =>
        let* h2 := purge_loop h1 o t in
        let* h3 := set_links h2 o [] in
        start_unreachable (set_heap s h3) o
    end.
Proof.
  intros Hg Hs Hlk. unfold drop_strong. rewrite Hg. cbn [bind]. rewrite Hs.
  change (1 =? 0) with false. change (1 - 1) with 0. change (0 =? 0) with true. cbv iota zeta.
  rewrite (get_links_setb_strong _ _ _ _ Hg), Hlk. cbn [bind].
  destruct t as [|e t']; reflexivity.
Qed.

(** what [start_unreachable] computes on a box that still has its value *)
Lemma start_unreachable_ok s o b v :
  getb (heap_of s) o = Ok b -> value b = Some v ->
  start_unreachable s o =
    Ok (set_heap s (setb (heap_of s) o (with_value (with_strong b Uninit) None)),
        [FDtorStart v; FAfterValue o]).
Proof. intros Hg Hv. unfold start_unreachable. rewrite Hg. cbn [bind]. rewrite Hv. reflexivity. Qed.

(** [Rc::drop] on the LAST strong handle of an object (drop_unreachable when
    the object has no recorded adoptions, drop_unreachable_with_adoptions
    otherwise): the call cannot fault; every record of the object is removed
    from the registries of its peers and its own registry is emptied; the
    object is marked destroyed, its value is handed to its destructor, and the
    rest of the function (drop the registry, give up the implicit weak,
    deallocate when no Weak is left) is pending behind the destructor. *)
Theorem drop_last_inv pri s o k b :
  Inv s (FDropStrong o :: k) -> getb (heap_of s) o = Ok b -> strong b = Cnt 1 ->
  exists s1 v, drop_strong pri s o = Ok (s1, [FDtorStart v; FAfterValue o]) /\ value b = Some v /\
    Inv s1 ([FDtorStart v; FAfterValue o] ++ k).
Proof.
  intros HI Hg Hs. pose proof (getb_ok _ _ _ Hg) as [Hb Hfr].
  assert (Hlive : live b = true) by (unfold live; rewrite Hs; reflexivity).
  destruct (inv_shape s _ HI o b Hb) as (S1 & _). destruct (S1 Hlive) as (Hv & Hlk & _).
  destruct (value b) as [v|] eqn:Ev; [clear Hv|congruence].
  destruct (links b) as [t|] eqn:El; [clear Hlk|congruence].
  assert (Hlt : (o < length (heap_of s))%nat) by (apply nth_error_Some; congruence).
  rewrite (drop_strong_last pri s o b t Hg Hs El). cbv zeta.
  destruct t as [|e t'].
  - (* no recorded adoption: drop_unreachable *)
    set (b1 := with_strong b (Cnt 0)).
    assert (Hg1 : getb (heap_of (set_heap s (setb (heap_of s) o b1))) o = Ok b1).
    { cbn [heap_of set_heap mk]. apply getb_intro; [|exact Hfr].
      unfold setb. apply nth_error_upd_same. exact Hlt. }
    rewrite (start_unreachable_ok _ o b1 v Hg1 Ev). cbn [heap_of set_heap mk]. rewrite setb_setb.
    eexists. exists v. split; [reflexivity|]. split; [reflexivity|].
    apply (die_inv s o k b v HI Hb Hs El Ev).
  - (* drop_unreachable_with_adoptions *)
    destruct (purge_keep_inv s _ o b (e :: t') HI Hg El)
      as (h2 & h3 & b3 & E2 & E3 & G3 & L3 & (Ks & Kw & Kv & Kf & Kta) & HI3).
    rewrite E2. cbn [bind]. rewrite E3. cbn [bind].
    assert (Ev3 : value b3 = Some v) by (rewrite Kv; exact Ev).
    assert (Hg3 : getb (heap_of (set_heap s h3)) o = Ok b3) by exact G3.
    rewrite (start_unreachable_ok _ o b3 v Hg3 Ev3). cbn [heap_of set_heap mk].
    eexists. exists v. split; [reflexivity|]. split; [reflexivity|].
    pose proof (getb_lt _ _ _ G3) as Hlt3.
    set (bM := with_strong b3 (strong b)) in HI3.
    assert (HbM : nth_error (heap_of (set_heap s (setb h3 o bM))) o = Some bM).
    { cbn [heap_of set_heap mk]. unfold setb. apply nth_error_upd_same. exact Hlt3. }
    assert (HsM : strong bM = Cnt 1) by exact Hs.
    pose proof (die_inv _ o k bM v HI3 HbM HsM L3 Ev3) as HF.
    cbn [heap_of set_heap mk] in HF. rewrite setb_setb in HF. exact HF.
Qed.

(** ** the same as steps of the machine: neither case can halt *)
Corollary step_drop_dead_inv pri s o k u b :
  Inv s (FDropStrong o :: k) -> getb (heap_of s) o = Ok b -> is_dead (strong b) = true ->
  step_post u (step pri {| st := s; stack := FDropStrong o :: k; unw := u |}).
Proof.
  intros HI Hg Hd. destruct (drop_dead_inv pri s o k b HI Hg Hd) as [E HI'].
  cbn [step st stack unw]. rewrite E. cbn [step_post st stack unw app]. auto.
Qed.

Corollary step_drop_last_inv pri s o k u b :
  Inv s (FDropStrong o :: k) -> getb (heap_of s) o = Ok b -> strong b = Cnt 1 ->
  step_post u (step pri {| st := s; stack := FDropStrong o :: k; unw := u |}).
Proof.
  intros HI Hg Hs. destruct (drop_last_inv pri s o k b HI Hg Hs) as (s1 & v & E & _ & HI').
  cbn [step st stack unw]. rewrite E. cbn [step_post st stack unw]. auto.
Qed.

Print Assumptions drop_dead_inv.
Print Assumptions die_inv.
Print Assumptions drop_last_inv.
Print Assumptions step_drop_dead_inv.
Print Assumptions step_drop_last_inv.
Print Assumptions purge_keep_inv.
