(** * Actions that consume or replace the value of an allocation:
    [Rc::try_unwrap] and [Rc::make_mut] preserve [Inv].

    Both calls are compositions of a few elementary changes, each of which is
    shown to preserve the invariant in a general "census" form (the new state
    is described by what happens to the heap and by how the handle census
    moves, not by a particular register layout):

    - [Inv_release]: [release_links] followed (virtually) by giving the object an
      empty table again only shrinks tables;
    - [Inv_consume]: the last strong handle to an isolated object disappears
      together with the object (counter 1 -> 0, value and table moved out, the
      implicit weak given up); the handles inside the value change owner;
    - [Inv_alloc_gen]: a fresh allocation whose value carries handles that
      were owned by someone else before;
    - [Inv_bump_many]: counters of many boxes grow together with the census
      (the effect of [Clone for Node], [clone_slots]).

    Intermediate configurations of a call that do not satisfy the invariant
    (e.g. a live object whose table is moved out) are avoided by passing
    through virtual states: a table that is [Some []] instead of [None], or a
    value that sits in an extra register ([regs ++ [RLoose p]]) — [Inv] sees
    registers only through the census.

    Main results: [try_unwrap_strict], [make_mut_strict] (the invariant is kept
    and the call cannot halt: no memory fault and no abort), and their
    corollaries [act_try_unwrap], [act_make_mut] in the common [act_preserves]
    form.  The three branches of make_mut are [make_mut_unique],
    [make_mut_steal_core], [make_mut_clone_core]. *)
From CR Require Import Base Atomic Machine LinksFacts HeapFacts Local Tokens InvDef InvLemmas
  ActBase ActClone ActHandles ActAdopt StepFrames Purge ActMove.
Local Open Scope N_scope.

(** ** small facts about lists, [setb], [getb] and appended heaps *)
Lemma nth_error_setb h o b y : (o < length h)%nat ->
  nth_error (setb h o b) y = if Nat.eqb o y then Some b else nth_error h y.
Proof.
  intros Hlt. unfold setb. rewrite nth_error_upd. apply Nat.ltb_lt in Hlt. rewrite Hlt. reflexivity.
Qed.

Lemma upd_app_l {A} (l e : list A) i x : (i < length l)%nat -> upd (l ++ e) i x = upd l i x ++ e.
Proof.
  revert i; induction l as [|a l IH]; intros [|i] H; cbn [length] in H; try lia; cbn [app upd]; [reflexivity|].
  f_equal. apply IH. lia.
Qed.

Lemma setb_app_l h e o b : (o < length h)%nat -> setb (h ++ e) o b = setb h o b ++ e.
Proof. apply upd_app_l. Qed.

Lemma getb_app_l h e o b : getb h o = Ok b -> getb (h ++ e) o = Ok b.
Proof.
  intros G. pose proof (getb_lt _ _ _ G) as Hlt. unfold getb in *.
  rewrite nth_error_app1 by exact Hlt. exact G.
Qed.

Lemma total_snoc {A} (f : A -> N) l a : total f (l ++ [a]) = total f l + f a.
Proof. rewrite total_app. cbn [total]. lia. Qed.

(** the census of a state given by its components *)
Lemma w_held_mk f h rg lg : w_held f (mk h rg lg) = total (w_reg f) rg + total (w_box f) h.
Proof. reflexivity. Qed.

Lemma total_setb f h o b b' : nth_error h o = Some b ->
  total (w_box f) (setb h o b') + w_box f b = total (w_box f) h + w_box f b'.
Proof. intros Hb. unfold setb. apply total_upd. exact Hb. Qed.

(** frames that own no handle to [o] do not care about box [o] *)
Lemma inert_ok_except h h' lg k o :
  total (w_frame (sw_strong o)) k = 0 ->
  (forall y, y <> o -> nth_error h' y = nth_error h y) ->
  inert_ok h lg k -> inert_ok h' lg k.
Proof.
  intros Hz Hoth. induction k as [|fr k IH]; cbn [inert_ok]; [tauto|].
  cbn [total] in Hz. intros [H1 H2]. split; [|apply IH; [lia|exact H2]].
  intros y Hy. assert (Hne : y <> o) by (intros ->; lia).
  destruct (H1 y Hy) as (b & Hb & Hc). exists b. split; [|exact Hc].
  rewrite (Hoth y Hne). exact Hb.
Qed.

(** ** the last strong handle to an isolated object disappears with the object

    Box [o] has strong count 1, an empty table, and no other table names it.
    In the new state its counter is 0, value and table are moved out and the
    implicit weak is given up (the allocation is released when that was the
    last weak).  The census loses exactly one strong handle to [o]; every other
    handle (in particular those inside [o]'s value) merely changes owner. *)
Lemma Inv_consume s K s' o b b' :
  Inv s K ->
  nth_error (heap_of s) o = Some b -> strong b = Cnt 1 ->
  (forall a kd, lget (heap_of s) a (o, kd) = 0) -> btable b = [] ->
  heap_of s' = setb (heap_of s) o b' -> log s' = log s ->
  strong b' = Cnt 0 -> links b' = None -> value b' = None ->
  weak b' + 1 = weak b -> (freed b' = true <-> weak b' = 0) ->
  (forall f, w_held f s' + f (SStrong o) = w_held f s) ->
  Inv s' K.
Proof.
  intros HI Hb Hs Hiso Hbt Hheap Hlog Hs' Hl' Hv' Hw' Hf' Hcen.
  assert (Hlive : live b = true) by (unfold live; rewrite Hs; reflexivity).
  assert (Hlive' : live b' = false) by (unfold live; rewrite Hs'; reflexivity).
  assert (Hbt' : btable b' = []) by (unfold btable; rewrite Hl'; reflexivity).
  assert (Hlt : (o < length (heap_of s))%nat) by (apply nth_error_Some; congruence).
  assert (Hnth : forall y, nth_error (heap_of s') y = if Nat.eqb o y then Some b' else nth_error (heap_of s) y).
  { intros y. rewrite Hheap. apply nth_error_setb. exact Hlt. }
  assert (Hlen : length (heap_of s') = length (heap_of s)) by (rewrite Hheap; apply upd_length).
  assert (HW : forall f, W f s' K + f (SStrong o) = W f s K).
  { intros f. unfold W. specialize (Hcen f). lia. }
  assert (Hlget : forall a l, lget (heap_of s') a l = lget (heap_of s) a l).
  { intros a l. unfold lget. rewrite Hnth. destruct (Nat.eqb_spec o a) as [<-|Hne]; [|reflexivity].
    rewrite Hb, Hbt, Hbt'. reflexivity. }
  destruct HI as [Hshape Htbl Hcnt Hnd Hin]. destruct Hcnt as [C1 C2 C3 C4 C5 C6].
  (* the stack owns no strong handle to [o] *)
  assert (Hstack : total (w_frame (sw_strong o)) K = 0).
  { pose proof (C1 o b 1 Hb Hs) as E. unfold W in E. pose proof (Hcen (sw_strong o)) as E2.
    rewrite sw_strong_self in E2. lia. }
  split.
  - (* shape *)
    intros y by' Hy. rewrite Hnth in Hy.
    destruct (Nat.eqb_spec o y) as [<-|Hne]; [|apply (Hshape y by' Hy)].
    injection Hy as <-. unfold shape_ok. rewrite Hlive', Hv', Hbt', Hl'.
    split; [discriminate|]. split; [auto|]. split; [auto|exact Hf'].
  - (* tables *)
    destruct Htbl as [Twf Tsym Tnm Tlp]. split.
    + intros y by' Hy. rewrite Hnth in Hy.
      destruct (Nat.eqb_spec o y) as [<-|Hne]; [|apply (Twf y by' Hy)].
      injection Hy as <-. unfold box_wf. rewrite Hbt'. apply tbl_wf_nil.
    + intros a c. rewrite !Hlget. apply Tsym.
    + intros a x kd Hp. rewrite Hlget in Hp.
      assert (Hxo : o <> x) by (intros <-; rewrite Hiso in Hp; lia).
      destruct (Tnm a x kd Hp) as (bx & Hbx & Hlx). exists bx. split; [|exact Hlx].
      rewrite Hnth. apply Nat.eqb_neq in Hxo. rewrite Hxo. exact Hbx.
    + intros a x Hp. rewrite Hlget in Hp. apply Tlp. exact Hp.
  - (* counters *)
    split; rewrite ?Hlog.
    + intros y by' m Hy Hm. rewrite Hnth in Hy. pose proof (HW (sw_strong y)) as HWy.
      destruct (Nat.eqb_spec o y) as [<-|Hne].
      * injection Hy as <-. rewrite Hs' in Hm. injection Hm as <-.
        rewrite sw_strong_self in HWy. pose proof (C1 o b 1 Hb Hs). lia.
      * rewrite sw_strong_other in HWy by exact Hne. rewrite (C1 y by' m Hy Hm). lia.
    + intros y by' Hy. rewrite Hnth in Hy. pose proof (HW (sw_weak y)) as HWy.
      rewrite sw_weak_strong in HWy.
      destruct (Nat.eqb_spec o y) as [<-|Hne].
      * injection Hy as <-. pose proof (C2 o b Hb) as E. unfold liveN in *.
        rewrite Hlive'. rewrite Hlive in E. lia.
      * pose proof (C2 y by' Hy) as E. lia.
    + intros y by' Hy. rewrite Hnth in Hy. destruct (Nat.eqb_spec o y) as [<-|Hne]; [|apply (C3 y by' Hy)].
      injection Hy as <-. pose proof (C3 o b Hb) as E.
      assert (is_dying b = false) as Ed by (unfold is_dying; rewrite Hs; reflexivity).
      assert (is_dying b' = false) as -> by (unfold is_dying; rewrite Hs'; reflexivity).
      rewrite Ed in E. exact E.
    + intros y by' Hy Hp. rewrite Hnth in Hy. destruct (Nat.eqb_spec o y) as [<-|Hne]; [|apply (C4 y by' Hy Hp)].
      destruct (C4 o b Hb Hp) as [E _]. congruence.
    + intros y Hy. assert (Hy' : nth_error (heap_of s) y = None).
      { apply nth_error_None. apply nth_error_None in Hy. lia. }
      destruct (C5 y Hy') as (E1 & E2 & E3 & E4 & E5).
      pose proof (HW (sw_strong y)) as H1. pose proof (HW (sw_weak y)) as H2.
      repeat split; try lia; assumption.
    + intros y by' Hy Hp. rewrite Hnth in Hy. destruct (Nat.eqb_spec o y) as [<-|Hne]; [|apply (C6 y by' Hy Hp)].
      pose proof (C6 o b Hb Hp) as E. congruence.
  - (* no dangling handle *)
    intros y Hy. pose proof (Hcen (sw_strong y)) as E.
    assert (Hne : o <> y).
    { intros <-. pose proof (C1 o b 1 Hb Hs) as E1. unfold W in E1. rewrite sw_strong_self in E. lia. }
    rewrite sw_strong_other in E by exact Hne.
    destruct (Hnd y) as (by_ & Hby & Hl); [lia|]. exists by_. split; [|exact Hl].
    rewrite Hnth. apply Nat.eqb_neq in Hne. rewrite Hne. exact Hby.
  - (* frames *)
    rewrite Hlog. apply (inert_ok_except (heap_of s) (heap_of s') (log s) K o Hstack); [|exact Hin].
    intros y Hne. rewrite Hnth. assert (Nat.eqb o y = false) as -> by (apply Nat.eqb_neq; congruence).
    reflexivity.
Qed.

(** ** a fresh allocation whose value carries handles

    The new box [new_box p] is appended; the census grows by exactly one strong
    handle to it — whatever [p] holds was owned by someone else before (a
    register, in the callers below).  Nothing referred to the new index before
    ([ci_range]). *)
Lemma Inv_alloc_gen s K s' p :
  Inv s K ->
  heap_of s' = heap_of s ++ [new_box p] -> log s' = log s ->
  (forall f, w_held f s' = w_held f s + f (SStrong (length (heap_of s)))) ->
  Inv s' K.
Proof.
  intros HI Hheap Hlog Hcen.
  assert (HW : forall f, W f s' K = W f s K + f (SStrong (length (heap_of s)))).
  { intros f. unfold W. rewrite Hcen. lia. }
  assert (Hbt : btable (new_box p) = []) by reflexivity.
  assert (Hlv : live (new_box p) = true) by reflexivity.
  destruct HI as [Hshape Htbl Hcnt Hnd Hin].
  assert (Hnone : nth_error (heap_of s) (length (heap_of s)) = None) by (apply nth_error_None; lia).
  destruct (ci_range s K Hcnt _ Hnone) as (F1 & F2 & F3 & F4 & Hleak).
  split; rewrite ?Hheap, ?Hlog.
  - intros y by' Hy.
    apply nth_error_snoc_cases in Hy as [Hy|[_ ->]]; [apply (Hshape y by' Hy)|].
    unfold shape_ok. rewrite Hlv, Hbt. cbn [new_box value links freed strong weak].
    repeat split; try discriminate; try lia.
  - apply TblInv_snoc; assumption.
  - destruct Hcnt as [C1 C2 C3 C4 C5 C6]. split; rewrite ?Hheap, ?Hlog.
    + intros y by' m Hy Hm. rewrite HW.
      apply nth_error_snoc_cases in Hy as [Hy|[-> ->]].
      * assert (Hne : length (heap_of s) <> y) by (intros <-; congruence).
        rewrite sw_strong_other by exact Hne. rewrite N.add_0_r. apply (C1 y by' m Hy Hm).
      * cbn [new_box strong] in Hm. injection Hm as <-. rewrite F1, sw_strong_self. reflexivity.
    + intros y by' Hy. rewrite HW. rewrite sw_weak_strong, N.add_0_r.
      apply nth_error_snoc_cases in Hy as [Hy|[-> ->]]; [apply (C2 y by' Hy)|].
      unfold liveN. rewrite Hlv, F2, F3, F4, Hleak. reflexivity.
    + intros y by' Hy. apply nth_error_snoc_cases in Hy as [Hy|[-> ->]]; [apply (C3 y by' Hy)|].
      cbn [is_dying new_box strong]. exact F3.
    + intros y by' Hy Hpos. apply nth_error_snoc_cases in Hy as [Hy|[-> ->]]; [apply (C4 y by' Hy Hpos)|].
      lia.
    + intros y Hy. apply nth_error_snoc_none in Hy as [Hy Hne].
      rewrite !HW. destruct (C5 y Hy) as (E1 & E2 & E3 & E4 & E5).
      rewrite sw_weak_strong, sw_strong_other by (intros E; apply Hne; symmetry; exact E).
      repeat split; try lia; assumption.
    + intros y by' Hy Hpos. apply nth_error_snoc_cases in Hy as [Hy|[-> ->]]; [apply (C6 y by' Hy Hpos)|].
      lia.
  - intros y Hy. rewrite Hcen in Hy. rewrite Hheap.
    destruct (Nat.eq_dec (length (heap_of s)) y) as [<-|Hne].
    + exists (new_box p). split; [apply nth_error_app_new|exact Hlv].
    + rewrite sw_strong_other in Hy by exact Hne. rewrite N.add_0_r in Hy.
      destruct (Hnd y Hy) as (b0 & Hb0 & Hl0). exists b0. split; [|exact Hl0].
      apply nth_error_snoc_old. exact Hb0.
  - eapply inert_ok_heap; [|exact Hin]. apply heap_mono_app.
Qed.

(** ** many counters grow together with the census

    Every box keeps everything but its two counters; the strong counter of [y]
    grows by [ds y], the weak counter by [dw y], and so does the number of
    strong resp. Weak handles to [y].  Strong handles are only added to live
    objects, Weak handles only to allocations that have not been released. *)
Lemma Inv_bump_many s K s' (ds dw : oid -> N) :
  Inv s K -> log s' = log s -> length (heap_of s') = length (heap_of s) ->
  (forall y b, nth_error (heap_of s) y = Some b ->
     exists b', nth_error (heap_of s') y = Some b' /\ bumped b b' /\ weak b' = weak b + dw y /\
       match strong b with Cnt n => strong b' = Cnt (n + ds y) | Uninit => strong b' = Uninit end) ->
  (forall y, w_held (sw_strong y) s' = w_held (sw_strong y) s + ds y) ->
  (forall y, w_held (sw_weak y) s' = w_held (sw_weak y) s + dw y) ->
  (forall y, 0 < ds y -> exists b, nth_error (heap_of s) y = Some b /\ live b = true) ->
  (forall y, 0 < dw y -> exists b, nth_error (heap_of s) y = Some b /\ 0 < weak b) ->
  Inv s' K.
Proof.
  intros HI Hlog Hlen Hbox Hcs Hcw Hds Hdw.
  assert (HWs : forall y, W (sw_strong y) s' K = W (sw_strong y) s K + ds y).
  { intros y. unfold W. rewrite Hcs. lia. }
  assert (HWw : forall y, W (sw_weak y) s' K = W (sw_weak y) s K + dw y).
  { intros y. unfold W. rewrite Hcw. lia. }
  assert (Hback : forall y b', nth_error (heap_of s') y = Some b' ->
     exists b, nth_error (heap_of s) y = Some b /\ bumped b b' /\ weak b' = weak b + dw y /\
       match strong b with Cnt n => strong b' = Cnt (n + ds y) | Uninit => strong b' = Uninit end).
  { intros y b' Hy. destruct (nth_error (heap_of s) y) as [b|] eqn:Hb.
    - destruct (Hbox y b Hb) as (b2 & Hb2 & Hr). assert (b2 = b') as -> by congruence. exists b. auto.
    - apply nth_error_None in Hb. assert (Hne : nth_error (heap_of s') y <> None) by congruence.
      apply nth_error_Some in Hne. lia. }
  assert (Hnone : forall y, nth_error (heap_of s') y = None -> nth_error (heap_of s) y = None).
  { intros y Hy. apply nth_error_None. apply nth_error_None in Hy. lia. }
  assert (Hds0 : forall y, nth_error (heap_of s) y = None -> ds y = 0 /\ dw y = 0).
  { intros y Hy. split.
    - destruct (N.eq_dec (ds y) 0) as [E|E]; [exact E|]. destruct (Hds y) as (b & Hb & _); [lia|congruence].
    - destruct (N.eq_dec (dw y) 0) as [E|E]; [exact E|]. destruct (Hdw y) as (b & Hb & _); [lia|congruence]. }
  (* liveness is unchanged *)
  assert (Hlive : forall y b b', nth_error (heap_of s) y = Some b ->
     match strong b with Cnt n => strong b' = Cnt (n + ds y) | Uninit => strong b' = Uninit end ->
     live b' = live b).
  { intros y b b' Hb Hst. unfold live. destruct (strong b) as [n|] eqn:Es; rewrite Hst; [|reflexivity].
    destruct (N.ltb_spec 0 n) as [Hn|Hn]; [apply N.ltb_lt; lia|].
    destruct (N.eq_dec (ds y) 0) as [E|E]; [rewrite E; apply N.ltb_ge; lia|].
    destruct (Hds y) as (b0 & Hb0 & Hl0); [lia|]. assert (b0 = b) as -> by congruence.
    unfold live in Hl0. rewrite Es in Hl0. apply N.ltb_lt in Hl0. lia. }
  assert (Hst : same_tables (heap_of s) (heap_of s')).
  { split; [exact Hlen|]. intros y b Hb. destruct (Hbox y b Hb) as (b' & Hb' & (Hlk & _) & _ & Hs).
    exists b'. split; [exact Hb'|]. split; [unfold btable; rewrite Hlk; reflexivity|].
    rewrite (Hlive y b b' Hb Hs). auto. }
  assert (Hmono : heap_mono (heap_of s) (heap_of s')).
  { intros y b Hb. destruct (Hbox y b Hb) as (b' & Hb' & _ & _ & Hs).
    exists b'. split; [exact Hb'|]. split.
    - rewrite (Hlive y b b' Hb Hs). auto.
    - intros E. rewrite E in Hs. exact Hs. }
  destruct HI as [Hshape Htbl Hcnt Hnd Hin]. destruct Hcnt as [C1 C2 C3 C4 C5 C6]. split.
  - (* shape *)
    intros y b' Hy. destruct (Hback y b' Hy) as (b & Hb & (Hlk & Hta & Hva & Hfr) & Hw & Hs).
    pose proof (Hlive y b b' Hb Hs) as El.
    destruct (Hshape y b Hb) as (S1 & S2 & S3 & S4).
    unfold shape_ok, btable. rewrite El, Hva, Hlk, Hfr. split; [exact S1|]. split; [exact S2|]. split.
    + intros E. apply S3. destruct (strong b) as [n|]; [|congruence]. rewrite Hs in E.
      injection E as E. f_equal. lia.
    + rewrite Hw. split.
      * intros E. apply S4 in E. destruct (N.eq_dec (dw y) 0) as [E0|E0]; [lia|].
        destruct (Hdw y) as (b0 & Hb0 & Hp0); [lia|]. assert (b0 = b) as -> by congruence. lia.
      * intros E. apply S4. lia.
  - (* tables *)
    eapply TblInv_same_tables; [exact Hst|exact Htbl].
  - (* counters *)
    split; rewrite ?Hlog.
    + intros y b' m Hy Hm. destruct (Hback y b' Hy) as (b & Hb & _ & _ & Hs). rewrite HWs.
      destruct (strong b) as [n|] eqn:Es; [|congruence]. rewrite Hs in Hm. injection Hm as <-.
      rewrite (C1 y b n Hb Es). reflexivity.
    + intros y b' Hy. destruct (Hback y b' Hy) as (b & Hb & _ & Hw & Hs). rewrite HWw, Hw, (C2 y b Hb).
      unfold liveN. rewrite (Hlive y b b' Hb Hs). lia.
    + intros y b' Hy. destruct (Hback y b' Hy) as (b & Hb & (Hlk & _) & _ & Hs).
      assert (is_dying b' = is_dying b) as ->.
      { unfold is_dying. rewrite Hlk. destruct (strong b) as [n|]; rewrite Hs; reflexivity. }
      apply (C3 y b Hb).
    + intros y b' Hy Hp. destruct (Hback y b' Hy) as (b & Hb & (Hlk & _) & _ & Hs).
      destruct (C4 y b Hb Hp) as [E1 E2]. rewrite E1 in Hs. split; congruence.
    + intros y Hy. apply Hnone in Hy. destruct (C5 y Hy) as (E1 & E2 & E3 & E4 & E5).
      destruct (Hds0 y Hy) as [D1 D2]. rewrite HWs, HWw, D1, D2.
      repeat split; try lia; assumption.
    + intros y b' Hy Hp. destruct (Hback y b' Hy) as (b & Hb & _ & _ & Hs).
      rewrite (C6 y b Hb Hp) in Hs. exact Hs.
  - (* no dangling handle *)
    intros y Hy. rewrite Hcs in Hy.
    assert (Hex : exists b, nth_error (heap_of s) y = Some b /\ live b = true).
    { destruct (N.eq_dec (ds y) 0) as [E|E]; [apply Hnd; lia|apply Hds; lia]. }
    destruct Hex as (b & Hb & Hl). destruct (Hbox y b Hb) as (b' & Hb' & _ & _ & Hs).
    exists b'. split; [exact Hb'|]. rewrite (Hlive y b b' Hb Hs). exact Hl.
  - (* frames *)
    rewrite Hlog. eapply inert_ok_heap; [exact Hmono|exact Hin].
Qed.

(** ** [release_links] on a live object

    [release_links] (drop.rs; called by try_unwrap and by the steal branch of
    make_mut) never faults on a live object.  Afterwards no table names [o] and
    [o]'s own table is moved out.  If [o] is (virtually) given an empty table
    again, the invariant holds: only records were removed.  [bX] is [o]'s box
    at the moment of the call: [b] itself, or [b] with its value moved out. *)
Lemma Inv_release s K o b t bX :
  Inv s K -> nth_error (heap_of s) o = Some b -> live b = true -> links b = Some t ->
  links bX = links b -> freed bX = freed b -> strong bX = strong b ->
  exists h3 b3, release_links (setb (heap_of s) o bX) o = Ok h3 /\
    length h3 = length (heap_of s) /\
    nth_error h3 o = Some b3 /\ kept bX b3 /\ links b3 = None /\
    (forall a kd, lget (setb h3 o (with_links b (Some []))) a (o, kd) = 0) /\
    Inv (set_heap s (setb h3 o (with_links b (Some [])))) K.
Proof.
  intros HI Hb Hl Hlk EXl EXf EXs.
  pose proof (inv_tbl s K HI) as HT.
  destruct (inv_shape s K HI o b Hb) as (S1 & _). destruct (S1 Hl) as (_ & _ & Hfr).
  assert (Hlt : (o < length (heap_of s))%nat) by (apply nth_error_Some; congruence).
  assert (HbtX : btable bX = btable b) by (unfold btable; rewrite EXl; reflexivity).
  assert (HlvX : live bX = live b) by (unfold live; rewrite EXs; reflexivity).
  assert (HstX : same_tables (heap_of s) (setb (heap_of s) o bX)).
  { apply same_tables_setb with (b := b); auto. rewrite HlvX; auto. }
  pose proof (TblInv_same_tables _ _ HstX HT) as HTX.
  assert (HltX : live_has_table (setb (heap_of s) o bX)).
  { intros y bY Hy HlY. rewrite nth_error_setb in Hy by exact Hlt.
    destruct (Nat.eqb_spec o y) as [<-|Hne].
    - injection Hy as <-. rewrite EXl, EXf, Hlk. split; [discriminate|exact Hfr].
    - apply (shape_live_has_table _ (inv_shape s K HI) y bY Hy HlY). }
  assert (HnX : nth_error (setb (heap_of s) o bX) o = Some bX).
  { rewrite nth_error_setb by exact Hlt. rewrite Nat.eqb_refl. reflexivity. }
  assert (GX : getb (setb (heap_of s) o bX) o = Ok bX) by (apply getb_intro; [exact HnX|congruence]).
  assert (LkX : links bX = Some t) by congruence.
  destruct (release_links_spec _ o bX t HTX HltX (TblInv_no_foreign_loop _ o HTX) GX LkX)
    as (h3 & ER & W3 & S3 & N3 & L3 & [Klen K3] & (b3 & Hb3 & Hl3) & Hiff).
  assert (Hlen3 : length h3 = length (heap_of s)).
  { rewrite Klen. apply upd_length. }
  assert (Hlt3 : (o < length h3)%nat) by lia.
  exists h3, b3. split; [exact ER|]. split; [exact Hlen3|]. split; [exact Hb3|].
  split. { destruct (K3 o bX HnX) as (b3' & Hb3' & Kb). assert (b3' = b3) as -> by congruence. exact Kb. }
  split; [exact Hl3|].
  assert (HlV : forall a l, lget (setb h3 o (with_links b (Some []))) a l = lget h3 a l).
  { intros a l. unfold lget. rewrite nth_error_setb by exact Hlt3.
    destruct (Nat.eqb_spec o a) as [<-|Hne]; [|reflexivity].
    rewrite Hb3. unfold btable. rewrite Hl3. reflexivity. }
  split.
  { intros a kd. rewrite HlV. destruct (N.eq_dec (lget h3 a (o, kd)) 0) as [E0|E0]; [exact E0|].
    exfalso. destruct (N3 a o kd) as [Hx _]; [apply N.neq_0_lt_0; exact E0|]. apply Hx; reflexivity. }
  apply Inv_links_shrink; [exact HI| | | |].
  - split; [unfold setb; rewrite upd_length; exact Hlen3|]. intros a ba Ha.
    rewrite nth_error_setb by exact Hlt3. destruct (Nat.eqb_spec o a) as [<-|Hne].
    + eexists. split; [reflexivity|]. assert (ba = b) as -> by congruence.
      unfold same_but_links. cbn [with_links strong weak value freed links].
      repeat split; try reflexivity; intros E; [congruence|discriminate].
    + assert (HaX : nth_error (setb (heap_of s) o bX) a = Some ba).
      { rewrite nth_error_setb by exact Hlt. apply Nat.eqb_neq in Hne. rewrite Hne. exact Ha. }
      destruct (K3 a ba HaX) as (ba' & Ha' & (Ks & Kw & Kv & Kf & _)).
      exists ba'. split; [exact Ha'|]. unfold same_but_links.
      split; [exact Ks|]. split; [exact Kw|]. split; [exact Kv|]. split; [exact Kf|].
      apply (Hiff a ba ba'); [congruence|exact HaX|exact Ha'].
  - intros a ba Ha. rewrite nth_error_setb in Ha by exact Hlt3.
    destruct (Nat.eqb_spec o a) as [<-|Hne]; [|apply (W3 a ba Ha)].
    injection Ha as <-. unfold box_wf, btable. cbn [with_links links]. apply tbl_wf_nil.
  - intros a c. rewrite !HlV. apply S3.
  - intros a l. rewrite HlV, L3. destruct (Nat.eqb a o || names_o o a l); [lia|].
    rewrite (same_tables_lget _ _ a l HstX). lia.
Qed.

(** ** [release_links] does not look beyond the boxes it is about *)
Lemma links_remove_app h e x l n h' :
  links_remove h x l n = Ok h' -> links_remove (h ++ e) x l n = Ok (h' ++ e).
Proof.
  unfold links_remove, get_links, set_links, bind.
  destruct (getb h x) as [b|] eqn:G; [|discriminate].
  rewrite (getb_app_l h e x b G). destruct (links b) as [t|]; [|discriminate].
  intros H; injection H as <-.
  rewrite setb_app_l by (eapply getb_lt; exact G). reflexivity.
Qed.

Lemma purge_loop_app e o entries : forall h h',
  purge_loop h o entries = Ok h' -> purge_loop (h ++ e) o entries = Ok (h' ++ e).
Proof.
  induction entries as [|[[x kd] n] rest IH]; intros h h'; cbn [purge_loop].
  - intros H; injection H as <-. reflexivity.
  - destruct (Nat.eqb x o); [apply IH|]. unfold bind.
    destruct (links_remove h x (o, Fwd) n) as [h1|] eqn:E1; [|discriminate].
    rewrite (links_remove_app _ e _ _ _ _ E1).
    destruct (links_remove h1 x (o, Bwd) n) as [h2|] eqn:E2; [|discriminate].
    rewrite (links_remove_app _ e _ _ _ _ E2). apply IH.
Qed.

Lemma release_links_app h e o h' :
  release_links h o = Ok h' -> release_links (h ++ e) o = Ok (h' ++ e).
Proof.
  unfold release_links, purge_peers, get_links, bind.
  destruct (getb h o) as [b|] eqn:G; [|discriminate]. rewrite (getb_app_l h e o b G).
  destruct (links b) as [t|]; [|discriminate].
  destruct (purge_loop h o t) as [h1|] eqn:E1; [|discriminate].
  rewrite (purge_loop_app e o t _ _ E1).
  destruct (getb h1 o) as [b1|] eqn:G1; [|discriminate]. rewrite (getb_app_l h1 e o b1 G1).
  destruct (links b1) as [t1|]; [|discriminate]. intros H; injection H as <-.
  rewrite setb_app_l by (eapply getb_lt; exact G1). reflexivity.
Qed.

(** ** [Clone for Node]: what [clone_slots] does to the heap

    Cloning the handles of a value slot by slot either aborts (a strong handle
    to a dead object, or an overflowing/zero weak counter) or succeeds; in the
    latter case every box keeps all its fields but the two counters, which grow
    by exactly the number of strong resp. Weak handles to it among the slots.
    It cannot fault as long as every handle names an allocation that has not
    been released. *)
Definition grown (y : oid) (ss : list slot) (b b' : box) : Prop :=
  bumped b b' /\ weak b' = weak b + total (sw_weak y) ss /\
  match strong b with
  | Cnt n => strong b' = Cnt (n + total (sw_strong y) ss)
  | Uninit => strong b' = Uninit
  end.

Lemma grown_step h x bx bx1 h' sl ss :
  nth_error h x = Some bx -> bumped bx bx1 ->
  weak bx1 = weak bx + sw_weak x sl ->
  match strong bx with Cnt n => strong bx1 = Cnt (n + sw_strong x sl) | Uninit => strong bx1 = Uninit end ->
  (forall y, y <> x -> sw_weak y sl = 0 /\ sw_strong y sl = 0) ->
  (forall y b, nth_error (setb h x bx1) y = Some b -> exists b', nth_error h' y = Some b' /\ grown y ss b b') ->
  forall y b, nth_error h y = Some b -> exists b', nth_error h' y = Some b' /\ grown y (sl :: ss) b b'.
Proof.
  intros Hx (B1 & B2 & B3 & B4) Hw Hs Hoth IH y b Hy.
  assert (Hlt : (x < length h)%nat) by (apply nth_error_Some; congruence).
  destruct (Nat.eq_dec x y) as [<-|Hne].
  - assert (b = bx) as -> by congruence.
    destruct (IH x bx1) as (b' & Hb' & (C1 & C2 & C3 & C4) & Hw' & Hs').
    { rewrite nth_error_setb by exact Hlt. rewrite Nat.eqb_refl. reflexivity. }
    exists b'. split; [exact Hb'|]. unfold grown, bumped. cbn [total].
    split; [repeat split; congruence|]. split; [lia|].
    destruct (strong bx) as [n|]; rewrite Hs in Hs'; [|exact Hs'].
    rewrite Hs'. f_equal. lia.
  - destruct (IH y b) as (b' & Hb' & Hbump & Hw' & Hs').
    { rewrite nth_error_setb by exact Hlt. apply Nat.eqb_neq in Hne. rewrite Hne. exact Hy. }
    exists b'. split; [exact Hb'|]. unfold grown. cbn [total].
    destruct (Hoth y (not_eq_sym Hne)) as [-> ->]. rewrite !N.add_0_l. auto.
Qed.

Lemma getb_setb_keep h x bx bx' y :
  getb h x = Ok bx -> freed bx' = false ->
  (exists b, getb h y = Ok b) -> exists b, getb (setb h x bx') y = Ok b.
Proof.
  intros G Hf (b & Gy). pose proof (getb_lt _ _ _ G) as Hlt. unfold getb in *.
  rewrite nth_error_setb by exact Hlt. destruct (Nat.eqb_spec x y) as [<-|Hne].
  - rewrite Hf. eauto.
  - exists b. exact Gy.
Qed.

Lemma clone_slots_spec ss : forall h,
  (forall x, In (SStrong x) ss \/ In (SWeak (Some x)) ss -> exists b, getb h x = Ok b) ->
  clone_slots h ss = Bad HAbort \/
  exists h', clone_slots h ss = Ok h' /\ length h' = length h /\
    forall y b, nth_error h y = Some b -> exists b', nth_error h' y = Some b' /\ grown y ss b b'.
Proof.
  induction ss as [|sl ss IH]; intros h Hacc.
  - right. exists h. split; [reflexivity|]. split; [reflexivity|].
    intros y b Hy. exists b. split; [exact Hy|]. unfold grown, bumped. cbn [total].
    split; [auto|]. split; [lia|]. destruct (strong b) as [n|]; [f_equal; lia|reflexivity].
  - assert (Hacc' : forall h1, (forall y, (exists b, getb h y = Ok b) -> exists b, getb h1 y = Ok b) ->
        forall x, In (SStrong x) ss \/ In (SWeak (Some x)) ss -> exists b, getb h1 x = Ok b).
    { intros h1 Hk x Hx. apply Hk. apply Hacc. destruct Hx as [Hx|Hx]; [left|right]; right; exact Hx. }
    destruct sl as [x|[x|]|].
    + (* a strong handle *)
      destruct (Hacc x) as (bx & G); [left; left; reflexivity|].
      cbn [clone_slots]. unfold inc_strong, bind. rewrite G.
      destruct (strong bx) as [n|] eqn:Es; [|left; reflexivity].
      destruct (N.eqb_spec n 0) as [E0|E0]; [left; reflexivity|].
      pose proof (getb_ok _ _ _ G) as [Hx Hf].
      destruct (IH (setb h x (with_strong bx (Cnt (n + 1))))) as [Hab|(h' & Hok & Hlen & Hall)].
      * apply Hacc'. intros y Hy. apply (getb_setb_keep h x bx _ y G); [exact Hf|exact Hy].
      * left. exact Hab.
      * right. exists h'. split; [exact Hok|]. split; [rewrite Hlen; apply upd_length|].
        apply (grown_step h x bx (with_strong bx (Cnt (n + 1))) h' (SStrong x) ss Hx).
        -- apply bumped_strong.
        -- cbn [weak with_strong sw_weak]. lia.
        -- rewrite Es. cbn [strong with_strong]. rewrite sw_strong_self. reflexivity.
        -- intros y Hy. split; [reflexivity|]. apply sw_strong_other. congruence.
        -- exact Hall.
    + (* a Weak handle *)
      destruct (Hacc x) as (bx & G); [right; left; reflexivity|].
      cbn [clone_slots]. unfold inc_weak, bind. rewrite G.
      destruct (N.eqb_spec (weak bx) 0) as [E0|E0]; [left; reflexivity|].
      pose proof (getb_ok _ _ _ G) as [Hx Hf].
      destruct (IH (setb h x (with_weak bx (weak bx + 1)))) as [Hab|(h' & Hok & Hlen & Hall)].
      * apply Hacc'. intros y Hy. apply (getb_setb_keep h x bx _ y G); [exact Hf|exact Hy].
      * left. exact Hab.
      * right. exists h'. split; [exact Hok|]. split; [rewrite Hlen; apply upd_length|].
        apply (grown_step h x bx (with_weak bx (weak bx + 1)) h' (SWeak (Some x)) ss Hx).
        -- apply bumped_weak.
        -- cbn [weak with_weak]. rewrite sw_weak_self. reflexivity.
        -- cbn [strong with_weak sw_strong]. destruct (strong bx) as [n|]; [f_equal; lia|reflexivity].
        -- intros y Hy. split; [|reflexivity]. apply sw_weak_other. congruence.
        -- exact Hall.
    + (* a dangling Weak *)
      cbn [clone_slots]. destruct (IH h) as [Hab|(h' & Hok & Hlen & Hall)].
      * apply Hacc'. auto.
      * left. exact Hab.
      * right. exists h'. split; [exact Hok|]. split; [exact Hlen|].
        intros y b Hy. destruct (Hall y b Hy) as (b' & Hb' & Hg). exists b'. split; [exact Hb'|].
        unfold grown in *. cbn [total sw_weak sw_strong]. rewrite !N.add_0_l. exact Hg.
    + (* an empty slot *)
      cbn [clone_slots]. destruct (IH h) as [Hab|(h' & Hok & Hlen & Hall)].
      * apply Hacc'. auto.
      * left. exact Hab.
      * right. exists h'. split; [exact Hok|]. split; [exact Hlen|].
        intros y b Hy. destruct (Hall y b Hy) as (b' & Hb' & Hg). exists b'. split; [exact Hb'|].
        unfold grown in *. cbn [total sw_weak sw_strong]. rewrite !N.add_0_l. exact Hg.
Qed.

(** [clone_slots] cannot even abort when every strong handle among the slots
    names a live object and every Weak handle an allocation with a positive
    weak counter *)
Lemma getb_setb_pres (P : box -> Prop) h x bx bx' y :
  getb h x = Ok bx -> freed bx' = false -> (P bx -> P bx') ->
  (exists b, getb h y = Ok b /\ P b) -> exists b, getb (setb h x bx') y = Ok b /\ P b.
Proof.
  intros G Hf HP (b & Gy & Pb). pose proof (getb_lt _ _ _ G) as Hlt.
  destruct (Nat.eq_dec x y) as [<-|Hne].
  - exists bx'. split.
    + apply getb_intro; [|exact Hf]. rewrite nth_error_setb by exact Hlt. rewrite Nat.eqb_refl. reflexivity.
    + apply HP. assert (b = bx) as -> by congruence. exact Pb.
  - exists b. split; [|exact Pb]. unfold getb in *. rewrite nth_error_setb by exact Hlt.
    apply Nat.eqb_neq in Hne. rewrite Hne. exact Gy.
Qed.

Lemma clone_slots_ok ss : forall h,
  (forall x, In (SStrong x) ss -> exists b, getb h x = Ok b /\ live b = true) ->
  (forall x, In (SWeak (Some x)) ss -> exists b, getb h x = Ok b /\ 0 < weak b) ->
  exists h', clone_slots h ss = Ok h'.
Proof.
  induction ss as [|sl ss IH]; intros h HS HW; [exists h; reflexivity|].
  assert (HS' : forall x, In (SStrong x) ss -> exists b, getb h x = Ok b /\ live b = true).
  { intros x Hx. apply HS. right. exact Hx. }
  assert (HW' : forall x, In (SWeak (Some x)) ss -> exists b, getb h x = Ok b /\ 0 < weak b).
  { intros x Hx. apply HW. right. exact Hx. }
  destruct sl as [x|[x|]|]; cbn [clone_slots]; try (apply IH; assumption).
  - destruct (HS x (or_introl eq_refl)) as (bx & G & Hl).
    destruct (live_true bx Hl) as (n & Es & Hn). pose proof (getb_ok _ _ _ G) as [_ Hf].
    rewrite (inc_strong_live _ _ _ _ G Es) by lia. cbn [bind]. apply IH.
    + intros y Hy.
      apply (getb_setb_pres (fun b => live b = true) h x bx (with_strong bx (Cnt (n + 1))) y G);
        [exact Hf| |apply HS'; exact Hy].
      intros _. unfold live. cbn [strong with_strong]. apply N.ltb_lt. lia.
    + intros y Hy.
      apply (getb_setb_pres (fun b => 0 < weak b) h x bx (with_strong bx (Cnt (n + 1))) y G);
        [exact Hf| |apply HW'; exact Hy].
      intros H. exact H.
  - destruct (HW x (or_introl eq_refl)) as (bx & G & Hp). pose proof (getb_ok _ _ _ G) as [_ Hf].
    unfold inc_weak, bind. rewrite G. assert ((weak bx =? 0) = false) as -> by (apply N.eqb_neq; lia).
    apply IH.
    + intros y Hy.
      apply (getb_setb_pres (fun b => live b = true) h x bx (with_weak bx (weak bx + 1)) y G);
        [exact Hf| |apply HS'; exact Hy].
      intros H. exact H.
    + intros y Hy.
      apply (getb_setb_pres (fun b => 0 < weak b) h x bx (with_weak bx (weak bx + 1)) y G);
        [exact Hf| |apply HW'; exact Hy].
      intros _. cbn [weak with_weak]. lia.
Qed.

(** ** the statement proved below: the invariant is kept and the call cannot
    halt at all (neither a memory fault nor an abort) *)
Definition act_post_strict (self : option payload) (pc : list act) (k : list frame) (out : aout) : Prop :=
  match out with
  | AO s1 self1 r push =>
      (self = None <-> self1 = None) /\ Inv s1 (push ++ ctx self1 pc k)
  | AHalt h => False
  | APanicOut => True
  end.

Lemma act_post_strict_weaken self pc k out : act_post_strict self pc k out -> act_post self pc k out.
Proof. destruct out as [s1 self1 r push|h|]; cbn; tauto. Qed.

Lemma act_invalid_strict s self pc k : Inv s (ctx self pc k) -> act_post_strict self pc k (invalid s self).
Proof. intros HI. unfold invalid. cbn [act_post_strict app]. split; [tauto|exact HI]. Qed.

Lemma act_observe_strict s self pc k r : Inv s (ctx self pc k) -> act_post_strict self pc k (AO s self r []).
Proof. intros HI. cbn [act_post_strict app]. split; [tauto|exact HI]. Qed.

(** ** [Rc::try_unwrap] *)
Lemma upd_same {A} (l : list A) i a : nth_error l i = Some a -> upd l i a = l.
Proof.
  revert i; induction l as [|x l IH]; intros [|i] H; cbn in H; try discriminate; cbn [upd].
  - injection H as ->. reflexivity.
  - rewrite (IH i H). reflexivity.
Qed.

Lemma setb_same h o b : nth_error h o = Some b -> setb h o b = h.
Proof. apply upd_same. Qed.

Lemma w_payload_slots f p p' : slots p' = slots p -> w_payload f p' = w_payload f p.
Proof. unfold w_payload. intros ->. reflexivity. Qed.

(** [Rc::try_unwrap(this)]: with any other strong count the call returns
    [Err(this)] and nothing changes.  With strong count 1 the object is purged
    from the tables of its adoption peers, its table is dropped, its value is
    moved out to the caller together with every handle it holds, the strong
    count becomes 0 and the implicit weak is given up (the allocation is
    released unless a Weak handle is left).  No fault, no abort, and every
    clause of the invariant is kept. *)
Theorem try_unwrap_strict r dst s self pc k :
  Inv s (ctx self pc k) -> act_post_strict self pc k (exec_act s self (ATryUnwrap r dst)).
Proof.
  intros HI. cbn [exec_act].
  destruct (reg_get s r) as [o|?|?|?|] eqn:Er; try (apply act_invalid_strict; exact HI).
  destruct (reg_free s dst) eqn:Ef; [|apply act_invalid_strict; exact HI].
  destruct (reg_strong_live s self pc k HI o r (or_introl Er)) as (b & Hg & Hl). rewrite Hg.
  destruct (strong b) as [n|] eqn:Hs; [|apply act_observe_strict; exact HI].
  destruct n as [|[q|q|]]; try (apply act_observe_strict; exact HI).
  pose proof (getb_ok _ _ _ Hg) as [Hb Hfr].
  pose proof (getb_weak_pos s _ o b HI Hg) as Hwpos.
  destruct (inv_shape s _ HI o b Hb) as (S1 & _). destruct (S1 Hl) as (Hv & Hlk & _).
  destruct (value b) as [p|] eqn:Ev; [clear Hv|congruence].
  destruct (links b) as [t|] eqn:El; [clear Hlk|congruence].
  destruct (Inv_release s _ o b t b HI Hb Hl El eq_refl eq_refl eq_refl)
    as (h3 & b3 & ER & Hlen3 & Hb3 & (Ks & Kw & Kv & Kf & _) & Hl3 & Hiso & HIV).
  rewrite (setb_same _ _ _ Hb) in ER.
  assert (Hlt3 : (o < length h3)%nat) by (apply nth_error_Some; congruence).
  unfold lift. rewrite ER. cbn [heap_of set_heap mk].
  assert (G3 : getb h3 o = Ok b3) by (apply getb_intro; [exact Hb3|congruence]).
  rewrite G3, Kv, Ev.
  set (b4 := with_strong (with_value b3 None) (Cnt 0)).
  assert (G4 : getb (setb h3 o b4) o = Ok b4).
  { apply getb_intro; [|cbn; congruence]. rewrite nth_error_setb by exact Hlt3.
    rewrite Nat.eqb_refl. reflexivity. }
  rewrite (weak_drop_ok _ _ _ G4) by (cbn [b4 weak with_strong with_value]; lia).
  rewrite setb_setb. cbn [act_post_strict app]. split; [tauto|].
  apply Inv_add_ev; [intros y; reflexivity|].
  apply (Inv_consume (set_heap s (setb h3 o (with_links b (Some [])))) (ctx self pc k) _ o
           (with_links b (Some [])) (weak_dec b4) HIV).
  - cbn [heap_of set_heap mk]. rewrite nth_error_setb by exact Hlt3. rewrite Nat.eqb_refl. reflexivity.
  - exact Hs.
  - exact Hiso.
  - reflexivity.
  - cbn [heap_of set_heap set_reg mk]. rewrite setb_setb. reflexivity.
  - reflexivity.
  - rewrite weak_dec_strong. reflexivity.
  - rewrite weak_dec_links. exact Hl3.
  - rewrite weak_dec_value. reflexivity.
  - rewrite weak_dec_weak. cbn [b4 weak with_strong with_value with_links]. lia.
  - apply weak_dec_freed. cbn [b4 freed with_strong with_value]. congruence.
  - (* the census *)
    intros f. unfold w_held. cbn [regs heap_of set_reg set_heap mk].
    assert (Hr : nth_error (regs s) r = Some (RStrong o)).
    { rewrite <- Er. apply reg_get_some. rewrite Er. discriminate. }
    assert (Hne : r <> dst).
    { intros ->. apply reg_free_spec in Ef. congruence. }
    assert (Hd : nth_error (upd (regs s) r REmpty) dst = Some REmpty).
    { rewrite nth_error_upd_other by exact Hne. apply reg_free_spec. exact Ef. }
    pose proof (total_upd (w_reg f) _ _ _ REmpty Hr) as T1.
    pose proof (total_upd (w_reg f) _ _ _ (RLoose p) Hd) as T2.
    pose proof (total_setb f h3 o b3 (weak_dec b4) Hb3) as B1.
    pose proof (total_setb f h3 o b3 (with_links b (Some [])) Hb3) as B2.
    assert (E1 : w_box f (weak_dec b4) = 0) by (unfold w_box; rewrite weak_dec_value; reflexivity).
    assert (E2 : w_box f (with_links b (Some [])) = w_payload f p).
    { unfold w_box. cbn [value with_links]. rewrite Ev. reflexivity. }
    cbn [w_reg] in T1, T2. lia.
Qed.

(** ** [Rc::make_mut] *)

(** handles inside the value of a box are part of the census *)
Lemma box_slots_le f s o b p : nth_error (heap_of s) o = Some b -> value b = Some p ->
  total f (slots p) <= w_held f s.
Proof.
  intros Hb Hv. unfold w_held.
  pose proof (nth_error_total_le (w_box f) _ _ _ Hb) as H1.
  rewrite (w_box_value _ _ _ Hv) in H1. unfold w_payload in H1. lia.
Qed.

(** (i) the handle is unique (strong = 1, no Weak handle): nothing happens *)
Lemma make_mut_unique s self pc k r o b :
  Inv s (ctx self pc k) -> reg_get s r = RStrong o -> getb (heap_of s) o = Ok b ->
  strong b = Cnt 1 -> weak b = 1 ->
  act_post_strict self pc k (exec_act s self (AMakeMut r)).
Proof.
  intros HI Er Hg Hs Hw. cbn [exec_act]. rewrite Er, Hg, Hs, Hw. cbn [N.eqb Pos.eqb].
  apply act_observe_strict. exact HI.
Qed.

(** (ii) "steal": strong = 1 but Weak handles exist.  The value moves to a
    fresh allocation (same slots, same destructor), the old object is purged
    from its peers' tables, loses its table, its strong count becomes 0 and it
    gives up the implicit weak; the remaining Weak handles keep the old
    allocation.  The caller's handle now names the new allocation. *)
Lemma make_mut_steal_core s self pc k r o b p :
  Inv s (ctx self pc k) -> reg_get s r = RStrong o -> getb (heap_of s) o = Ok b ->
  strong b = Cnt 1 -> value b = Some p -> 1 < weak b ->
  act_post_strict self pc k
    (lift s self
       (release_links
          (setb (heap_of s) o (with_value b None) ++
           [new_box {| pid := length (heap_of s); slots := slots p; script := script p |}]) o)
       (fun s1 =>
          match getb (heap_of s1) o with
          | Bad e => AHalt e
          | Ok b1 =>
              AO (add_ev (set_reg (set_heap s1 (setb (heap_of s1) o
                                     (with_weak (with_strong b1 (Cnt 0)) (weak b1 - 1))))
                            r (RStrong (length (heap_of s))))
                    (EvTableDropped o)) self RUnit []
          end)).
Proof.
  intros HI Er Hg Hs Ev Hw.
  set (p' := {| pid := length (heap_of s); slots := slots p; script := script p |}).
  pose proof (getb_ok _ _ _ Hg) as [Hb Hfr].
  assert (Hl : live b = true) by (unfold live; rewrite Hs; reflexivity).
  destruct (inv_shape s _ HI o b Hb) as (S1 & _). destruct (S1 Hl) as (_ & Hlk & _).
  destruct (links b) as [t|] eqn:El; [clear Hlk|congruence].
  destruct (Inv_release s _ o b t (with_value b None) HI Hb Hl El eq_refl eq_refl eq_refl)
    as (h3 & b3 & ER & Hlen3 & Hb3 & (Ks & Kw & Kv & Kf & _) & Hl3 & Hiso & HIV).
  cbn [strong weak value freed with_value] in Ks, Kw, Kv, Kf.
  assert (Hlt3 : (o < length h3)%nat) by (apply nth_error_Some; congruence).
  unfold lift. rewrite (release_links_app _ [new_box p'] _ _ ER). cbn [heap_of set_heap mk].
  assert (G3 : getb h3 o = Ok b3) by (apply getb_intro; [exact Hb3|congruence]).
  rewrite (getb_app_l _ [new_box p'] _ _ G3). rewrite setb_app_l by exact Hlt3.
  cbn [act_post_strict app]. split; [tauto|].
  apply Inv_add_ev; [intros y; reflexivity|].
  set (bfin := with_weak (with_strong b3 (Cnt 0)) (weak b3 - 1)).
  assert (Hr : nth_error (regs s) r = Some (RStrong o)).
  { rewrite <- Er. apply reg_get_some. rewrite Er. discriminate. }
  (* the virtual state in which the value sits in an extra register *)
  apply (Inv_alloc_gen (mk (setb h3 o bfin) (upd (regs s) r REmpty ++ [RLoose p]) (log s)) _ _ p').
  - apply (Inv_consume (set_heap s (setb h3 o (with_links b (Some [])))) (ctx self pc k) _ o
             (with_links b (Some [])) bfin HIV).
    + cbn [heap_of set_heap mk]. rewrite nth_error_setb by exact Hlt3. rewrite Nat.eqb_refl. reflexivity.
    + exact Hs.
    + exact Hiso.
    + reflexivity.
    + cbn [heap_of set_heap mk]. rewrite setb_setb. reflexivity.
    + reflexivity.
    + reflexivity.
    + exact Hl3.
    + exact Kv.
    + cbn [bfin weak with_weak with_links]. lia.
    + cbn [bfin freed weak with_weak with_strong]. rewrite Kf, Hfr.
      split; [discriminate|]. intros E. lia.
    + intros f. unfold w_held. cbn [regs heap_of set_heap mk]. rewrite total_snoc.
      pose proof (total_upd (w_reg f) _ _ _ REmpty Hr) as T1.
      pose proof (total_setb f h3 o b3 bfin Hb3) as B1.
      pose proof (total_setb f h3 o b3 (with_links b (Some [])) Hb3) as B2.
      assert (E1 : w_box f bfin = 0) by (unfold w_box; cbn [bfin value with_weak with_strong]; rewrite Kv; reflexivity).
      assert (E2 : w_box f (with_links b (Some [])) = w_payload f p).
      { unfold w_box. cbn [value with_links]. rewrite Ev. reflexivity. }
      cbn [w_reg] in T1 |- *. lia.
  - reflexivity.
  - reflexivity.
  - intros f. unfold w_held. cbn [regs heap_of set_reg set_heap mk]. rewrite !total_snoc.
    assert (length (setb h3 o bfin) = length (heap_of s)) as -> by (unfold setb; rewrite upd_length; exact Hlen3).
    pose proof (total_upd (w_reg f) _ _ _ REmpty Hr) as T1.
    pose proof (total_upd (w_reg f) _ _ _ (RStrong (length (heap_of s))) Hr) as T2.
    assert (E : w_box f (new_box p') = w_payload f p).
    { unfold w_box. cbn [value new_box]. apply w_payload_slots. reflexivity. }
    cbn [w_reg] in T1, T2 |- *. lia.
Qed.

(** *** what [Clone for Node] copies: [cloned_slots ss] is [ss] itself or the
    slots of a detached node (all empty) *)
Lemma cloned_slots_cases ss : cloned_slots ss = ss \/ cloned_slots ss = empty_slots.
Proof. unfold cloned_slots. destruct (clone_detached ss); [right|left]; reflexivity. Qed.

Lemma in_empty_slots sl : In sl empty_slots -> sl = SEmpty.
Proof. unfold empty_slots. intros H. apply repeat_spec in H. exact H. Qed.

Lemma cloned_slots_in ss sl : In sl (cloned_slots ss) -> In sl ss \/ sl = SEmpty.
Proof.
  destruct (cloned_slots_cases ss) as [->| ->]; intros H; [left; exact H|right; apply in_empty_slots; exact H].
Qed.

Lemma cloned_slots_in_strong ss x : In (SStrong x) (cloned_slots ss) -> In (SStrong x) ss.
Proof. intros H. apply cloned_slots_in in H as [H|H]; [exact H|discriminate]. Qed.

Lemma cloned_slots_in_weak ss x : In (SWeak (Some x)) (cloned_slots ss) -> In (SWeak (Some x)) ss.
Proof. intros H. apply cloned_slots_in in H as [H|H]; [exact H|discriminate]. Qed.

Lemma cloned_slots_length ss : (length (cloned_slots ss) <= Nat.max (length ss) NSLOTS)%nat.
Proof.
  destruct (cloned_slots_cases ss) as [->| ->]; [lia|].
  unfold empty_slots. rewrite repeat_length. lia.
Qed.

Lemma total_empty_slots (f : slot -> N) : f SEmpty = 0 -> total f empty_slots = 0.
Proof. intros H. unfold empty_slots. apply total_repeat. exact H. Qed.

Lemma cloned_slots_total (f : slot -> N) ss : f SEmpty = 0 ->
  total f (cloned_slots ss) = total f ss \/ total f (cloned_slots ss) = 0.
Proof.
  intros H. destruct (cloned_slots_cases ss) as [->| ->]; [left; reflexivity|right].
  apply total_empty_slots. exact H.
Qed.

Lemma cloned_slots_total_le (f : slot -> N) ss : f SEmpty = 0 ->
  total f (cloned_slots ss) <= total f ss.
Proof. intros H. destruct (cloned_slots_total f ss H) as [E|E]; rewrite E; lia. Qed.

(** (iii) other strong handles exist: the value is cloned ([Clone for Node]
    clones every handle it chooses to copy — all of them, or none when the
    clone is a detached node: the counters of their targets grow, or the
    process aborts on a handle to a dead object), the clone is put into a fresh
    allocation which the caller's handle now names, and the old handle is
    dropped ([Rc::drop] runs next). *)
Lemma make_mut_clone_core s self pc k r o b p :
  Inv s (ctx self pc k) -> reg_get s r = RStrong o -> getb (heap_of s) o = Ok b ->
  value b = Some p ->
  act_post_strict self pc k
    (lift s self (clone_slots (heap_of s) (cloned_slots (slots p)))
       (fun s1 =>
          AO (set_reg (set_heap s1 (heap_of s1 ++
                 [new_box {| pid := length (heap_of s); slots := cloned_slots (slots p); script := [] |}]))
                r (RStrong (length (heap_of s))))
             self RUnit [FDropStrong o])).
Proof.
  intros HI Er Hg Ev.
  set (cs := cloned_slots (slots p)).
  set (p' := {| pid := length (heap_of s); slots := cs; script := [] |}).
  pose proof (getb_ok _ _ _ Hg) as [Hb Hfr].
  pose proof (release_strong_reg s self pc k r o HI (or_introl Er)) as HIA.
  assert (Hr : nth_error (regs s) r = Some (RStrong o)).
  { rewrite <- Er. apply reg_get_some. rewrite Er. discriminate. }
  (* the handles the clone copies are handles of the value *)
  assert (HinS : forall x, In (SStrong x) cs -> In (SStrong x) (slots p))
    by (intros x; apply cloned_slots_in_strong).
  assert (HinW : forall x, In (SWeak (Some x)) cs -> In (SWeak (Some x)) (slots p))
    by (intros x; apply cloned_slots_in_weak).
  assert (HleS : forall y, total (sw_strong y) cs <= total (sw_strong y) (slots p))
    by (intros y; apply cloned_slots_total_le; reflexivity).
  assert (HleW : forall y, total (sw_weak y) cs <= total (sw_weak y) (slots p))
    by (intros y; apply cloned_slots_total_le; reflexivity).
  clearbody cs.
  assert (Hacc : forall x, In (SStrong x) cs \/ In (SWeak (Some x)) cs ->
            exists bx, getb (heap_of s) x = Ok bx).
  { intros x [Hx|Hx].
    - apply HinS in Hx.
      destruct (inv_held_live s _ HI x) as (bx & Gx & _); [|exists bx; exact Gx].
      pose proof (box_slots_le (sw_strong x) s o b p Hb Ev) as H1.
      pose proof (total_in_le (sw_strong x) _ _ Hx) as H2. rewrite sw_strong_self in H2. lia.
    - apply HinW in Hx.
      apply (inv_weak_token s _ HI x).
      pose proof (box_slots_le (sw_weak x) s o b p Hb Ev) as H1.
      pose proof (total_in_le (sw_weak x) _ _ Hx) as H2. rewrite sw_weak_self in H2.
      unfold W. lia. }
  destruct (clone_slots_spec cs (heap_of s) Hacc) as [Hab|(h' & Hok & Hlen & Hall)];
    unfold lift.
  { (* [Clone for Node] cannot abort: the handles of a live value are not dangling *)
    exfalso. destruct (clone_slots_ok cs (heap_of s)) as (h' & Hok).
    - intros x Hx. apply HinS in Hx. apply (inv_held_live s _ HI x).
      pose proof (box_slots_le (sw_strong x) s o b p Hb Ev) as H1.
      pose proof (total_in_le (sw_strong x) _ _ Hx) as H2. rewrite sw_strong_self in H2. lia.
    - intros x Hx. destruct (Hacc x (or_intror Hx)) as (bx & Gx). exists bx. split; [exact Gx|].
      apply (getb_weak_pos s _ x bx HI Gx).
    - congruence. }
  rewrite Hok. cbn [act_post_strict app heap_of set_heap mk]. split; [tauto|].
  apply (Inv_alloc_gen (mk h' (upd (regs s) r REmpty ++ [RLoose p']) (log s)) _ _ p').
  - apply (Inv_bump_many (set_reg s r REmpty) _ _
             (fun y => total (sw_strong y) cs) (fun y => total (sw_weak y) cs) HIA).
    + reflexivity.
    + exact Hlen.
    + intros y by_ Hy. destruct (Hall y by_ Hy) as (b' & Hb' & Hbump & Hw & Hs).
      exists b'. auto.
    + intros y. unfold w_held. cbn [regs heap_of set_reg mk]. rewrite total_snoc.
      rewrite (total_pointwise (w_box (sw_strong y)) (heap_of s) h' Hlen).
      * cbn [w_reg]. unfold w_payload. cbn [p' slots]. lia.
      * intros i a a' Ha Ha'. destruct (Hall i a Ha) as (a2 & Ha2 & (_ & _ & Hva & _) & _).
        assert (a2 = a') as -> by congruence. unfold w_box. rewrite Hva. reflexivity.
    + intros y. unfold w_held. cbn [regs heap_of set_reg mk]. rewrite total_snoc.
      rewrite (total_pointwise (w_box (sw_weak y)) (heap_of s) h' Hlen).
      * cbn [w_reg]. unfold w_payload. cbn [p' slots]. lia.
      * intros i a a' Ha Ha'. destruct (Hall i a Ha) as (a2 & Ha2 & (_ & _ & Hva & _) & _).
        assert (a2 = a') as -> by congruence. unfold w_box. rewrite Hva. reflexivity.
    + intros y Hy. cbn [heap_of set_reg mk]. apply (inv_nd s _ HI y).
      pose proof (box_slots_le (sw_strong y) s o b p Hb Ev) as H1.
      pose proof (HleS y) as H2. lia.
    + intros y Hy. cbn [heap_of set_reg mk].
      pose proof (box_slots_le (sw_weak y) s o b p Hb Ev) as H1.
      pose proof (HleW y) as H2.
      destruct (nth_error (heap_of s) y) as [by_|] eqn:Hby.
      * exists by_. split; [reflexivity|]. rewrite (ci_weak s _ (inv_cnt s _ HI) y by_ Hby). unfold W. lia.
      * destruct (ci_range s _ (inv_cnt s _ HI) y Hby) as (_ & E & _). unfold W in E. lia.
  - reflexivity.
  - reflexivity.
  - intros f. unfold w_held. cbn [regs heap_of set_reg set_heap mk]. rewrite !total_snoc, Hlen.
    pose proof (total_upd (w_reg f) _ _ _ REmpty Hr) as T1.
    pose proof (total_upd (w_reg f) _ _ _ (RStrong (length (heap_of s))) Hr) as T2.
    assert (E : w_box f (new_box p') = w_payload f p') by reflexivity.
    cbn [w_reg] in T1, T2 |- *. lia.
Qed.

(** [Rc::make_mut(this)]: never faults; it aborts only inside [Clone for Node]
    (a handle to a dead object in the value); otherwise every clause of the
    invariant is kept in each of its three branches. *)
Theorem make_mut_strict r s self pc k :
  Inv s (ctx self pc k) -> act_post_strict self pc k (exec_act s self (AMakeMut r)).
Proof.
  intros HI.
  destruct (reg_get s r) as [o|?|?|?|] eqn:Er;
    try (cbn [exec_act]; rewrite Er; apply act_invalid_strict; exact HI).
  destruct (reg_strong_live s self pc k HI o r (or_introl Er)) as (b & Hg & Hl).
  pose proof (getb_ok _ _ _ Hg) as [Hb Hfr].
  pose proof (getb_weak_pos s _ o b HI Hg) as Hwpos.
  destruct (inv_shape s _ HI o b Hb) as (S1 & _). destruct (S1 Hl) as (Hv & _ & _).
  destruct (value b) as [p|] eqn:Ev; [clear Hv|congruence].
  destruct (strong b) as [n|] eqn:Hs; [|rewrite (live_uninit b Hs) in Hl; discriminate].
  assert (Hclone : act_post_strict self pc k
    (lift s self (clone_slots (heap_of s) (cloned_slots (slots p)))
       (fun s1 =>
          AO (set_reg (set_heap s1 (heap_of s1 ++
                 [new_box {| pid := length (heap_of s); slots := cloned_slots (slots p); script := [] |}]))
                r (RStrong (length (heap_of s))))
             self RUnit [FDropStrong o]))).
  { apply (make_mut_clone_core s self pc k r o b p); assumption. }
  destruct n as [|[q|q|]].
  - cbn [exec_act]. rewrite Er, Hg, Hs, Ev. exact Hclone.
  - cbn [exec_act]. rewrite Er, Hg, Hs, Ev. exact Hclone.
  - cbn [exec_act]. rewrite Er, Hg, Hs, Ev. exact Hclone.
  - destruct (N.eq_dec (weak b) 1) as [E1|E1].
    + apply (make_mut_unique s self pc k r o b); assumption.
    + cbn [exec_act]. rewrite Er, Hg, Hs, Ev.
      assert ((weak b =? 0) = false) as -> by (apply N.eqb_neq; lia).
      assert ((weak b =? 1) = false) as -> by (apply N.eqb_neq; exact E1).
      apply (make_mut_steal_core s self pc k r o b p); try assumption. lia.
Qed.


(** the statements in the common form of the per-action lemmas *)
Theorem act_try_unwrap r dst : act_preserves (ATryUnwrap r dst).
Proof. intros s self pc k HI _. apply act_post_strict_weaken. apply try_unwrap_strict. exact HI. Qed.

Theorem act_make_mut r : act_preserves (AMakeMut r).
Proof. intros s self pc k HI _. apply act_post_strict_weaken. apply make_mut_strict. exact HI. Qed.

Print Assumptions try_unwrap_strict.
Print Assumptions make_mut_strict.
Print Assumptions act_try_unwrap.
Print Assumptions act_make_mut.
