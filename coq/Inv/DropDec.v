(** * [Rc::drop]: what [Inv] says about the heap alone (the part the trace
    relies on), and the plain decrement of a strong counter. *)
From Coq Require Import Permutation.
From CR Require Import Base Atomic Machine LinksFacts HeapFacts TraceFacts TraceTotal Local
  Tokens InvDef InvLemmas ActBase ActClone.
Local Open Scope N_scope.

(** ** tables as the trace sees them *)
Lemma lget_tbl_of h x l : lget h x l = tbl_get (tbl_of h x) l.
Proof. unfold lget, tbl_of. destruct (nth_error h x); reflexivity. Qed.

Lemma tbl_of_wf h x : heap_wf h -> tbl_wf (tbl_of h x).
Proof.
  intros Hwf. unfold tbl_of. destruct (nth_error h x) as [b|] eqn:E; [|apply tbl_wf_nil].
  apply (Hwf x b E).
Qed.

Lemma fwd_target_lget h x y : heap_wf h -> (In y (fwd_targets (tbl_of h x)) <-> 0 < lget h x (y, Fwd)).
Proof.
  intros Hwf. rewrite fwd_targets_keys, lget_tbl_of. apply wf_keys_iff. apply tbl_of_wf; exact Hwf.
Qed.

Lemma bwd_target_lget h x y : heap_wf h -> (In y (bwd_targets (tbl_of h x)) <-> 0 < lget h x (y, Bwd)).
Proof.
  intros Hwf. rewrite bwd_targets_keys, lget_tbl_of. apply wf_keys_iff. apply tbl_of_wf; exact Hwf.
Qed.

Lemma cntF_lget h x y : heap_wf h -> cntF (tbl_of h x) y = lget h x (y, Fwd).
Proof. intros Hwf. rewrite lget_tbl_of. apply cntF_get. apply tbl_of_wf; exact Hwf. Qed.

Lemma own_get_in m k c : NoDup (map fst m) -> In (k, c) m -> own_get m k = c.
Proof.
  induction m as [|[k' c'] m IH]; cbn [map fst own_get In]; intros Hnd H; [tauto|].
  inversion Hnd as [|? ? Hn Hnd']; subst. destruct H as [H|H].
  - injection H as -> ->. rewrite Nat.eqb_refl. reflexivity.
  - destruct (Nat.eqb_spec k k') as [->|Hne]; [|apply IH; assumption].
    elim Hn. apply in_map_iff. exists (k', c). auto.
Qed.

(** ** what [Inv] says about the heap alone *)
Record HeapInv (h : heap) : Prop := {
  hi_shape : forall o b, nth_error h o = Some b -> shape_ok b;
  hi_tbl : TblInv h;
}.

Lemma Inv_HeapInv s k : Inv s k -> HeapInv (heap_of s).
Proof. intros [H1 H2 _ _ _]. split; assumption. Qed.

Section HeapFacts.
Variable h : heap.
Hypothesis HH : HeapInv h.

Lemma hi_live_has_table x bx : nth_error h x = Some bx -> live bx = true -> has_table h x.
Proof.
  intros Hb Hl. destruct (hi_shape h HH x bx Hb) as (S1 & _). destruct (S1 Hl) as (Hv & Hlk & Hf).
  destruct (links bx) as [t|] eqn:El; [|congruence]. exists bx, t. split; [|exact El].
  apply getb_intro; assumption.
Qed.

Lemma hi_named_live a x kd : 0 < lget h a (x, kd) -> exists bx, nth_error h x = Some bx /\ live bx = true.
Proof. apply (ti_names h (hi_tbl h HH)). Qed.

Lemma hi_entry_lget a ba t x kd c : nth_error h a = Some ba -> links ba = Some t ->
  In ((x, kd), c) t -> 0 < lget h a (x, kd).
Proof.
  intros Hb Hl Hin. unfold lget. rewrite Hb. unfold btable. rewrite Hl.
  apply tbl_get_in_pos.
  - pose proof (ti_wf h (hi_tbl h HH) a ba Hb) as Hw. unfold box_wf, btable in Hw. rewrite Hl in Hw. exact Hw.
  - apply in_map_iff. exists ((x, kd), c). auto.
Qed.

Lemma hi_closed_fwd : closed_fwd h.
Proof.
  intros a ba t x c Hb _ Hl Hin. destruct (hi_named_live a x Fwd) as (bx & Hbx & Hlx).
  - eapply hi_entry_lget; eauto.
  - eapply hi_live_has_table; eauto.
Qed.

Lemma hi_closed_bwd : closed_bwd h.
Proof.
  intros a ba t x c Hb _ Hl Hin. destruct (hi_named_live a x Bwd) as (bx & Hbx & Hlx).
  - eapply hi_entry_lget; eauto.
  - destruct (hi_live_has_table x bx Hbx Hlx) as (b' & t' & Hg & _). exists b'. exact Hg.
Qed.

Lemma hi_linked_live x y : linked h x y -> exists by_, nth_error h y = Some by_ /\ live by_ = true.
Proof.
  pose proof (ti_wf h (hi_tbl h HH)) as Hwf. intros [Hf|Hb].
  - apply (fwd_target_lget h x y Hwf) in Hf. eapply hi_named_live; eauto.
  - apply (bwd_target_lget h x y Hwf) in Hb. eapply hi_named_live; eauto.
Qed.

(** an edge of the adoption graph seen from its target *)
Lemma hi_edge_back x y : edge h x y -> linked h y x.
Proof.
  pose proof (ti_wf h (hi_tbl h HH)) as Hwf. unfold edge. intros Hf. right.
  apply (bwd_target_lget h y x Hwf). rewrite <- (ti_sym h (hi_tbl h HH) x y).
  apply (fwd_target_lget h x y Hwf). exact Hf.
Qed.

Lemma hi_back_edge x y : In y (bwd_targets (tbl_of h x)) -> edge h y x.
Proof.
  pose proof (ti_wf h (hi_tbl h HH)) as Hwf. intros Hb. unfold edge.
  apply (fwd_target_lget h y x Hwf). rewrite (ti_sym h (hi_tbl h HH) y x).
  apply (bwd_target_lget h x y Hwf). exact Hb.
Qed.

End HeapFacts.

Lemma reach_first_edge h a y : reach h a y -> y <> a -> exists z, edge h a z.
Proof.
  induction 1 as [|x y Hr IH He]; intros Hne; [congruence|].
  destruct (Nat.eq_dec x a) as [->|Hx]; [exists y; exact He|]. apply IH. exact Hx.
Qed.

(** ** the decrement *)
Lemma dec_strong_inv s o k b n :
  Inv s (FDropStrong o :: k) -> nth_error (heap_of s) o = Some b -> strong b = Cnt n -> 1 < n ->
  Inv (set_heap s (setb (heap_of s) o (with_strong b (Cnt (n - 1))))) k.
Proof.
  intros HI Hb Hs Hn. set (b' := with_strong b (Cnt (n - 1))).
  assert (Hlive : live b = true) by (unfold live; rewrite Hs; apply N.ltb_lt; lia).
  assert (Hlive' : live b' = true) by (unfold live, b'; cbn [strong with_strong]; apply N.ltb_lt; lia).
  assert (Hlt : (o < length (heap_of s))%nat) by (apply nth_error_Some; congruence).
  assert (Hnth : forall y, nth_error (setb (heap_of s) o b') y = if Nat.eqb o y then Some b' else nth_error (heap_of s) y).
  { intros y. unfold setb. rewrite nth_error_upd. apply Nat.ltb_lt in Hlt. rewrite Hlt. reflexivity. }
  assert (HW : forall f, W f (set_heap s (setb (heap_of s) o b')) k + f (SStrong o) = W f s (FDropStrong o :: k)).
  { intros f. rewrite (W_setb_same_value f s o b b' k Hb eq_refl). rewrite W_cons. reflexivity. }
  assert (Hheld : forall f, w_held f (set_heap s (setb (heap_of s) o b')) = w_held f s).
  { intros f. generalize (W_setb_same_value f s o b b' [] Hb eq_refl). unfold W. cbn [total]. lia. }
  destruct HI as [Hshape Htbl Hcnt Hnd Hin]. split.
  - intros y by' Hy. cbn [heap_of set_heap mk] in Hy. rewrite Hnth in Hy.
    destruct (Nat.eqb_spec o y) as [<-|Hne]; [|apply (Hshape y by' Hy)].
    injection Hy as <-. destruct (Hshape o b Hb) as (S1 & S2 & S3 & S4).
    unfold shape_ok. rewrite Hlive'. cbn [b' value links freed weak with_strong btable].
    repeat split; try (apply S1; exact Hlive); try discriminate.
    + intros E. cbn [strong with_strong] in E. injection E as E. lia.
    + apply S4. + apply S4.
  - cbn [heap_of set_heap mk]. eapply TblInv_same_tables; [|exact Htbl].
    apply same_tables_setb with (b := b); auto.
  - destruct Hcnt as [C1 C2 C3 C4 C5 C6]. split; cbn [heap_of set_heap mk log].
    + intros y by' m Hy Hm. rewrite Hnth in Hy. pose proof (HW (sw_strong y)) as HWy.
      destruct (Nat.eqb_spec o y) as [<-|Hne].
      * injection Hy as <-. cbn [b' strong with_strong] in Hm. injection Hm as <-.
        rewrite sw_strong_self in HWy. pose proof (C1 o b n Hb Hs). lia.
      * rewrite sw_strong_other in HWy by exact Hne. rewrite (C1 y by' m Hy Hm). lia.
    + intros y by' Hy. rewrite Hnth in Hy. pose proof (HW (sw_weak y)) as HWy. rewrite sw_weak_strong in HWy.
      destruct (Nat.eqb_spec o y) as [<-|Hne].
      * injection Hy as <-. pose proof (C2 o b Hb) as E. rewrite n_after_cons, n_fin_cons in E. cbn [f_after f_fin] in E.
        cbn [b' weak with_strong]. unfold liveN in *. rewrite Hlive'. rewrite Hlive in E. lia.
      * pose proof (C2 y by' Hy) as E. rewrite n_after_cons, n_fin_cons in E. cbn [f_after f_fin] in E. lia.
    + intros y by' Hy. rewrite Hnth in Hy. destruct (Nat.eqb_spec o y) as [<-|Hne].
      * injection Hy as <-. pose proof (C3 o b Hb) as E. rewrite n_after_cons in E. cbn [f_after] in E.
        assert (is_dying b' = is_dying b) as -> by (unfold is_dying, b'; cbn [strong with_strong]; rewrite Hs; reflexivity).
        exact E.
      * pose proof (C3 y by' Hy) as E. rewrite n_after_cons in E. cbn [f_after] in E. exact E.
    + intros y by' Hy Hp. rewrite Hnth in Hy. destruct (Nat.eqb_spec o y) as [<-|Hne].
      * injection Hy as <-. destruct (C4 o b Hb) as [E _]; [rewrite n_fin_cons; cbn [f_fin]; lia|congruence].
      * apply (C4 y by' Hy). rewrite n_fin_cons. cbn [f_fin]. lia.
    + intros y Hy. assert (Hy' : nth_error (heap_of s) y = None).
      { apply nth_error_None. apply nth_error_None in Hy. unfold setb in Hy. rewrite upd_length in Hy. exact Hy. }
      destruct (C5 y Hy') as (E1 & E2 & E3 & E4 & E5).
      pose proof (HW (sw_strong y)) as H1. pose proof (HW (sw_weak y)) as H2.
      rewrite n_after_cons in E3. rewrite n_fin_cons in E4. cbn [f_after f_fin] in E3, E4.
      repeat split; try lia; assumption.
    + intros y by' Hy Hp. rewrite Hnth in Hy. destruct (Nat.eqb_spec o y) as [<-|Hne]; [|apply (C6 y by' Hy Hp)].
      pose proof (C6 o b Hb Hp) as E. congruence.
  - intros y Hy. rewrite Hheld in Hy. cbn [heap_of set_heap mk]. rewrite Hnth.
    destruct (Hnd y Hy) as (by_ & Hby & Hl). destruct (Nat.eqb_spec o y) as [<-|Hne].
    + exists b'. auto.
    + exists by_. auto.
  - cbn [heap_of set_heap mk log]. destruct Hin as [_ Hin]. eapply inert_ok_heap; [|exact Hin].
    apply heap_mono_setb with (b := b); auto. intros E. congruence.
Qed.
