(** * The machine invariant (DESIGN Appendix B.2), as a proposition [Inv] and,
    clause by clause, as an executable checker [invb] that the correspondence
    run evaluates on every configuration of every explored history. *)
From CR Require Import Base Atomic Machine LinksFacts HeapFacts Tokens.
Local Open Scope N_scope.

(** ** per box: lifecycle *)
Definition shape_ok (b : box) : Prop :=
  (live b = true -> value b <> None /\ links b <> None /\ freed b = false) /\
  (live b = false -> value b = None /\ btable b = []) /\
  (strong b = Cnt 0 -> links b = None) /\
  (freed b = true <-> weak b = 0).

(** ** tables *)
Definition names_live (h : heap) : Prop :=
  forall a x kd, 0 < lget h a (x, kd) ->
    exists bx, nth_error h x = Some bx /\ live bx = true.

Record TblInv (h : heap) : Prop := {
  ti_wf : heap_wf h;
  ti_sym : symmetric h;
  ti_names : names_live h;
  (* a Loopback record is only ever made by an object for itself *)
  ti_loop : forall a x, 0 < lget h a (x, Loop) -> x = a;
}.

(** ** counters *)
Definition is_dying (b : box) : bool :=
  match strong b, links b with Uninit, Some _ => true | _, _ => false end.

Record CountInv (s : state) (k : list frame) : Prop := {
  (* C06: the strong counter is the number of strong handles *)
  ci_strong : forall o b n, nth_error (heap_of s) o = Some b -> strong b = Cnt n ->
      n = W (sw_strong o) s k;
  (* the weak counter is the number of Weak handles plus the implicit weak, which
     is held while the object is live, or until its pending finish obligation
     runs, or for ever when that obligation was skipped by a panic *)
  ci_weak : forall o b, nth_error (heap_of s) o = Some b ->
      weak b = W (sw_weak o) s k + liveN b + n_after o k + n_fin o k + n_leak o (log s);
  (* exactly one [FAfterValue o] is pending while [o]'s table waits to be dropped *)
  ci_after : forall o b, nth_error (heap_of s) o = Some b ->
      if is_dying b then n_after o k + n_leak o (log s) = 1 else n_after o k = 0;
  ci_fin : forall o b, nth_error (heap_of s) o = Some b -> 0 < n_fin o k ->
      strong b = Uninit /\ links b = None;
  (* no handle and no obligation names an allocation that never existed *)
  ci_range : forall o, nth_error (heap_of s) o = None ->
      W (sw_strong o) s k = 0 /\ W (sw_weak o) s k = 0 /\ n_after o k = 0 /\ n_fin o k = 0 /\
      n_leak o (log s) = 0;
  (* only destroyed objects have leaked obligations *)
  ci_leak : forall o b, nth_error (heap_of s) o = Some b -> 0 < n_leak o (log s) ->
      strong b = Uninit;
}.

(** ** C01: handles held by the program or by values inside boxes target live objects *)
Definition nodangling (s : state) : Prop :=
  forall o, 0 < w_held (sw_strong o) s ->
    exists b, nth_error (heap_of s) o = Some b /\ live b = true.

(** handles owned by frames may target destroyed members of a collected group,
    but then the group's finish obligation is still pending below them (or was
    leaked by a panic), so the allocation has not been released *)
Fixpoint inert_ok (h : heap) (lg : list event) (k : list frame) : Prop :=
  match k with
  | [] => True
  | f :: k' =>
      (forall o, 0 < w_frame (sw_strong o) f ->
         exists b, nth_error h o = Some b /\
           (live b = true \/ (strong b = Uninit /\ 0 < n_fin o k' + n_leak o lg))) /\
      inert_ok h lg k'
  end.

Record Inv (s : state) (k : list frame) : Prop := {
  inv_shape : forall o b, nth_error (heap_of s) o = Some b -> shape_ok b;
  inv_tbl : TblInv (heap_of s);
  inv_cnt : CountInv s k;
  inv_nd : nodangling s;
  inv_inert : inert_ok (heap_of s) (log s) k;
}.

(** ** the hypotheses under which a step preserves [Inv] *)

(** C01's precondition at the moment library drop logic starts: no live object
    records more adoptions of a target than its value holds handles to it *)
Definition disc_at (h : heap) (a : oid) : Prop :=
  forall b p, nth_error h a = Some b -> value b = Some p ->
    forall y, lget h a (y, Fwd) <= total (sw_strong y) (slots p).

Definition disc (h : heap) : Prop := forall a, disc_at h a.

(** ** executable mirror *)
Definition Nall (n : nat) (f : nat -> bool) : bool := forallb f (seq 0 n).

Definition shape_okb (b : box) : bool :=
  (if live b then
     match value b, links b with Some _, Some _ => negb (freed b) | _, _ => false end
   else match value b, btable b with None, [] => true | _, _ => false end) &&
  (match strong b, links b with Cnt 0, Some _ => false | _, _ => true end) &&
  Bool.eqb (freed b) (weak b =? 0).

Fixpoint nodupb (l : list link) : bool :=
  match l with [] => true | x :: l' => negb (existsb (link_eqb x) l') && nodupb l' end.

Definition tbl_wfb (t : table) : bool :=
  nodupb (map fst t) && forallb (fun e => 0 <? snd e) t.

Definition tblinvb (h : heap) : bool :=
  forallb (fun b => tbl_wfb (btable b)) h &&
  Nall (length h) (fun a => Nall (length h) (fun b =>
     lget h a (b, Fwd) =? lget h b (a, Bwd))) &&
  Nall (length h) (fun a =>
     match nth_error h a with
     | Some ba => forallb (fun e =>
         match nth_error h (fst (fst e)) with Some bx => live bx | None => false end &&
         match snd (fst e) with Loop => Nat.eqb (fst (fst e)) a | _ => true end) (btable ba)
     | None => true end).

Definition countinvb (s : state) (k : list frame) : bool :=
  Nall (length (heap_of s)) (fun o =>
    match nth_error (heap_of s) o with
    | None => true
    | Some b =>
        (match strong b with Cnt n => n =? W (sw_strong o) s k | Uninit => true end) &&
        (weak b =? W (sw_weak o) s k + liveN b + n_after o k + n_fin o k + n_leak o (log s)) &&
        (if is_dying b then n_after o k + n_leak o (log s) =? 1 else n_after o k =? 0) &&
        (if 0 <? n_fin o k then
           match strong b, links b with Uninit, None => true | _, _ => false end else true) &&
        (if 0 <? n_leak o (log s) then is_uninit (strong b) else true)
    end).

(** every oid mentioned by a handle or an obligation *)
Definition slot_oids (sl : slot) : list oid :=
  match sl with SStrong o => [o] | SWeak (Some o) => [o] | _ => [] end.
Definition payload_oids (p : payload) : list oid := flat_map slot_oids (slots p).
Definition reg_oids (r : reg) : list oid :=
  match r with RStrong o | RRaw o => [o] | RWeak (Some o) => [o] | RLoose p => payload_oids p | _ => [] end.
Definition frame_oids (f : frame) : list oid :=
  match f with
  | FDropStrong o | FAfterValue o => [o]
  | FDtorStart p | FRunDtor p _ => payload_oids p
  | FDropSlots ss => flat_map slot_oids ss
  | FInners es => flat_map (fun e => payload_oids (snd (fst e))) es
  | FFinishGroup keys => keys
  | _ => []
  end.
Definition all_oids (s : state) (k : list frame) : list oid :=
  flat_map reg_oids (regs s) ++
  flat_map (fun b => match value b with Some p => payload_oids p | None => [] end) (heap_of s) ++
  flat_map frame_oids k ++
  flat_map (fun e => match e with EvLeak o => [o] | _ => [] end) (log s).

Definition rangeb (s : state) (k : list frame) : bool :=
  forallb (fun o => Nat.ltb o (length (heap_of s))) (all_oids s k).

Definition nodanglingb (s : state) : bool :=
  Nall (length (heap_of s)) (fun o =>
    if 0 <? w_held (sw_strong o) s then
      match nth_error (heap_of s) o with Some b => live b | None => false end
    else true).

Fixpoint inert_okb (h : heap) (lg : list event) (k : list frame) : bool :=
  match k with
  | [] => true
  | f :: k' =>
      Nall (length h) (fun o =>
        if 0 <? w_frame (sw_strong o) f then
          match nth_error h o with
          | Some b => live b || (is_uninit (strong b) && (0 <? n_fin o k' + n_leak o lg))
          | None => false
          end
        else true) && inert_okb h lg k'
  end.

(** returns the number of the first violated clause, 0 when all hold *)
Definition invb (s : state) (k : list frame) : nat :=
  if negb (forallb shape_okb (heap_of s)) then 1
  else if negb (tblinvb (heap_of s)) then 2
  else if negb (countinvb s k) then 3
  else if negb (rangeb s k) then 4
  else if negb (nodanglingb s) then 5
  else if negb (inert_okb (heap_of s) (log s) k) then 6
  else 0.

Definition discb (h : heap) : bool :=
  forallb (fun b =>
    match value b with
    | None => true
    | Some p => forallb (fun e =>
        match e with
        | ((y, Fwd), c) => c <=? total (sw_strong y) (slots p)
        | _ => true
        end) (btable b)
    end) h.

(** the script action about to run touches no object that is being destroyed,
    except by the means the properties allow: cloning a handle to it (aborts),
    dropping it, upgrading or counting through a Weak, reading its counters *)
Definition href_self_dead (s : state) (p : payload) (hr : href) : bool :=
  match hr with
  | HSlot OSelf k =>
      match nth_error (slots p) k with
      | Some (SStrong o) =>
          match nth_error (heap_of s) o with Some b => negb (live b) | None => true end
      | _ => false
      end
  | _ => false
  end.

Definition act_safe (s : state) (self : option payload) (a : act) : bool :=
  match self with
  | None => true
  | Some p =>
      match a with
      | ATake OSelf k _ => negb (href_self_dead s p (HSlot OSelf k))
      | AAdopt h1 h2 | AUnadopt h1 h2 =>
          negb (href_self_dead s p h1) && negb (href_self_dead s p h2)
      | ADeref hr => negb (href_self_dead s p hr)
      | _ => true
      end
  end.

(** what the hypotheses ask of one step *)
Definition step_ok (c : config) : bool :=
  match stack c with
  | FDropStrong _ :: _ => discb (heap_of (st c))
  | FRunDtor p (a :: _) :: _ => act_safe (st c) (Some p) a
  | _ => true
  end.
