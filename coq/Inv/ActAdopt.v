(** * Actions that only touch link tables: [Rc::adopt_unchecked] and
    [Rc::unadopt].  Counters, values, registers, stack and log are untouched. *)
From CR Require Import Base Atomic Machine LinksFacts HeapFacts Local Tokens InvDef InvLemmas ActBase ActClone.
Local Open Scope N_scope.

(** ** heaps that differ only in their tables *)
Lemma hsl_back h h' o b' : heap_same_but_links h h' -> nth_error h' o = Some b' ->
  exists b, nth_error h o = Some b /\ same_but_links b b'.
Proof.
  intros [Hlen H] Hb'. destruct (nth_error h o) as [b|] eqn:Hb.
  - destruct (H o b Hb) as (b2 & Hb2 & S). exists b. split; [reflexivity|].
    assert (b2 = b') as <- by congruence. exact S.
  - apply nth_error_None in Hb. assert (Hn : nth_error h' o <> None) by congruence.
    apply nth_error_Some in Hn. lia.
Qed.

Lemma sbl_live b b' : same_but_links b b' -> live b' = live b.
Proof. intros (E & _). unfold live. rewrite E. reflexivity. Qed.

Lemma sbl_dying b b' : same_but_links b b' -> is_dying b' = is_dying b.
Proof.
  intros (E & _ & _ & _ & [L1 L2]). unfold is_dying. rewrite E.
  destruct (links b) as [t|], (links b') as [t'|]; try reflexivity.
  - specialize (L2 eq_refl). discriminate.
  - specialize (L1 eq_refl). discriminate.
Qed.

Lemma sbl_w_box f b b' : same_but_links b b' -> w_box f b' = w_box f b.
Proof. intros (_ & _ & E & _). unfold w_box. rewrite E. reflexivity. Qed.

Lemma total_pointwise {A} (f : A -> N) l l' : length l' = length l ->
  (forall i a a', nth_error l i = Some a -> nth_error l' i = Some a' -> f a' = f a) ->
  total f l' = total f l.
Proof.
  revert l'; induction l as [|a l IH]; intros [|a' l'] Hlen H; cbn [length] in Hlen;
    try discriminate; [reflexivity|].
  cbn [total]. rewrite (H 0%nat a a' eq_refl eq_refl). rewrite (IH l'); [reflexivity|lia|].
  intros i x x' Hx Hx'. apply (H (S i)); assumption.
Qed.

Lemma hsl_total_box f h h' : heap_same_but_links h h' -> total (w_box f) h' = total (w_box f) h.
Proof.
  intros [Hlen Hfw]. apply total_pointwise; [exact Hlen|].
  intros i a a' Ha Ha'. destruct (Hfw i a Ha) as (b2 & Hb2 & S).
  assert (b2 = a') as -> by congruence. apply sbl_w_box; exact S.
Qed.

(** The general transfer lemma: a step that changes nothing but link tables
    (and [talloc]) preserves the invariant as soon as the new tables satisfy
    the table invariant and destroyed objects keep an empty table. *)
Lemma Inv_tables_only s K h' :
  Inv s K ->
  heap_same_but_links (heap_of s) h' ->
  (forall o b', nth_error h' o = Some b' -> live b' = false -> btable b' = []) ->
  TblInv h' ->
  Inv (set_heap s h') K.
Proof.
  intros [Hshape Htbl Hcnt Hnd Hin] Hs Hdead Htbl'.
  pose proof Hs as [Hlen Hfw].
  assert (Hheld : forall f, w_held f (set_heap s h') = w_held f s).
  { intros f. unfold w_held. cbn [regs heap_of set_heap mk].
    rewrite (hsl_total_box f _ _ Hs). reflexivity. }
  assert (HW : forall f, W f (set_heap s h') K = W f s K).
  { intros f. unfold W. rewrite Hheld. reflexivity. }
  split; cbn [heap_of set_heap mk log].
  - (* shape *)
    intros o b' Hb'. destruct (hsl_back _ _ _ _ Hs Hb') as (b & Hb & S).
    pose proof (Hshape o b Hb) as (S1 & S2 & S3 & S4).
    pose proof (sbl_live _ _ S) as Hl. destruct S as (E1 & E2 & E3 & E4 & E5).
    split; [|split; [|split]].
    + intros L. rewrite Hl in L. destruct (S1 L) as (V & Lk & F). rewrite E3, E4.
      split; [exact V|split; [|exact F]]. intros C. apply Lk. apply E5. exact C.
    + intros L. split; [|apply (Hdead o b' Hb' L)]. rewrite E3. apply S2. rewrite <- Hl. exact L.
    + intros C. apply E5. apply S3. rewrite <- E1. exact C.
    + rewrite E4, E2. exact S4.
  - exact Htbl'.
  - (* counters *)
    destruct Hcnt as [C1 C2 C3 C4 C5 C6]. split; cbn [heap_of set_heap mk log].
    + intros o b' n Hb' Hn. rewrite HW. destruct (hsl_back _ _ _ _ Hs Hb') as (b & Hb & S).
      apply (C1 o b n Hb). destruct S as (E1 & _). rewrite <- E1. exact Hn.
    + intros o b' Hb'. rewrite HW. destruct (hsl_back _ _ _ _ Hs Hb') as (b & Hb & S).
      assert (liveN b' = liveN b) as -> by (unfold liveN; rewrite (sbl_live _ _ S); reflexivity).
      destruct S as (_ & E2 & _). rewrite E2. apply (C2 o b Hb).
    + intros o b' Hb'. destruct (hsl_back _ _ _ _ Hs Hb') as (b & Hb & S).
      rewrite (sbl_dying _ _ S). apply (C3 o b Hb).
    + intros o b' Hb' Hp. destruct (hsl_back _ _ _ _ Hs Hb') as (b & Hb & S).
      destruct (C4 o b Hb Hp) as [U Lk]. destruct S as (E1 & _ & _ & _ & E5).
      split; [congruence|]. apply E5. exact Lk.
    + intros o Ho. rewrite !HW. apply C5. apply nth_error_None. apply nth_error_None in Ho. lia.
    + intros o b' Hb' Hp. destruct (hsl_back _ _ _ _ Hs Hb') as (b & Hb & S).
      destruct S as (E1 & _). rewrite E1. apply (C6 o b Hb Hp).
  - (* no dangling handle *)
    intros o Ho. rewrite Hheld in Ho. destruct (Hnd o Ho) as (b & Hb & L).
    destruct (Hfw o b Hb) as (b' & Hb' & S). exists b'. split; [exact Hb'|].
    rewrite (sbl_live _ _ S). exact L.
  - (* frames *)
    eapply inert_ok_heap; [|exact Hin]. intros o b Hb.
    destruct (Hfw o b Hb) as (b' & Hb' & S). exists b'. split; [exact Hb'|]. split.
    + intros L. rewrite (sbl_live _ _ S). exact L.
    + intros U. destruct S as (E1 & _). congruence.
Qed.

(** the form used for adopt / unadopt: the new tables are well formed and
    symmetric, and every record is either old or connects two live objects *)
Definition livein (h : heap) (o : oid) : Prop :=
  exists b, nth_error h o = Some b /\ live b = true.

Lemma Inv_links_only s K h' :
  Inv s K ->
  heap_same_but_links (heap_of s) h' -> heap_wf h' -> symmetric h' ->
  (forall y x kd, 0 < lget h' y (x, kd) ->
     0 < lget (heap_of s) y (x, kd) \/ (livein (heap_of s) y /\ livein (heap_of s) x)) ->
  (forall y x, 0 < lget h' y (x, Loop) -> 0 < lget (heap_of s) y (x, Loop) \/ x = y) ->
  Inv (set_heap s h') K.
Proof.
  intros HI Hs Hwf Hsym Hnew Hloop. pose proof Hs as [Hlen Hfw].
  assert (Hboth : forall y x kd, 0 < lget h' y (x, kd) ->
            livein (heap_of s) y /\ livein (heap_of s) x).
  { intros y x kd Hp. destruct (Hnew y x kd Hp) as [Hold|Hl]; [|exact Hl]. split.
    - unfold lget in Hold. destruct (nth_error (heap_of s) y) as [b|] eqn:Hb; [|lia].
      exists b. split; [exact Hb|]. destruct (live b) eqn:L; [reflexivity|].
      destruct (inv_shape s K HI y b Hb) as (_ & S2 & _). destruct (S2 L) as [_ Ht].
      rewrite Ht in Hold. cbn [tbl_get] in Hold. lia.
    - apply (ti_names _ (inv_tbl s K HI) y x kd Hold). }
  assert (Hlive' : forall x, livein (heap_of s) x -> livein h' x).
  { intros x (b & Hb & L). destruct (Hfw x b Hb) as (b' & Hb' & S). exists b'.
    split; [exact Hb'|]. rewrite (sbl_live _ _ S). exact L. }
  apply Inv_tables_only; [exact HI|exact Hs| |].
  - intros o b' Hb' L. apply tbl_empty_iff; [apply (Hwf o b' Hb')|]. intros [x kd].
    destruct (N.eq_dec (tbl_get (btable b') (x, kd)) 0) as [E|E]; [exact E|]. exfalso.
    assert (Hp : 0 < lget h' o (x, kd)) by (unfold lget; rewrite Hb'; lia).
    destruct (Hboth o x kd Hp) as [Ho _]. destruct (Hlive' o Ho) as (b2 & Hb2 & L2). congruence.
  - split; [exact Hwf|exact Hsym| |].
    + intros a x kd Hp. destruct (Hboth a x kd Hp) as [_ Hx]. apply Hlive'. exact Hx.
    + intros a x Hp. destruct (Hloop a x Hp) as [Hold|E]; [|exact E].
      apply (ti_loop _ (inv_tbl s K HI) a x Hold).
Qed.

(** special case: records are only removed or decremented *)
Lemma Inv_links_shrink s K h' :
  Inv s K ->
  heap_same_but_links (heap_of s) h' -> heap_wf h' -> symmetric h' ->
  (forall y l, lget h' y l <= lget (heap_of s) y l) ->
  Inv (set_heap s h') K.
Proof.
  intros HI Hs Hwf Hsym Hle. apply Inv_links_only; [exact HI|exact Hs|exact Hwf|exact Hsym| |].
  - intros y x kd Hp. left. specialize (Hle y (x, kd)). lia.
  - intros y x Hp. left. specialize (Hle y (x, Loop)). lia.
Qed.

(** ** resolved references *)

(** the handle stored at a location *)
Definition loc_target (s : state) (self : option payload) (l : hloc) : option oid :=
  match l with
  | LReg r => match reg_get s r with RStrong o => Some o | _ => None end
  | LObj x i =>
      match nth_error (heap_of s) x with
      | Some b =>
          match value b with
          | Some p => match nth_error (slots p) i with Some (SStrong o) => Some o | _ => None end
          | None => None
          end
      | None => None
      end
  | LSelf i =>
      match self with
      | Some p => match nth_error (slots p) i with Some (SStrong o) => Some o | _ => None end
      | None => None
      end
  end.

(* [resolve_owner_spec] without the invariant *)
Lemma resolve_owner_inv s self w ow : resolve_owner s self w = Some ow ->
  match ow with
  | WSelf p => self = Some p
  | WBox o p => exists b, nth_error (heap_of s) o = Some b /\ value b = Some p
  end.
Proof.
  unfold resolve_owner. destruct w as [r|].
  - destruct (reg_get s r) as [o| | | |] eqn:Er; try discriminate.
    destruct (nth_error (heap_of s) o) as [b|] eqn:Eb; [|discriminate].
    destruct (value b) as [p|] eqn:Ev; [|discriminate].
    intros H; injection H as <-. exists b. auto.
  - destruct self as [p|]; [|discriminate]. intros H; injection H as <-. reflexivity.
Qed.

Lemma resolve_strong_loc s self hr o l :
  resolve_strong s self hr = Some (o, l) -> loc_target s self l = Some o.
Proof.
  unfold resolve_strong. destruct hr as [r|w i].
  - destruct (reg_get s r) as [x| | | |] eqn:Er; try discriminate.
    intros H; injection H as <- <-. cbn [loc_target]. rewrite Er. reflexivity.
  - unfold resolve_slot. destruct (resolve_owner s self w) as [ow|] eqn:Eo; [|discriminate].
    destruct (nth_error (slots (owner_payload ow)) i) as [sl|] eqn:Es; [|discriminate].
    destruct sl as [x| |]; try discriminate. intros H; injection H as <- <-.
    apply resolve_owner_inv in Eo. destruct ow as [o' p|p]; cbn [owner_payload] in Es; cbn [owner_loc loc_target].
    + destruct Eo as (b' & Hb' & Hv). rewrite Hb', Hv, Es. reflexivity.
    + rewrite Eo, Es. reflexivity.
Qed.

Lemma hloc_eqb_eq l1 l2 : hloc_eqb l1 l2 = true -> l1 = l2.
Proof.
  destruct l1 as [r|o i|i], l2 as [r'|o' i'|i']; cbn [hloc_eqb]; try discriminate.
  - intros H. apply Nat.eqb_eq in H. congruence.
  - intros H. apply andb_true_iff in H as [H1 H2]. apply Nat.eqb_eq in H1, H2. congruence.
  - intros H. apply Nat.eqb_eq in H. congruence.
Qed.

(** [ptr::eq] on two handle objects: the same handle points to one allocation *)
Lemma same_handle_same_target s self h1 h2 a b l1 l2 :
  resolve_strong s self h1 = Some (a, l1) -> resolve_strong s self h2 = Some (b, l2) ->
  hloc_eqb l1 l2 = true -> a = b.
Proof.
  intros E1 E2 H. apply hloc_eqb_eq in H. subst l2.
  apply resolve_strong_loc in E1, E2. congruence.
Qed.

(** with [act_safe], both references of adopt/unadopt denote live objects *)
Lemma resolve_live s self pc k hr o l :
  Inv s (ctx self pc k) -> resolve_strong s self hr = Some (o, l) ->
  (forall p, self = Some p -> href_self_dead s p hr = false) ->
  exists b t, getb (heap_of s) o = Ok b /\ live b = true /\ links b = Some t.
Proof.
  intros HI Er Hsafe. destruct (resolve_strong_ok s self pc k HI hr o l Er) as (b & Hg & Hc).
  destruct Hc as [L|(_ & p & Hp & Hd)].
  - pose proof Hg as Hg'. apply getb_ok in Hg' as [Hn _].
    destruct (inv_shape _ _ HI o b Hn) as (S1 & _). destruct (S1 L) as (_ & Lk & _).
    destruct (links b) as [t|] eqn:Et; [|congruence]. exists b, t. auto.
  - rewrite (Hsafe p Hp) in Hd. discriminate.
Qed.

Lemma safe_two s self h1 h2 :
  match self with
  | None => true
  | Some p => negb (href_self_dead s p h1) && negb (href_self_dead s p h2)
  end = true ->
  (forall p, self = Some p -> href_self_dead s p h1 = false) /\
  (forall p, self = Some p -> href_self_dead s p h2 = false).
Proof.
  destruct self as [p|]; intros H.
  - apply andb_true_iff in H as [H1 H2]. apply negb_true_iff in H1, H2.
    split; intros q Hq; injection Hq as <-; assumption.
  - split; intros q Hq; discriminate.
Qed.

(** ** the calls do not fault on live objects *)
Lemma links_insert_live h o b t l : getb h o = Ok b -> links b = Some t ->
  exists h', links_insert h o l = Ok h'.
Proof. unfold links_insert, bind. intros -> ->. eauto. Qed.

Lemma links_remove_live h o b t l n : getb h o = Ok b -> links b = Some t ->
  exists h', links_remove h o l n = Ok h'.
Proof.
  unfold links_remove, get_links, set_links, bind. intros -> ->. eauto.
Qed.

Lemma hsl_getb h h' o b t : heap_same_but_links h h' -> getb h o = Ok b -> links b = Some t ->
  exists b' t', getb h' o = Ok b' /\ links b' = Some t'.
Proof.
  intros [_ H] G Hl. apply getb_ok in G as [Gn Gf]. destruct (H o b Gn) as (b' & Hb' & S).
  destruct S as (_ & _ & _ & F & [L1 L2]).
  destruct (links b') as [t'|] eqn:Et.
  - exists b', t'. split; [|exact Et]. apply getb_intro; congruence.
  - specialize (L2 eq_refl). congruence.
Qed.

Lemma adopt_ok h same a b ba ta bb tb :
  getb h a = Ok ba -> links ba = Some ta -> getb h b = Ok bb -> links bb = Some tb ->
  exists h', adopt h same a b = Ok h'.
Proof.
  intros Ga La Gb Lb. unfold adopt, bind. destruct same.
  - eapply links_insert_live; eauto.
  - destruct (links_insert_live h a ba ta (b, Fwd) Ga La) as [h1 E1]. rewrite E1.
    destruct (links_insert_spec _ _ _ _ E1) as [_ S].
    destruct (hsl_getb _ _ _ _ _ S Gb Lb) as (bb' & tb' & G' & L').
    eapply links_insert_live; eauto.
Qed.

Lemma unadopt_ok h same a b ba ta bb tb : heap_wf h ->
  getb h a = Ok ba -> links ba = Some ta -> getb h b = Ok bb -> links bb = Some tb ->
  exists h', unadopt h same a b = Ok h'.
Proof.
  intros Hwf Ga La Gb Lb. unfold unadopt, bind. destruct same.
  - eapply links_remove_live; eauto.
  - destruct (links_remove_live h a ba ta (b, Fwd) 1 Ga La) as [h1 E1]. rewrite E1.
    destruct (links_remove_spec _ _ _ _ _ Hwf E1) as (_ & S & _).
    destruct (hsl_getb _ _ _ _ _ S Gb Lb) as (bb' & tb' & G' & L').
    eapply links_remove_live; eauto.
Qed.

(** ** what the two calls do to the recorded counts *)

(** every record written by [adopt] connects the two targets *)
Lemma adopt_new_entries h same a b h' : adopt h same a b = Ok h' -> (same = true -> a = b) ->
  heap_same_but_links h h' /\
  forall y x kd, 0 < lget h' y (x, kd) ->
    0 < lget h y (x, kd) \/ ((y = a \/ y = b) /\ (x = a \/ x = b)).
Proof.
  intros H Hsame. destruct same.
  - specialize (Hsame eq_refl); subst b. destruct (adopt_same_handle_spec _ _ _ H) as (S & P).
    split; [exact P|]. intros y x kd Hp. rewrite S in Hp.
    destruct (Nat.eqb y a && link_eqb (x, kd) (a, Loop)) eqn:C.
    + apply andb_true_iff in C as [C1 C2]. apply Nat.eqb_eq in C1. apply link_eqb_eq in C2.
      injection C2 as -> _. right. auto.
    + left. lia.
  - destruct (adopt_spec _ _ _ _ H) as (S & P). split; [exact P|]. intros y x kd Hp. rewrite S in Hp.
    destruct (Nat.eqb y a && link_eqb (x, kd) (b, Fwd)) eqn:C.
    + apply andb_true_iff in C as [C1 C2]. apply Nat.eqb_eq in C1. apply link_eqb_eq in C2.
      injection C2 as -> _. right. auto.
    + destruct (Nat.eqb y b && link_eqb (x, kd) (a, Bwd)) eqn:C'.
      * apply andb_true_iff in C' as [C1 C2]. apply Nat.eqb_eq in C1. apply link_eqb_eq in C2.
        injection C2 as -> _. right. auto.
      * left. lia.
Qed.

Lemma adopt_loop h same a b h' : adopt h same a b = Ok h' -> (same = true -> a = b) ->
  forall y x, 0 < lget h' y (x, Loop) -> 0 < lget h y (x, Loop) \/ x = y.
Proof.
  intros H Hsame y x Hp. destruct same.
  - specialize (Hsame eq_refl); subst b. destruct (adopt_same_handle_spec _ _ _ H) as (S & P).
    rewrite S in Hp. destruct (Nat.eqb y a && link_eqb (x, Loop) (a, Loop)) eqn:C.
    + apply andb_true_iff in C as [C1 C2]. apply Nat.eqb_eq in C1. apply link_eqb_eq in C2.
      injection C2 as ->. right. auto.
    + left. lia.
  - destruct (adopt_spec _ _ _ _ H) as (S & P). rewrite S in Hp.
    assert (link_eqb (x, Loop) (b, Fwd) = false) as E1 by (apply link_eqb_neq; congruence).
    assert (link_eqb (x, Loop) (a, Bwd) = false) as E2 by (apply link_eqb_neq; congruence).
    rewrite E1, E2, !andb_false_r in Hp. left. lia.
Qed.

Lemma links_remove_le h o l n h' : heap_wf h -> links_remove h o l n = Ok h' ->
  (forall y l', lget h' y l' <= lget h y l') /\ heap_same_but_links h h' /\ heap_wf h'.
Proof.
  intros Hwf H. destruct (links_remove_spec _ _ _ _ _ Hwf H) as (S & P & W).
  split; [|split; assumption]. intros y l'. rewrite S.
  destruct (Nat.eqb y o && link_eqb l' l) eqn:C; [|lia].
  apply andb_true_iff in C as [C1 C2]. apply Nat.eqb_eq in C1. apply link_eqb_eq in C2. subst. lia.
Qed.

(** [unadopt] only shrinks recorded counts *)
Lemma unadopt_le h same a b h' : heap_wf h -> unadopt h same a b = Ok h' ->
  (forall y l, lget h' y l <= lget h y l) /\ heap_same_but_links h h' /\ heap_wf h'.
Proof.
  intros Hwf. unfold unadopt, bind. destruct same.
  - apply links_remove_le; exact Hwf.
  - destruct (links_remove h a (b, Fwd) 1) as [h1|] eqn:E1; [|discriminate]. intros E2.
    destruct (links_remove_le _ _ _ _ _ Hwf E1) as (S1 & P1 & W1).
    destruct (links_remove_le _ _ _ _ _ W1 E2) as (S2 & P2 & W2).
    split; [|split; [eapply heap_same_but_links_trans; eauto|exact W2]].
    intros y l. specialize (S1 y l). specialize (S2 y l). lia.
Qed.

(** [unadopt] keeps the recorded graph symmetric: both ends carry the same
    count, so truncated subtraction acts on both alike; a Loopback record has no
    mirror.  This holds whether or not [a = b]. *)
Lemma unadopt_symmetric h same a b h' : heap_wf h -> symmetric h ->
  unadopt h same a b = Ok h' -> symmetric h'.
Proof.
  intros Hwf Hs H x y. destruct same.
  - unfold unadopt in H. destruct (links_remove_spec _ _ _ _ _ Hwf H) as (S & _ & _). rewrite !S.
    assert (link_eqb (y, Fwd) (b, Loop) = false) as -> by (apply link_eqb_neq; congruence).
    assert (link_eqb (x, Bwd) (b, Loop) = false) as -> by (apply link_eqb_neq; congruence).
    rewrite !andb_false_r. apply Hs.
  - destruct (unadopt_spec _ _ _ _ Hwf H) as (S & _ & _). rewrite !S.
    unfold link_eqb. cbn [fst snd kind_eqb]. rewrite ?andb_false_r, ?andb_true_r. cbv iota.
    destruct (Nat.eqb_spec x a) as [->|Hx], (Nat.eqb_spec y b) as [->|Hy]; cbn [andb];
      rewrite ?Hs; reflexivity.
Qed.

(** ** the actions *)

(** [Rc::adopt_unchecked(this, other)] on two handles to live objects never
    faults and preserves every clause of the invariant: no counter, value or
    handle changes; the new records (Forward in [this], Backward in [other], or
    one Loopback when both arguments are the same handle object) connect live
    objects and keep the recorded graph symmetric. *)
Theorem act_adopt h1 h2 : act_preserves (AAdopt h1 h2).
Proof.
  intros s self pc k HI Hsafe. cbn [exec_act].
  destruct (resolve_strong s self h1) as [[a l1]|] eqn:E1; [|apply act_invalid; exact HI].
  destruct (resolve_strong s self h2) as [[b l2]|] eqn:E2; [|apply act_invalid; exact HI].
  unfold act_safe in Hsafe. apply safe_two in Hsafe as [Hs1 Hs2].
  destruct (resolve_live s self pc k h1 a l1 HI E1 Hs1) as (ba & ta & Ga & La & Ta).
  destruct (resolve_live s self pc k h2 b l2 HI E2 Hs2) as (bb & tb & Gb & Lb & Tb).
  destruct (adopt_ok (heap_of s) (hloc_eqb l1 l2) a b ba ta bb tb Ga Ta Gb Tb) as [h' E].
  unfold lift. rewrite E. cbn [act_post app]. split; [tauto|].
  assert (Hsame : hloc_eqb l1 l2 = true -> a = b).
  { apply (same_handle_same_target s self h1 h2); assumption. }
  destruct (adopt_new_entries _ _ _ _ _ E Hsame) as (P & Hnew).
  pose proof (inv_tbl _ _ HI) as [Twf Tsym Tnm Tlp].
  apply getb_ok in Ga as [Na _]. apply getb_ok in Gb as [Nb _].
  assert (Hla : livein (heap_of s) a) by (exists ba; auto).
  assert (Hlb : livein (heap_of s) b) by (exists bb; auto).
  apply Inv_links_only; [exact HI|exact P| | | |].
  - apply (adopt_wf _ _ _ _ _ Twf E).
  - apply (adopt_symmetric _ _ _ _ _ Tsym E Hsame).
  - intros y x kd Hp. destruct (Hnew y x kd Hp) as [Hold|[Hy Hx]]; [left; exact Hold|right].
    split; [destruct Hy as [-> | ->]|destruct Hx as [-> | ->]]; assumption.
  - apply (adopt_loop _ _ _ _ _ E Hsame).
Qed.

(** [Rc::unadopt(this, other)] on two handles to live objects never faults and
    preserves every clause of the invariant: at most one record is removed at
    each end (truncated subtraction), symmetrically; nothing else changes. *)
Theorem act_unadopt h1 h2 : act_preserves (AUnadopt h1 h2).
Proof.
  intros s self pc k HI Hsafe. cbn [exec_act].
  destruct (resolve_strong s self h1) as [[a l1]|] eqn:E1; [|apply act_invalid; exact HI].
  destruct (resolve_strong s self h2) as [[b l2]|] eqn:E2; [|apply act_invalid; exact HI].
  unfold act_safe in Hsafe. apply safe_two in Hsafe as [Hs1 Hs2].
  destruct (resolve_live s self pc k h1 a l1 HI E1 Hs1) as (ba & ta & Ga & La & Ta).
  destruct (resolve_live s self pc k h2 b l2 HI E2 Hs2) as (bb & tb & Gb & Lb & Tb).
  pose proof (inv_tbl _ _ HI) as [Twf Tsym Tnm Tlp].
  destruct (unadopt_ok (heap_of s) (hloc_eqb l1 l2) a b ba ta bb tb Twf Ga Ta Gb Tb) as [h' E].
  unfold lift. rewrite E. cbn [act_post app]. split; [tauto|].
  destruct (unadopt_le _ _ _ _ _ Twf E) as (Hle & P & W).
  apply Inv_links_shrink; [exact HI|exact P|exact W| |exact Hle].
  apply (unadopt_symmetric _ _ _ _ _ Twf Tsym E).
Qed.

Print Assumptions Inv_tables_only.
Print Assumptions act_adopt.
Print Assumptions act_unadopt.
