(** * GroupOps: the three phases of [drop_cycle] (drop.rs) as list functions.

    Specifications of the atomic functions used by the group case of
    [drop_strong]: the choice oracle [order_cycle], the orphan test
    [orphaned_cycle] / [has_external], and phases one and two of the teardown
    ([bust_all], [gather]).  Everything here is about plain lists; the global
    invariant is not used. *)
From CR Require Import Base Atomic Machine LinksFacts HeapFacts TraceFacts Tokens InvDef InvLemmas.
From Coq Require Import Permutation.
Local Open Scope N_scope.

(** ** generic list helpers *)
Lemma NoDup_app_intro {A} (l1 l2 : list A) :
  NoDup l1 -> NoDup l2 -> (forall x, In x l1 -> In x l2 -> False) -> NoDup (l1 ++ l2).
Proof.
  induction l1 as [|a l1 IH]; cbn [app]; intros H1 H2 Hd; [exact H2|].
  inversion H1 as [|? ? Ha H1']; subst. constructor.
  - intros Hin. apply in_app_or in Hin as [Hin|Hin]; [contradiction|].
    apply (Hd a); [now left|exact Hin].
  - apply IH; [exact H1'|exact H2|]. intros x Hx. apply Hd. now right.
Qed.

Lemma NoDup_map_filter {A B} (g : A -> B) (f : A -> bool) l :
  NoDup (map g l) -> NoDup (map g (filter f l)).
Proof.
  induction l as [|a l IH]; cbn [map filter]; intros H; [constructor|].
  inversion H as [|? ? Ha H']; subst. destruct (f a); cbn [map]; [|apply IH; exact H'].
  constructor; [|apply IH; exact H'].
  intros Hin. apply Ha. apply in_map_iff in Hin as (x & Hx & Hin).
  apply filter_In in Hin as [Hin _]. apply in_map_iff. exists x. split; assumption.
Qed.

Lemma Forall2_impl_l {A B} (P Q : A -> B -> Prop) l l' :
  (forall a b, In a l -> P a b -> Q a b) -> Forall2 P l l' -> Forall2 Q l l'.
Proof.
  intros H F. induction F as [|a b l l' Hab F IH]; constructor.
  - apply H; [now left|exact Hab].
  - apply IH. intros a' b' Hin. apply H. now right.
Qed.

(** ** 1. the choice oracle *)

(** [dedup] keeps the first occurrence of every element *)
Lemma dedup_In l y : In y (dedup l) <-> In y l.
Proof.
  induction l as [|x l IH]; cbn [dedup In]; [tauto|].
  rewrite filter_In, IH, negb_true_iff, Nat.eqb_neq.
  destruct (Nat.eq_dec x y) as [E|Hne]; intuition congruence.
Qed.

Lemma dedup_NoDup l : NoDup (dedup l).
Proof.
  induction l as [|x l IH]; cbn [dedup]; constructor.
  - rewrite filter_In, Nat.eqb_refl. cbn [negb]. intros [_ H]; discriminate.
  - apply NoDup_filter; exact IH.
Qed.

(** a map with distinct keys is read back entry by entry *)
Lemma own_get_in cyc k c : NoDup (map fst cyc) -> In (k, c) cyc -> own_get cyc k = c.
Proof.
  induction cyc as [|[k' c'] cyc IH]; cbn [map fst own_get]; intros Hnd Hin; [destruct Hin|].
  inversion Hnd as [|? ? Hn Hnd']; subst.
  destruct Hin as [E|Hin].
  - injection E as -> ->. rewrite Nat.eqb_refl. reflexivity.
  - destruct (Nat.eqb_spec k k') as [->|Hne]; [|apply IH; assumption].
    exfalso. apply Hn. apply in_map_iff. exists (k', c). split; [reflexivity|exact Hin].
Qed.

Lemma own_get_notin cyc k : ~ In k (map fst cyc) -> own_get cyc k = 0.
Proof.
  induction cyc as [|[k' c'] cyc IH]; cbn [map fst own_get In]; intros H; [reflexivity|].
  destruct (Nat.eqb_spec k k') as [->|Hne]; [exfalso; apply H; now left|].
  apply IH. intros Hin. apply H. now right.
Qed.

Lemma order_cycle_keys pri cyc :
  map fst (order_cycle pri cyc) =
  filter (fun x => memb x (map fst cyc)) (dedup pri)
  ++ map fst (filter (fun e => negb (memb (fst e) pri)) cyc).
Proof.
  unfold order_cycle. rewrite map_app, map_map. cbn [fst]. rewrite map_id. reflexivity.
Qed.

(** The iteration order of the [HashMap] returned by [cycle_refs] is chosen by
    the oracle [pri]; whatever it says, the teardown works on exactly the
    members found by the trace, each once, each with the owned-reference count
    the trace computed for it. *)
Lemma order_cycle_spec pri cyc : NoDup (map fst cyc) ->
  let cyc' := order_cycle pri cyc in
  NoDup (map fst cyc') /\
  (forall y, In y (map fst cyc') <-> In y (map fst cyc)) /\
  (forall k c, In (k, c) cyc' -> c = own_get cyc k).
Proof.
  intros Hnd cyc'. subst cyc'. rewrite order_cycle_keys. split; [|split].
  - apply NoDup_app_intro.
    + apply NoDup_filter, dedup_NoDup.
    + apply NoDup_map_filter; exact Hnd.
    + intros x H1 H2. apply filter_In in H1 as [H1 _]. apply (proj1 (dedup_In _ _)) in H1.
      apply in_map_iff in H2 as (e & <- & He). apply filter_In in He as [_ He].
      apply negb_true_iff in He. apply memb_false in He. contradiction.
  - intros y. rewrite in_app_iff, filter_In, dedup_In, memb_In. split.
    + intros [[_ H]|H]; [exact H|]. apply in_map_iff in H as (e & <- & He).
      apply filter_In in He as [He _]. apply in_map. exact He.
    + intros H. destruct (memb y pri) eqn:E.
      * left. split; [apply memb_In; exact E|exact H].
      * right. apply in_map_iff in H as (e & <- & He). apply in_map.
        apply filter_In. split; [exact He|]. apply negb_true_iff. exact E.
  - intros k c H. unfold order_cycle in H. apply in_app_or in H as [H|H].
    + apply in_map_iff in H as (x & E & _). injection E as <- <-. reflexivity.
    + apply filter_In in H as [H _]. symmetry. apply own_get_in; assumption.
Qed.

(** the reordered map is read back like the original one *)
Lemma order_cycle_get pri cyc k : NoDup (map fst cyc) ->
  own_get (order_cycle pri cyc) k = own_get cyc k.
Proof.
  intros Hnd. destruct (order_cycle_spec pri cyc Hnd) as (Hnd' & Hmem & Hval).
  destruct (in_dec Nat.eq_dec k (map fst (order_cycle pri cyc))) as [Hin|Hnin].
  - apply in_map_iff in Hin as ([k' c] & E & Hin). cbn [fst] in E. subst k'.
    rewrite (own_get_in _ _ _ Hnd' Hin). apply Hval. exact Hin.
  - rewrite own_get_notin by exact Hnin. symmetry. apply own_get_notin.
    intros Hin. apply Hnin. apply Hmem. exact Hin.
Qed.

(** ** 2. the orphan test *)

(** [item.strong() > cycle_owned_refs] is false: the counter is a real number
    (not the [usize::MAX] marker) and does not exceed the owned count *)
Lemma sgt_false s c : sgt s c = false -> exists n, s = Cnt n /\ n <= c.
Proof.
  destruct s as [n|]; cbn [sgt]; [|discriminate]. intros H.
  exists n. split; [reflexivity|]. apply N.ltb_ge. exact H.
Qed.

(** [cycle.iter().any(..)] returned false: it looked at every member, every
    member's box was readable, and none had an external owner *)
Lemma has_external_false h own : has_external h own = Ok false ->
  forall k c, In (k, c) own -> exists b, getb h k = Ok b /\ sgt (strong b) c = false.
Proof.
  induction own as [|[k' c'] own IH]; cbn [has_external]; intros H k c Hin; [destruct Hin|].
  unfold bind in H. destruct (getb h k') as [b|e] eqn:G; [|discriminate].
  destruct (sgt (strong b) c') eqn:S; [discriminate|].
  destruct Hin as [E|Hin].
  - injection E as <- <-. exists b. split; [exact G|exact S].
  - apply IH; assumption.
Qed.

(** [has_external] says true only because of some member it could read *)
Lemma has_external_true h own : has_external h own = Ok true ->
  exists k c b, In (k, c) own /\ getb h k = Ok b /\ sgt (strong b) c = true.
Proof.
  induction own as [|[k' c'] own IH]; cbn [has_external]; intros H; [discriminate|].
  unfold bind in H. destruct (getb h k') as [b|e] eqn:G; [|discriminate].
  destruct (sgt (strong b) c') eqn:S.
  - exists k', c', b. split; [now left|]. split; [exact G|exact S].
  - destruct (IH H) as (k & c & b' & Hin & Hg & Hs). exists k, c, b'.
    split; [now right|]. split; [exact Hg|exact Hs].
Qed.

(** [Rc::orphaned_cycle] returns [Some(cycle)]: the trace returned a non-empty
    map and no member of it has an owner outside the map *)
Lemma orphaned_cycle_some h o cyc pops visits :
  orphaned_cycle h o = Ok (Some cyc, pops, visits) ->
  cycle_refs h o = Ok (cyc, pops, visits) /\ cyc <> [] /\ has_external h cyc = Ok false.
Proof.
  unfold orphaned_cycle, bind.
  destruct (cycle_refs h o) as [[[own p] v]|e] eqn:E; [|discriminate].
  destruct own as [|x own]; [discriminate|].
  destruct (has_external h (x :: own)) as [ext|e] eqn:X; [|discriminate].
  destruct ext; [discriminate|]. intros H; injection H as <- <- <-.
  split; [reflexivity|]. split; [discriminate|exact X].
Qed.

(** [Rc::orphaned_cycle] returns [None]: the trace found nothing, or some
    member is still owned from outside *)
Lemma orphaned_cycle_none_or_some h o p v :
  orphaned_cycle h o = Ok (None, p, v) ->
  exists own, cycle_refs h o = Ok (own, p, v) /\ (own = [] \/ has_external h own = Ok true).
Proof.
  unfold orphaned_cycle, bind.
  destruct (cycle_refs h o) as [[[own p'] v']|e] eqn:E; [|discriminate].
  destruct own as [|x own].
  - intros H; injection H as <- <-. exists []. split; [reflexivity|now left].
  - destruct (has_external h (x :: own)) as [ext|e] eqn:X; [|discriminate].
    destruct ext; [|discriminate]. intros H; injection H as <- <-.
    exists (x :: own). split; [reflexivity|now right].
Qed.

(** the result is one of the two, and the counters are the trace's *)
Lemma orphaned_cycle_cases h o oc p v :
  orphaned_cycle h o = Ok (oc, p, v) ->
  exists own, cycle_refs h o = Ok (own, p, v) /\
    ((oc = None /\ (own = [] \/ has_external h own = Ok true)) \/
     (oc = Some own /\ own <> [] /\ has_external h own = Ok false)).
Proof.
  intros H. destruct oc as [cyc|].
  - apply orphaned_cycle_some in H as (H1 & H2 & H3). exists cyc. split; [exact H1|]. right. auto.
  - apply orphaned_cycle_none_or_some in H as (own & H1 & H2). exists own. split; [exact H1|]. left. auto.
Qed.

(** every entry of the reordered map is an entry of the trace's map *)
Lemma order_cycle_In pri cyc k c : NoDup (map fst cyc) ->
  In (k, c) (order_cycle pri cyc) -> In (k, c) cyc.
Proof.
  intros Hnd Hin. destruct (order_cycle_spec pri cyc Hnd) as (_ & Hmem & Hval).
  assert (Hk : In k (map fst cyc)).
  { apply Hmem. apply in_map_iff. exists (k, c). split; [reflexivity|exact Hin]. }
  apply in_map_iff in Hk as ([k' c0] & E & Hin0). cbn [fst] in E. subst k'.
  rewrite (Hval k c Hin), (own_get_in _ _ _ Hnd Hin0). exact Hin0.
Qed.

(** what the orphan test establishes about every member, in the shape used by
    [teardown_spec]: an unreleased box whose strong count is a number not
    exceeding the count owned by the group — also for the reordered map *)
Lemma orphan_members h pri cyc : NoDup (map fst cyc) -> has_external h cyc = Ok false ->
  forall k c, In (k, c) (order_cycle pri cyc) ->
    exists b n, nth_error h k = Some b /\ freed b = false /\ strong b = Cnt n /\ n <= c.
Proof.
  intros Hnd Hext k c Hin. apply order_cycle_In in Hin; [|exact Hnd].
  destruct (has_external_false h cyc Hext k c Hin) as (b & Hg & Hs).
  apply getb_ok in Hg as [Hn Hf]. apply sgt_false in Hs as (n & Hs & Hle).
  exists b, n. auto.
Qed.

(** ** 3. phases one and two *)

(** a member after phase two: marked [usize::MAX], value and table moved out;
    the weak counter and the allocation itself are untouched *)
Definition gone (b : box) : box := with_links (with_value (with_strong b Uninit) None) None.

Definition group_heap (h h3 : heap) (keys : list oid) : Prop :=
  length h3 = length h /\
  forall y, nth_error h3 y =
    match nth_error h y with
    | Some b => if memb y keys then Some (gone b) else Some b
    | None => None
    end.

(** a member after phase one: links into the group removed, strong count 0 *)
Definition busted (keys : list oid) (b : box) : box :=
  with_strong (with_links b (option_map (fun t => bust_table t keys) (links b))) (Cnt 0).

Lemma gone_busted keys b : gone (busted keys b) = gone b.
Proof. reflexivity. Qed.

Lemma bust_one_ok h keys k c b t n :
  nth_error h k = Some b -> freed b = false -> links b = Some t -> strong b = Cnt n -> n <= c ->
  bust_one h keys k c = Ok (setb h k (busted keys b)).
Proof.
  intros Hn Hf Hl Hs Hle. unfold bust_one, bind. rewrite (getb_intro _ _ _ Hn Hf), Hl.
  cbn [with_links strong]. rewrite Hs. unfold busted. rewrite Hl. cbn [option_map].
  rewrite N.min_r by exact Hle. rewrite N.sub_diag. reflexivity.
Qed.

(** phase one over the whole map: every member ends busted, nothing else is
    touched, no value moves *)
Lemma bust_all_spec keys : forall cyc h,
  NoDup (map fst cyc) ->
  (forall k c, In (k, c) cyc -> exists b t n, nth_error h k = Some b /\ freed b = false /\
       links b = Some t /\ strong b = Cnt n /\ n <= c) ->
  exists h2, bust_all h keys cyc = Ok h2 /\ length h2 = length h /\
    (forall y, nth_error h2 y =
       if memb y (map fst cyc) then option_map (busted keys) (nth_error h y) else nth_error h y) /\
    (forall f, total (w_box f) h2 = total (w_box f) h).
Proof.
  induction cyc as [|[k c] cyc IH]; intros h Hnd Hpre.
  - exists h. cbn [bust_all map memb]. split; [reflexivity|]. split; [reflexivity|].
    split; intros; reflexivity.
  - cbn [map fst] in Hnd. inversion Hnd as [|? ? Hk Hnd']; subst.
    destruct (Hpre k c (or_introl eq_refl)) as (b & t & n & Hn & Hf & Hl & Hs & Hle).
    cbn [bust_all]. rewrite (bust_one_ok _ keys _ _ _ _ _ Hn Hf Hl Hs Hle). cbn [bind].
    set (h1 := setb h k (busted keys b)).
    assert (Hother : forall y, y <> k -> nth_error h1 y = nth_error h y).
    { intros y Hy. unfold h1, setb. apply nth_error_upd_other. congruence. }
    destruct (IH h1 Hnd') as (h2 & Hb & Hlen & Hnth & Htot).
    { intros k' c' Hin. assert (Hne : k' <> k).
      { intros ->. apply Hk. apply in_map_iff. exists (k, c'). split; [reflexivity|exact Hin]. }
      rewrite (Hother k' Hne). apply Hpre. now right. }
    exists h2. split; [exact Hb|]. split; [rewrite Hlen; apply upd_length|]. split.
    + intros y. rewrite Hnth. cbn [map fst memb].
      destruct (Nat.eqb_spec y k) as [->|Hne]; cbn [orb].
      * assert (memb k (map fst cyc) = false) as -> by (apply memb_false; exact Hk).
        unfold h1, setb. rewrite nth_error_upd_same by (apply nth_error_Some; congruence).
        rewrite Hn. reflexivity.
      * rewrite (Hother y Hne). reflexivity.
    + intros f. rewrite Htot.
      pose proof (total_upd (w_box f) h k b (busted keys b) Hn) as Ht.
      change (upd h k (busted keys b)) with h1 in Ht.
      assert (Hw : w_box f (busted keys b) = w_box f b) by reflexivity. lia.
Qed.

(** phase two over a list of distinct members that are all dead, not yet
    marked, with value and table in place: each is marked and its value and
    table are appended to the accumulator, in order *)
Lemma gather_spec : forall ks h acc,
  NoDup ks ->
  (forall k, In k ks -> exists b t v, nth_error h k = Some b /\ freed b = false /\
       links b = Some t /\ value b = Some v /\ strong b = Cnt 0) ->
  exists h3 inn, gather h ks acc = Ok (h3, acc ++ inn) /\ length h3 = length h /\
    (forall y, nth_error h3 y =
       if memb y ks then option_map gone (nth_error h y) else nth_error h y) /\
    Forall2 (fun k e => fst (fst e) = k /\
                        exists b, nth_error h k = Some b /\ value b = Some (snd (fst e))) ks inn /\
    (forall f, total (w_box f) h = total (w_box f) h3 + total (w_inner f) inn).
Proof.
  induction ks as [|k ks IH]; intros h acc Hnd Hpre.
  - exists h, []. cbn [gather memb total]. rewrite app_nil_r.
    split; [reflexivity|]. split; [reflexivity|]. split; [intros; reflexivity|].
    split; [constructor|]. intros f. lia.
  - inversion Hnd as [|? ? Hk Hnd']; subst.
    destruct (Hpre k (or_introl eq_refl)) as (b & t & v & Hn & Hf & Hl & Hv & Hs).
    assert (Hg : gather h (k :: ks) acc = gather (setb h k (gone b)) ks (acc ++ [(k, v, t)])).
    { cbn [gather]. unfold bind. rewrite (getb_intro _ _ _ Hn Hf), Hs.
      cbn [is_dead is_uninit negb N.eqb]. rewrite Hv, Hl. reflexivity. }
    set (h1 := setb h k (gone b)) in *.
    assert (Hother : forall y, y <> k -> nth_error h1 y = nth_error h y).
    { intros y Hy. unfold h1, setb. apply nth_error_upd_other. congruence. }
    destruct (IH h1 (acc ++ [(k, v, t)]) Hnd') as (h3 & inn & Hgo & Hlen & Hnth & Hfa & Htot).
    { intros k' Hin. assert (Hne : k' <> k) by (intros ->; contradiction).
      rewrite (Hother k' Hne). apply Hpre. now right. }
    exists h3, ((k, v, t) :: inn). split; [|split; [|split; [|split]]].
    + rewrite Hg, Hgo, <- app_assoc. reflexivity.
    + rewrite Hlen. apply upd_length.
    + intros y. rewrite Hnth. cbn [memb].
      destruct (Nat.eqb_spec y k) as [->|Hne]; cbn [orb].
      * assert (memb k ks = false) as -> by (apply memb_false; exact Hk).
        unfold h1, setb. rewrite nth_error_upd_same by (apply nth_error_Some; congruence).
        rewrite Hn. reflexivity.
      * rewrite (Hother y Hne). reflexivity.
    + constructor.
      * cbn [fst snd]. split; [reflexivity|]. exists b. split; assumption.
      * eapply Forall2_impl_l; [|exact Hfa]. cbn beta.
        intros k' e Hin [E (b' & Hb' & Hv')]. split; [exact E|]. exists b'. split; [|exact Hv'].
        rewrite <- Hother; [exact Hb'|]. intros ->; contradiction.
    + intros f. pose proof (total_upd (w_box f) h k b (gone b) Hn) as Ht.
      change (upd h k (gone b)) with h1 in Ht. specialize (Htot f). cbn [total].
      assert (Hw0 : w_box f (gone b) = 0) by reflexivity.
      assert (Hw1 : w_box f b = w_inner f (k, v, t)).
      { unfold w_box, w_inner. rewrite Hv. reflexivity. }
      lia.
Qed.

(** Phases one and two of [drop_cycle] on an orphaned group.  If every member
    of the map is a readable box whose table and value are in place and whose
    strong count does not exceed the count owned by the group, then neither
    phase faults; afterwards every member is marked [usize::MAX] with value
    and table moved out, every other box is exactly as before, the values
    collected in [inners] are the members' values in teardown order, and no
    handle was created or lost: what the values in the heap held before is
    what the remaining values and the collected values hold now. *)
Theorem teardown_spec h keys cyc' :
  NoDup keys -> map fst cyc' = keys ->
  (forall k c, In (k, c) cyc' -> exists b t v n, nth_error h k = Some b /\ freed b = false /\
       links b = Some t /\ value b = Some v /\ strong b = Cnt n /\ n <= c) ->
  exists h2 h3 inners,
    bust_all h keys cyc' = Ok h2 /\ gather h2 keys [] = Ok (h3, inners) /\
    group_heap h h3 keys /\
    Forall2 (fun k e => fst (fst e) = k /\ exists b, nth_error h k = Some b /\ value b = Some (snd (fst e))) keys inners /\
    (forall f, total (w_box f) h = total (w_box f) h3 + total (w_inner f) inners).
Proof.
  intros Hnd Hk Hpre.
  destruct (bust_all_spec keys cyc' h) as (h2 & Hb & Hlen2 & Hnth2 & Htot2).
  { rewrite Hk. exact Hnd. }
  { intros k c Hin. destruct (Hpre k c Hin) as (b & t & v & n & H1 & H2 & H3 & H4 & H5 & H6).
    exists b, t, n. auto. }
  rewrite Hk in Hnth2.
  destruct (gather_spec keys h2 [] Hnd) as (h3 & inn & Hg & Hlen3 & Hnth3 & Hfa & Htot3).
  { intros k Hin. assert (Hm : memb k keys = true) by (apply memb_In; exact Hin).
    rewrite <- Hk in Hin. apply in_map_iff in Hin as ([k' c] & E & Hin). cbn [fst] in E. subst k'.
    destruct (Hpre k c Hin) as (b & t & v & n & H1 & H2 & H3 & H4 & H5 & H6).
    exists (busted keys b), (bust_table t keys), v. rewrite Hnth2, Hm, H1. cbn [option_map].
    split; [reflexivity|]. split; [exact H2|]. split; [|split; [exact H4|reflexivity]].
    unfold busted. cbn [with_strong with_links links]. rewrite H3. reflexivity. }
  cbn [app] in Hg.
  exists h2, h3, inn. split; [exact Hb|]. split; [exact Hg|]. split; [|split].
  - split; [congruence|]. intros y. rewrite Hnth3, Hnth2.
    destruct (nth_error h y) as [b|]; destruct (memb y keys); reflexivity.
  - eapply Forall2_impl_l; [|exact Hfa]. cbn beta.
    intros k e Hin [E (b2 & Hb2 & Hv2)]. split; [exact E|].
    rewrite Hnth2 in Hb2. apply memb_In in Hin. rewrite Hin in Hb2.
    destruct (nth_error h k) as [b|]; [|discriminate]. cbn [option_map] in Hb2.
    injection Hb2 as <-. exists b. split; [reflexivity|exact Hv2].
  - intros f. rewrite <- Htot3. symmetry. apply Htot2.
Qed.

(** the shape of a member and of a bystander after the teardown *)
Lemma group_heap_member h h3 keys y b :
  group_heap h h3 keys -> nth_error h y = Some b -> In y keys -> nth_error h3 y = Some (gone b).
Proof.
  intros [_ H] Hn Hin. rewrite H, Hn. apply memb_In in Hin. rewrite Hin. reflexivity.
Qed.

Lemma group_heap_other h h3 keys y :
  group_heap h h3 keys -> ~ In y keys -> nth_error h3 y = nth_error h y.
Proof.
  intros [_ H] Hin. rewrite H. apply memb_false in Hin. rewrite Hin.
  destruct (nth_error h y); reflexivity.
Qed.

(** [FFinishGroup keys] names every member exactly once *)
Lemma count_nat_notin y l : ~ In y l -> count_nat y l = 0.
Proof.
  induction l as [|x l IH]; cbn [count_nat In]; intros H; [reflexivity|].
  destruct (Nat.eqb_spec x y) as [->|Hne]; [exfalso; apply H; now left|].
  rewrite IH; [reflexivity|]. intros Hin; apply H; now right.
Qed.

Lemma count_nat_nodup y l : NoDup l -> In y l -> count_nat y l = 1.
Proof.
  induction l as [|x l IH]; intros Hnd Hin; [destruct Hin|].
  inversion Hnd as [|? ? Hx Hnd']; subst. cbn [count_nat]. destruct Hin as [->|Hin].
  - rewrite Nat.eqb_refl, count_nat_notin by exact Hx. reflexivity.
  - destruct (Nat.eqb_spec x y) as [->|Hne]; [contradiction|].
    rewrite IH by assumption. reflexivity.
Qed.

(** ** 4. sums over member lists *)
Lemma sumN_perm l l' : Permutation l l' -> sumN l = sumN l'.
Proof.
  intros P. induction P as [|x l l' P IH|x y l|l1 l2 l3 P1 IH1 P2 IH2]; cbn [sumN]; lia.
Qed.

(** a sum over the members does not depend on the order in which the trace
    (visit order) or the teardown (hash-map order) lists them *)
Lemma sumN_nodup_same (g : nat -> N) R K :
  NoDup R -> NoDup K -> (forall y, In y R <-> In y K) ->
  sumN (map g R) = sumN (map g K).
Proof.
  intros HR HK Hiff. apply sumN_perm, Permutation_map, NoDup_Permutation; assumption.
Qed.

Lemma sumN_le_pointwise (g g' : nat -> N) K :
  (forall x, In x K -> g x <= g' x) -> sumN (map g K) <= sumN (map g' K).
Proof.
  induction K as [|a K IH]; cbn [map sumN]; intros H; [lia|].
  pose proof (H a (or_introl eq_refl)) as Ha.
  assert (IH' : sumN (map g K) <= sumN (map g' K)) by (apply IH; intros x Hx; apply H; now right).
  lia.
Qed.

Lemma sumN_pos_ex (g : nat -> N) K : 0 < sumN (map g K) -> exists x, In x K /\ 0 < g x.
Proof.
  induction K as [|a K IH]; cbn [map sumN]; intros H; [lia|].
  destruct (N.eq_dec (g a) 0) as [E|E].
  - destruct IH as (x & Hx & Hp); [lia|]. exists x. split; [now right|exact Hp].
  - exists a. split; [now left|lia].
Qed.

(** the handles carried by the collected values are the handles the members'
    values held in the heap before the teardown *)
Lemma total_inner_sum f keys inners (h : heap) :
  Forall2 (fun k e => fst (fst e) = k /\ exists b, nth_error h k = Some b /\ value b = Some (snd (fst e))) keys inners ->
  total (w_inner f) inners =
  sumN (map (fun k => match nth_error h k with Some b => w_box f b | None => 0 end) keys).
Proof.
  intros F. induction F as [|k e keys inners [_ (b & Hb & Hv)] F IH]; [reflexivity|].
  cbn [total map sumN]. rewrite IH, Hb. unfold w_box, w_inner. rewrite Hv. reflexivity.
Qed.
