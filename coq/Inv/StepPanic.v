(** * A panicking destructor: unwinding the machine stack preserves [Inv].

    When a user destructor panics, every pending frame is turned into what the
    Rust unwinder does with it: suspended destructors below still drop the
    fields of their value, pending calls never return, and the finish
    obligations of [drop_unreachable*] / [drop_cycle] are skipped, which leaks
    the allocations they would have released (one [EvLeak] per obligation). *)
From CR Require Import Base Atomic Machine LinksFacts HeapFacts Tokens InvDef InvLemmas ActBase.
Local Open Scope N_scope.

(** ** logging the leaks of one [FFinishGroup] *)
Definition leak_all (keys : list oid) (s : state) : state :=
  fold_left (fun s x => add_ev s (EvLeak x)) keys s.

Lemma leak_all_heap keys s : heap_of (leak_all keys s) = heap_of s.
Proof.
  unfold leak_all. revert s. induction keys as [|x keys IH]; intros s; cbn [fold_left]; [reflexivity|].
  rewrite IH. reflexivity.
Qed.

Lemma leak_all_regs keys s : regs (leak_all keys s) = regs s.
Proof.
  unfold leak_all. revert s. induction keys as [|x keys IH]; intros s; cbn [fold_left]; [reflexivity|].
  rewrite IH. reflexivity.
Qed.

Lemma leak_all_leak o keys s :
  n_leak o (log (leak_all keys s)) = n_leak o (log s) + count_nat o keys.
Proof.
  unfold leak_all. revert s. induction keys as [|x keys IH]; intros s; cbn [fold_left count_nat]; [lia|].
  rewrite IH. rewrite log_add_ev, n_leak_cons. cbn [e_leak]. lia.
Qed.

(** ** what [unwind_stack] does, frame by frame *)

(** unwinding touches neither the heap nor the registers *)
Lemma unwind_heap s k : heap_of (fst (unwind_stack s k)) = heap_of s.
Proof.
  induction k as [|f k IH]; cbn [unwind_stack]; [reflexivity|].
  destruct (unwind_stack s k) as [s1 k1]. cbn [fst] in IH.
  destruct f as [o|p|p pc|ss|o|es|o|keys|r]; cbn [fst]; try exact IH.
  fold (leak_all keys s1). rewrite leak_all_heap. exact IH.
Qed.

Lemma unwind_regs s k : regs (fst (unwind_stack s k)) = regs s.
Proof.
  induction k as [|f k IH]; cbn [unwind_stack]; [reflexivity|].
  destruct (unwind_stack s k) as [s1 k1]. cbn [fst] in IH.
  destruct f as [o|p|p pc|ss|o|es|o|keys|r]; cbn [fst]; try exact IH.
  fold (leak_all keys s1). rewrite leak_all_regs. exact IH.
Qed.

(** every handle owned by a frame is still owned by a frame *)
Lemma unwind_total f s k :
  total (w_frame f) (snd (unwind_stack s k)) = total (w_frame f) k.
Proof.
  induction k as [|fr k IH]; cbn [unwind_stack]; [reflexivity|].
  destruct (unwind_stack s k) as [s1 k1]. cbn [snd] in IH.
  destruct fr as [o|p|p pc|ss|o|es|o|keys|r]; cbn [snd total w_frame]; rewrite IH; reflexivity.
Qed.

(** no finish obligation is left on the stack ... *)
Lemma unwind_after o s k : n_after o (snd (unwind_stack s k)) = 0.
Proof.
  induction k as [|fr k IH]; cbn [unwind_stack]; [reflexivity|].
  destruct (unwind_stack s k) as [s1 k1]. cbn [snd] in IH.
  destruct fr as [x|p|p pc|ss|x|es|x|keys|r]; cbn [snd]; try exact IH;
    rewrite n_after_cons, IH; reflexivity.
Qed.

Lemma unwind_fin o s k : n_fin o (snd (unwind_stack s k)) = 0.
Proof.
  induction k as [|fr k IH]; cbn [unwind_stack]; [reflexivity|].
  destruct (unwind_stack s k) as [s1 k1]. cbn [snd] in IH.
  destruct fr as [x|p|p pc|ss|x|es|x|keys|r]; cbn [snd]; try exact IH;
    rewrite n_fin_cons, IH; reflexivity.
Qed.

(** ... each of them has become one leak event *)
Lemma unwind_leak o s k :
  n_leak o (log (fst (unwind_stack s k))) = n_leak o (log s) + n_after o k + n_fin o k.
Proof.
  induction k as [|fr k IH]; cbn [unwind_stack].
  - cbn [fst]. unfold n_after, n_fin. cbn [total]. lia.
  - destruct (unwind_stack s k) as [s1 k1]. cbn [fst] in IH.
    rewrite n_after_cons, n_fin_cons.
    destruct fr as [x|p|p pc|ss|x|es|x|keys|r]; cbn [fst f_after f_fin]; try (rewrite IH; lia).
    + rewrite log_add_ev, n_leak_cons, IH. cbn [e_leak]. lia.
    + fold (leak_all keys s1). rewrite leak_all_leak, IH. lia.
Qed.

Lemma unwind_held f s k : w_held f (fst (unwind_stack s k)) = w_held f s.
Proof. unfold w_held. rewrite unwind_heap, unwind_regs. reflexivity. Qed.

Lemma unwind_W f s k fr fr' : w_frame f fr' = w_frame f fr ->
  W f (fst (unwind_stack s k)) (fr' :: snd (unwind_stack s k)) = W f s (fr :: k).
Proof.
  intros Hw. unfold W. rewrite unwind_held. cbn [total]. rewrite unwind_total, Hw. reflexivity.
Qed.

(** ** frames that own handles to destroyed objects *)

(** the general transfer: a frame may shrink, and what justified its handles
    (obligations below it, leak events) may move between the stack and the log *)
Lemma frame_ok_transfer h lg lg' fr fr' below below' :
  (forall o, w_frame (sw_strong o) fr' <= w_frame (sw_strong o) fr) ->
  (forall o, n_fin o below + n_leak o lg <= n_fin o below' + n_leak o lg') ->
  frame_ok h lg fr below -> frame_ok h lg' fr' below'.
Proof.
  intros Hw Hle H o Ho. destruct (H o) as (b & Hb & Hc); [specialize (Hw o); lia|].
  exists b. split; [exact Hb|]. destruct Hc as [Hl|[Hu Hp]]; [left; exact Hl|].
  right. split; [exact Hu|]. specialize (Hle o). lia.
Qed.

(** after unwinding, the leak events alone justify what obligations and leak
    events justified before *)
Lemma unwind_justified o s k :
  n_fin o k + n_leak o (log s) <=
  n_fin o (snd (unwind_stack s k)) + n_leak o (log (fst (unwind_stack s k))).
Proof. rewrite unwind_fin, unwind_leak. lia. Qed.

Lemma unwind_inert h s k :
  inert_ok h (log s) k -> inert_ok h (log (fst (unwind_stack s k))) (snd (unwind_stack s k)).
Proof.
  induction k as [|fr k IH]; [cbn; tauto|].
  intros Hin. apply inert_ok_cons in Hin as [Hf Hin]. specialize (IH Hin).
  pose proof (fun o => unwind_justified o s k) as Hj.
  cbn [unwind_stack]. destruct (unwind_stack s k) as [s1 k1]. cbn [fst snd] in IH, Hj.
  assert (Hkeep : forall fr', (forall o, w_frame (sw_strong o) fr' <= w_frame (sw_strong o) fr) ->
            inert_ok h (log s1) (fr' :: k1)).
  { intros fr' Hw. apply inert_ok_cons. split; [|exact IH].
    eapply frame_ok_transfer; [exact Hw|exact Hj|exact Hf]. }
  destruct fr as [x|p|p pc|ss|x|es|x|keys|r]; cbn [fst snd];
    try (apply Hkeep; intros o; cbn [w_frame]; lia).
  - (* FRunDtor: the fields are still dropped *)
    apply Hkeep. intros o. cbn [w_frame]. unfold w_payload. lia.
  - (* FAfterValue: one more leak event *)
    eapply inert_ok_log; [|exact IH]. intros o. rewrite log_add_ev, n_leak_cons. lia.
  - (* FFinishGroup *)
    fold (leak_all keys s1). eapply inert_ok_log; [|exact IH]. intros o. rewrite leak_all_leak. lia.
  - (* FRes *)
    exact IH.
Qed.

(** ** the theorems *)

(** unwinding any stack preserves the invariant (projections form) *)
Lemma unwind_inv_stack s k : Inv s k ->
  Inv (fst (unwind_stack s k)) (snd (unwind_stack s k)).
Proof.
  intros [Hshape Htbl Hcnt Hnd Hin].
  assert (HW : forall f, W f (fst (unwind_stack s k)) (snd (unwind_stack s k)) = W f s k).
  { intros f. unfold W. rewrite unwind_held, unwind_total. reflexivity. }
  split.
  - (* shape *) rewrite unwind_heap. exact Hshape.
  - (* tables *) rewrite unwind_heap. exact Htbl.
  - (* counters *)
    destruct Hcnt as [C1 C2 C3 C4 C5 C6]. split; rewrite ?unwind_heap.
    + intros o b n Hb Hs. rewrite HW. apply (C1 o b n Hb Hs).
    + intros o b Hb. rewrite HW, (C2 o b Hb), unwind_after, unwind_fin, unwind_leak. lia.
    + intros o b Hb. specialize (C3 o b Hb). specialize (C4 o b Hb).
      rewrite unwind_after, unwind_leak.
      destruct (is_dying b) eqn:Ed; [|lia].
      (* a dying box still has its table, so no group obligation names it *)
      assert (Hf0 : n_fin o k = 0).
      { destruct (N.eq_dec (n_fin o k) 0) as [E|E]; [exact E|].
        destruct C4 as [_ Hl]; [lia|]. unfold is_dying in Ed. rewrite Hl in Ed.
        destruct (strong b); discriminate. }
      lia.
    + intros o b Hb Hp. rewrite unwind_fin in Hp. lia.
    + intros o Ho. rewrite !HW, unwind_after, unwind_fin.
      destruct (C5 o Ho) as (E1 & E2 & E3 & E4 & E5). rewrite unwind_leak. repeat split; auto. lia.
    + intros o b Hb Hp. rewrite unwind_leak in Hp.
      destruct (N.eq_dec (n_leak o (log s)) 0) as [E0|E0]; [|apply (C6 o b Hb); lia].
      destruct (N.eq_dec (n_fin o k) 0) as [E1|E1]; [|apply (C4 o b Hb); lia].
      specialize (C3 o b Hb). destruct (is_dying b) eqn:Ed; [|lia].
      unfold is_dying in Ed. destruct (strong b); [discriminate|reflexivity].
  - (* no dangling handle *)
    intros o Ho. rewrite unwind_held in Ho. rewrite unwind_heap. apply Hnd. exact Ho.
  - (* frames *)
    rewrite unwind_heap. apply unwind_inert. exact Hin.
Qed.

Lemma unwind_inv_proj s p pc k : Inv s (FRunDtor p pc :: k) ->
  Inv (fst (unwind_stack s k)) (FDropSlots (slots p) :: snd (unwind_stack s k)).
Proof.
  intros HI. apply unwind_inv_stack in HI. cbn [unwind_stack] in HI.
  destruct (unwind_stack s k) as [s1 k1]. exact HI.
Qed.

(** Unwinding out of a panicking destructor leaves a configuration in which all
    counters still agree with the handles that exist: the fields of every value
    whose destructor was interrupted are still owned (and will be dropped), and
    each skipped [dec_weak]/deallocation is accounted for as a leak, so no
    allocation is released while something can still reach it. *)
Theorem unwind_inv s p pc k : Inv s (FRunDtor p pc :: k) ->
  let '(s1, k1) := unwind_stack s k in Inv s1 (FDropSlots (slots p) :: k1).
Proof.
  intros HI. pose proof (unwind_inv_proj s p pc k HI) as H.
  destruct (unwind_stack s k) as [s1 k1]. exact H.
Qed.

(** A [panic!] inside a destructor (outside of unwinding) starts unwinding: the
    rest of the script is abandoned, the fields of the value are dropped, the
    frames below are unwound. *)
Theorem step_panic pri s p pc k : Inv s (FRunDtor p (APanic :: pc) :: k) ->
  step pri {| st := s; stack := FRunDtor p (APanic :: pc) :: k; unw := false |} =
    let '(s1, k1) := unwind_stack s k in
    Running {| st := s1; stack := FDropSlots (slots p) :: k1; unw := true |}.
Proof. intros _. reflexivity. Qed.

(** ... and that next configuration satisfies the invariant *)
Corollary step_panic_inv pri s p pc k : Inv s (FRunDtor p (APanic :: pc) :: k) ->
  exists c, step pri {| st := s; stack := FRunDtor p (APanic :: pc) :: k; unw := false |} = Running c /\
            unw c = true /\ Inv (st c) (stack c).
Proof.
  intros HI. rewrite (step_panic pri s p pc k HI).
  pose proof (unwind_inv s p (APanic :: pc) k HI) as H.
  destruct (unwind_stack s k) as [s1 k1]. eexists. split; [reflexivity|]. split; [reflexivity|exact H].
Qed.

(** A panic while already unwinding aborts the process (Rust: panic in a
    destructor during unwinding); the state is left as it is. *)
Theorem step_double_panic pri s p pc k :
  step pri {| st := s; stack := FRunDtor p (APanic :: pc) :: k; unw := true |} = Halted s HAbort.
Proof. reflexivity. Qed.

Print Assumptions unwind_inv_stack.
Print Assumptions unwind_inv.
Print Assumptions step_panic.
Print Assumptions step_panic_inv.
Print Assumptions step_double_panic.
