(** * What [Inv] means for a user of the library: the readings used by the
    property theorems (Props/). *)
From CR Require Import Base Atomic Machine LinksFacts HeapFacts Local
  Tokens InvDef InvLemmas ActBase ActClone DropDec StepInv RunInv.
Local Open Scope N_scope.

(** ** C01: whatever a held handle can reach stays alive *)

(** objects the program can reach: through a handle in a register (plain, raw
    or inside a value returned by try_unwrap), then through handles stored in
    the values of reachable objects — adopted or not *)
Inductive reachable (s : state) : oid -> Prop :=
| reach_reg r o : reg_get s r = RStrong o \/ reg_get s r = RRaw o -> reachable s o
| reach_loose r p i o : reg_get s r = RLoose p -> nth_error (slots p) i = Some (SStrong o) -> reachable s o
| reach_slot o b p i o' : reachable s o -> nth_error (heap_of s) o = Some b -> value b = Some p ->
    nth_error (slots p) i = Some (SStrong o') -> reachable s o'.

(** its value has not been destroyed and its allocation not released *)
Definition alive (s : state) (o : oid) : Prop :=
  exists b p, getb (heap_of s) o = Ok b /\ live b = true /\ value b = Some p /\ links b <> None.

Lemma held_alive s k o : Inv s k -> 0 < w_held (sw_strong o) s -> alive s o.
Proof.
  intros HI H. destruct (inv_held_live s k HI o H) as (b & Hg & Hl).
  pose proof (getb_ok _ _ _ Hg) as [Hb _]. destruct (inv_shape s k HI o b Hb) as (S1 & _).
  destruct (S1 Hl) as (Hv & Hlk & _). destruct (value b) as [p|] eqn:Ev; [|congruence].
  exists b, p. auto.
Qed.

Lemma loose_token s r p i o : reg_get s r = RLoose p -> nth_error (slots p) i = Some (SStrong o) ->
  0 < w_held (sw_strong o) s.
Proof.
  intros Hr Hs. assert (Hn : nth_error (regs s) r = Some (RLoose p)).
  { rewrite <- Hr. apply reg_get_some. rewrite Hr. discriminate. }
  pose proof (nth_error_total_le (w_reg (sw_strong o)) _ _ _ Hn) as H1. cbn [w_reg] in H1.
  pose proof (nth_error_total_le (sw_strong o) _ _ _ Hs) as H2. rewrite sw_strong_self in H2.
  unfold w_held, w_payload in *. lia.
Qed.

Theorem reachable_alive s k o : Inv s k -> reachable s o -> alive s o.
Proof.
  intros HI Hr. induction Hr as [r o Hr|r p i o Hr Hs|o b p i o' _ IH Hb Hv Hs].
  - apply (held_alive s k o HI). apply (reg_token s o r Hr).
  - apply (held_alive s k o HI). eapply loose_token; eauto.
  - apply (held_alive s k o' HI). eapply slot_token_held; eauto.
Qed.

(** dereferencing a held handle reads a value that is still in place *)
Theorem deref_held s k r o : Inv s k -> reg_get s r = RStrong o ->
  exists b p, getb (heap_of s) o = Ok b /\ value b = Some p /\
    exec_act s None (ADeref (HReg r)) = AO s None (RNat (N.of_nat (pid p))) [].
Proof.
  intros HI Hr. destruct (reachable_alive s k o HI (reach_reg s r o (or_introl Hr))) as (b & p & Hg & _ & Hv & _).
  exists b, p. split; [exact Hg|]. split; [exact Hv|]. cbn [exec_act resolve_strong]. rewrite Hr, Hg, Hv. reflexivity.
Qed.

(** ** C06: counts are exact at every call boundary *)
Theorem counts_exact s o b : Inv s [] -> nth_error (heap_of s) o = Some b -> live b = true ->
  strong b = Cnt (w_held (sw_strong o) s) /\ weak b = w_held (sw_weak o) s + 1.
Proof.
  intros HI Hb Hl. destruct (live_true b Hl) as (n & Hs & Hn). pose proof (inv_cnt s [] HI) as HC.
  split.
  - rewrite Hs. f_equal. rewrite (ci_strong s [] HC o b n Hb Hs). unfold W. cbn [total]. lia.
  - rewrite (ci_weak s [] HC o b Hb). unfold W, liveN. rewrite Hl. cbn [total n_after n_fin].
    assert (n_leak o (log s) = 0).
    { destruct (N.eq_dec (n_leak o (log s)) 0) as [E|E]; [exact E|].
      pose proof (ci_leak s [] HC o b Hb) as H. rewrite Hs in H. assert (0 < n_leak o (log s)) by lia. specialize (H H0). discriminate. }
    lia.
Qed.

(** the observers report exactly these numbers *)
Theorem strong_count_exact s r o : Inv s [] -> reg_get s r = RStrong o ->
  exec_act s None (AStrongCount (HReg r)) = AO s None (RCnt (Cnt (w_held (sw_strong o) s))) [] /\
  exec_act s None (AWeakCount (HReg r)) = AO s None (RNat (w_held (sw_weak o) s)) [].
Proof.
  intros HI Hr. destruct (reachable_alive s [] o HI (reach_reg s r o (or_introl Hr))) as (b & p & Hg & Hl & _).
  pose proof (getb_ok _ _ _ Hg) as [Hb _]. destruct (counts_exact s o b HI Hb Hl) as [Es Ew].
  cbn [exec_act resolve_strong]. rewrite Hr, Hg, Es, Ew. split; [reflexivity|].
  assert ((w_held (sw_weak o) s + 1 =? 0) = false) as -> by (apply N.eqb_neq; lia).
  f_equal. f_equal. lia.
Qed.

(** ** C03: nothing stays alive without a handle *)
Theorem live_has_handle s k o b : Inv s k -> nth_error (heap_of s) o = Some b -> live b = true ->
  0 < W (sw_strong o) s k.
Proof.
  intros HI Hb Hl. destruct (live_true b Hl) as (n & Hs & Hn).
  rewrite <- (ci_strong s k (inv_cnt s k HI) o b n Hb Hs). exact Hn.
Qed.

(** ** C05: Weak handles observe destruction exactly *)

(** a Weak handle keeps the allocation, whatever happened to the value *)
Theorem weak_target_allocated s self pc k wr o : Inv s (ctx self pc k) ->
  resolve_weak s self wr = Some (Some o) -> exists b, getb (heap_of s) o = Ok b.
Proof. intros HI Hr. eapply resolve_weak_ok; eauto. Qed.

(** [upgrade] succeeds exactly when the value has not been destroyed *)
Theorem upgrade_iff_alive s self pc k wr dst o : Inv s (ctx self pc k) ->
  resolve_weak s self wr = Some (Some o) -> reg_free s dst = true ->
  exists b, getb (heap_of s) o = Ok b /\
    (value b <> None <-> live b = true) /\
    (live b = false -> exec_act s self (AUpgrade wr dst) = AO s self RNone []) /\
    (live b = true -> exists s', exec_act s self (AUpgrade wr dst) = AO s' self RSome [] /\
        reg_get s' dst = RStrong o).
Proof.
  intros HI Hr Hf. destruct (resolve_weak_ok s self pc k HI wr o Hr) as (b & Hg).
  exists b. split; [exact Hg|]. pose proof (getb_ok _ _ _ Hg) as [Hb _].
  destruct (inv_shape s _ HI o b Hb) as (S1 & S2 & _).
  destruct (upgrade_spec s self wr dst o b Hr Hf Hg) as [U1 U2]. split; [|split].
  - split.
    + intros Hv. destruct (live b) eqn:El; [reflexivity|]. destruct (S2 eq_refl) as [E _]. congruence.
    + intros Hl. apply S1. exact Hl.
  - intros Hl. apply U1. apply not_live_dead. exact Hl.
  - intros Hl. destruct (live_true b Hl) as (n & Hs & Hn). eexists. split.
    + apply (U2 n Hs). lia.
    + unfold reg_get. cbn [regs set_reg set_heap mk]. apply reg_free_spec in Hf.
      assert (Hlt : (dst < length (regs s))%nat) by (apply nth_error_Some; congruence).
      apply nth_error_nth. apply nth_error_upd_same. exact Hlt.
Qed.

(** after destruction a Weak reports 0 strong and 0 weak handles *)
Theorem weak_counts_dead s self pc k wr o : Inv s (ctx self pc k) ->
  resolve_weak s self wr = Some (Some o) ->
  exists b, getb (heap_of s) o = Ok b /\
    (live b = false ->
       exec_act s self (AWStrongCount wr) = AO s self (RNat 0) [] /\
       exec_act s self (AWWeakCount wr) = AO s self (RNat 0) []).
Proof.
  intros HI Hr. destruct (resolve_weak_ok s self pc k HI wr o Hr) as (b & Hg). exists b. split; [exact Hg|].
  intros Hl. cbn [exec_act]. rewrite Hr, Hg. unfold live in Hl. destruct (strong b) as [n|]; [|split; reflexivity].
  apply N.ltb_ge in Hl. assert (n = 0) as -> by lia. split; reflexivity.
Qed.

(** ** C04: destroyed objects return their memory *)

(** once the value is destroyed, no teardown is pending, nothing was leaked by
    a panic and no Weak handle is left, the allocation and its table are gone *)
Theorem destroyed_released s o b : Inv s [] -> nth_error (heap_of s) o = Some b -> live b = false ->
  n_leak o (log s) = 0 -> w_held (sw_weak o) s = 0 ->
  freed b = true /\ links b = None /\ value b = None.
Proof.
  intros HI Hb Hl Hlk Hw. pose proof (inv_cnt s [] HI) as HC.
  destruct (inv_shape s [] HI o b Hb) as (_ & S2 & S3 & S4). destruct (S2 Hl) as [Hv Ht].
  assert (Hwk : weak b = 0).
  { rewrite (ci_weak s [] HC o b Hb). unfold W, liveN. rewrite Hl, Hlk, Hw. reflexivity. }
  split; [apply S4; exact Hwk|]. split; [|exact Hv].
  pose proof (ci_after s [] HC o b Hb) as Ha. unfold is_dying in Ha.
  destruct (strong b) as [n|] eqn:Es.
  - apply S3. unfold live in Hl. rewrite Es in Hl. apply N.ltb_ge in Hl. f_equal. lia.
  - destruct (links b); [|reflexivity]. rewrite Hlk in Ha. cbn in Ha. lia.
Qed.

(** the allocation survives exactly as long as a Weak handle or a pending
    teardown needs it *)
Theorem freed_iff s k o b : Inv s k -> nth_error (heap_of s) o = Some b ->
  (freed b = true <->
   live b = false /\ W (sw_weak o) s k = 0 /\ n_after o k + n_fin o k + n_leak o (log s) = 0).
Proof.
  intros HI Hb. destruct (inv_shape s k HI o b Hb) as (_ & _ & _ & S4).
  pose proof (ci_weak s k (inv_cnt s k HI) o b Hb) as Hw. unfold liveN in Hw. rewrite S4. split.
  - intros E. rewrite E in Hw. destruct (live b); [lia|]. split; [reflexivity|lia].
  - intros (Hl & H1 & H2). rewrite Hl in Hw. lia.
Qed.

(** ** C08: the recorded adoption graph *)
Theorem tables_consistent s k : Inv s k ->
  heap_wf (heap_of s) /\ symmetric (heap_of s) /\
  (forall a x kd, 0 < lget (heap_of s) a (x, kd) -> alive s a /\ alive s x) /\
  (forall a x, 0 < lget (heap_of s) a (x, Loop) -> x = a).
Proof.
  intros HI. pose proof (inv_tbl s k HI) as [T1 T2 T3 T4].
  split; [exact T1|]. split; [exact T2|]. split; [|exact T4].
  intros a x kd H. split.
  - (* the owner of a record is live: dead boxes have empty tables *)
    unfold lget in H. destruct (nth_error (heap_of s) a) as [b|] eqn:Hb; [|lia].
    destruct (live b) eqn:El.
    + destruct (inv_shape s k HI a b Hb) as (S1 & _). destruct (S1 El) as (Hv & Hlk & Hf).
      destruct (value b) as [p|] eqn:Ev; [|congruence]. exists b, p. repeat split; auto.
      apply getb_intro; assumption.
    + destruct (inv_shape s k HI a b Hb) as (_ & S2 & _). destruct (S2 El) as [_ Ht]. rewrite Ht in H. cbn in H. lia.
  - destruct (T3 a x kd H) as (bx & Hbx & Hl).
    destruct (inv_shape s k HI x bx Hbx) as (S1 & _). destruct (S1 Hl) as (Hv & Hlk & Hf).
    destruct (value bx) as [p|] eqn:Ev; [|congruence]. exists bx, p. repeat split; auto.
    apply getb_intro; assumption.
Qed.

(** ** C11: a panic propagates: once unwinding, always unwinding *)
Lemma step_unw pri c c' : step pri c = Running c' -> unw c = true -> unw c' = true.
Proof.
  destruct c as [s k u]. cbn [unw]. intros H Hu. subst u. destruct k as [|fr k]; [discriminate|].
  cbn [step st stack unw] in H.
  destruct fr as [o|p|p [|a pc]|[|[o|w|] ss]|o|[|[[o v] t] es]|o|keys|r];
    try (injection H as <-; reflexivity).
  - destruct (drop_strong pri s o) as [[s1 push]|]; [|discriminate]. injection H as <-. reflexivity.
  - destruct (exec_act s (Some p) a) as [s1 self r push| |]; try discriminate. injection H as <-. reflexivity.
  - destruct (weak_drop (heap_of s) w); [|discriminate]. injection H as <-. reflexivity.
  - destruct (getb (heap_of s) o) as [b|]; [|discriminate]. destruct (links b); [|discriminate].
    destruct (dec_weak_free _ o); [|discriminate]. injection H as <-. reflexivity.
  - destruct (finish_group (heap_of s) keys); [|discriminate]. injection H as <-. reflexivity.
Qed.

Theorem run_unw pri fuel : forall c, unw c = true ->
  match run pri fuel c with
  | Running c' => unw c' = true
  | Finished _ p => p = true
  | Halted _ _ => True
  end.
Proof.
  induction fuel as [|f IH]; intros c Hu; cbn [run]; [exact Hu|].
  destruct (step pri c) as [c'|s' p|s' h] eqn:E; [apply IH; eapply step_unw; eauto| |exact I].
  destruct c as [s k u]. cbn [unw] in Hu. subst u. destruct k as [|fr k].
  - cbn in E. injection E as _ <-. reflexivity.
  - cbn [step st stack unw] in E.
    destruct fr as [o|p0|p0 [|a pc]|[|[o|w|] ss]|o|[|[[o v] t] es]|o|keys|r]; try discriminate.
    + destruct (drop_strong pri s o) as [[s1 push]|]; discriminate.
    + destruct (exec_act s (Some p0) a) as [s1 self r push| |]; discriminate.
    + destruct (weak_drop (heap_of s) w); discriminate.
    + destruct (getb (heap_of s) o) as [b|]; [|discriminate]. destruct (links b); [|discriminate].
      destruct (dec_weak_free _ o); discriminate.
    + destruct (finish_group (heap_of s) keys); discriminate.
Qed.

(** after a history in which every object has been destroyed and every Weak
    dropped (and no panic leaked a teardown), nothing the library allocated is
    left: every allocation released, every table gone *)
Theorem all_destroyed_all_released s :
  Inv s [] ->
  (forall o b, nth_error (heap_of s) o = Some b -> live b = false) ->
  (forall o, w_held (sw_weak o) s = 0) ->
  (forall o, n_leak o (log s) = 0) ->
  forall o b, nth_error (heap_of s) o = Some b -> freed b = true /\ links b = None /\ value b = None.
Proof.
  intros HI Hd Hw Hl o b Hb. apply (destroyed_released s o b HI Hb (Hd o b Hb) (Hl o) (Hw o)).
Qed.
