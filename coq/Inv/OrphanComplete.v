(** * Completeness of the collection decision (C03).

    [Inv/Group.v] proves that the orphan test of [Rc::drop] is SOUND: when
    [Rc::orphaned_cycle] answers [Some(cycle)] on a disciplined heap, the traced
    set can be destroyed.  This file proves the converse, COMPLETENESS: when
    every strong handle to every object reachable from [o] through recorded
    Forward adoptions is a recorded adoption held by a member of that same set,
    [Rc::orphaned_cycle] answers [Some(cycle)] and the keys of [cycle] are
    exactly that set.  Hence the group is torn down by this very [drop]
    (synchronously), not by some later one. *)
From Coq Require Import Permutation.
From CR Require Import Base Atomic Machine LinksFacts HeapFacts TraceFacts TraceTotal Local
  Tokens InvDef InvLemmas ActBase ActClone GroupOps DropDec Group.
Local Open Scope N_scope.

(** ** sums over distinct positions of a list *)

(** the weight of the element at position [i]; 0 outside the list *)
Definition at_idx {A} (f : A -> N) (l : list A) (i : nat) : N :=
  match nth_error l i with Some a => f a | None => 0 end.

Lemma at_idx_some {A} (f : A -> N) l i a : nth_error l i = Some a -> at_idx f l i = f a.
Proof. unfold at_idx. intros ->. reflexivity. Qed.

(** the weights found at distinct positions add up to at most the total
    ([z] is any element of weight 0; it is used to blank a position) *)
Lemma total_nodup_idx {A} (f : A -> N) (z : A) : f z = 0 ->
  forall L l, NoDup L -> sumN (map (at_idx f l) L) <= total f l.
Proof.
  intros Hz. induction L as [|a L IH]; intros l Hnd; cbn [map sumN]; [lia|].
  inversion Hnd as [|? ? Ha HL]; subst.
  unfold at_idx at 1. destruct (nth_error l a) as [x|] eqn:E.
  - pose proof (total_upd f l a x z E) as Ht.
    assert (Hsame : map (at_idx f l) L = map (at_idx f (upd l a z)) L).
    { apply map_ext_in. intros i Hi. unfold at_idx. rewrite nth_error_upd_other; [reflexivity|].
      intros ->. contradiction. }
    rewrite Hsame. specialize (IH (upd l a z) HL). lia.
  - specialize (IH l HL). lia.
Qed.

Lemma sumN_ext_in (g g' : nat -> N) K :
  (forall x, In x K -> g x = g' x) -> sumN (map g K) = sumN (map g' K).
Proof. intros H. f_equal. apply map_ext_in. exact H. Qed.

(** the handles held by the values of distinct boxes are among the handles
    held by all values *)
Lemma heap_nodup_idx f (h : heap) L : NoDup L ->
  sumN (map (at_idx (w_box f) h) L) <= total (w_box f) h.
Proof.
  apply (total_nodup_idx (w_box f)
           {| strong := Uninit; weak := 0; links := None; talloc := false; value := None; freed := false |}).
  reflexivity.
Qed.

(** ** the converse of [has_external_false] *)

(** [cycle.iter().any(..)] answers false when every member's box is readable
    and no member has an owner outside the map *)
Lemma has_external_ok_false h own :
  (forall k c, In (k, c) own -> exists b, getb h k = Ok b /\ sgt (strong b) c = false) ->
  has_external h own = Ok false.
Proof.
  induction own as [|[k c] own IH]; intros H; cbn [has_external]; [reflexivity|].
  destruct (H k c (or_introl eq_refl)) as (b & G & S). unfold bind. rewrite G, S.
  apply IH. intros k' c' Hin. apply H. now right.
Qed.

(** ** CORE: an orphaned group passes the orphan test *)

(** the discipline the completeness argument needs: it concerns the members
    and the objects that record an adoption of a member *)
Definition group_disc (h : heap) (R : list oid) : Prop :=
  forall x, (In x R \/ exists y, In y R /\ 0 < lget h x (y, Fwd)) -> disc_at h x.

Lemma disc_group_disc h R : disc h -> group_disc h R.
Proof. intros Hd x _. apply Hd. Qed.

(** Completeness of [Rc::orphaned_cycle].  [R] lists, without repetition, the
    objects reachable from [o] through recorded Forward adoptions.  If the
    strong counter of every member [y] is covered by the adoptions of [y]
    recorded by the members — i.e. (with [ci_strong] and the discipline) every
    strong handle to [y] is an adoption recorded by a member — then the trace
    of cycle.rs followed by the [any(..)] scan answers [Some(cycle)], and the
    keys of [cycle] are exactly the members.  The discipline is needed for the
    members and for the objects OUTSIDE the set that record an adoption of a
    member: such an object must really hold a handle (otherwise it would be a
    key of the map with owned count 0 and the test would answer [None]). *)
Theorem orphan_complete_local s k o R :
  Inv s k -> group_disc (heap_of s) R -> has_table (heap_of s) o ->
  NoDup R -> (forall y, In y R <-> reach (heap_of s) o y) ->
  (forall y, In y R -> exists b m, nth_error (heap_of s) y = Some b /\ strong b = Cnt m /\
      m <= sumN (map (fun x => lget (heap_of s) x (y, Fwd)) R)) ->
  exists cyc pops visits, orphaned_cycle (heap_of s) o = Ok (Some cyc, pops, visits) /\
    (forall y, In y (map fst cyc) <-> In y R).
Proof.
  intros HI Hd Ht HndR HR Hprem.
  pose proof (Inv_HeapInv s k HI) as HH. pose proof (ti_wf _ (hi_tbl _ HH)) as Hwf.
  pose proof (hi_closed_fwd _ HH) as Hcf.
  destruct (cycle_refs_total_spec (heap_of s) o Ht Hcf)
    as (own & pops & visits & R' & Hcr & HndR' & HR' & Hsum & Hkeys & HndK & _ & _).
  assert (HRR : forall y, In y R' <-> In y R) by (intros y; rewrite HR, HR'; tauto).
  (* what the trace attributes to a target is the premise's sum *)
  assert (Hsum' : forall y, own_get own y = sumN (map (fun x => lget (heap_of s) x (y, Fwd)) R)).
  { intros y. rewrite Hsum. rewrite (sumN_nodup_same _ R' R HndR' HndR HRR).
    apply sumN_ext_in. intros x _. apply cntF_lget. exact Hwf. }
  (* every member is live, owns its value, and is covered *)
  assert (Hlive : forall y, In y R -> exists b m p, nth_error (heap_of s) y = Some b /\
            strong b = Cnt m /\ 0 < m /\ live b = true /\ value b = Some p /\ m <= own_get own y).
  { intros y Hy. destruct (Hprem y Hy) as (b & m & Hb & Hs & Hle).
    assert (Hty : has_table (heap_of s) y).
    { eapply reach_has_table; [exact Ht|exact Hcf|apply HR; exact Hy]. }
    destruct Hty as (b0 & t & Hg & Hl). apply getb_ok in Hg as [Hb0 _].
    assert (b0 = b) as -> by congruence.
    destruct (hi_shape _ HH y b Hb) as (S1 & S2 & S3 & S4).
    assert (Hm : 0 < m).
    { destruct (N.eq_dec m 0) as [E|E]; [|lia]. subst m. rewrite (S3 Hs) in Hl. discriminate. }
    assert (Hl' : live b = true) by (unfold live; rewrite Hs; apply N.ltb_lt; exact Hm).
    destruct (S1 Hl') as (Hv & _). destruct (value b) as [p|] eqn:Ev; [|congruence].
    exists b, m, p. rewrite Hsum'.
    split; [exact Hb|]. split; [exact Hs|]. split; [exact Hm|]. split; [exact Hl'|].
    split; [exact Ev|exact Hle]. }
  (* (1) every member is a key *)
  assert (HRK : forall y, In y R -> In y (map fst own)).
  { intros y Hy. destruct (Hlive y Hy) as (b & m & p & Hb & Hs & Hm & Hl & Hv & Hle).
    assert (Hpos : 0 < sumN (map (fun x => lget (heap_of s) x (y, Fwd)) R)) by (rewrite <- Hsum'; lia).
    destruct (sumN_pos_ex _ _ Hpos) as (x & Hx & Hcx).
    apply Hkeys. exists x. split; [apply HRR; exact Hx|]. left.
    apply (fwd_target_lget _ _ _ Hwf). exact Hcx. }
  (* (2) every key is a member *)
  assert (HKR : forall y, In y (map fst own) -> In y R).
  { intros z Hz. apply Hkeys in Hz as (x & Hx & [Hf|Hbw]).
    - apply HR. apply reach_step with (x := x); [apply HR'; exact Hx|exact Hf].
    - destruct (in_dec Nat.eq_dec z R) as [Hin|Hnin]; [exact Hin|exfalso].
      apply HRR in Hx.
      (* z recorded an adoption of x, is live, and by discipline holds a handle to x *)
      pose proof (hi_back_edge _ HH x z Hbw) as He. unfold edge in He.
      apply (fwd_target_lget _ _ _ Hwf) in He.
      destruct (hi_linked_live _ HH x z (or_intror Hbw)) as (bz & Hbz & Hlz).
      destruct (hi_shape _ HH z bz Hbz) as (Sz & _). destruct (Sz Hlz) as (Hvz & _).
      destruct (value bz) as [pz|] eqn:Evz; [|congruence].
      assert (Hdz : lget (heap_of s) z (x, Fwd) <= total (sw_strong x) (slots pz)).
      { assert (Hz : disc_at (heap_of s) z) by (apply Hd; right; exists x; split; assumption).
        apply (Hz bz pz Hbz Evz x). }
      (* x's counter is covered by the members' records, hence by the members' values *)
      destruct (Hlive x Hx) as (bx & m & px & Hbx & Hsx & Hmx & Hlx & Hvx & Hle).
      rewrite Hsum' in Hle.
      assert (Hcov : sumN (map (fun x' => lget (heap_of s) x' (x, Fwd)) R) <=
                     sumN (map (at_idx (w_box (sw_strong x)) (heap_of s)) R)).
      { apply sumN_le_pointwise. intros x' Hx'.
        destruct (Hlive x' Hx') as (b' & m' & p' & Hb' & _ & _ & _ & Hv' & _).
        rewrite (at_idx_some _ _ _ _ Hb'), (w_box_value _ _ _ Hv'). unfold w_payload.
        apply (Hd x' (or_introl Hx') b' p' Hb' Hv'). }
      (* but the census counts z's handle on top of the members' handles *)
      assert (Hnd' : NoDup (z :: R)) by (constructor; assumption).
      pose proof (heap_nodup_idx (sw_strong x) (heap_of s) (z :: R) Hnd') as Htot.
      cbn [map sumN] in Htot.
      rewrite (at_idx_some _ _ _ _ Hbz), (w_box_value _ _ _ Evz) in Htot. unfold w_payload in Htot.
      pose proof (ci_strong s k (inv_cnt s k HI) x bx m Hbx Hsx) as HW.
      unfold W, w_held in HW. lia. }
  (* (3) nobody in the map has an external owner *)
  assert (Hext : has_external (heap_of s) own = Ok false).
  { apply has_external_ok_false. intros y c Hin.
    assert (Hy : In y R) by (apply HKR; apply in_map_iff; exists (y, c); auto).
    destruct (Hlive y Hy) as (b & m & p & Hb & Hs & Hm & Hl & Hv & Hle).
    exists b. split; [apply (inv_live_getb s k HI); assumption|].
    rewrite (GroupOps.own_get_in _ _ _ HndK Hin) in Hle. rewrite Hs. cbn [sgt].
    apply N.ltb_ge. exact Hle. }
  exists own, pops, visits. split.
  - unfold orphaned_cycle, bind. rewrite Hcr. destruct own as [|e own'].
    + exfalso. apply (HRK o). apply HR. apply reach_refl.
    + rewrite Hext. reflexivity.
  - intros y. split; [apply HKR|apply HRK].
Qed.

(** the same under the global discipline (the hypothesis [step_ok] grants at
    the moment [Rc::drop] starts) *)
Corollary orphan_complete s k o R :
  Inv s k -> disc (heap_of s) -> has_table (heap_of s) o ->
  NoDup R -> (forall y, In y R <-> reach (heap_of s) o y) ->
  (forall y, In y R -> exists b m, nth_error (heap_of s) y = Some b /\ strong b = Cnt m /\
      m <= sumN (map (fun x => lget (heap_of s) x (y, Fwd)) R)) ->
  exists cyc pops visits, orphaned_cycle (heap_of s) o = Ok (Some cyc, pops, visits) /\
    (forall y, In y (map fst cyc) <-> In y R).
Proof. intros HI Hd. apply (orphan_complete_local s k o R HI (disc_group_disc _ R Hd)). Qed.

(** Soundness and completeness together: on a disciplined heap
    [Rc::orphaned_cycle] answers [Some(..)] EXACTLY when every member's counter
    is covered by the adoptions recorded inside the traced set. *)
Theorem orphan_test_exact s k o R :
  Inv s k -> disc (heap_of s) -> has_table (heap_of s) o ->
  NoDup R -> (forall y, In y R <-> reach (heap_of s) o y) ->
  ((exists cyc pops visits, orphaned_cycle (heap_of s) o = Ok (Some cyc, pops, visits)) <->
   (forall y, In y R -> exists b m, nth_error (heap_of s) y = Some b /\ strong b = Cnt m /\
      m <= sumN (map (fun x => lget (heap_of s) x (y, Fwd)) R))).
Proof.
  intros HI Hd Ht HndR HR. split.
  - intros (cyc & pops & visits & Hoc) y Hy.
    pose proof (Inv_HeapInv s k HI) as HH. pose proof (ti_wf _ (hi_tbl _ HH)) as Hwf.
    destruct (group_trace s o cyc pops visits Hoc) as (R0 & HndR0 & HR0 & Hsum & Hkeys & HndK & Hne & Hext).
    assert (HRR : forall z, In z R0 <-> In z R) by (intros z; rewrite HR, HR0; tauto).
    assert (Hy0 : In y R0) by (apply HRR; exact Hy).
    pose proof (R_in_keys s k o HI cyc pops visits Hoc R0 HR0 Hsum Hkeys HndK Hne Hext y Hy0) as Hk.
    apply in_map_iff in Hk as ([y' c] & E & Hin). cbn [fst] in E. subst y'.
    destruct (key_facts s k HI cyc R0 Hkeys HndK Hext y c Hin) as (b & m & Hb & _ & Hs & _ & Hle & Hc).
    exists b, m. split; [exact Hb|]. split; [exact Hs|].
    rewrite Hc, Hsum, (sumN_nodup_same _ R0 R HndR0 HndR HRR) in Hle.
    eapply N.le_trans; [exact Hle|]. apply N.eq_le_incl.
    apply sumN_ext_in. intros x _. apply cntF_lget. exact Hwf.
  - intros Hprem. destruct (orphan_complete s k o R HI Hd Ht HndR HR Hprem) as (cyc & pops & visits & Hoc & _).
    exists cyc, pops, visits. exact Hoc.
Qed.

(** ** STRETCH 2: the drop that orphans a group collects it *)

Lemma disc_dec_strong (h : heap) o b sc :
  nth_error h o = Some b -> (live b = true -> live (with_strong b sc) = true) ->
  disc h -> disc (setb h o (with_strong b sc)).
Proof.
  intros Hb Hl Hd a b' p Hb' Hp y.
  assert (Hst : same_tables h (setb h o (with_strong b sc))).
  { apply same_tables_setb with (b := b); auto. }
  rewrite (same_tables_lget _ _ a _ Hst).
  unfold setb in Hb'. rewrite nth_error_upd in Hb'.
  destruct (Nat.eqb_spec o a) as [<-|Hne].
  - destruct (Nat.ltb o (length h)); [|discriminate]. injection Hb' as <-.
    cbn [value with_strong] in Hp. apply (Hd o b p Hb Hp).
  - apply (Hd a b' p Hb' Hp).
Qed.

(** [Rc::drop] of a handle to [o] that is not the last one ([strong > 1]).
    If, once the counter has been decremented, every strong handle to every
    object reachable from [o] is an adoption recorded by a member of that set,
    then this very [drop] answers with the group teardown: it returns the
    frames [FInners inners; FFinishGroup keys] where [keys] are exactly the
    members, every member is marked [usize::MAX] with its value and its table
    moved out, and the invariant holds for the continuation. *)
Theorem drop_collects_orphans pri s k o b n R :
  Inv s (FDropStrong o :: k) -> getb (heap_of s) o = Ok b -> strong b = Cnt n -> 1 < n ->
  disc (heap_of s) ->
  let h1 := setb (heap_of s) o (with_strong b (Cnt (n - 1))) in
  NoDup R -> (forall y, In y R <-> reach h1 o y) ->
  (forall y, In y R -> exists b' m, nth_error h1 y = Some b' /\ strong b' = Cnt m /\
      m <= sumN (map (fun x => lget h1 x (y, Fwd)) R)) ->
  exists s1 inners keys,
    drop_strong pri s o = Ok (s1, [FInners inners; FFinishGroup keys]) /\
    (forall y, In y keys <-> In y R) /\
    (forall y, In y R -> exists b', nth_error (heap_of s1) y = Some b' /\
        strong b' = Uninit /\ value b' = None /\ links b' = None) /\
    Inv s1 (FInners inners :: FFinishGroup keys :: k).
Proof.
  intros HI Hg Hs Hn Hd h1 HndR HR Hprem.
  pose proof (getb_ok _ _ _ Hg) as [Hb Hfr].
  pose proof (dec_strong_inv s o k b n HI Hb Hs Hn) as HI1. fold h1 in HI1.
  assert (Hl : live b = true) by (unfold live; rewrite Hs; apply N.ltb_lt; lia).
  assert (Hl1 : live (with_strong b (Cnt (n - 1))) = true).
  { unfold live. cbn [strong with_strong]. apply N.ltb_lt. lia. }
  destruct (inv_shape s _ HI o b Hb) as (S1 & _). destruct (S1 Hl) as (Hv & Hlk & _).
  destruct (links b) as [t|] eqn:El; [|congruence].
  assert (Hlt : (o < length (heap_of s))%nat) by (apply nth_error_Some; congruence).
  assert (Hb1 : nth_error h1 o = Some (with_strong b (Cnt (n - 1)))).
  { unfold h1, setb. apply nth_error_upd_same. exact Hlt. }
  assert (Hgl : get_links h1 o = Ok t).
  { unfold h1. rewrite (get_links_setb_strong _ _ _ _ Hg), El. reflexivity. }
  assert (Hht : has_table h1 o).
  { exists (with_strong b (Cnt (n - 1))), t. split; [|exact El]. apply getb_intro; [exact Hb1|exact Hfr]. }
  assert (Hd1 : disc h1).
  { unfold h1. apply disc_dec_strong; auto. }
  pose proof (Inv_HeapInv _ _ HI1) as HH1. cbn [heap_of set_heap mk] in HH1.
  (* the orphan test passes *)
  destruct (orphan_complete (set_heap s h1) k o R HI1 Hd1 Hht HndR HR Hprem)
    as (cyc & pops & visits & Eoc & HcycR).
  cbn [heap_of set_heap mk] in Eoc.
  (* the table of [o] is not empty: a member recorded an adoption of [o] *)
  assert (Hne : t <> []).
  { intros ->. assert (Ho : In o R) by (apply HR; apply reach_refl).
    destruct (Hprem o Ho) as (b' & m & Hb' & Hs' & Hle).
    rewrite Hb1 in Hb'. injection Hb' as <-. cbn [strong with_strong] in Hs'. injection Hs' as <-.
    assert (Hpos : 0 < sumN (map (fun x => lget h1 x (o, Fwd)) R)) by lia.
    destruct (sumN_pos_ex _ _ Hpos) as (x & _ & Hcx).
    rewrite (ti_sym _ (hi_tbl _ HH1) x o) in Hcx. unfold lget in Hcx. rewrite Hb1 in Hcx.
    unfold btable in Hcx. cbn [links with_strong] in Hcx. rewrite El in Hcx. cbn [tbl_get] in Hcx. lia. }
  (* the teardown *)
  destruct (group_inv (set_heap s h1) k o pri cyc pops visits HI1 (fun x _ => Hd1 x) Eoc)
    as (h2 & h3 & inners & Ebust & Egather & Hgh & Hkeys & HI3).
  cbn [heap_of set_heap mk] in Ebust, Hgh, Hkeys.
  set (keys := map fst (order_cycle pri cyc)) in *.
  exists (add_ev (set_heap (add_ev (set_heap s h1) (EvTrace o pops visits)) h3) (EvGroup keys)),
    inners, keys.
  split; [|split; [|split]].
  - unfold drop_strong, bind. rewrite Hg, Hs.
    assert ((n =? 0) = false) as -> by (apply N.eqb_neq; lia).
    fold h1. rewrite Hgl.
    assert ((n - 1 =? 0) = false) as -> by (apply N.eqb_neq; lia).
    destruct t as [|e t']; [congruence|].
    rewrite Eoc. fold keys. rewrite Ebust, Egather. reflexivity.
  - intros y. rewrite Hkeys, HR. tauto.
  - intros y Hy. destruct (Hprem y Hy) as (b' & m & Hb' & _).
    assert (Hyk : In y keys) by (apply Hkeys; apply HR; exact Hy).
    exists (gone b'). cbn [heap_of add_ev set_heap mk].
    split; [apply (group_heap_member h1 h3 keys y b' Hgh Hb' Hyk)|].
    split; [reflexivity|]. split; reflexivity.
  - exact HI3.
Qed.

(** ** STRETCH 3: where the premise comes from *)

(** The premise of [orphan_complete], read on the handles themselves: if all
    the strong handles to a member [y] that exist anywhere (registers, values,
    frames) are the handles held by the values of the members, and the members
    record exactly the handles their values hold, then every member's counter
    EQUALS the number of adoptions of it recorded inside the set. *)
Lemma orphan_premise s k R :
  Inv s k ->
  (forall y, In y R -> exists b, nth_error (heap_of s) y = Some b /\ live b = true) ->
  (forall y, In y R ->
     W (sw_strong y) s k = sumN (map (at_idx (w_box (sw_strong y)) (heap_of s)) R)) ->
  (forall x y b p, In x R -> In y R -> nth_error (heap_of s) x = Some b -> value b = Some p ->
     lget (heap_of s) x (y, Fwd) = total (sw_strong y) (slots p)) ->
  forall y, In y R -> exists b m, nth_error (heap_of s) y = Some b /\ strong b = Cnt m /\
    m = sumN (map (fun x => lget (heap_of s) x (y, Fwd)) R).
Proof.
  intros HI Hlive Hown Hrec y Hy.
  destruct (Hlive y Hy) as (b & Hb & Hl). destruct (live_true b Hl) as (m & Hs & _).
  exists b, m. split; [exact Hb|]. split; [exact Hs|].
  rewrite (ci_strong s k (inv_cnt s k HI) y b m Hb Hs), (Hown y Hy).
  apply sumN_ext_in. intros x Hx.
  destruct (Hlive x Hx) as (bx & Hbx & Hlx).
  destruct (inv_shape s k HI x bx Hbx) as (S1 & _). destruct (S1 Hlx) as (Hv & _).
  destruct (value bx) as [p|] eqn:Ev; [|congruence].
  rewrite (at_idx_some _ _ _ _ Hbx), (w_box_value _ _ _ Ev). unfold w_payload.
  symmetry. apply (Hrec x y bx p Hx Hy Hbx Ev).
Qed.

(** [orphan_complete] under that reading: a set of objects, closed under
    recorded Forward adoptions from the live object [o], all of whose strong
    handles are held by the members' values and recorded, passes the orphan
    test. *)
Corollary orphan_complete_owned s k o bo R :
  Inv s k -> disc (heap_of s) ->
  nth_error (heap_of s) o = Some bo -> live bo = true ->
  NoDup R -> (forall y, In y R <-> reach (heap_of s) o y) ->
  (forall y, In y R ->
     W (sw_strong y) s k = sumN (map (at_idx (w_box (sw_strong y)) (heap_of s)) R)) ->
  (forall x y b p, In x R -> In y R -> nth_error (heap_of s) x = Some b -> value b = Some p ->
     lget (heap_of s) x (y, Fwd) = total (sw_strong y) (slots p)) ->
  exists cyc pops visits, orphaned_cycle (heap_of s) o = Ok (Some cyc, pops, visits) /\
    (forall y, In y (map fst cyc) <-> In y R).
Proof.
  intros HI Hd Hbo Hlo HndR HR Hown Hrec.
  pose proof (Inv_HeapInv s k HI) as HH.
  pose proof (hi_live_has_table _ HH o bo Hbo Hlo) as Ht.
  assert (Hlive : forall y, In y R -> exists b, nth_error (heap_of s) y = Some b /\ live b = true).
  { intros y Hy. apply HR in Hy. inversion Hy as [|x y' Hrx Hxy]; subst.
    - exists bo. split; assumption.
    - apply (hi_linked_live _ HH x y (or_introl Hxy)). }
  apply (orphan_complete s k o R HI Hd Ht HndR HR).
  intros y Hy. destruct (orphan_premise s k R HI Hlive Hown Hrec y Hy) as (b & m & Hb & Hs & Hm).
  exists b, m. split; [exact Hb|]. split; [exact Hs|]. subst m. apply N.le_refl.
Qed.

Print Assumptions orphan_complete_local.
Print Assumptions orphan_complete.
Print Assumptions orphan_test_exact.
Print Assumptions drop_collects_orphans.
Print Assumptions orphan_premise.
Print Assumptions orphan_complete_owned.
