(** Property C12 — handle-consuming APIs stay sound on adopted objects. *)
From Coq Require Import Permutation.
From CR Require Import Base Atomic Machine LinksFacts HeapFacts TraceFacts TraceTotal Local StackBound
  Termination Perm StdRc StdRefine Tokens InvDef InvLemmas ActBase ActHandles ActAdopt ActMove ActConsume
  StepFrames StepPanic Purge GroupOps DropDec Group DropLast StepInv RunInv Consequences PidInv Common.
Local Open Scope N_scope.

(** try_unwrap and make_mut (all three branches), on any object of any adoption
    graph: never fault, never abort, keep the invariant — in particular no
    table keeps a record naming the allocation that was given up (TblInv:
    records name live objects only) and the value is moved exactly once *)
Theorem C12_try_unwrap :
  forall r dst s self pc k,
  Inv s (ctx self pc k) -> act_post_strict self pc k (exec_act s self (ATryUnwrap r dst)).
Proof. exact try_unwrap_strict. Qed.
Print Assumptions C12_try_unwrap.

Theorem C12_make_mut :
  forall r s self pc k,
  Inv s (ctx self pc k) -> act_post_strict self pc k (exec_act s self (AMakeMut r)).
Proof. exact make_mut_strict. Qed.
Print Assumptions C12_make_mut.

Theorem C12_get_mut_raw_and_counts :
  forall r dst, act_preserves (AGetMut r) /\ act_preserves (AIntoRaw r) /\ act_preserves (AFromRaw r) /\
    act_preserves (AIncStrong r dst) /\ act_preserves (ADecStrong r).
Proof.
  exact (fun r dst => conj (act_get_mut r) (conj (act_into_raw r) (conj (act_from_raw r)
           (conj (act_inc_strong r dst) (act_dec_strong r))))).
Qed.
Print Assumptions C12_get_mut_raw_and_counts.

(** the peers are unlinked when the allocation is given up *)
Theorem C12_released_allocation_is_unlinked :
  forall h o b t h3, TblInv h -> Purge.live_has_table h -> no_foreign_loop h o ->
  getb h o = Ok b -> links b = Some t -> release_links h o = Ok h3 ->
  TblInv h3 /\ (forall a kd, lget h3 a (o, kd) = 0) /\ (forall l, lget h3 o l = 0).
Proof. exact release_links_TblInv. Qed.
Print Assumptions C12_released_allocation_is_unlinked.

(** every later history on the former peers: the invariant is the induction
    hypothesis of all other theorems *)
Theorem C12_later_histories :
  forall fuel h s, Inv s [] -> hist_ok fuel s h = true ->
  Forall (fun r => match r with OHalt e => e = HAbort | _ => True end) (snd (run_history fuel s h)) /\
  (forallb completed (snd (run_history fuel s h)) = true -> Inv (fst (run_history fuel s h)) []).
Proof. exact (fun fuel h => run_history_inv fuel h). Qed.
Print Assumptions C12_later_histories.

(** values are moved out or cloned exactly once: the payload identifiers of all
    values not yet destroyed stay pairwise distinct and disjoint from the
    destroyed ones, through try_unwrap (value moved to the caller), the steal
    branch (moved to a new allocation) and the clone branch (a fresh value) *)
Theorem C12_values_moved_or_cloned_exactly_once :
  forall pri c c', PidInv (st c) (stack c) -> step pri c = Running c' -> PidInv (st c') (stack c').
Proof. exact step_pid. Qed.
Print Assumptions C12_values_moved_or_cloned_exactly_once.
