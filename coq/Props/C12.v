(** Property C12 — statements only. Each theorem is closed by [exact] of a lemma
    proved elsewhere and followed by [Print Assumptions]. *)
From CR Require Import Base Atomic Machine LinksFacts HeapFacts TraceFacts Local.
Local Open Scope N_scope.

Theorem C12_unadopt_partial :
  forall h a b h',
  heap_wf h -> unadopt h false a b = Ok h' ->
  lget h' a (b, Fwd) = lget h a (b, Fwd) - 1 /\
  lget h' b (a, Bwd) = lget h b (a, Bwd) - 1.
Proof. exact unadopt_counts. Qed.
Print Assumptions C12_unadopt_partial.

