(** Property C07 — statements only. Each theorem is closed by [exact] of a lemma
    proved elsewhere and followed by [Print Assumptions]. *)
From CR Require Import Base Atomic Machine LinksFacts HeapFacts TraceFacts Local.
Local Open Scope N_scope.

Theorem C07_clone_no_table_partial :
  forall s self hr dst s' self' r fr,
  exec_act s self (AClone hr dst) = AO s' self' r fr -> log s' = log s /\ fr = [].
Proof. exact clone_no_trace. Qed.
Print Assumptions C07_clone_no_table_partial.

