(** Property C07 — without adoptions, behaves exactly like std::rc. *)
From Coq Require Import Permutation.
From CR Require Import Base Atomic Machine LinksFacts HeapFacts TraceFacts TraceTotal Local StackBound
  Termination Perm StdRc StdRefine Tokens InvDef InvLemmas ActBase ActHandles ActAdopt ActMove ActConsume
  StepFrames StepPanic Purge GroupOps DropDec Group DropLast StepInv RunInv Consequences Common.
Local Open Scope N_scope.

(** for every adoption-free history (scripts and panics included, the whole
    modelled API): the machine of Model/Machine.v and the specification StdRc
    (Proofs/StdRc.v: no sentinel, no tables) produce the same outcomes, the
    same destructor sequence and corresponding states *)
Theorem C07_refines_std :
  forall fuel h, noadopt_history h ->
  let '(s, rs) := run_history fuel init_state h in
  s_run_history fuel s_init_state (map fst h) =
    (smk (abs_heap (heap_of s)) (regs s) (filter keep_ev (log s)), rs).
Proof. exact noadopt_is_std_exact. Qed.
Print Assumptions C07_refines_std.

(** the adoption machinery is never entered: drop is std's drop *)
Theorem C07_drop_is_std_drop :
  forall pri s o, no_records (heap_of s) -> StdRefine.live_has_table (heap_of s) ->
  drop_strong pri s o = std_drop_strong s o.
Proof. exact drop_strong_fast. Qed.
Print Assumptions C07_drop_is_std_drop.

Theorem C07_never_traces :
  forall fuel h, noadopt_history h ->
  cyc_events (log (fst (run_history fuel init_state h))) = [] /\
  traces (log (fst (run_history fuel init_state h))) = [].
Proof. exact noadopt_program_never_traces. Qed.
Print Assumptions C07_never_traces.

Theorem C07_oracle_free :
  forall pri pri' c, cfg_noadopt c -> step pri c = step pri' c.
Proof. exact step_oracle_free. Qed.
Print Assumptions C07_oracle_free.
