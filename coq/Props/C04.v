(** Property C04 — destroyed objects return all memory. *)
From Coq Require Import Permutation.
From CR Require Import Base Atomic Machine LinksFacts HeapFacts TraceFacts TraceTotal Local StackBound
  Termination Perm StdRc StdRefine Tokens InvDef InvLemmas ActBase ActHandles ActAdopt ActMove ActConsume
  StepFrames StepPanic Purge GroupOps DropDec Group DropLast StepInv RunInv Consequences Common.
Local Open Scope N_scope.

(** once the value is destroyed, at a call boundary, with nothing leaked by a
    panic and no Weak handle left: the allocation is released, the table is
    gone (its storage dropped) and the value is gone *)
Theorem C04_destroyed_objects_are_released :
  forall s o b, Inv s [] -> nth_error (heap_of s) o = Some b -> live b = false ->
  n_leak o (log s) = 0 -> w_held (sw_weak o) s = 0 ->
  freed b = true /\ links b = None /\ value b = None.
Proof. exact destroyed_released. Qed.
Print Assumptions C04_destroyed_objects_are_released.

(** pointwise, in every configuration: the bare allocation survives exactly as
    long as a Weak handle, a pending teardown step or a leaked teardown needs it *)
Theorem C04_allocation_survives_iff_needed :
  forall s k o b, Inv s k -> nth_error (heap_of s) o = Some b ->
  (freed b = true <->
   live b = false /\ W (sw_weak o) s k = 0 /\ n_after o k + n_fin o k + n_leak o (log s) = 0).
Proof. exact freed_iff. Qed.
Print Assumptions C04_allocation_survives_iff_needed.

Theorem C04_last_weak_releases :
  forall h o b h',
  getb h o = Ok b -> weak_drop h (Some o) = Ok h' ->
  0 < weak b /\
  h' = setb h o (if (weak b - 1 =? 0) then with_freed (with_weak b (weak b - 1)) true
                 else with_weak b (weak b - 1)).
Proof. exact weak_drop_spec. Qed.
Print Assumptions C04_last_weak_releases.

(** every teardown path keeps the accounting: plain last-handle drop and zero
    count with adoptions (C03_last_drop_destroys), member of a collected group
    (C01_orphan_test_sound), try_unwrap and make_mut (C12), each followed by the
    finish steps of Inv/StepFrames.v — all inside [step_inv] *)
Theorem C04_all_paths_keep_the_accounting :
  forall pri c, Inv_cfg c -> step_hyp c -> step_goal c (step pri c).
Proof. exact step_inv. Qed.
Print Assumptions C04_all_paths_keep_the_accounting.

(** the history-level form: everything destroyed, every Weak dropped, nothing
    leaked by a panic => the library holds no memory *)
Theorem C04_fully_collected_graph_leaks_nothing :
  forall s, Inv s [] ->
  (forall o b, nth_error (heap_of s) o = Some b -> live b = false) ->
  (forall o, w_held (sw_weak o) s = 0) ->
  (forall o, n_leak o (log s) = 0) ->
  forall o b, nth_error (heap_of s) o = Some b -> freed b = true /\ links b = None /\ value b = None.
Proof. exact all_destroyed_all_released. Qed.
Print Assumptions C04_fully_collected_graph_leaks_nothing.
