(** Property C04 — statements only. Each theorem is closed by [exact] of a lemma
    proved elsewhere and followed by [Print Assumptions]. *)
From CR Require Import Base Atomic Machine LinksFacts HeapFacts TraceFacts Local.
Local Open Scope N_scope.

Theorem C04_last_weak_releases_partial :
  forall h o b h',
  getb h o = Ok b -> weak_drop h (Some o) = Ok h' ->
  0 < weak b /\
  h' = setb h o (if (weak b - 1 =? 0) then with_freed (with_weak b (weak b - 1)) true
                 else with_weak b (weak b - 1)).
Proof. exact weak_drop_spec. Qed.
Print Assumptions C04_last_weak_releases_partial.

