(** Property C10 — statements only. Each theorem is closed by [exact] of a lemma
    proved elsewhere and followed by [Print Assumptions]. *)
From CR Require Import Base Atomic Machine LinksFacts HeapFacts TraceFacts Local.
Local Open Scope N_scope.

Theorem C10_dead_handle_drop_partial :
  forall pri s k u o b,
  getb (heap_of s) o = Ok b -> is_dead (strong b) = true ->
  step pri {| st := s; stack := FDropStrong o :: k; unw := u |} =
  Running {| st := s; stack := k; unw := u |}.
Proof. exact step_drop_dead. Qed.
Print Assumptions C10_dead_handle_drop_partial.

