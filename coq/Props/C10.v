(** Property C10 — destructors may use the API re-entrantly during a collection.
    The machine runs destructor scripts as ordinary steps between the atomic
    library steps, so "at every re-entry point" is "in every configuration". *)
From Coq Require Import Permutation.
From CR Require Import Base Atomic Machine LinksFacts HeapFacts TraceFacts TraceTotal Local StackBound
  Termination Perm StdRc StdRefine Tokens InvDef InvLemmas ActBase ActHandles ActAdopt ActMove ActConsume
  StepFrames StepPanic Purge GroupOps DropDec Group DropLast StepInv RunInv Consequences Borrow Common.
Local Open Scope N_scope.

(** every script action — create, clone, drop (possibly starting a nested
    collection), adopt, unadopt, downgrade, upgrade, store, take, the consuming
    API — on objects that are not being destroyed, plus clone/drop/upgrade/count
    on dying peers ([act_safe]), preserves the invariant and does not fault *)
Theorem C10_every_action_preserves_invariant :
  forall a, act_preserves a.
Proof. exact act_inv. Qed.
Print Assumptions C10_every_action_preserves_invariant.

Theorem C10_invariant_at_every_reentry_point :
  forall pri c c', steps pri c c' -> Inv_cfg c -> Inv_cfg c'.
Proof. exact steps_inv. Qed.
Print Assumptions C10_invariant_at_every_reentry_point.

Theorem C10_no_fault_under_reentrancy :
  forall pri c c' s' h, steps pri c c' -> Inv_cfg c -> step_hyp c' ->
  step pri c' = Halted s' h -> h = HAbort.
Proof. exact steps_no_fault. Qed.
Print Assumptions C10_no_fault_under_reentrancy.

(** C01-C06 for the objects touched are instances: e.g. upgrade of a Weak to a
    dying peer from inside a destructor yields None *)
Theorem C10_upgrade_dying_peer_is_none :
  forall s self pc k wr dst o, Inv s (ctx self pc k) ->
  resolve_weak s self wr = Some (Some o) -> reg_free s dst = true ->
  exists b, getb (heap_of s) o = Ok b /\
    (value b <> None <-> live b = true) /\
    (live b = false -> exec_act s self (AUpgrade wr dst) = AO s self RNone []) /\
    (live b = true -> exists s', exec_act s self (AUpgrade wr dst) = AO s' self RSome [] /\
        reg_get s' dst = RStrong o).
Proof. exact upgrade_iff_alive. Qed.
Print Assumptions C10_upgrade_dying_peer_is_none.

(** "... and no internal borrow conflict panic occurs". The RefCell protocol of
    the library's atomic regions, as an annotation layer over the model
    (Proofs/Borrow.v: which table is borrowed how, in which order — a hand
    transcription of adopt.rs, cycle.rs, drop.rs, trusted like the model): the
    borrow events of every machine step, every call and every history replay
    without a conflict and end with nothing borrowed — so no borrow is ever
    held while user code (a value destructor) runs *)
Theorem C10_no_borrow_held_across_user_code :
  forall pri c, exists st', breplay quiescent0 (step_bev pri c) = Some st' /\ quiescent st'.
Proof. exact no_borrow_across_user_code. Qed.
Print Assumptions C10_no_borrow_held_across_user_code.

Theorem C10_no_borrow_conflict_in_any_history :
  forall fuel h s, exists st', breplay quiescent0 (history_bev fuel s h) = Some st' /\ quiescent st'.
Proof. exact no_borrow_conflict_in_history. Qed.
Print Assumptions C10_no_borrow_conflict_in_any_history.

(** the definitions have teeth: without the "skip entries naming this" test the
    purge loop panics (the comment "to avoid an already borrowed error" in drop.rs) *)
Theorem C10_skip_test_is_what_avoids_the_panic :
  forall this k n t, In ((this, k), n) t ->
  breplay quiescent0 (release_links_bev_noskip this t) = None.
Proof. exact noskip_panics. Qed.
Print Assumptions C10_skip_test_is_what_avoids_the_panic.
