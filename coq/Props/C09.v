(** Property C09 — what an operation destroys does not depend on addresses or
    table order. Table order = order of the association lists ([heap_perm]:
    same heap up to permutation of every table); member order of a group
    teardown = the choice oracle [pri]. *)
From Coq Require Import Permutation.
From CR Require Import Base Atomic Machine LinksFacts HeapFacts TraceFacts TraceTotal Local StackBound
  Termination Perm StdRc StdRefine Tokens InvDef InvLemmas ActBase ActHandles ActAdopt ActMove ActConsume
  StepFrames StepPanic Purge GroupOps DropDec Group DropLast StepInv RunInv Consequences TablesFrame Recorded Determ Common.
Local Open Scope N_scope.

Theorem C09_trace_result_order_independent :
  forall h h' a own pops visits own' pops' visits',
  heap_perm h h' ->
  cycle_refs h a = Ok (own, pops, visits) ->
  cycle_refs h' a = Ok (own', pops', visits') ->
  (forall y, own_get own' y = own_get own y) /\
  (forall y, In y (map fst own') <-> In y (map fst own)) /\ pops' = pops /\ visits' = visits.
Proof. exact cycle_refs_perm. Qed.
Print Assumptions C09_trace_result_order_independent.

Theorem C09_orphan_decision_order_independent :
  forall h h' a oc p v oc' p' v',
  heap_perm h h' ->
  orphaned_cycle h a = Ok (oc, p, v) ->
  orphaned_cycle h' a = Ok (oc', p', v') ->
  match oc with
  | Some c =>
      match oc' with
      | Some c' =>
          (forall y, own_get c' y = own_get c y) /\
          (forall y, In y (map fst c') <-> In y (map fst c))
      | None => False
      end
  | None => match oc' with Some _ => False | None => True end
  end /\ p' = p /\ v' = v.
Proof. exact orphaned_cycle_perm. Qed.
Print Assumptions C09_orphan_decision_order_independent.

(** Rc::drop as a whole, for two table orders AND two choice oracles: the
    resulting states agree up to table order and member order inside the
    group ([state_perm], [frame_rel]): same objects destroyed, same counters *)
Theorem C09_drop_order_independent :
  forall pri pri' s s' o s1 fr s1' fr',
  state_perm s s' -> heap_wf (heap_of s) ->
  drop_strong pri s o = Ok (s1, fr) ->
  drop_strong pri' s' o = Ok (s1', fr') -> state_perm s1 s1' /\ Forall2 frame_rel fr fr'.
Proof. exact drop_strong_perm. Qed.
Print Assumptions C09_drop_order_independent.

(** the member order of a teardown changes only the order of destruction *)
Theorem C09_member_order_irrelevant :
  forall pri pri' cyc h h2 h3 inn,
  NoDup (map fst cyc) ->
  let c1 := order_cycle pri cyc in
  let c2 := order_cycle pri' cyc in
  bust_all h (map fst c1) c1 = Ok h2 ->
  gather h2 (map fst c1) [] = Ok (h3, inn) ->
  bust_all h (map fst c2) c2 = Ok h2 /\
  (exists inn', gather h2 (map fst c2) [] = Ok (h3, inn') /\ Permutation inn inn') /\
  (forall hx hf, finish_group hx (map fst c1) = Ok hf -> finish_group hx (map fst c2) = Ok hf).
Proof. exact drop_cycle_oracle_indep. Qed.
Print Assumptions C09_member_order_irrelevant.

(** and the invariant (hence C01-C08) holds for EVERY oracle: all theorems of
    Inv/ quantify over [pri] *)
Theorem C09_every_oracle :
  forall pri c, Inv_cfg c -> step_hyp c -> step_goal c (step pri c).
Proof. exact step_inv. Qed.
Print Assumptions C09_every_oracle.

(** "programs that record every stored handle as an adoption": for such a state
    ([recorded], values without scripts), every call that does not itself move
    or record handles satisfies all hypotheses of the safety theorems at every
    nested step, whatever the oracle, and re-establishes the premise *)
Theorem C09_fully_recorded_programs :
  forall pri fuel s o,
  Inv s [] -> recorded (heap_of s) -> no_scripts {| st := s; stack := []; unw := false |} ->
  quiet_op o = true ->
  match snd (exec_op pri fuel s o) with
  | OHalt h => h = HAbort
  | OFuel => True
  | _ => Inv (fst (exec_op pri fuel s o)) [] /\ recorded (heap_of (fst (exec_op pri fuel s o))) /\
         no_scripts {| st := fst (exec_op pri fuel s o); stack := []; unw := false |}
  end.
Proof. exact exec_op_recorded_inv. Qed.
Print Assumptions C09_fully_recorded_programs.

(** WHOLE RUNS.  "For programs that record every stored handle as an adoption,
    the set of objects destroyed by each operation, and every count observable
    afterwards, is a function of the sequence of calls alone": two executions
    of the same calls -- arbitrary choice oracles (member order of every group
    teardown) and fuels -- from states that agree return the same results and
    end in states with the same heap (every counter, value, table, liveness and
    released flag) and the same registers; the destructor runs and the released
    tables are the same up to order ([obs_eq]; the model logs no separate
    "freed" event -- release is the [freed] flag of the heap -- so that clause
    of [obs_eq] carries no information).  Scope: values without destructor
    scripts, handles moved only through the link/unlink idiom ([rec_hist],
    [good], Inv/Recorded.v). *)
Theorem C09_call_result_is_a_function_of_the_calls :
  forall pri pri' f f' s s' o,
  good s -> good s' -> obs_eq s s' -> quiet_op o = true ->
  RunInv.completed (snd (exec_op pri f s o)) = true -> RunInv.completed (snd (exec_op pri' f' s' o)) = true ->
  snd (exec_op pri' f' s' o) = snd (exec_op pri f s o) /\
  obs_eq (fst (exec_op pri f s o)) (fst (exec_op pri' f' s' o)).
Proof. exact exec_op_oracle_independent. Qed.
Print Assumptions C09_call_result_is_a_function_of_the_calls.

Theorem C09_history_is_a_function_of_the_calls :
  forall f f' h h',
  rec_hist (S f) init_state h -> map fst h' = map fst h ->
  forallb RunInv.completed (snd (run_history (S f) init_state h)) = true ->
  forallb RunInv.completed (snd (run_history (S f') init_state h')) = true ->
  snd (run_history (S f') init_state h') = snd (run_history (S f) init_state h) /\
  obs_eq (fst (run_history (S f) init_state h)) (fst (run_history (S f') init_state h')).
Proof. exact run_history_oracle_independent. Qed.
Print Assumptions C09_history_is_a_function_of_the_calls.

(** ... and "different allocation addresses, hence different internal table
    iteration orders": the two executions may also start from heaps whose
    tables list the same records in different orders ([heap_perm]); they stay
    equal up to table order ([obs_perm]) *)
Theorem C09_history_independent_of_table_order :
  forall f f' h s, rec_hist (S f) s h -> forall s' h',
  good s -> good s' -> obs_perm s s' -> map fst h' = map fst h ->
  forallb RunInv.completed (snd (run_history (S f) s h)) = true ->
  forallb RunInv.completed (snd (run_history (S f') s' h')) = true ->
  snd (run_history (S f') s' h') = snd (run_history (S f) s h) /\
  obs_perm (fst (run_history (S f) s h)) (fst (run_history (S f') s' h')).
Proof. exact run_history_table_order_independent. Qed.
Print Assumptions C09_history_independent_of_table_order.

(** non-vacuity: a two-object cycle collected under two oracles (the logs
    differ, the theorem applies), and two table orders *)
Theorem C09_whole_run_nonvacuous :
  snd (run_history 40 init_state (ex_hist [0; 1]%nat)) = snd (run_history 30 init_state (ex_hist [])) /\
  obs_eq (fst (run_history 30 init_state (ex_hist []))) (fst (run_history 40 init_state (ex_hist [0; 1]%nat))).
Proof. exact ex_independent. Qed.
Print Assumptions C09_whole_run_nonvacuous.

(** ** the model's id-keyed tables against the implementation's address-keyed tables (Inv/AddrInv.v) *)
From CR Require Import AddrInv.
From Coq Require Import ZArith.

(** every record of every link table names an allocation that has not been released, so under any
    address assignment the allocator's contract permits, two keys of a table have equal addresses iff
    they name the same object: replacing ids by addresses (any layout, with reuse) changes no table *)
Theorem C09_table_keys_have_distinct_addresses :
  forall s k am o b t o1 k1 n1 o2 k2 n2,
  Inv s k -> addr_inj (heap_of s) am -> nth_error (heap_of s) o = Some b -> links b = Some t ->
  In ((o1, k1), n1) t -> In ((o2, k2), n2) t -> (am o1 = am o2 <-> o1 = o2).
Proof. exact table_keys_distinct_addresses. Qed.
Print Assumptions C09_table_keys_have_distinct_addresses.

Theorem C09_table_key_against_owner :
  forall s k am o b t o1 k1 n1,
  Inv s k -> addr_inj (heap_of s) am -> nth_error (heap_of s) o = Some b -> links b = Some t ->
  In ((o1, k1), n1) t -> freed b = false -> (am o1 = am o <-> o1 = o).
Proof. exact table_key_vs_owner. Qed.
Print Assumptions C09_table_key_against_owner.
