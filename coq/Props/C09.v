(** Property C09 — what an operation destroys does not depend on addresses or
    table order. Table order = order of the association lists ([heap_perm]:
    same heap up to permutation of every table); member order of a group
    teardown = the choice oracle [pri]. *)
From Coq Require Import Permutation.
From CR Require Import Base Atomic Machine LinksFacts HeapFacts TraceFacts TraceTotal Local StackBound
  Termination Perm StdRc StdRefine Tokens InvDef InvLemmas ActBase ActHandles ActAdopt ActMove ActConsume
  StepFrames StepPanic Purge GroupOps DropDec Group DropLast StepInv RunInv Consequences TablesFrame Recorded Common.
Local Open Scope N_scope.

Theorem C09_trace_result_order_independent :
  forall h h' a own pops visits own' pops' visits',
  heap_perm h h' ->
  cycle_refs h a = Ok (own, pops, visits) ->
  cycle_refs h' a = Ok (own', pops', visits') ->
  (forall y, own_get own' y = own_get own y) /\
  (forall y, In y (map fst own') <-> In y (map fst own)) /\ pops' = pops /\ visits' = visits.
Proof. exact cycle_refs_perm. Qed.
Print Assumptions C09_trace_result_order_independent.

Theorem C09_orphan_decision_order_independent :
  forall h h' a oc p v oc' p' v',
  heap_perm h h' ->
  orphaned_cycle h a = Ok (oc, p, v) ->
  orphaned_cycle h' a = Ok (oc', p', v') ->
  match oc with
  | Some c =>
      match oc' with
      | Some c' =>
          (forall y, own_get c' y = own_get c y) /\
          (forall y, In y (map fst c') <-> In y (map fst c))
      | None => False
      end
  | None => match oc' with Some _ => False | None => True end
  end /\ p' = p /\ v' = v.
Proof. exact orphaned_cycle_perm. Qed.
Print Assumptions C09_orphan_decision_order_independent.

(** Rc::drop as a whole, for two table orders AND two choice oracles: the
    resulting states agree up to table order and member order inside the
    group ([state_perm], [frame_rel]): same objects destroyed, same counters *)
Theorem C09_drop_order_independent :
  forall pri pri' s s' o s1 fr s1' fr',
  state_perm s s' -> heap_wf (heap_of s) ->
  drop_strong pri s o = Ok (s1, fr) ->
  drop_strong pri' s' o = Ok (s1', fr') -> state_perm s1 s1' /\ Forall2 frame_rel fr fr'.
Proof. exact drop_strong_perm. Qed.
Print Assumptions C09_drop_order_independent.

(** the member order of a teardown changes only the order of destruction *)
Theorem C09_member_order_irrelevant :
  forall pri pri' cyc h h2 h3 inn,
  NoDup (map fst cyc) ->
  let c1 := order_cycle pri cyc in
  let c2 := order_cycle pri' cyc in
  bust_all h (map fst c1) c1 = Ok h2 ->
  gather h2 (map fst c1) [] = Ok (h3, inn) ->
  bust_all h (map fst c2) c2 = Ok h2 /\
  (exists inn', gather h2 (map fst c2) [] = Ok (h3, inn') /\ Permutation inn inn') /\
  (forall hx hf, finish_group hx (map fst c1) = Ok hf -> finish_group hx (map fst c2) = Ok hf).
Proof. exact drop_cycle_oracle_indep. Qed.
Print Assumptions C09_member_order_irrelevant.

(** and the invariant (hence C01-C08) holds for EVERY oracle: all theorems of
    Inv/ quantify over [pri] *)
Theorem C09_every_oracle :
  forall pri c, Inv_cfg c -> step_hyp c -> step_goal c (step pri c).
Proof. exact step_inv. Qed.
Print Assumptions C09_every_oracle.

(** "programs that record every stored handle as an adoption": for such a state
    ([recorded], values without scripts), every call that does not itself move
    or record handles satisfies all hypotheses of the safety theorems at every
    nested step, whatever the oracle, and re-establishes the premise *)
Theorem C09_fully_recorded_programs :
  forall pri fuel s o,
  Inv s [] -> recorded (heap_of s) -> no_scripts {| st := s; stack := []; unw := false |} ->
  quiet_op o = true ->
  match snd (exec_op pri fuel s o) with
  | OHalt h => h = HAbort
  | OFuel => True
  | _ => Inv (fst (exec_op pri fuel s o)) [] /\ recorded (heap_of (fst (exec_op pri fuel s o))) /\
         no_scripts {| st := fst (exec_op pri fuel s o); stack := []; unw := false |}
  end.
Proof. exact exec_op_recorded_inv. Qed.
Print Assumptions C09_fully_recorded_programs.
