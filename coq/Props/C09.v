(** Property C09 — statements only. Each theorem is closed by [exact] of a lemma
    proved elsewhere and followed by [Print Assumptions]. *)
From CR Require Import Base Atomic Machine LinksFacts HeapFacts TraceFacts Local.
Local Open Scope N_scope.

Theorem C09_trace_result_partial :
  forall h a own pops visits,
  cycle_refs h a = Ok (own, pops, visits) ->
  exists R,
    NoDup R /\ (forall y, In y R <-> reach h a y) /\
    (forall y, own_get own y = sumN (map (fun x => cntF (tbl_of h x) y) R)) /\
    (forall y, In y (map fst own) <-> exists x, In x R /\ linked h x y) /\
    NoDup (map fst own) /\
    visits = N.of_nat (length R) /\
    pops = (1 + sumN (map (fun x => N.of_nat (length (fwd_targets (tbl_of h x)))) R))%N.
Proof. exact cycle_refs_spec. Qed.
Print Assumptions C09_trace_result_partial.

