(** Property C13 — forgetting unadopt. The full statement is FALSE of the code
    (known finding D4, witness below). Proved part: stale records are harmless
    as long as no reachability trace visits an object that carries one. *)
From Coq Require Import Permutation.
From CR Require Import Base Atomic Machine LinksFacts HeapFacts TraceFacts TraceTotal Local StackBound
  Termination Perm StdRc StdRefine Tokens InvDef InvLemmas ActBase ActHandles ActAdopt ActMove ActConsume
  StepFrames StepPanic Purge GroupOps DropDec Group DropLast StepInv RunInv Consequences Common.
Local Open Scope N_scope.

(** the drop of a handle needs discipline only on the objects its own trace
    visits ([traced_disc]); stale or excess records anywhere else in the heap
    do not matter: no fault, invariant preserved, reachable objects alive *)
Theorem C13_stale_records_off_the_trace_are_harmless :
  forall pri s o k,
  Inv s (FDropStrong o :: k) -> traced_disc (heap_of s) o ->
  exists s1 push, drop_strong pri s o = Ok (s1, push) /\ Inv s1 (push ++ k).
Proof. exact drop_strong_inv. Qed.
Print Assumptions C13_stale_records_off_the_trace_are_harmless.

Theorem C13_stepwise :
  forall pri c, Inv_cfg c -> step_hyp c -> step_goal c (step pri c).
Proof. exact step_inv. Qed.
Print Assumptions C13_stepwise.

(** a dying adoptee purges the stale records its former adopters keep *)
Theorem C13_dying_adoptee_purges_stale_records :
  forall h o b t h3, TblInv h -> Purge.live_has_table h -> no_foreign_loop h o ->
  getb h o = Ok b -> links b = Some t -> release_links h o = Ok h3 ->
  TblInv h3 /\ (forall a kd, lget h3 a (o, kd) = 0) /\ (forall l, lget h3 o l = 0).
Proof. exact release_links_TblInv. Qed.
Print Assumptions C13_dying_adoptee_purges_stale_records.

(** KNOWN FINDING D4: x and y adopt each other; x's handle to y is taken out
    WITHOUT unadopt and kept; the other handles are dropped: the trace counts
    the stale record as a group-internal handle, both objects are destroyed,
    and using the kept handle reads a released allocation. *)
Definition d4_history : list (op * list oid) := map (fun a => (OAct a, @nil oid))
  [ANew 0; ANew 1; AClone (HReg 1) 7; AAdopt (HReg 0) (HReg 7); AStore 7 (OReg 0) 0;
   AClone (HReg 0) 7; AAdopt (HReg 1) (HReg 7); AStore 7 (OReg 1) 0; ATake (OReg 0) 0 2;
   ADrop 1; ADrop 0; AStrongCount (HReg 2)].

Theorem C13_refuted :
  snd (run_history ex_fuel init_state d4_history) =
    repeat (ODone RUnit) 11 ++ [OHalt (HFault FkFreed 1%nat)].
Proof. vm_compute. reflexivity. Qed.
Print Assumptions C13_refuted.
