(** Property C15 — collection is iterative and linear. *)
From Coq Require Import Permutation.
From CR Require Import Base Atomic Machine LinksFacts HeapFacts TraceFacts TraceTotal Local StackBound
  Termination Perm StdRc StdRefine Tokens InvDef InvLemmas ActBase ActHandles ActAdopt ActMove ActConsume
  StepFrames StepPanic Purge GroupOps DropDec Group DropLast StepInv RunInv Consequences Common.
Local Open Scope N_scope.

(** the trace visits each object of the traced set exactly once (the visited
    list has no duplicates and [visits] is its length) and pops one worklist
    element per Forward record of a visited object, plus one *)
Theorem C15_trace_visits_each_once :
  forall h a own pops visits,
  cycle_refs h a = Ok (own, pops, visits) ->
  exists R,
    NoDup R /\ (forall y, In y R <-> reach h a y) /\
    (forall y, own_get own y = sumN (map (fun x => cntF (tbl_of h x) y) R)) /\
    (forall y, In y (map fst own) <-> exists x, In x R /\ linked h x y) /\
    NoDup (map fst own) /\
    visits = N.of_nat (length R) /\
    pops = (1 + sumN (map (fun x => N.of_nat (length (fwd_targets (tbl_of h x)))) R))%N.
Proof. exact cycle_refs_spec. Qed.
Print Assumptions C15_trace_visits_each_once.

(** closed form: linear in objects + adoptions; the trace always terminates *)
Theorem C15_trace_linear :
  forall h a, has_table h a -> closed_fwd h ->
  exists own pops visits,
    cycle_refs h a = Ok (own, pops, visits) /\
    (pops <= 1 + N.of_nat (total_entries h))%N /\ (visits <= N.of_nat (length h))%N.
Proof. exact cycle_refs_total_cost. Qed.
Print Assumptions C15_trace_linear.

(** destroying a collected group whose values hold handles to members only:
    the machine stack never exceeds the depth at entry plus 5 frames, whatever
    the group size, and the number of steps is linear *)
Theorem C15_group_teardown_bounded_stack :
  forall pri s o s1 es keys k u,
  drop_strong pri s o = Ok (s1, [FInners es; FFinishGroup keys]) ->
  closed_group es ->
  let c0 := {| st := s; stack := FDropStrong o :: k; unw := u |} in
  let n := group_steps es in
  let s2 := mk (heap_of s1) (regs s1) (group_log es (log s1)) in
  (n <= 5 * length es + 2 * length (group_slots es) + 1)%nat /\
  run pri (S n) c0 = Running {| st := s2; stack := FFinishGroup keys :: k; unw := u |} /\
  (forall m, (m <= S n)%nat -> exists cm, run pri m c0 = Running cm /\ (length (stack cm) <= length k + 5)%nat) /\
  (max_depth pri (S (S n)) c0 <= length k + 5)%nat.
Proof. exact closed_group_teardown_bounded. Qed.
Print Assumptions C15_group_teardown_bounded_stack.

(** every call terminates within an explicit, linear fuel bound *)
Theorem C15_call_fuel_bound :
  forall pri c, stopped (run pri (fuel_bound c) c).
Proof. exact run_fuel_bound. Qed.
Print Assumptions C15_call_fuel_bound.
