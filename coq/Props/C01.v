(** Property C01 — no premature destruction. Statements only: each theorem is
    closed by [exact] of a lemma proved elsewhere and followed by
    [Print Assumptions]. *)
From Coq Require Import Permutation.
From CR Require Import Base Atomic Machine LinksFacts HeapFacts TraceFacts TraceTotal Local StackBound
  Termination Perm StdRc StdRefine Tokens InvDef InvLemmas ActBase ActHandles ActAdopt ActMove ActConsume
  StepFrames StepPanic Purge GroupOps DropDec Group DropLast StepInv RunInv Consequences PidInv TablesFrame Recorded InvDec Common.
Local Open Scope N_scope.

(** Full statement. For every history (any length, any graph shape, any choice
    oracle = table iteration order of every group teardown) that is disciplined
    when library drop logic starts ([hist_ok]: no live object records more
    adoptions of a target than its value holds handles to it; destructor
    scripts use destroyed objects only by clone/drop/upgrade/count): no call
    touches released or moved-out memory, and after the calls the invariant
    [Inv] holds ... *)
Theorem C01_disciplined_histories_keep_invariant :
  forall fuel h, hist_ok fuel init_state h = true ->
  Forall (fun r => match r with OHalt e => e = HAbort | _ => True end) (snd (run_history fuel init_state h)) /\
  (forallb completed (snd (run_history fuel init_state h)) = true -> Inv (fst (run_history fuel init_state h)) []).
Proof. exact run_history_from_init. Qed.
Print Assumptions C01_disciplined_histories_keep_invariant.

(** ... and under [Inv] — at a call boundary or in ANY intermediate
    configuration, also while destructors run — everything reachable from the
    handles the program holds (through stored handles, adopted or not) is
    alive: value in place, allocation not released. *)
Theorem C01_reachable_objects_are_alive :
  forall s k o, Inv s k -> reachable s o -> alive s o.
Proof. exact reachable_alive. Qed.
Print Assumptions C01_reachable_objects_are_alive.

Theorem C01_invariant_in_every_configuration :
  forall pri c c', steps pri c c' -> Inv_cfg c -> Inv_cfg c'.
Proof. exact steps_inv. Qed.
Print Assumptions C01_invariant_in_every_configuration.

Theorem C01_deref_reads_value_in_place :
  forall s k r o, Inv s k -> reg_get s r = RStrong o ->
  exists b p, getb (heap_of s) o = Ok b /\ value b = Some p /\
    exec_act s None (ADeref (HReg r)) = AO s None (RNat (N.of_nat (pid p))) [].
Proof. exact deref_held. Qed.
Print Assumptions C01_deref_reads_value_in_place.

(** The heart of it: soundness of the orphan test. If the test passes on a heap
    whose TRACED objects are disciplined, the collected set is exactly the
    traced set, every member can be torn down, and the invariant (in particular
    "no handle held by the program, a surviving value or a pending frame targets
    a destroyed object") holds afterwards. *)
Theorem C01_orphan_test_sound :
  forall s k o pri cyc pops visits,
  Inv s k -> (forall x, reach (heap_of s) o x -> disc_at (heap_of s) x) ->
  orphaned_cycle (heap_of s) o = Ok (Some cyc, pops, visits) ->
  let cyc' := order_cycle pri cyc in
  let keys := map fst cyc' in
  exists h2 h3 inners,
    bust_all (heap_of s) keys cyc' = Ok h2 /\ gather h2 keys [] = Ok (h3, inners) /\
    group_heap (heap_of s) h3 keys /\
    (forall y, In y keys <-> reach (heap_of s) o y) /\
    Inv (add_ev (set_heap (add_ev s (EvTrace o pops visits)) h3) (EvGroup keys))
        (FInners inners :: FFinishGroup keys :: k).
Proof. exact group_inv. Qed.
Print Assumptions C01_orphan_test_sound.

(** the trace computes the forward closure and the per-target sums (used above) *)
Theorem C01_trace_is_closure :
  forall h a own pops visits,
  cycle_refs h a = Ok (own, pops, visits) ->
  exists R,
    NoDup R /\ (forall y, In y R <-> reach h a y) /\
    (forall y, own_get own y = sumN (map (fun x => cntF (tbl_of h x) y) R)) /\
    (forall y, In y (map fst own) <-> exists x, In x R /\ linked h x y) /\
    NoDup (map fst own) /\
    visits = N.of_nat (length R) /\
    pops = (1 + sumN (map (fun x => N.of_nat (length (fwd_targets (tbl_of h x)))) R))%N.
Proof. exact cycle_refs_spec. Qed.
Print Assumptions C01_trace_is_closure.

(** "the original, intact value": for EVERY history (disciplined or not) a box
    whose value is still in place holds the value created for it, and a deref
    through any handle reads that value *)
Theorem C01_boxes_hold_their_original_value :
  forall fuel h o b p,
  nth_error (heap_of (fst (run_history fuel init_state h))) o = Some b ->
  value b = Some p -> pid p = o.
Proof. exact history_boxes_original. Qed.
Print Assumptions C01_boxes_hold_their_original_value.

Theorem C01_deref_yields_the_original_value :
  forall s k self hr o l,
  PidInv s k -> resolve_strong s self hr = Some (o, l) ->
  forall b p, getb (heap_of s) o = Ok b -> value b = Some p ->
  exec_act s self (ADeref hr) = AO s self (RNat (N.of_nat o)) [].
Proof. exact deref_original_any. Qed.
Print Assumptions C01_deref_yields_the_original_value.

(** THE PRECONDITION IS GUARANTEED BY THE DOCUMENTED IDIOM. A program built from
    the calls that neither store nor record handles (new, clone, drop, Weak
    traffic, try_unwrap, raw round trips, observers) and from the two blocks
      link   = clone b; adopt(a, &clone); store the clone in a
      unlink = unadopt(a, &stored); take it out of a
    keeps "every stored strong handle is recorded, with multiplicity"
    ([recorded]) at every call boundary; this implies the per-step hypothesis
    [hist_ok] at EVERY nested drop of every call (values without destructor
    scripts), hence all of the above: no fault, invariant, reachable => alive *)
Theorem C01_link_unlink_idiom_is_disciplined :
  forall f h s, good s -> rec_hist (S f) s h ->
  hist_ok (S f) s h = true /\
  (forallb completed (snd (run_history (S f) s h)) = true -> good (fst (run_history (S f) s h))).
Proof. exact rec_hist_ok. Qed.
Print Assumptions C01_link_unlink_idiom_is_disciplined.

Theorem C01_idiomatic_programs_are_safe :
  forall f h, rec_hist (S f) init_state h ->
  Forall (fun r => match r with OHalt e => e = HAbort | _ => True end) (snd (run_history (S f) init_state h)).
Proof. exact rec_hist_safe. Qed.
Print Assumptions C01_idiomatic_programs_are_safe.

(** the hypotheses are satisfiable by a non-trivial history *)
Theorem C01_nonvacuous : hist_ok ex_fuel init_state ex_history = true.
Proof. exact ex_history_ok. Qed.
Print Assumptions C01_nonvacuous.

(** The invariant and the precondition are DECIDABLE, and the executable
    checkers that the correspondence run evaluates on every configuration of
    every explored history ([invb], [discb], extracted with the model) decide
    them exactly: a non-zero code is a proof of [~ Inv], a zero code a proof of
    [Inv] (Inv/InvDec.v). *)
Theorem C01_invariant_checker_is_exact :
  forall s k, invb s k = 0%nat <-> Inv s k.
Proof. exact invb_iff. Qed.
Print Assumptions C01_invariant_checker_is_exact.

Theorem C01_precondition_checker_is_exact :
  forall h, heap_wf h -> (discb h = true <-> disc h).
Proof. exact discb_iff. Qed.
Print Assumptions C01_precondition_checker_is_exact.
