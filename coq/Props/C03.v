(** Property C03 — an orphaned adopted group is destroyed by the drop that orphans it. *)
From Coq Require Import Permutation.
From CR Require Import Base Atomic Machine LinksFacts HeapFacts TraceFacts TraceTotal Local StackBound
  Termination Perm StdRc StdRefine Tokens InvDef InvLemmas ActBase ActHandles ActAdopt ActMove ActConsume
  StepFrames StepPanic Purge GroupOps DropDec Group DropLast StepInv RunInv Consequences OrphanComplete PidInv DtorsRun Common.
Local Open Scope N_scope.

(** nothing stays alive without a handle: an object whose last strong handle
    disappears is destroyed in that very step (at every configuration, a live
    object has at least one strong handle) *)
Theorem C03_alive_implies_handle :
  forall s k o b, Inv s k -> nth_error (heap_of s) o = Some b -> live b = true ->
  0 < W (sw_strong o) s k.
Proof. exact live_has_handle. Qed.
Print Assumptions C03_alive_implies_handle.

(** the last drop destroys the object now: the value moves to the destructor
    frame and the object is dead to every observer from this step on *)
Theorem C03_last_drop_destroys :
  forall pri s o k b, Inv s (FDropStrong o :: k) -> getb (heap_of s) o = Ok b -> strong b = Cnt 1 ->
  exists s1 v, drop_strong pri s o = Ok (s1, [FDtorStart v; FAfterValue o]) /\ value b = Some v /\
    Inv s1 ([FDtorStart v; FAfterValue o] ++ k).
Proof. exact drop_last_inv. Qed.
Print Assumptions C03_last_drop_destroys.

(** collection is synchronous: every call returns (for every heap, whatever the
    destructors do), and its result does not depend on the fuel once it suffices *)
Theorem C03_every_call_returns :
  forall pri s o, exists fuel, snd (exec_op pri fuel s o) <> OFuel.
Proof. exact exec_op_returns. Qed.
Print Assumptions C03_every_call_returns.

Theorem C03_every_run_terminates :
  forall pri c, exists fuel, match run pri fuel c with Running _ => False | _ => True end.
Proof. exact run_terminates. Qed.
Print Assumptions C03_every_run_terminates.

(** when a group is collected, ALL objects reachable from the dropped one
    through recorded adoptions are destroyed together, in this step *)
Theorem C03_collected_set_is_the_traced_set :
  forall s k o pri cyc pops visits,
  Inv s k -> (forall x, reach (heap_of s) o x -> disc_at (heap_of s) x) ->
  orphaned_cycle (heap_of s) o = Ok (Some cyc, pops, visits) ->
  let cyc' := order_cycle pri cyc in
  let keys := map fst cyc' in
  exists h2 h3 inners,
    bust_all (heap_of s) keys cyc' = Ok h2 /\ gather h2 keys [] = Ok (h3, inners) /\
    group_heap (heap_of s) h3 keys /\
    (forall y, In y keys <-> reach (heap_of s) o y) /\
    Inv (add_ev (set_heap (add_ev s (EvTrace o pops visits)) h3) (EvGroup keys))
        (FInners inners :: FFinishGroup keys :: k).
Proof. exact group_inv. Qed.
Print Assumptions C03_collected_set_is_the_traced_set.

(** completeness of the decision: if, after the decrement, every strong handle
    to every object reachable from [o] through recorded adoptions is a recorded
    adoption held by a member of that set (counter <= sum of the members'
    Forward records), the drop collects exactly that set: all members are
    destroyed (uninit marker, value and table moved to the destructor queue)
    before the drop returns *)
Theorem C03_orphaned_group_is_collected_by_this_drop :
  forall pri s k o b n R,
  Inv s (FDropStrong o :: k) -> getb (heap_of s) o = Ok b -> strong b = Cnt n -> 1 < n ->
  disc (heap_of s) ->
  let h1 := setb (heap_of s) o (with_strong b (Cnt (n - 1))) in
  NoDup R -> (forall y, In y R <-> reach h1 o y) ->
  (forall y, In y R -> exists b' m, nth_error h1 y = Some b' /\ strong b' = Cnt m /\
      m <= sumN (map (fun x => lget h1 x (y, Fwd)) R)) ->
  exists s1 inners keys,
    drop_strong pri s o = Ok (s1, [FInners inners; FFinishGroup keys]) /\
    (forall y, In y keys <-> In y R) /\
    (forall y, In y R -> exists b', nth_error (heap_of s1) y = Some b' /\
        strong b' = Uninit /\ value b' = None /\ links b' = None) /\
    Inv s1 (FInners inners :: FFinishGroup keys :: k).
Proof. exact drop_collects_orphans. Qed.
Print Assumptions C03_orphaned_group_is_collected_by_this_drop.

(** the orphan test is exact on disciplined heaps: it passes iff the traced set
    is owned by its own recorded adoptions *)
Theorem C03_orphan_test_exact :
  forall s k o R,
  Inv s k -> disc (heap_of s) -> has_table (heap_of s) o ->
  NoDup R -> (forall y, In y R <-> reach (heap_of s) o y) ->
  ((exists cyc pops visits, orphaned_cycle (heap_of s) o = Ok (Some cyc, pops, visits)) <->
   (forall y, In y R -> exists b m, nth_error (heap_of s) y = Some b /\ strong b = Cnt m /\
      m <= sumN (map (fun x => lget (heap_of s) x (y, Fwd)) R))).
Proof. exact orphan_test_exact. Qed.
Print Assumptions C03_orphan_test_exact.

(** "... are destroyed before the drop returns": whenever a call returns (normally
    or by a propagated panic), every value that any step of that call queued for
    destruction — in particular every member of a group collected by a drop
    inside that call — has had its destructor started; for EVERY run, no
    hypothesis at all *)
Theorem C03_group_destroyed_before_return :
  forall pri fuel s op s' out s1 self1 r push n c0 c1 o k es keys,
  exec_op pri fuel s op = (s', out) -> returned out ->
  call_start s op = AO s1 self1 r push ->
  run pri n (call_cfg s1 push) = Running c0 ->
  stack c0 = FDropStrong o :: k -> step pri c0 = Running c1 ->
  stack c1 = FInners es :: FFinishGroup keys :: k ->
  forall e, In e es -> In (pid (snd (fst e))) (dtor_log s').
Proof. exact DtorsRun.C03_group_destroyed_before_return. Qed.
Print Assumptions C03_group_destroyed_before_return.

Theorem C03_queued_destructors_run_in_order :
  forall pri fuel c s' b, run pri fuel c = Finished s' b ->
  exists l, dtor_log s' = l ++ dtor_log (st c) /\ subseq (rev (stack_pend (stack c))) l.
Proof. exact queued_dtors_run_in_order. Qed.
Print Assumptions C03_queued_destructors_run_in_order.

(** KNOWN FINDING D3 (not a theorem about what should hold, but a proof of what
    the code does): a self handle recorded through the SAME handle object
    (Loopback record) is never counted as owned by the group, so an object whose
    only remaining handle is that one is not collected although every handle to
    it is a recorded adoption held by itself. Witness: object 0 stores a clone
    of its handle in its own slot 0, records it with adopt(&h, &h), and the
    program drops its handle: afterwards no register holds anything, yet object
    0 is still live (leaked). *)
Definition d3_history : list (op * list oid) := map (fun a => (OAct a, @nil oid))
  [ANew 0; AClone (HReg 0) 1; AStore 1 (OReg 0) 0; AAdopt (HSlot (OReg 0) 0) (HSlot (OReg 0) 0); ADrop 0].

Theorem C03_loopback_refuted :
  let s := fst (run_history ex_fuel init_state d3_history) in
  hist_ok ex_fuel init_state d3_history = true /\
  regs s = repeat REmpty NREGS /\
  map (fun b => (strong b, links b)) (heap_of s) = [(Cnt 1, Some [((0%nat, Loop), 1)])].
Proof. vm_compute. repeat split; reflexivity. Qed.
Print Assumptions C03_loopback_refuted.
