(** Shared by the property files: a concrete, non-trivial history showing that
    the hypotheses of the theorems are satisfiable (a two-object cycle with
    recorded adoptions both ways, an outside Weak handle, collected by the drop
    of the last outside handle, then the Weak is upgraded). *)
From CR Require Import Base Atomic Machine InvDef StepInv RunInv.

Definition ex_fuel : nat := 1000.
Definition ex_history : list (op * list oid) := map (fun a => (OAct a, @nil oid))
  [ANew 0; ANew 1; AClone (HReg 1) 7; AAdopt (HReg 0) (HReg 7); AStore 7 (OReg 0) 0;
   AClone (HReg 0) 7; AAdopt (HReg 1) (HReg 7); AStore 7 (OReg 1) 0; ADowngrade (HReg 0) 5;
   ADrop 1; ADrop 0; AUpgrade (HReg 5) 6].

Example ex_history_ok : hist_ok ex_fuel init_state ex_history = true.
Proof. vm_compute. reflexivity. Qed.

Example ex_history_collects :
  snd (run_history ex_fuel init_state ex_history) =
    repeat (ODone RUnit) 11 ++ [ODone RNone] /\
  map (fun b => strong b) (heap_of (fst (run_history ex_fuel init_state ex_history))) = [Uninit; Uninit].
Proof. vm_compute. split; reflexivity. Qed.
