(** Property C08 — adoption bookkeeping exact, symmetric, never naming a dead object. *)
From Coq Require Import Permutation.
From CR Require Import Base Atomic Machine LinksFacts HeapFacts TraceFacts TraceTotal Local StackBound
  Termination Perm StdRc StdRefine Tokens InvDef InvLemmas ActBase ActHandles ActAdopt ActMove ActConsume
  StepFrames StepPanic Purge GroupOps DropDec Group DropLast StepInv RunInv Consequences Common.
Local Open Scope N_scope.

(** in every configuration: tables are finite maps with positive counts, every
    record is visible from both ends with the same multiplicity, both ends of
    every record are alive, Loopback records are self records *)
Theorem C08_tables_consistent :
  forall s k, Inv s k ->
  heap_wf (heap_of s) /\ symmetric (heap_of s) /\
  (forall a x kd, 0 < lget (heap_of s) a (x, kd) -> alive s a /\ alive s x) /\
  (forall a x, 0 < lget (heap_of s) a (x, Loop) -> x = a).
Proof. exact tables_consistent. Qed.
Print Assumptions C08_tables_consistent.

Theorem C08_adopt_records_one_pair :
  forall h a b h',
  adopt h false a b = Ok h' ->
  (forall o l, lget h' o l = lget h o l
      + (if Nat.eqb o a && link_eqb l (b, Fwd) then 1 else 0)
      + (if Nat.eqb o b && link_eqb l (a, Bwd) then 1 else 0)) /\
  heap_same_but_links h h'.
Proof. exact adopt_spec. Qed.
Print Assumptions C08_adopt_records_one_pair.

Theorem C08_unadopt_removes_at_most_one :
  forall h a b h',
  heap_wf h -> unadopt h false a b = Ok h' ->
  lget h' a (b, Fwd) = lget h a (b, Fwd) - 1 /\
  lget h' b (a, Bwd) = lget h b (a, Bwd) - 1.
Proof. exact unadopt_counts. Qed.
Print Assumptions C08_unadopt_removes_at_most_one.

(** records involving an object disappear when it is destroyed *)
Theorem C08_dying_object_is_purged :
  forall h o b t h3, TblInv h -> Purge.live_has_table h -> no_foreign_loop h o ->
  getb h o = Ok b -> links b = Some t -> release_links h o = Ok h3 ->
  TblInv h3 /\ (forall a kd, lget h3 a (o, kd) = 0) /\ (forall l, lget h3 o l = 0).
Proof. exact release_links_TblInv. Qed.
Print Assumptions C08_dying_object_is_purged.

Theorem C08_adopt_and_unadopt_keep_the_invariant :
  forall h1 h2, act_preserves (AAdopt h1 h2) /\ act_preserves (AUnadopt h1 h2).
Proof. exact (fun h1 h2 => conj (act_adopt h1 h2) (act_unadopt h1 h2)). Qed.
Print Assumptions C08_adopt_and_unadopt_keep_the_invariant.
