(** Property C08 — statements only. Each theorem is closed by [exact] of a lemma
    proved elsewhere and followed by [Print Assumptions]. *)
From CR Require Import Base Atomic Machine LinksFacts HeapFacts TraceFacts Local.
Local Open Scope N_scope.

Theorem C08_adopt_records_one_pair :
  forall h a b h',
  adopt h false a b = Ok h' ->
  (forall o l, lget h' o l = lget h o l
      + (if Nat.eqb o a && link_eqb l (b, Fwd) then 1 else 0)
      + (if Nat.eqb o b && link_eqb l (a, Bwd) then 1 else 0)) /\
  heap_same_but_links h h'.
Proof. exact adopt_spec. Qed.
Print Assumptions C08_adopt_records_one_pair.

Theorem C08_unadopt_removes_at_most_one :
  forall h a b h',
  heap_wf h -> unadopt h false a b = Ok h' ->
  lget h' a (b, Fwd) = lget h a (b, Fwd) - 1 /\
  lget h' b (a, Bwd) = lget h b (a, Bwd) - 1.
Proof. exact unadopt_counts. Qed.
Print Assumptions C08_unadopt_removes_at_most_one.

Theorem C08_adopt_keeps_symmetry :
  forall h same a b h',
  symmetric h -> adopt h same a b = Ok h' -> (same = true -> a = b) -> symmetric h'.
Proof. exact adopt_symmetric. Qed.
Print Assumptions C08_adopt_keeps_symmetry.

