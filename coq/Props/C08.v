(** Property C08 — adoption bookkeeping exact, symmetric, never naming a dead object. *)
From Coq Require Import Permutation.
From CR Require Import Base Atomic Machine LinksFacts HeapFacts TraceFacts TraceTotal Local StackBound
  Termination Perm StdRc StdRefine Tokens InvDef InvLemmas ActBase ActHandles ActAdopt ActMove ActConsume
  StepFrames StepPanic Purge GroupOps DropDec Group DropLast StepInv RunInv Consequences TablesFrame Common.
Local Open Scope N_scope.

(** in every configuration: tables are finite maps with positive counts, every
    record is visible from both ends with the same multiplicity, both ends of
    every record are alive, Loopback records are self records *)
Theorem C08_tables_consistent :
  forall s k, Inv s k ->
  heap_wf (heap_of s) /\ symmetric (heap_of s) /\
  (forall a x kd, 0 < lget (heap_of s) a (x, kd) -> alive s a /\ alive s x) /\
  (forall a x, 0 < lget (heap_of s) a (x, Loop) -> x = a).
Proof. exact tables_consistent. Qed.
Print Assumptions C08_tables_consistent.

Theorem C08_adopt_records_one_pair :
  forall h a b h',
  adopt h false a b = Ok h' ->
  (forall o l, lget h' o l = lget h o l
      + (if Nat.eqb o a && link_eqb l (b, Fwd) then 1 else 0)
      + (if Nat.eqb o b && link_eqb l (a, Bwd) then 1 else 0)) /\
  heap_same_but_links h h'.
Proof. exact adopt_spec. Qed.
Print Assumptions C08_adopt_records_one_pair.

Theorem C08_unadopt_removes_at_most_one :
  forall h a b h',
  heap_wf h -> unadopt h false a b = Ok h' ->
  lget h' a (b, Fwd) = lget h a (b, Fwd) - 1 /\
  lget h' b (a, Bwd) = lget h b (a, Bwd) - 1.
Proof. exact unadopt_counts. Qed.
Print Assumptions C08_unadopt_removes_at_most_one.

(** records involving an object disappear when it is destroyed *)
Theorem C08_dying_object_is_purged :
  forall h o b t h3, TblInv h -> Purge.live_has_table h -> no_foreign_loop h o ->
  getb h o = Ok b -> links b = Some t -> release_links h o = Ok h3 ->
  TblInv h3 /\ (forall a kd, lget h3 a (o, kd) = 0) /\ (forall l, lget h3 o l = 0).
Proof. exact release_links_TblInv. Qed.
Print Assumptions C08_dying_object_is_purged.

Theorem C08_adopt_and_unadopt_keep_the_invariant :
  forall h1 h2, act_preserves (AAdopt h1 h2) /\ act_preserves (AUnadopt h1 h2).
Proof. exact (fun h1 h2 => conj (act_adopt h1 h2) (act_unadopt h1 h2)). Qed.
Print Assumptions C08_adopt_and_unadopt_keep_the_invariant.

(** THE LEDGER. The recorded adoption graph changes only by adopt and unadopt
    calls and by the death of one of a record's ends: every other step — and
    hence every call and every history that executes no adopt/unadopt — leaves
    every record between two surviving objects unchanged ([records_kept]),
    never makes a record grow ([no_growth]), never revives an object
    ([dead_stays]) and creates objects with empty tables ([fresh_empty]) *)
Theorem C08_only_adopt_unadopt_and_death_change_records :
  forall pri c c', Inv_cfg c -> step_hyp c -> ledger_cfg c -> step pri c = Running c' ->
  ledger_frame (heap_of (st c)) (heap_of (st c')).
Proof. exact step_ledger. Qed.
Print Assumptions C08_only_adopt_unadopt_and_death_change_records.

Theorem C08_ledger_over_histories :
  forall fuel h s, Inv s [] -> hist_ok fuel s h = true -> hist_ledger fuel s h = true ->
  ledger_frame (heap_of s) (heap_of (fst (run_history fuel s h))).
Proof. exact run_history_ledger. Qed.
Print Assumptions C08_ledger_over_histories.

(** each adopt adds exactly one record, visible from both ends, and changes
    nothing else; each unadopt removes at most one (truncated subtraction) *)
Theorem C08_adopt_exact :
  forall s self h1 h2 a b l1 l2 s1 self1 r push,
  resolve_strong s self h1 = Some (a, l1) -> resolve_strong s self h2 = Some (b, l2) ->
  hloc_eqb l1 l2 = false ->
  exec_act s self (AAdopt h1 h2) = AO s1 self1 r push ->
  lget (heap_of s1) a (b, Fwd) = lget (heap_of s) a (b, Fwd) + 1 /\
  lget (heap_of s1) b (a, Bwd) = lget (heap_of s) b (a, Bwd) + 1 /\
  (forall o l, ~ (o = a /\ l = (b, Fwd)) -> ~ (o = b /\ l = (a, Bwd)) ->
     lget (heap_of s1) o l = lget (heap_of s) o l) /\
  heap_same_but_links (heap_of s) (heap_of s1).
Proof. exact act_adopt_ledger. Qed.
Print Assumptions C08_adopt_exact.

Theorem C08_unadopt_exact :
  forall s self pc k h1 h2 a b l1 l2 s1 self1 r push,
  Inv s (ctx self pc k) ->
  resolve_strong s self h1 = Some (a, l1) -> resolve_strong s self h2 = Some (b, l2) ->
  hloc_eqb l1 l2 = false ->
  exec_act s self (AUnadopt h1 h2) = AO s1 self1 r push ->
  lget (heap_of s1) a (b, Fwd) = lget (heap_of s) a (b, Fwd) - 1 /\
  lget (heap_of s1) b (a, Bwd) = lget (heap_of s) b (a, Bwd) - 1 /\
  (forall o l, ~ (o = a /\ l = (b, Fwd)) -> ~ (o = b /\ l = (a, Bwd)) ->
     lget (heap_of s1) o l = lget (heap_of s) o l) /\
  heap_same_but_links (heap_of s) (heap_of s1).
Proof. exact act_unadopt_ledger. Qed.
Print Assumptions C08_unadopt_exact.
