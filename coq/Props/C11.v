(** Property C11 — a panicking destructor cannot cause double destruction or
    dangling state. Unwinding is part of the machine ([unwind_stack]); the
    invariant holds in unwinding mode too, with the skipped finish obligations
    accounted for as leaks ([EvLeak], [n_leak]). *)
From Coq Require Import Permutation.
From CR Require Import Base Atomic Machine LinksFacts HeapFacts TraceFacts TraceTotal Local StackBound
  Termination Perm StdRc StdRefine Tokens InvDef InvLemmas ActBase ActHandles ActAdopt ActMove ActConsume
  StepFrames StepPanic Purge GroupOps DropDec Group DropLast StepInv RunInv Consequences Common.
Local Open Scope N_scope.

Theorem C11_unwinding_preserves_invariant :
  forall s p pc k, Inv s (FRunDtor p pc :: k) ->
  let '(s1, k1) := unwind_stack s k in Inv s1 (FDropSlots (slots p) :: k1).
Proof. exact unwind_inv. Qed.
Print Assumptions C11_unwinding_preserves_invariant.

(** for every panic position, every teardown path: the run (with panics
    anywhere) keeps the invariant, never faults, ... *)
Theorem C11_runs_with_panics :
  forall pri fuel c, Inv_cfg c -> run_ok pri fuel c = true -> run_goal (run pri fuel c).
Proof. exact run_inv. Qed.
Print Assumptions C11_runs_with_panics.

(** ... and the panic propagates to the caller: once unwinding, the call ends
    as panicked (or the process aborts on a second panic) *)
Theorem C11_panic_propagates :
  forall pri fuel c, unw c = true ->
  match run pri fuel c with
  | Running c' => unw c' = true
  | Finished _ p => p = true
  | Halted _ _ => True
  end.
Proof. exact run_unw. Qed.
Print Assumptions C11_panic_propagates.

Theorem C11_second_panic_aborts :
  forall pri s p pc k,
  step pri {| st := s; stack := FRunDtor p (APanic :: pc) :: k; unw := true |} = Halted s HAbort.
Proof. exact step_double_panic. Qed.
Print Assumptions C11_second_panic_aborts.

(** after a panicked call the invariant holds at the boundary: nothing reachable
    is destroyed (C01), counters exact (C06), members gathered before the panic
    stay dead for Weak (C05), and an allocation is released only when unneeded,
    hence never twice: leaked obligations keep it *)
Theorem C11_call_outcome :
  forall pri fuel s o, Inv s [] -> op_ok pri fuel s o = true -> op_goal (exec_op pri fuel s o).
Proof. exact exec_op_inv. Qed.
Print Assumptions C11_call_outcome.

Theorem C11_leaked_teardown_keeps_allocation :
  forall s k o b, Inv s k -> nth_error (heap_of s) o = Some b ->
  (freed b = true <->
   live b = false /\ W (sw_weak o) s k = 0 /\ n_after o k + n_fin o k + n_leak o (log s) = 0).
Proof. exact freed_iff. Qed.
Print Assumptions C11_leaked_teardown_keeps_allocation.
