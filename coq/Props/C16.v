(** Property C16 — cloning a handle to a destroyed object aborts. *)
From Coq Require Import Permutation.
From CR Require Import Base Atomic Machine LinksFacts HeapFacts TraceFacts TraceTotal Local StackBound
  Termination Perm StdRc StdRefine Tokens InvDef InvLemmas ActBase ActHandles ActAdopt ActMove ActConsume
  StepFrames StepPanic Purge GroupOps DropDec Group DropLast StepInv RunInv Consequences Common.
Local Open Scope N_scope.

Theorem C16_clone_dead_aborts :
  forall s self hr dst o l b,
  resolve_strong s self hr = Some (o, l) -> reg_free s dst = true ->
  getb (heap_of s) o = Ok b -> is_dead (strong b) = true ->
  exec_act s self (AClone hr dst) = AHalt HAbort.
Proof. exact clone_dead_aborts. Qed.
Print Assumptions C16_clone_dead_aborts.

Theorem C16_increment_dead_aborts :
  forall s self r dst o b,
  reg_get s r = RRaw o -> reg_free s dst = true ->
  getb (heap_of s) o = Ok b -> is_dead (strong b) = true ->
  exec_act s self (AIncStrong r dst) = AHalt HAbort.
Proof. exact incs_dead_aborts. Qed.
Print Assumptions C16_increment_dead_aborts.

(** dropping such a handle has no effect, and the allocation it points to has
    not been released (the invariant keeps it until the group's finish step) *)
Theorem C16_drop_dead_no_effect :
  forall pri s o k b,
  Inv s (FDropStrong o :: k) -> getb (heap_of s) o = Ok b -> is_dead (strong b) = true ->
  drop_strong pri s o = Ok (s, []) /\ Inv s k.
Proof. exact drop_dead_inv. Qed.
Print Assumptions C16_drop_dead_no_effect.

(** whichever peer and position: when any member's destructor runs during a
    group teardown, EVERY member is already marked destroyed ([group_heap]:
    all keys are [gone], i.e. strong = the uninit marker), and a handle a
    destructor holds to a peer can only be cloned (abort), dropped (no-op),
    or counted: it never targets a released allocation ([inv_top_token]) *)
Theorem C16_all_members_dead_during_teardown :
  forall s k o pri cyc pops visits,
  Inv s k -> (forall x, reach (heap_of s) o x -> disc_at (heap_of s) x) ->
  orphaned_cycle (heap_of s) o = Ok (Some cyc, pops, visits) ->
  let cyc' := order_cycle pri cyc in
  let keys := map fst cyc' in
  exists h2 h3 inners,
    bust_all (heap_of s) keys cyc' = Ok h2 /\ gather h2 keys [] = Ok (h3, inners) /\
    group_heap (heap_of s) h3 keys /\
    (forall y, In y keys <-> reach (heap_of s) o y) /\
    Inv (add_ev (set_heap (add_ev s (EvTrace o pops visits)) h3) (EvGroup keys))
        (FInners inners :: FFinishGroup keys :: k).
Proof. exact group_inv. Qed.
Print Assumptions C16_all_members_dead_during_teardown.

Theorem C16_frame_handles_never_dangle :
  forall s fr k o, Inv s (fr :: k) -> 0 < w_frame (sw_strong o) fr ->
  exists b, getb (heap_of s) o = Ok b /\ (live b = true \/ strong b = Uninit).
Proof. exact inv_top_token. Qed.
Print Assumptions C16_frame_handles_never_dangle.
