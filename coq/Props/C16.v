(** Property C16 — statements only. Each theorem is closed by [exact] of a lemma
    proved elsewhere and followed by [Print Assumptions]. *)
From CR Require Import Base Atomic Machine LinksFacts HeapFacts TraceFacts Local.
Local Open Scope N_scope.

Theorem C16_clone_dead_aborts :
  forall s self hr dst o l b,
  resolve_strong s self hr = Some (o, l) -> reg_free s dst = true ->
  getb (heap_of s) o = Ok b -> is_dead (strong b) = true ->
  exec_act s self (AClone hr dst) = AHalt HAbort.
Proof. exact clone_dead_aborts. Qed.
Print Assumptions C16_clone_dead_aborts.

Theorem C16_drop_dead_no_effect :
  forall pri s k u o b,
  getb (heap_of s) o = Ok b -> is_dead (strong b) = true ->
  step pri {| st := s; stack := FDropStrong o :: k; unw := u |} =
  Running {| st := s; stack := k; unw := u |}.
Proof. exact step_drop_dead. Qed.
Print Assumptions C16_drop_dead_no_effect.

