(** Property C06 — reference counts exact at all times. *)
From Coq Require Import Permutation.
From CR Require Import Base Atomic Machine LinksFacts HeapFacts TraceFacts TraceTotal Local StackBound
  Termination Perm StdRc StdRefine Tokens InvDef InvLemmas ActBase ActHandles ActAdopt ActMove ActConsume
  StepFrames StepPanic Purge GroupOps DropDec Group DropLast StepInv RunInv Consequences Common.
Local Open Scope N_scope.

(** at every call boundary: the counters of a live object are the numbers of
    strong handles (registers, raw pointers, values in boxes, loose values) and
    of Weak handles *)
Theorem C06_counts_exact :
  forall s o b, Inv s [] -> nth_error (heap_of s) o = Some b -> live b = true ->
  strong b = Cnt (w_held (sw_strong o) s) /\ weak b = w_held (sw_weak o) s + 1.
Proof. exact counts_exact. Qed.
Print Assumptions C06_counts_exact.

Theorem C06_observers_report_handle_counts :
  forall s r o, Inv s [] -> reg_get s r = RStrong o ->
  exec_act s None (AStrongCount (HReg r)) = AO s None (RCnt (Cnt (w_held (sw_strong o) s))) [] /\
  exec_act s None (AWeakCount (HReg r)) = AO s None (RNat (w_held (sw_weak o) s)) [].
Proof. exact strong_count_exact. Qed.
Print Assumptions C06_observers_report_handle_counts.

(** in every configuration, also mid-teardown: counter = census over ALL owners
    (registers, values, frames) *)
Theorem C06_counts_exact_everywhere :
  forall pri c c', steps pri c c' -> Inv_cfg c -> Inv_cfg c'.
Proof. exact steps_inv. Qed.
Print Assumptions C06_counts_exact_everywhere.

(** recording or removing an adoption changes no counter and no value *)
Theorem C06_adopt_changes_no_counter :
  forall h a b h',
  adopt h false a b = Ok h' ->
  (forall o l, lget h' o l = lget h o l
      + (if Nat.eqb o a && link_eqb l (b, Fwd) then 1 else 0)
      + (if Nat.eqb o b && link_eqb l (a, Bwd) then 1 else 0)) /\
  heap_same_but_links h h'.
Proof. exact adopt_spec. Qed.
Print Assumptions C06_adopt_changes_no_counter.

Theorem C06_unadopt_changes_no_counter :
  forall h a b h',
  heap_wf h -> unadopt h false a b = Ok h' ->
  (forall o l, lget h' o l =
      if Nat.eqb o b && link_eqb l (a, Bwd) then
        (if Nat.eqb b a && link_eqb (a, Bwd) (b, Fwd) then lget h a (b, Fwd) - 1 else lget h b (a, Bwd)) - 1
      else if Nat.eqb o a && link_eqb l (b, Fwd) then lget h a (b, Fwd) - 1
      else lget h o l) /\
  heap_same_but_links h h' /\ heap_wf h'.
Proof. exact unadopt_spec. Qed.
Print Assumptions C06_unadopt_changes_no_counter.
