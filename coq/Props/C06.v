(** Property C06 — reference counts exact at all times. *)
From Coq Require Import Permutation.
From CR Require Import Base Atomic Machine LinksFacts HeapFacts TraceFacts TraceTotal Local StackBound
  Termination Perm StdRc StdRefine Tokens InvDef InvLemmas ActBase ActHandles ActAdopt ActMove ActConsume
  StepFrames StepPanic Purge GroupOps DropDec Group DropLast StepInv RunInv Consequences Common.
Local Open Scope N_scope.

(** at every call boundary: the counters of a live object are the numbers of
    strong handles (registers, raw pointers, values in boxes, loose values) and
    of Weak handles *)
Theorem C06_counts_exact :
  forall s o b, Inv s [] -> nth_error (heap_of s) o = Some b -> live b = true ->
  strong b = Cnt (w_held (sw_strong o) s) /\ weak b = w_held (sw_weak o) s + 1.
Proof. exact counts_exact. Qed.
Print Assumptions C06_counts_exact.

Theorem C06_observers_report_handle_counts :
  forall s r o, Inv s [] -> reg_get s r = RStrong o ->
  exec_act s None (AStrongCount (HReg r)) = AO s None (RCnt (Cnt (w_held (sw_strong o) s))) [] /\
  exec_act s None (AWeakCount (HReg r)) = AO s None (RNat (w_held (sw_weak o) s)) [].
Proof. exact strong_count_exact. Qed.
Print Assumptions C06_observers_report_handle_counts.

(** in every configuration, also mid-teardown: counter = census over ALL owners
    (registers, values, frames) *)
Theorem C06_counts_exact_everywhere :
  forall pri c c', steps pri c c' -> Inv_cfg c -> Inv_cfg c'.
Proof. exact steps_inv. Qed.
Print Assumptions C06_counts_exact_everywhere.

(** recording or removing an adoption changes no counter and no value *)
Theorem C06_adopt_changes_no_counter :
  forall h a b h',
  adopt h false a b = Ok h' ->
  (forall o l, lget h' o l = lget h o l
      + (if Nat.eqb o a && link_eqb l (b, Fwd) then 1 else 0)
      + (if Nat.eqb o b && link_eqb l (a, Bwd) then 1 else 0)) /\
  heap_same_but_links h h'.
Proof. exact adopt_spec. Qed.
Print Assumptions C06_adopt_changes_no_counter.

Theorem C06_unadopt_changes_no_counter :
  forall h a b h',
  heap_wf h -> unadopt h false a b = Ok h' ->
  (forall o l, lget h' o l =
      if Nat.eqb o b && link_eqb l (a, Bwd) then
        (if Nat.eqb b a && link_eqb (a, Bwd) (b, Fwd) then lget h a (b, Fwd) - 1 else lget h b (a, Bwd)) - 1
      else if Nat.eqb o a && link_eqb l (b, Fwd) then lget h a (b, Fwd) - 1
      else lget h o l) /\
  heap_same_but_links h h' /\ heap_wf h'.
Proof. exact unadopt_spec. Qed.
Print Assumptions C06_unadopt_changes_no_counter.

(** ** identity (ptr_eq / as_ptr), with addresses that the allocator may reuse (Inv/AddrInv.v) *)
From CR Require Import AddrInv.
From Coq Require Import ZArith.

(** along every run, whatever the allocator does within its contract ([alloc_ok]: an address handed
    out is not the address of an allocation that has not been released -- it may be that of a released
    one), allocations that have not been released have pairwise distinct addresses, none the sentinel *)
Theorem C06_addresses_stay_distinct :
  forall pri c am c' am',
  asteps pri (c, am) (c', am') -> addr_inj (heap_of (st c)) am -> addr_inj (heap_of (st c')) am'.
Proof. exact asteps_addr_inj. Qed.
Print Assumptions C06_addresses_stay_distinct.

Theorem C06_addresses_stay_distinct_history :
  forall fuel h s am am',
  alloc_ok (heap_of s) (heap_of (fst (run_history fuel s h))) am am' ->
  addr_inj (heap_of s) am -> addr_inj (heap_of (fst (run_history fuel s h))) am'.
Proof. exact run_history_addr_inj. Qed.
Print Assumptions C06_addresses_stay_distinct_history.

(** all handles a program or a destructor script can name agree on identity: equal addresses iff the
    same object, although addresses are reused *)
Theorem C06_ptr_eq_exact :
  forall s self pc k am h1 h2 o1 l1 o2 l2,
  Inv s (ctx self pc k) -> addr_inj (heap_of s) am ->
  resolve_strong s self h1 = Some (o1, l1) -> resolve_strong s self h2 = Some (o2, l2) ->
  (am o1 = am o2 <-> o1 = o2).
Proof. exact ptr_eq_exact. Qed.
Print Assumptions C06_ptr_eq_exact.

Theorem C06_model_ptr_eq_is_address_equality :
  forall s self pc k am h1 h2 o1 l1 o2 l2,
  Inv s (ctx self pc k) -> addr_inj (heap_of s) am ->
  resolve_strong s self h1 = Some (o1, l1) -> resolve_strong s self h2 = Some (o2, l2) ->
  exec_act s self (APtrEq h1 h2) = AO s self (RBool (Z.eqb (am o1) (am o2))) [].
Proof. exact act_ptr_eq_by_address. Qed.
Print Assumptions C06_model_ptr_eq_is_address_equality.

Theorem C06_weak_ptr_eq_exact :
  forall s self pc k am w1 w2 x1 x2,
  Inv s (ctx self pc k) -> addr_inj (heap_of s) am ->
  resolve_weak s self w1 = Some x1 -> resolve_weak s self w2 = Some x2 ->
  let a x := match x with Some o => am o | None => SENTINEL end in
  (a x1 = a x2 <-> x1 = x2).
Proof. exact weak_ptr_eq_exact. Qed.
Print Assumptions C06_weak_ptr_eq_exact.

Theorem C06_weak_and_strong_agree_on_identity :
  forall s self pc k am hr wr o1 l1 o2,
  Inv s (ctx self pc k) -> addr_inj (heap_of s) am ->
  resolve_strong s self hr = Some (o1, l1) -> resolve_weak s self wr = Some (Some o2) ->
  (am o1 = am o2 <-> o1 = o2).
Proof. exact weak_strong_ptr_eq_exact. Qed.
Print Assumptions C06_weak_and_strong_agree_on_identity.

(** the "not released" hypothesis cannot be dropped: the allocator may give a new object the address
    of a released one, and a stale id would then compare equal *)
Example C06_address_reuse_is_possible :
  exists h am, addr_inj h am /\ exists o1 o2, o1 <> o2 /\ am o1 = am o2 /\ (o1 < length h)%nat /\ (o2 < length h)%nat.
Proof. exact reuse_is_possible. Qed.
