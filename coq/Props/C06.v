(** Property C06 — statements only. Each theorem is closed by [exact] of a lemma
    proved elsewhere and followed by [Print Assumptions]. *)
From CR Require Import Base Atomic Machine LinksFacts HeapFacts TraceFacts Local.
Local Open Scope N_scope.

Theorem C06_adopt_changes_no_counter :
  forall h a b h',
  adopt h false a b = Ok h' ->
  (forall o l, lget h' o l = lget h o l
      + (if Nat.eqb o a && link_eqb l (b, Fwd) then 1 else 0)
      + (if Nat.eqb o b && link_eqb l (a, Bwd) then 1 else 0)) /\
  heap_same_but_links h h'.
Proof. exact adopt_spec. Qed.
Print Assumptions C06_adopt_changes_no_counter.

