(** Property C14 — objects without recorded adoptions pay no tracing cost. *)
From Coq Require Import Permutation.
From CR Require Import Base Atomic Machine LinksFacts HeapFacts TraceFacts TraceTotal Local StackBound
  Termination Perm StdRc StdRefine Tokens InvDef InvLemmas ActBase ActHandles ActAdopt ActMove ActConsume
  StepFrames StepPanic Purge GroupOps DropDec Group DropLast StepInv RunInv Consequences Common.
Local Open Scope N_scope.

Theorem C14_drop_unadopted_no_trace :
  forall pri s o b s' fr,
  getb (heap_of s) o = Ok b -> links b = Some [] ->
  drop_strong pri s o = Ok (s', fr) -> log s' = log s.
Proof. exact drop_unadopted_no_trace. Qed.
Print Assumptions C14_drop_unadopted_no_trace.

Theorem C14_clone_no_trace :
  forall s self hr dst s' self' r fr,
  exec_act s self (AClone hr dst) = AO s' self' r fr -> log s' = log s /\ fr = [].
Proof. exact clone_no_trace. Qed.
Print Assumptions C14_clone_no_trace.

(** after removing every record the table is empty again, so the fast path applies *)
Theorem C14_unadopt_all_empties :
  forall t, tbl_wf t -> (t = [] <-> forall l, tbl_get t l = 0).
Proof. exact tbl_empty_iff. Qed.
Print Assumptions C14_unadopt_all_empties.

(** a program that never adopts never traces and never collects a group *)
Theorem C14_no_adoption_no_trace :
  forall fuel h, noadopt_history h ->
  cyc_events (log (fst (run_history fuel init_state h))) = [] /\
  traces (log (fst (run_history fuel init_state h))) = [].
Proof. exact noadopt_program_never_traces. Qed.
Print Assumptions C14_no_adoption_no_trace.

Theorem C14_unadopted_drop_is_std_drop :
  forall pri s o, no_records (heap_of s) -> StdRefine.live_has_table (heap_of s) ->
  drop_strong pri s o = std_drop_strong s o.
Proof. exact drop_strong_fast. Qed.
Print Assumptions C14_unadopted_drop_is_std_drop.
