(** Property C14 — statements only. Each theorem is closed by [exact] of a lemma
    proved elsewhere and followed by [Print Assumptions]. *)
From CR Require Import Base Atomic Machine LinksFacts HeapFacts TraceFacts Local.
Local Open Scope N_scope.

Theorem C14_drop_unadopted_no_trace :
  forall pri s o b s' fr,
  getb (heap_of s) o = Ok b -> links b = Some [] ->
  drop_strong pri s o = Ok (s', fr) -> log s' = log s.
Proof. exact drop_unadopted_no_trace. Qed.
Print Assumptions C14_drop_unadopted_no_trace.

Theorem C14_clone_no_trace :
  forall s self hr dst s' self' r fr,
  exec_act s self (AClone hr dst) = AO s' self' r fr -> log s' = log s /\ fr = [].
Proof. exact clone_no_trace. Qed.
Print Assumptions C14_clone_no_trace.

Theorem C14_unadopt_all_empties :
  forall t, tbl_wf t -> (t = [] <-> forall l, tbl_get t l = 0).
Proof. exact tbl_empty_iff. Qed.
Print Assumptions C14_unadopt_all_empties.

