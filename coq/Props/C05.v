(** Property C05 — statements only. Each theorem is closed by [exact] of a lemma
    proved elsewhere and followed by [Print Assumptions]. *)
From CR Require Import Base Atomic Machine LinksFacts HeapFacts TraceFacts Local.
Local Open Scope N_scope.

Theorem C05_upgrade_iff_not_dead :
  forall s self wr dst o b,
  resolve_weak s self wr = Some (Some o) -> reg_free s dst = true ->
  getb (heap_of s) o = Ok b ->
  (is_dead (strong b) = true -> exec_act s self (AUpgrade wr dst) = AO s self RNone []) /\
  (forall n, strong b = Cnt n -> n <> 0 ->
     exec_act s self (AUpgrade wr dst) =
       AO (set_reg (set_heap s (setb (heap_of s) o (with_strong b (Cnt (n + 1))))) dst (RStrong o))
          self RSome []).
Proof. exact upgrade_spec. Qed.
Print Assumptions C05_upgrade_iff_not_dead.

Theorem C05_counts_zero_after_destruction :
  forall s self wr o b,
  resolve_weak s self wr = Some (Some o) -> getb (heap_of s) o = Ok b ->
  strong b = Uninit ->
  exec_act s self (AWStrongCount wr) = AO s self (RNat 0) [] /\
  exec_act s self (AWWeakCount wr) = AO s self (RNat 0) [].
Proof. exact weak_counts_after_destruction. Qed.
Print Assumptions C05_counts_zero_after_destruction.

Theorem C05_last_weak_releases :
  forall h o b h',
  getb h o = Ok b -> weak_drop h (Some o) = Ok h' ->
  0 < weak b /\
  h' = setb h o (if (weak b - 1 =? 0) then with_freed (with_weak b (weak b - 1)) true
                 else with_weak b (weak b - 1)).
Proof. exact weak_drop_spec. Qed.
Print Assumptions C05_last_weak_releases.

