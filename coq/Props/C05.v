(** Property C05 — Weak handles observe destruction exactly. *)
From Coq Require Import Permutation.
From CR Require Import Base Atomic Machine LinksFacts HeapFacts TraceFacts TraceTotal Local StackBound
  Termination Perm StdRc StdRefine Tokens InvDef InvLemmas ActBase ActHandles ActAdopt ActMove ActConsume
  StepFrames StepPanic Purge GroupOps DropDec Group DropLast StepInv RunInv Consequences Common.
Local Open Scope N_scope.

(** in every configuration (also inside destructors during a group teardown):
    upgrade succeeds iff the value has not been destroyed *)
Theorem C05_upgrade_iff_alive :
  forall s self pc k wr dst o, Inv s (ctx self pc k) ->
  resolve_weak s self wr = Some (Some o) -> reg_free s dst = true ->
  exists b, getb (heap_of s) o = Ok b /\
    (value b <> None <-> live b = true) /\
    (live b = false -> exec_act s self (AUpgrade wr dst) = AO s self RNone []) /\
    (live b = true -> exists s', exec_act s self (AUpgrade wr dst) = AO s' self RSome [] /\
        reg_get s' dst = RStrong o).
Proof. exact upgrade_iff_alive. Qed.
Print Assumptions C05_upgrade_iff_alive.

Theorem C05_counts_zero_after_destruction :
  forall s self pc k wr o, Inv s (ctx self pc k) ->
  resolve_weak s self wr = Some (Some o) ->
  exists b, getb (heap_of s) o = Ok b /\
    (live b = false ->
       exec_act s self (AWStrongCount wr) = AO s self (RNat 0) [] /\
       exec_act s self (AWWeakCount wr) = AO s self (RNat 0) []).
Proof. exact weak_counts_dead. Qed.
Print Assumptions C05_counts_zero_after_destruction.

(** a Weak handle keeps the bare allocation valid until it is dropped *)
Theorem C05_weak_keeps_allocation :
  forall s self pc k wr o, Inv s (ctx self pc k) ->
  resolve_weak s self wr = Some (Some o) -> exists b, getb (heap_of s) o = Ok b.
Proof. exact weak_target_allocated. Qed.
Print Assumptions C05_weak_keeps_allocation.

(** every member of a collected group is marked dead BEFORE any member's
    destructor can run: after the drop step all keys are [gone] *)
Theorem C05_members_dead_before_destructors :
  forall s k o pri cyc pops visits,
  Inv s k -> (forall x, reach (heap_of s) o x -> disc_at (heap_of s) x) ->
  orphaned_cycle (heap_of s) o = Ok (Some cyc, pops, visits) ->
  let cyc' := order_cycle pri cyc in
  let keys := map fst cyc' in
  exists h2 h3 inners,
    bust_all (heap_of s) keys cyc' = Ok h2 /\ gather h2 keys [] = Ok (h3, inners) /\
    group_heap (heap_of s) h3 keys /\
    (forall y, In y keys <-> reach (heap_of s) o y) /\
    Inv (add_ev (set_heap (add_ev s (EvTrace o pops visits)) h3) (EvGroup keys))
        (FInners inners :: FFinishGroup keys :: k).
Proof. exact group_inv. Qed.
Print Assumptions C05_members_dead_before_destructors.

Theorem C05_upgrade_local :
  forall s self wr dst o b,
  resolve_weak s self wr = Some (Some o) -> reg_free s dst = true ->
  getb (heap_of s) o = Ok b ->
  (is_dead (strong b) = true -> exec_act s self (AUpgrade wr dst) = AO s self RNone []) /\
  (forall n, strong b = Cnt n -> n <> 0 ->
     exec_act s self (AUpgrade wr dst) =
       AO (set_reg (set_heap s (setb (heap_of s) o (with_strong b (Cnt (n + 1))))) dst (RStrong o))
          self RSome []).
Proof. exact upgrade_spec. Qed.
Print Assumptions C05_upgrade_local.
