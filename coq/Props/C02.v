(** Property C02 — statements only. Each theorem is closed by [exact] of a lemma
    proved elsewhere and followed by [Print Assumptions]. *)
From CR Require Import Base Atomic Machine LinksFacts HeapFacts TraceFacts Local.
Local Open Scope N_scope.

Theorem C02_weak_drop_frees_once_partial :
  forall h o b h',
  getb h o = Ok b -> weak_drop h (Some o) = Ok h' ->
  0 < weak b /\
  h' = setb h o (if (weak b - 1 =? 0) then with_freed (with_weak b (weak b - 1)) true
                 else with_weak b (weak b - 1)).
Proof. exact weak_drop_spec. Qed.
Print Assumptions C02_weak_drop_frees_once_partial.

Theorem C02_dead_handle_drop_touches_nothing_partial :
  forall pri s k u o b,
  getb (heap_of s) o = Ok b -> is_dead (strong b) = true ->
  step pri {| st := s; stack := FDropStrong o :: k; unw := u |} =
  Running {| st := s; stack := k; unw := u |}.
Proof. exact step_drop_dead. Qed.
Print Assumptions C02_dead_handle_drop_touches_nothing_partial.

