(** Property C02 — values die at most once; no access after release or move-out. *)
From Coq Require Import Permutation.
From CR Require Import Base Atomic Machine LinksFacts HeapFacts TraceFacts TraceTotal Local StackBound
  Termination Perm StdRc StdRefine Tokens InvDef InvLemmas ActBase ActHandles ActAdopt ActMove ActConsume
  StepFrames StepPanic Purge GroupOps DropDec Group DropLast StepInv RunInv Consequences PidInv Common.
Local Open Scope N_scope.

(** no step of a disciplined run reads or writes a released allocation, a
    moved-out table or a moved-out value: the only way the machine halts is the
    process abort of C16 *)
Theorem C02_no_stale_access_step :
  forall pri c, Inv_cfg c -> step_hyp c -> step_goal c (step pri c).
Proof. exact step_inv. Qed.
Print Assumptions C02_no_stale_access_step.

Theorem C02_no_stale_access_run :
  forall pri c c' s' h, steps pri c c' -> Inv_cfg c -> step_hyp c' ->
  step pri c' = Halted s' h -> h = HAbort.
Proof. exact steps_no_fault. Qed.
Print Assumptions C02_no_stale_access_run.

Theorem C02_no_stale_access_history :
  forall fuel h, hist_ok fuel init_state h = true ->
  Forall (fun r => match r with OHalt e => e = HAbort | _ => True end) (snd (run_history fuel init_state h)) /\
  (forallb completed (snd (run_history fuel init_state h)) = true -> Inv (fst (run_history fuel init_state h)) []).
Proof. exact run_history_from_init. Qed.
Print Assumptions C02_no_stale_access_history.

(** an allocation is released exactly when nothing needs it any more, hence at
    most once: a released box has no Weak handle, no pending finish obligation
    and no leaked obligation referring to it *)
Theorem C02_released_iff_unneeded :
  forall s k o b, Inv s k -> nth_error (heap_of s) o = Some b ->
  (freed b = true <->
   live b = false /\ W (sw_weak o) s k = 0 /\ n_after o k + n_fin o k + n_leak o (log s) = 0).
Proof. exact freed_iff. Qed.
Print Assumptions C02_released_iff_unneeded.

(** handles to already-collected members that are dropped later, while the
    members' values are being destroyed, are inert *)
Theorem C02_inert_handle_drop :
  forall pri s o k b,
  Inv s (FDropStrong o :: k) -> getb (heap_of s) o = Ok b -> is_dead (strong b) = true ->
  drop_strong pri s o = Ok (s, []) /\ Inv s k.
Proof. exact drop_dead_inv. Qed.
Print Assumptions C02_inert_handle_drop.

Theorem C02_weak_drop_frees_exactly_at_zero :
  forall h o b h',
  getb h o = Ok b -> weak_drop h (Some o) = Ok h' ->
  0 < weak b /\
  h' = setb h o (if (weak b - 1 =? 0) then with_freed (with_weak b (weak b - 1)) true
                 else with_weak b (weak b - 1)).
Proof. exact weak_drop_spec. Qed.
Print Assumptions C02_weak_drop_frees_exactly_at_zero.

(** the destructor of each stored value runs at most once — for EVERY history,
    disciplined or not, every oracle, with panics: the destructor log of a whole
    history has no duplicate, and a destroyed value is stored nowhere *)
Theorem C02_destructor_at_most_once :
  forall fuel h, NoDup (dtor_log (fst (run_history fuel init_state h))).
Proof. exact history_dtor_at_most_once. Qed.
Print Assumptions C02_destructor_at_most_once.

Theorem C02_destructor_at_most_once_every_configuration :
  forall pri c c', PidInv (st c) (stack c) -> step pri c = Running c' -> PidInv (st c') (stack c').
Proof. exact step_pid. Qed.
Print Assumptions C02_destructor_at_most_once_every_configuration.

Theorem C02_destroyed_value_is_stored_nowhere :
  forall s k x, PidInv s k -> In x (dtor_log s) ->
  (forall o b p, nth_error (heap_of s) o = Some b -> value b = Some p -> pid p <> x) /\
  (forall r p, reg_get s r = RLoose p -> pid p <> x).
Proof. exact destroyed_not_stored. Qed.
Print Assumptions C02_destroyed_value_is_stored_nowhere.

(** ** a released allocation is never touched again (Inv/AddrInv.v) *)
From CR Require Import AddrInv.

(** in every disciplined run, every box that has been released is bit for bit what it was when it
    was released, for ever; no identity is reused *)
Theorem C02_released_allocation_is_frozen :
  forall pri c c', Inv_cfg c -> steps pri c c' -> heap_ext (heap_of (st c)) (heap_of (st c')).
Proof. exact steps_heap_ext. Qed.
Print Assumptions C02_released_allocation_is_frozen.

Theorem C02_released_allocation_is_frozen_history :
  forall fuel h s, Inv s [] -> hist_ok fuel s h = true ->
  heap_ext (heap_of s) (heap_of (fst (run_history fuel s h))).
Proof. exact run_history_heap_ext. Qed.
Print Assumptions C02_released_allocation_is_frozen_history.

(** released at most once, unconditionally (any history, disciplined or not): a released allocation
    stays released -- the only place that releases ([dec_weak_free]) requires an un-released box *)
Theorem C02_released_stays_released :
  forall fuel h s, freed_mono (heap_of s) (heap_of (fst (run_history fuel s h))).
Proof. exact run_history_freed_mono. Qed.
Print Assumptions C02_released_stays_released.

(** every handle owned by the frame on top of the stack (the handle being dropped, also an inert one
    to a collected member) targets an allocation that has not been released *)
Theorem C02_frame_handle_target_allocated :
  forall s fr k o, Inv s (fr :: k) -> (0 < w_frame (sw_strong o) fr)%N ->
  exists b, nth_error (heap_of s) o = Some b /\ freed b = false.
Proof. exact frame_token_allocated. Qed.
Print Assumptions C02_frame_handle_target_allocated.
