(** Extraction of the executable model to OCaml. Only the directives of
    ExtrOcamlBasic are used: bool, option, unit, list, prod, sumbool map to
    the OCaml types of the same name; nat, N, positive stay Coq datatypes. *)
From Coq Require Extraction.
From Coq Require Import ExtrOcamlBasic.
From CR Require Import Base Atomic Machine InvDef.
Extraction Language OCaml.
Extraction "../ocaml/model.ml" exec_op init_state NSLOTS NREGS cycle_refs orphaned_cycle trace_fuel
  step exec_act exec_new invb step_ok discb act_safe.
