(** Extraction of the executable model to OCaml. Only the directives of
    ExtrOcamlBasic are used: bool, option, unit, list, prod, sumbool map to
    the OCaml types of the same name; nat, N, positive stay Coq datatypes. *)
From Coq Require Extraction.
From Coq Require Import ExtrOcamlBasic.
From CR Require Import Base Atomic Machine.
Extraction Language OCaml.
Extraction "../ocaml/model.ml" exec_op init_state NSLOTS NREGS cycle_refs orphaned_cycle trace_fuel.
