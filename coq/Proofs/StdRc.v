(** * StdRc: [std::rc::{Rc, Weak}] as a small machine — the specification that
    cactusref is compared with in Proofs/StdRefine.v.

    An allocation is two counters and a value; there is no link table and no
    sentinel value of the strong counter. The history language is that of
    Model/Base.v ([act]); [AAdopt]/[AUnadopt] are not part of std's API and are
    rejected ([RInvalid]). Registers, slots, payloads, destructor scripts,
    results and events are those of Model/Machine.v. Memory is checked the same
    way ([R], [halt]): reading a released allocation is a fault, not a value.

    What std does (library/alloc/src/rc.rs):
    - [Rc::clone]            = [inc_strong]; aborts when the counter is 0.
    - [Drop for Rc]          = strong -= 1; at 0: drop the value in place, then
                               release the implicit weak; the allocation is
                               freed when weak reaches 0.
    - [Weak::upgrade]        = [None] iff strong = 0, else [inc_strong].
    - [Drop for Weak]        = weak -= 1; free at 0.
    - [Rc::try_unwrap]       = [Ok(value)] iff strong = 1 (strong := 0, the
                               implicit weak is released), else [Err].
    - [Rc::get_mut]          = [Some] iff strong = 1 and no [Weak] exists.
    - [Rc::make_mut]         = unique: nothing; strong = 1 with Weaks: move the
                               value into a fresh allocation ("steal"); shared:
                               clone the value into a fresh allocation and drop
                               the old handle.
    - [into_raw]/[from_raw], [increment_strong_count]/[decrement_strong_count],
      [ptr_eq], [strong_count], [weak_count].
    - [Drop for Node] (the value) = run the destructor script, then drop the
      slots in order.
    - A panic in a destructor unwinds: suspended destructors no longer run
      their script but their slots are still dropped; the pending "release the
      implicit weak" obligations are skipped (the allocations leak); a second
      panic aborts. *)
From CR Require Import Base Machine.
Local Open Scope N_scope.

(** ** Allocations *)
Record sbox := {
  sstrong : N;
  sweak : N;                   (* Weak handles + 1 while the value is alive *)
  svalue : option payload;     (* None = dropped or moved out *)
  sfreed : bool
}.

Definition sb_strong (b : sbox) (n : N) : sbox :=
  {| sstrong := n; sweak := sweak b; svalue := svalue b; sfreed := sfreed b |}.
Definition sb_weak (b : sbox) (w : N) : sbox :=
  {| sstrong := sstrong b; sweak := w; svalue := svalue b; sfreed := sfreed b |}.
Definition sb_value (b : sbox) (v : option payload) : sbox :=
  {| sstrong := sstrong b; sweak := sweak b; svalue := v; sfreed := sfreed b |}.
Definition sb_freed (b : sbox) (f : bool) : sbox :=
  {| sstrong := sstrong b; sweak := sweak b; svalue := svalue b; sfreed := f |}.

Definition s_new_box (p : payload) : sbox :=
  {| sstrong := 1; sweak := 1; svalue := Some p; sfreed := false |}.

Definition sheap := list sbox.

Definition sgetb (h : sheap) (o : oid) : R sbox :=
  match nth_error h o with
  | None => Bad (HFault FkNoBox o)
  | Some b => if sfreed b then Bad (HFault FkFreed o) else Ok b
  end.

(** ** Counters *)
Definition s_inc_strong (h : sheap) (o : oid) : R sheap :=
  let* b := sgetb h o in
  if sstrong b =? 0 then Bad HAbort
  else Ok (upd h o (sb_strong b (sstrong b + 1))).

Definition s_inc_weak (h : sheap) (o : oid) : R sheap :=
  let* b := sgetb h o in
  if sweak b =? 0 then Bad HAbort
  else Ok (upd h o (sb_weak b (sweak b + 1))).

(** weak -= 1; the allocation is released at 0 *)
Definition s_dec_weak_free (h : sheap) (o : oid) : R sheap :=
  let* b := sgetb h o in
  if sweak b =? 0 then Bad (HFault FkUnderflow o)
  else
    let w := sweak b - 1 in
    let b' := sb_weak b w in
    Ok (upd h o (if w =? 0 then sb_freed b' true else b')).

(** [Drop for Weak] *)
Definition s_weak_drop (h : sheap) (w : option oid) : R sheap :=
  match w with
  | None => Ok h
  | Some o => s_dec_weak_free h o
  end.

(** [Clone for Node] *)
Fixpoint s_clone_slots (h : sheap) (ss : list slot) : R sheap :=
  match ss with
  | [] => Ok h
  | SStrong o :: ss' => let* h1 := s_inc_strong h o in s_clone_slots h1 ss'
  | SWeak (Some o) :: ss' => let* h1 := s_inc_weak h o in s_clone_slots h1 ss'
  | _ :: ss' => s_clone_slots h ss'
  end.

(** ** States and frames *)
Record sstate := { sheap_of : sheap; sregs : list reg; slog : list event }.

Definition smk (h : sheap) (r : list reg) (l : list event) : sstate :=
  {| sheap_of := h; sregs := r; slog := l |}.
Definition s_set_heap (s : sstate) (h : sheap) : sstate := smk h (sregs s) (slog s).
Definition s_set_reg (s : sstate) (r : nat) (x : reg) : sstate :=
  smk (sheap_of s) (upd (sregs s) r x) (slog s).
Definition s_add_ev (s : sstate) (e : event) : sstate :=
  smk (sheap_of s) (sregs s) (e :: slog s).

Definition s_init_state : sstate := smk [] (repeat REmpty NREGS) [].

Inductive sframe :=
| SFDropStrong (o : oid)                     (* Drop for Rc, one handle to o *)
| SFDtorStart (p : payload)                  (* Drop for Node begins *)
| SFRunDtor (p : payload) (pc : list act)    (* script in progress *)
| SFDropSlots (ss : list slot)               (* field drop glue *)
| SFReleaseWeak (o : oid)                    (* after the value: the implicit weak *)
| SFRes (r : result).                        (* a script action returns *)

(** ** Resolving handle references *)
Definition s_reg_get (s : sstate) (r : nat) : reg := nth r (sregs s) REmpty.

Definition s_reg_free (s : sstate) (r : nat) : bool :=
  Nat.ltb r (length (sregs s)) &&
  match s_reg_get s r with REmpty => true | _ => false end.

Definition s_resolve_owner (s : sstate) (self : option payload) (w : oref) : option owner :=
  match w with
  | OSelf => match self with Some p => Some (WSelf p) | None => None end
  | OReg r =>
      match s_reg_get s r with
      | RStrong o =>
          match nth_error (sheap_of s) o with
          | Some b => match svalue b with Some p => Some (WBox o p) | None => None end
          | None => None
          end
      | _ => None
      end
  end.

Definition s_resolve_slot (s : sstate) (self : option payload) (w : oref) (k : nat)
  : option (owner * slot) :=
  match s_resolve_owner s self w with
  | None => None
  | Some ow =>
      match nth_error (slots (owner_payload ow)) k with
      | Some sl => Some (ow, sl)
      | None => None
      end
  end.

Definition s_resolve_strong (s : sstate) (self : option payload) (h : href) : option oid :=
  match h with
  | HReg r => match s_reg_get s r with RStrong o => Some o | _ => None end
  | HSlot w k =>
      match s_resolve_slot s self w k with
      | Some (_, SStrong o) => Some o
      | _ => None
      end
  end.

Definition s_resolve_weak (s : sstate) (self : option payload) (h : href) : option (option oid) :=
  match h with
  | HReg r => match s_reg_get s r with RWeak w => Some w | _ => None end
  | HSlot w k =>
      match s_resolve_slot s self w k with
      | Some (_, SWeak t) => Some t
      | _ => None
      end
  end.

Definition s_write_slot (s : sstate) (self : option payload) (ow : owner) (k : nat) (sl : slot)
  : sstate * option payload :=
  match ow with
  | WSelf p => (s, Some (set_payload_slot p k sl))
  | WBox o p =>
      match nth_error (sheap_of s) o with
      | Some b => (s_set_heap s (upd (sheap_of s) o (sb_value b (Some (set_payload_slot p k sl)))), self)
      | None => (s, self)
      end
  end.

(** ** One call *)
Inductive saout :=
| SAO (s : sstate) (self : option payload) (r : result) (push : list sframe)
| SAHalt (h : halt)
| SAPanicOut.

Definition s_lift (s : sstate) (x : R sheap) (k : sstate -> saout) : saout :=
  match x with
  | Ok h => k (s_set_heap s h)
  | Bad e => SAHalt e
  end.

Definition s_invalid (s : sstate) (self : option payload) : saout := SAO s self RInvalid [].

Definition s_exec_new (s : sstate) (self : option payload) (dst : nat) (sc : list act) : saout :=
  if s_reg_free s dst then
    let o := length (sheap_of s) in
    let p := {| pid := o; slots := empty_slots; script := sc |} in
    SAO (s_set_reg (s_set_heap s (sheap_of s ++ [s_new_box p])) dst (RStrong o)) self RUnit []
  else s_invalid s self.

Definition s_exec_act (s : sstate) (self : option payload) (a : act) : saout :=
  let h := sheap_of s in
  match a with
  | ANew dst => s_exec_new s self dst []
  | AClone hr dst =>                                         (* Rc::clone *)
      match s_resolve_strong s self hr with
      | Some o =>
          if s_reg_free s dst then
            s_lift s (s_inc_strong h o) (fun s1 => SAO (s_set_reg s1 dst (RStrong o)) self RUnit [])
          else s_invalid s self
      | None => s_invalid s self
      end
  | ADrop r =>                                               (* drop(handle) *)
      match s_reg_get s r with
      | RStrong o => SAO (s_set_reg s r REmpty) self RUnit [SFDropStrong o]
      | RWeak w => s_lift s (s_weak_drop h w) (fun s1 => SAO (s_set_reg s1 r REmpty) self RUnit [])
      | RLoose p => SAO (s_set_reg s r REmpty) self RUnit [SFDtorStart p]
      | _ => s_invalid s self
      end
  | ADowngrade hr dst =>                                     (* Rc::downgrade *)
      match s_resolve_strong s self hr with
      | Some o =>
          if s_reg_free s dst then
            s_lift s (s_inc_weak h o) (fun s1 => SAO (s_set_reg s1 dst (RWeak (Some o))) self RUnit [])
          else s_invalid s self
      | None => s_invalid s self
      end
  | AUpgrade wr dst =>                                       (* Weak::upgrade *)
      match s_resolve_weak s self wr with
      | Some w =>
          if s_reg_free s dst then
            match w with
            | None => SAO s self RNone []
            | Some o =>
                match sgetb h o with
                | Bad e => SAHalt e
                | Ok b =>
                    if sstrong b =? 0 then SAO s self RNone []
                    else s_lift s (s_inc_strong h o)
                           (fun s1 => SAO (s_set_reg s1 dst (RStrong o)) self RSome [])
                end
            end
          else s_invalid s self
      | None => s_invalid s self
      end
  | ACloneWeak wr dst =>                                     (* Weak::clone *)
      match s_resolve_weak s self wr with
      | Some w =>
          if s_reg_free s dst then
            match w with
            | None => SAO (s_set_reg s dst (RWeak None)) self RUnit []
            | Some o => s_lift s (s_inc_weak h o)
                          (fun s1 => SAO (s_set_reg s1 dst (RWeak (Some o))) self RUnit [])
            end
          else s_invalid s self
      | None => s_invalid s self
      end
  | AWeakNew dst =>                                          (* Weak::new *)
      if s_reg_free s dst then SAO (s_set_reg s dst (RWeak None)) self RUnit []
      else s_invalid s self
  | AStore src w k =>                                        (* move a handle into a slot *)
      match slot_of_reg (s_reg_get s src), s_resolve_slot s self w k with
      | Some sl, Some (ow, SEmpty) =>
          let '(s1, self1) := s_write_slot (s_set_reg s src REmpty) self ow k sl in
          SAO s1 self1 RUnit []
      | _, _ => s_invalid s self
      end
  | ATake w k dst =>                                         (* move a handle out of a slot *)
      match s_resolve_slot s self w k with
      | Some (ow, sl) =>
          match reg_of_slot sl with
          | Some x =>
              if s_reg_free s dst then
                let '(s1, self1) := s_write_slot s self ow k SEmpty in
                SAO (s_set_reg s1 dst x) self1 RUnit []
              else s_invalid s self
          | None => s_invalid s self
          end
      | None => s_invalid s self
      end
  | AAdopt _ _ | AUnadopt _ _ => s_invalid s self             (* not in std *)
  | ATryUnwrap r dst =>                                      (* Rc::try_unwrap *)
      match s_reg_get s r with
      | RStrong o =>
          if s_reg_free s dst then
            match sgetb h o with
            | Bad e => SAHalt e
            | Ok b =>
                if sstrong b =? 1 then
                  match svalue b with
                  | None => SAHalt (HFault FkValueMoved o)
                  | Some p =>
                      let h2 := upd h o (sb_strong (sb_value b None) 0) in
                      s_lift s (s_weak_drop h2 (Some o)) (fun s2 =>
                        SAO (s_set_reg (s_set_reg s2 r REmpty) dst (RLoose p)) self RSome [])
                  end
                else SAO s self RErr []
            end
          else s_invalid s self
      | _ => s_invalid s self
      end
  | AGetMut r =>                                             (* Rc::get_mut(..).is_some() *)
      match s_reg_get s r with
      | RStrong o =>
          match sgetb h o with
          | Bad e => SAHalt e
          | Ok b =>
              if sweak b =? 0 then SAHalt (HFault FkUnderflow o)
              else SAO s self (RBool ((sweak b =? 1) && (sstrong b =? 1))) []
          end
      | _ => s_invalid s self
      end
  | AMakeMut r =>                                            (* Rc::make_mut *)
      match s_reg_get s r with
      | RStrong o =>
          match sgetb h o with
          | Bad e => SAHalt e
          | Ok b =>
              let o' := length h in
              if sstrong b =? 1 then
                if sweak b =? 0 then SAHalt (HFault FkUnderflow o)
                else if sweak b =? 1 then SAO s self RUnit []
                else
                  (* only Weak handles are left: move the value to a fresh allocation *)
                  match svalue b with
                  | None => SAHalt (HFault FkValueMoved o)
                  | Some p =>
                      let p' := {| pid := o'; slots := slots p; script := script p |} in
                      let b' := sb_weak (sb_strong (sb_value b None) 0) (sweak b - 1) in
                      SAO (s_set_reg (s_set_heap s (upd h o b' ++ [s_new_box p'])) r (RStrong o'))
                          self RUnit []
                  end
              else
                (* clone the value into a fresh allocation, drop the old handle *)
                match svalue b with
                | None => SAHalt (HFault FkValueMoved o)
                | Some p =>
                    (* [Clone for Node] is the payload type's own impl, the same
                       program on both libraries: [cloned_slots] (Model/Machine.v)
                       says which handles it copies (all of them, or none when
                       the node clones to a detached node) *)
                    s_lift s (s_clone_slots h (cloned_slots (slots p))) (fun s1 =>
                      let p' := {| pid := o'; slots := cloned_slots (slots p); script := [] |} in
                      SAO (s_set_reg (s_set_heap s1 (sheap_of s1 ++ [s_new_box p'])) r (RStrong o'))
                          self RUnit [SFDropStrong o])
                end
          end
      | _ => s_invalid s self
      end
  | AIntoRaw r =>
      match s_reg_get s r with
      | RStrong o => SAO (s_set_reg s r (RRaw o)) self RUnit []
      | _ => s_invalid s self
      end
  | AFromRaw r =>
      match s_reg_get s r with
      | RRaw o => SAO (s_set_reg s r (RStrong o)) self RUnit []
      | _ => s_invalid s self
      end
  | AIncStrong r dst =>                                      (* increment_strong_count *)
      match s_reg_get s r with
      | RRaw o =>
          if s_reg_free s dst then
            s_lift s (s_inc_strong h o) (fun s1 => SAO (s_set_reg s1 dst (RRaw o)) self RUnit [])
          else s_invalid s self
      | _ => s_invalid s self
      end
  | ADecStrong r =>                                          (* decrement_strong_count *)
      match s_reg_get s r with
      | RRaw o => SAO (s_set_reg s r REmpty) self RUnit [SFDropStrong o]
      | _ => s_invalid s self
      end
  | APtrEq h1 h2 =>
      match s_resolve_strong s self h1, s_resolve_strong s self h2 with
      | Some a, Some b => SAO s self (RBool (Nat.eqb a b)) []
      | _, _ => s_invalid s self
      end
  | AStrongCount hr =>                                       (* Rc::strong_count *)
      match s_resolve_strong s self hr with
      | Some o =>
          match sgetb h o with
          | Bad e => SAHalt e
          | Ok b => SAO s self (RCnt (Cnt (sstrong b))) []
          end
      | None => s_invalid s self
      end
  | AWeakCount hr =>                                         (* Rc::weak_count *)
      match s_resolve_strong s self hr with
      | Some o =>
          match sgetb h o with
          | Bad e => SAHalt e
          | Ok b => if sweak b =? 0 then SAHalt (HFault FkUnderflow o)
                    else SAO s self (RNat (sweak b - 1)) []
          end
      | None => s_invalid s self
      end
  | AWStrongCount wr =>                                      (* Weak::strong_count *)
      match s_resolve_weak s self wr with
      | Some None => SAO s self (RNat 0) []
      | Some (Some o) =>
          match sgetb h o with
          | Bad e => SAHalt e
          | Ok b => SAO s self (RNat (sstrong b)) []
          end
      | None => s_invalid s self
      end
  | AWWeakCount wr =>                                        (* Weak::weak_count *)
      match s_resolve_weak s self wr with
      | Some None => SAO s self (RNat 0) []
      | Some (Some o) =>
          match sgetb h o with
          | Bad e => SAHalt e
          | Ok b =>
              if 0 <? sstrong b then
                if sweak b =? 0 then SAHalt (HFault FkUnderflow o)
                else SAO s self (RNat (sweak b - 1)) []
              else SAO s self (RNat 0) []
          end
      | None => s_invalid s self
      end
  | ADeref hr =>
      match s_resolve_strong s self hr with
      | Some o =>
          match sgetb h o with
          | Bad e => SAHalt e
          | Ok b =>
              match svalue b with
              | Some p => SAO s self (RNat (N.of_nat (pid p))) []
              | None => SAHalt (HFault FkValueMoved o)
              end
          end
      | None => s_invalid s self
      end
  | APanic => SAPanicOut
  end.

(** ** [Drop for Rc] *)

(** strong has just reached 0: the value is dropped in place, then the
    implicit weak is released *)
Definition s_drop_value (s : sstate) (o : oid) : R (sstate * list sframe) :=
  let h := sheap_of s in
  let* b := sgetb h o in
  match svalue b with
  | None => Bad (HFault FkValueMoved o)
  | Some v => Ok (s_set_heap s (upd h o (sb_value b None)), [SFDtorStart v; SFReleaseWeak o])
  end.

(** (a handle whose target already has strong = 0 cannot exist in a program
    that respects the safety contract of [from_raw]; dropping one is defined
    as a no-op here) *)
Definition s_drop_strong (s : sstate) (o : oid) : R (sstate * list sframe) :=
  let h := sheap_of s in
  let* b := sgetb h o in
  if sstrong b =? 0 then Ok (s, [])
  else
    let n' := sstrong b - 1 in
    let s1 := s_set_heap s (upd h o (sb_strong b n')) in
    if n' =? 0 then s_drop_value s1 o else Ok (s1, []).

(** ** Small-step semantics *)
Record sconfig := { sst : sstate; sstack : list sframe; sunw : bool }.

Inductive soutcome :=
| SRunning (c : sconfig)
| SFinished (s : sstate) (panicked : bool)
| SHalted (s : sstate) (h : halt).

(** what a pending frame turns into when a panic unwinds through it *)
Fixpoint s_unwind_stack (s : sstate) (k : list sframe) : sstate * list sframe :=
  match k with
  | [] => (s, [])
  | f :: k' =>
      let '(s1, k1) := s_unwind_stack s k' in
      match f with
      | SFRunDtor p _ => (s1, SFDropSlots (slots p) :: k1)
      | SFRes _ => (s1, k1)
      | SFReleaseWeak o => (s_add_ev s1 (EvLeak o), k1)
      | _ => (s1, f :: k1)
      end
  end.

Definition sstep (c : sconfig) : soutcome :=
  let s := sst c in
  match sstack c with
  | [] => SFinished s (sunw c)
  | f :: k =>
      match f with
      | SFDropStrong o =>
          match s_drop_strong s o with
          | Ok (s1, push) => SRunning {| sst := s1; sstack := push ++ k; sunw := sunw c |}
          | Bad e => SHalted s e
          end
      | SFDtorStart p =>
          SRunning {| sst := s_add_ev s (EvDtor (pid p));
                      sstack := SFRunDtor p (script p) :: k; sunw := sunw c |}
      | SFRunDtor p [] =>
          SRunning {| sst := s; sstack := SFDropSlots (slots p) :: k; sunw := sunw c |}
      | SFRunDtor p (a :: pc) =>
          match s_exec_act s (Some p) a with
          | SAO s1 self r push =>
              let p1 := match self with Some q => q | None => p end in
              SRunning {| sst := s1;
                          sstack := push ++ SFRes r :: SFRunDtor p1 pc :: k; sunw := sunw c |}
          | SAHalt e => SHalted s e
          | SAPanicOut =>
              if sunw c then SHalted s HAbort
              else
                let '(s1, k1) := s_unwind_stack s k in
                SRunning {| sst := s1; sstack := SFDropSlots (slots p) :: k1; sunw := true |}
          end
      | SFDropSlots [] => SRunning {| sst := s; sstack := k; sunw := sunw c |}
      | SFDropSlots (sl :: ss) =>
          match sl with
          | SStrong o =>
              SRunning {| sst := s; sstack := SFDropStrong o :: SFDropSlots ss :: k; sunw := sunw c |}
          | SWeak w =>
              match s_weak_drop (sheap_of s) w with
              | Ok h1 => SRunning {| sst := s_set_heap s h1; sstack := SFDropSlots ss :: k; sunw := sunw c |}
              | Bad e => SHalted s e
              end
          | SEmpty => SRunning {| sst := s; sstack := SFDropSlots ss :: k; sunw := sunw c |}
          end
      | SFReleaseWeak o =>
          match s_dec_weak_free (sheap_of s) o with
          | Ok h1 => SRunning {| sst := s_set_heap s h1; sstack := k; sunw := sunw c |}
          | Bad e => SHalted s e
          end
      | SFRes r => SRunning {| sst := s_add_ev s (EvRes r); sstack := k; sunw := sunw c |}
      end
  end.

Fixpoint srun (fuel : nat) (c : sconfig) : soutcome :=
  match fuel with
  | O => SRunning c
  | S f =>
      match sstep c with
      | SRunning c' => srun f c'
      | o => o
      end
  end.

(** ** Top-level calls *)
Definition s_exec_op (fuel : nat) (s : sstate) (o : op) : sstate * op_outcome :=
  let first :=
    match o with
    | OAct a => s_exec_act s None a
    | ONewS dst sc => s_exec_new s None dst sc
    end in
  match first with
  | SAHalt e => (s, OHalt e)
  | SAPanicOut => (s, OPanicked)
  | SAO s1 _ r push =>
      match srun fuel {| sst := s1; sstack := push; sunw := false |} with
      | SFinished s2 false => (s2, ODone r)
      | SFinished s2 true => (s2, OPanicked)
      | SHalted s2 e => (s2, OHalt e)
      | SRunning c => (sst c, OFuel)
      end
  end.

Fixpoint s_run_history (fuel : nat) (s : sstate) (h : list op) : sstate * list op_outcome :=
  match h with
  | [] => (s, [])
  | o :: h' =>
      let '(s1, r) := s_exec_op fuel s o in
      match r with
      | OHalt _ | OFuel => (s1, [r])
      | _ => let '(s2, rs) := s_run_history fuel s1 h' in (s2, r :: rs)
      end
  end.
