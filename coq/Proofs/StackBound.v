(** * C15: the teardown of a collected group uses a bounded stack.

    [length (stack c)] models the native stack depth while destructors run.
    When [drop_strong] collects an orphaned group it pushes
    [[FInners inners; FFinishGroup keys]]; the members' values hold strong
    handles to other (dead) members, and dropping such a handle is a no-op.
    This file shows that the whole teardown runs in stack space that does not
    depend on the number of members, and in a linear number of steps. *)
From CR Require Import Base Atomic Machine LinksFacts HeapFacts Local.

(** ** Bounded runs *)

(** [bsteps pri d n c c']: the machine goes from [c] to [c'] in exactly [n]
    steps and every configuration on the way (both ends included) has a stack
    of at most [d] frames *)
Inductive bsteps (pri : list oid) (d : nat) : nat -> config -> config -> Prop :=
| bs_refl c : length (stack c) <= d -> bsteps pri d 0 c c
| bs_step n c c1 c2 :
    length (stack c) <= d -> step pri c = Running c1 ->
    bsteps pri d n c1 c2 -> bsteps pri d (S n) c c2.

(** the deepest stack among the configurations visited by [run pri fuel c] *)
Fixpoint max_depth (pri : list oid) (fuel : nat) (c : config) : nat :=
  match fuel with
  | O => length (stack c)
  | S f =>
      match step pri c with
      | Running c' => Nat.max (length (stack c)) (max_depth pri f c')
      | _ => length (stack c)
      end
  end.

Lemma bsteps_mono pri d d' n c c' : d <= d' -> bsteps pri d n c c' -> bsteps pri d' n c c'.
Proof.
  intros Hd H. induction H as [c Hc|n c c1 c2 Hc Hs _ IH].
  - apply bs_refl. lia.
  - eapply bs_step; [lia|exact Hs|exact IH].
Qed.

Lemma bsteps_trans pri d n m c c1 c2 :
  bsteps pri d n c c1 -> bsteps pri d m c1 c2 -> bsteps pri d (n + m) c c2.
Proof.
  intros H1 H2. induction H1 as [c Hc|n c c0 c1 Hc Hs _ IH].
  - exact H2.
  - cbn [Nat.add]. eapply bs_step; [exact Hc|exact Hs|apply IH; exact H2].
Qed.

Lemma bsteps_trans_eq pri d n m nm c c1 c2 :
  bsteps pri d n c c1 -> bsteps pri d m c1 c2 -> nm = n + m -> bsteps pri d nm c c2.
Proof. intros H1 H2 ->. eapply bsteps_trans; eauto. Qed.

Lemma bsteps_one pri d c c1 :
  length (stack c) <= d -> length (stack c1) <= d -> step pri c = Running c1 ->
  bsteps pri d 1 c c1.
Proof. intros H H1 Hs. eapply bs_step; [exact H|exact Hs|apply bs_refl; exact H1]. Qed.

Lemma bsteps_start_depth pri d n c c' : bsteps pri d n c c' -> length (stack c) <= d.
Proof. intros H. destruct H as [c Hc|n c c1 c2 Hc _ _]; exact Hc. Qed.

Lemma bsteps_end_depth pri d n c c' : bsteps pri d n c c' -> length (stack c') <= d.
Proof. intros H. induction H as [c Hc|n c c1 c2 _ _ _ IH]; [exact Hc|exact IH]. Qed.

(** a bounded run is a run of the machine *)
Lemma bsteps_run pri d n c c' : bsteps pri d n c c' -> run pri n c = Running c'.
Proof.
  intros H. induction H as [c Hc|n c c1 c2 _ Hs _ IH]; [reflexivity|].
  cbn [run]. rewrite Hs. exact IH.
Qed.

(** every intermediate configuration is running and within the bound *)
Lemma bsteps_prefix pri d n c c' :
  bsteps pri d n c c' ->
  forall m, m <= n -> exists cm, run pri m c = Running cm /\ length (stack cm) <= d.
Proof.
  intros H. induction H as [c Hc|n c c1 c2 Hc Hs _ IH]; intros m Hm.
  - assert (m = 0) as -> by lia. exists c. split; [reflexivity|exact Hc].
  - destruct m as [|m].
    + exists c. split; [reflexivity|exact Hc].
    + cbn [run]. rewrite Hs. apply IH. lia.
Qed.

Lemma bsteps_max_depth_app pri d n c c' m :
  bsteps pri d n c c' -> max_depth pri (n + m) c <= Nat.max d (max_depth pri m c').
Proof.
  intros H. induction H as [c Hc|n c c1 c2 Hc Hs _ IH].
  - cbn [Nat.add]. lia.
  - cbn [Nat.add max_depth]. rewrite Hs. lia.
Qed.

Lemma bsteps_max_depth pri d n c c' : bsteps pri d n c c' -> max_depth pri n c <= d.
Proof.
  intros H. pose proof (bsteps_max_depth_app pri d n c c' 0 H) as M.
  rewrite Nat.add_0_r in M. cbn [max_depth] in M.
  pose proof (bsteps_end_depth _ _ _ _ _ H). lia.
Qed.

(** [max_depth] really bounds every configuration visited by [run] *)
Lemma max_depth_sound pri n : forall m c cm,
  m <= n -> run pri m c = Running cm -> length (stack cm) <= max_depth pri n c.
Proof.
  induction n as [|n IH]; intros m c cm Hm Hr.
  - assert (m = 0) as -> by lia. cbn [run] in Hr. injection Hr as <-. cbn [max_depth]. lia.
  - destruct m as [|m].
    + cbn [run] in Hr. injection Hr as <-. cbn [max_depth].
      destruct (step pri c) as [c1|s1 p1|s1 e1]; lia.
    + cbn [run] in Hr. cbn [max_depth].
      destruct (step pri c) as [c1|s1 p1|s1 e1]; [|discriminate|discriminate].
      assert (Hm' : m <= n) by lia. specialize (IH m c1 cm Hm' Hr). lia.
Qed.

(** ** Inert slots *)

(** the target of a strong handle is dead: count 0 or the uninit marker *)
Definition dead_at (h : heap) (o : oid) : Prop :=
  exists b, getb h o = Ok b /\ is_dead (strong b) = true.

(** core notion: empty slots and strong handles to dead objects *)
Definition inert_slot0 (h : heap) (sl : slot) : Prop :=
  match sl with
  | SEmpty => True
  | SStrong o => dead_at h o
  | SWeak _ => False
  end.

Definition inert_payload0 (h : heap) (p : payload) : Prop :=
  script p = [] /\ Forall (inert_slot0 h) (slots p).

(** general notion, with weak handles: dropping a dangling [Weak] does
    nothing; dropping a [Weak] to [o] decrements [weak] of [o], which neither
    faults nor frees as long as the count stays above 1.  Several of the slots
    being dropped may name the same object, so the condition counts them:
    [weak b] must exceed the number of [Weak] slots for [o] in the whole list. *)
Fixpoint wcount (o : oid) (ss : list slot) : nat :=
  match ss with
  | [] => 0
  | SWeak (Some o') :: ss' => (if Nat.eqb o o' then 1 else 0) + wcount o ss'
  | _ :: ss' => wcount o ss'
  end.

Definition spare_weak (h : heap) (all : list slot) (o : oid) : Prop :=
  exists b, getb h o = Ok b /\ (N.of_nat (wcount o all) < weak b)%N.

Definition inert_slot (h : heap) (all : list slot) (sl : slot) : Prop :=
  match sl with
  | SEmpty => True
  | SStrong o => dead_at h o
  | SWeak None => True
  | SWeak (Some o) => spare_weak h all o
  end.

Definition inert_slots (h : heap) (ss : list slot) : Prop :=
  Forall (inert_slot h ss) ss.

Definition inert_payload (h : heap) (p : payload) : Prop :=
  script p = [] /\ inert_slots h (slots p).

(** the effect of dropping inert slots on the heap: [weak] decrements only *)
Definition dec_weak (h : heap) (o : oid) : heap :=
  match nth_error h o with
  | Some b => setb h o (with_weak b (weak b - 1))
  | None => h
  end.

Definition drop_slot_heap (h : heap) (sl : slot) : heap :=
  match sl with
  | SWeak (Some o) => dec_weak h o
  | _ => h
  end.

Definition drop_slots_heap (h : heap) (ss : list slot) : heap :=
  fold_left drop_slot_heap ss h.

Lemma drop_slots_heap_app h ss1 ss2 :
  drop_slots_heap h (ss1 ++ ss2) = drop_slots_heap (drop_slots_heap h ss1) ss2.
Proof. unfold drop_slots_heap. apply fold_left_app. Qed.

Lemma inert0_heap h0 ss : forall h, Forall (inert_slot0 h0) ss -> drop_slots_heap h ss = h.
Proof.
  induction ss as [|sl ss IH]; intros h H; [reflexivity|].
  inversion H as [|x xs Hsl Hss]; subst.
  destruct sl as [o|w|]; cbn [inert_slot0] in Hsl; [|contradiction|];
    unfold drop_slots_heap; cbn [fold_left drop_slot_heap]; apply IH; exact Hss.
Qed.

Lemma inert0_wcount h ss o : Forall (inert_slot0 h) ss -> wcount o ss = 0.
Proof.
  induction ss as [|sl ss IH]; intros H; [reflexivity|].
  inversion H as [|x xs Hsl Hss]; subst.
  destruct sl as [o'|w|]; cbn [inert_slot0] in Hsl; [|contradiction|]; cbn [wcount]; auto.
Qed.

Lemma inert0_inert h ss : Forall (inert_slot0 h) ss -> inert_slots h ss.
Proof.
  intros H. unfold inert_slots. eapply Forall_impl; [|exact H].
  intros sl Hsl. destruct sl as [o|w|]; cbn [inert_slot0 inert_slot] in *; auto. contradiction.
Qed.

Lemma weak_drop_spare h o b :
  getb h o = Ok b -> (1 < weak b)%N -> weak_drop h (Some o) = Ok (dec_weak h o).
Proof.
  intros Hg Hw. pose proof (getb_ok _ _ _ Hg) as [Hn Hf].
  unfold weak_drop, dec_weak_free, bind, dec_weak. rewrite Hg, Hn.
  destruct (N.eqb_spec (weak b) 0) as [E|E]; [lia|].
  destruct (N.eqb_spec (weak b - 1) 0) as [E1|E1]; [lia|]. reflexivity.
Qed.

Lemma getb_dec_weak h o b o' :
  getb h o = Ok b ->
  getb (dec_weak h o) o' =
  if Nat.eqb o o' then Ok (with_weak b (weak b - 1)) else getb h o'.
Proof.
  intros Hg. pose proof (getb_lt _ _ _ Hg) as Hlt. pose proof (getb_ok _ _ _ Hg) as [Hn Hf].
  unfold dec_weak. rewrite Hn. unfold getb, setb. rewrite nth_error_upd.
  destruct (Nat.eqb_spec o o') as [<-|Hne]; [|reflexivity].
  apply Nat.ltb_lt in Hlt. rewrite Hlt. cbn [freed with_weak]. rewrite Hf. reflexivity.
Qed.

Lemma dead_at_dec_weak h o b o' :
  getb h o = Ok b -> dead_at h o' -> dead_at (dec_weak h o) o'.
Proof.
  intros Hg (b' & Hg' & Hd'). unfold dead_at. rewrite (getb_dec_weak _ _ _ _ Hg).
  destruct (Nat.eqb_spec o o') as [<-|Hne].
  - assert (b' = b) as -> by congruence.
    eexists; split; [reflexivity|]. cbn [strong with_weak]. exact Hd'.
  - exists b'. split; assumption.
Qed.

(** inertness is stable: after the first slot is dropped the rest is inert in
    the new heap *)
Lemma inert_slots_cons h sl ss :
  inert_slots h (sl :: ss) -> inert_slots (drop_slot_heap h sl) ss.
Proof.
  unfold inert_slots. intros H. inversion H as [|x xs Hsl Hss]; subst.
  destruct sl as [o|[o|]|].
  - cbn [drop_slot_heap]. eapply Forall_impl; [|exact Hss].
    intros sl' H'. destruct sl' as [o'|[o'|]|]; cbn [inert_slot] in *; auto.
  - cbn [inert_slot] in Hsl. destruct Hsl as (b & Hg & Hw).
    cbn [wcount] in Hw. rewrite Nat.eqb_refl in Hw.
    cbn [drop_slot_heap]. rewrite Forall_forall in Hss. apply Forall_forall.
    intros sl' Hin. specialize (Hss sl' Hin).
    destruct sl' as [o'|[o'|]|]; cbn [inert_slot] in *; auto.
    + eapply dead_at_dec_weak; eauto.
    + destruct Hss as (b' & Hg' & Hw'). unfold spare_weak.
      rewrite (getb_dec_weak _ _ _ _ Hg). cbn [wcount] in Hw'.
      destruct (Nat.eqb_spec o o') as [<-|Hne].
      * eexists; split; [reflexivity|]. cbn [weak with_weak]. lia.
      * exists b'. split; [exact Hg'|].
        assert (Nat.eqb o' o = false) as E by (apply Nat.eqb_neq; congruence).
        rewrite E in Hw'. cbn [Nat.add] in Hw'. exact Hw'.
  - cbn [drop_slot_heap]. eapply Forall_impl; [|exact Hss].
    intros sl' H'. destruct sl' as [o'|[o'|]|]; cbn [inert_slot] in *; auto.
  - cbn [drop_slot_heap]. eapply Forall_impl; [|exact Hss].
    intros sl' H'. destruct sl' as [o'|[o'|]|]; cbn [inert_slot] in *; auto.
Qed.

(** ** Dropping inert slots: constant stack *)

Fixpoint slots_steps (ss : list slot) : nat :=
  match ss with
  | [] => 1
  | SStrong _ :: ss' => 2 + slots_steps ss'
  | _ :: ss' => 1 + slots_steps ss'
  end.

Lemma slots_steps_le ss : slots_steps ss <= 2 * length ss + 1.
Proof.
  induction ss as [|sl ss IH]; [cbn; lia|].
  destruct sl as [o|w|]; cbn [slots_steps length]; lia.
Qed.

Lemma step_slots_nil pri s k u :
  step pri {| st := s; stack := FDropSlots [] :: k; unw := u |} =
  Running {| st := s; stack := k; unw := u |}.
Proof. reflexivity. Qed.

Lemma step_slots_empty pri s ss k u :
  step pri {| st := s; stack := FDropSlots (SEmpty :: ss) :: k; unw := u |} =
  Running {| st := s; stack := FDropSlots ss :: k; unw := u |}.
Proof. reflexivity. Qed.

Lemma step_slots_strong pri s o ss k u :
  step pri {| st := s; stack := FDropSlots (SStrong o :: ss) :: k; unw := u |} =
  Running {| st := s; stack := FDropStrong o :: FDropSlots ss :: k; unw := u |}.
Proof. reflexivity. Qed.

Lemma step_slots_weak pri s w ss k u h1 :
  weak_drop (heap_of s) w = Ok h1 ->
  step pri {| st := s; stack := FDropSlots (SWeak w :: ss) :: k; unw := u |} =
  Running {| st := set_heap s h1; stack := FDropSlots ss :: k; unw := u |}.
Proof. intros H. cbn [step st stack unw]. rewrite H. reflexivity. Qed.

(** the general form: the slots being dropped are a prefix of a list that is
    inert as a whole; the rest is still inert afterwards *)
Lemma drop_slots_bsteps pri r l k u rest : forall ss h,
  inert_slots h (ss ++ rest) ->
  bsteps pri (length k + 2) (slots_steps ss)
    {| st := mk h r l; stack := FDropSlots ss :: k; unw := u |}
    {| st := mk (drop_slots_heap h ss) r l; stack := k; unw := u |} /\
  inert_slots (drop_slots_heap h ss) rest.
Proof.
  induction ss as [|sl ss IH]; intros h Hi.
  - split; [|exact Hi]. cbn [slots_steps]. apply bsteps_one.
    + cbn [stack length]. lia.
    + cbn [stack]. lia.
    + apply step_slots_nil.
  - cbn [app] in Hi. pose proof (inert_slots_cons _ _ _ Hi) as Hi'.
    destruct (IH _ Hi') as [IHb IHr]. split; [|exact IHr].
    unfold inert_slots in Hi. inversion Hi as [|x xs Hsl _]; subst.
    destruct sl as [o|[o|]|]; cbn [slots_steps drop_slot_heap] in *.
    + (* strong handle to a dead object *)
      cbn [inert_slot] in Hsl. destruct Hsl as (b & Hg & Hd).
      eapply bs_step; [cbn [stack length]; lia|apply step_slots_strong|].
      eapply bs_step; [cbn [stack length]; lia| |exact IHb].
      apply (step_drop_dead pri (mk h r l) (FDropSlots ss :: k) u o b); [exact Hg|exact Hd].
    + (* weak handle with spare count *)
      cbn [inert_slot] in Hsl. destruct Hsl as (b & Hg & Hw).
      cbn [wcount] in Hw. rewrite Nat.eqb_refl in Hw.
      eapply bs_step; [cbn [stack length]; lia| |exact IHb].
      apply (step_slots_weak pri (mk h r l)). cbn [heap_of mk].
      apply (weak_drop_spare h o b Hg). lia.
    + (* dangling weak *)
      eapply bs_step; [cbn [stack length]; lia| |exact IHb].
      apply (step_slots_weak pri (mk h r l) None ss k u h). reflexivity.
    + eapply bs_step; [cbn [stack length]; lia|apply step_slots_empty|exact IHb].
Qed.

(** Dropping the fields of a value whose handles are all inert (field drop
    glue of a [Node] whose [Rc] fields point to dead objects, plus [Weak]
    fields that are not the last weak reference) uses at most two frames on
    top of the caller, whatever the number of fields; only [weak] counters
    change. *)
Theorem drop_slots_const_stack pri s ss k u :
  inert_slots (heap_of s) ss ->
  let c := {| st := s; stack := FDropSlots ss :: k; unw := u |} in
  let s' := set_heap s (drop_slots_heap (heap_of s) ss) in
  exists n, n <= 2 * length ss + 1 /\
    run pri n c = Running {| st := s'; stack := k; unw := u |} /\
    (forall m, m <= n -> exists cm, run pri m c = Running cm /\
                                   length (stack cm) <= length k + 2) /\
    max_depth pri n c <= length k + 2.
Proof.
  intros Hi c s'. destruct s as [h r l]. cbn [heap_of] in Hi.
  assert (Hi' : inert_slots h (ss ++ [])) by (rewrite app_nil_r; exact Hi).
  destruct (drop_slots_bsteps pri r l k u [] ss h Hi') as [Hb _].
  exists (slots_steps ss). split; [apply slots_steps_le|].
  split; [exact (bsteps_run _ _ _ _ _ Hb)|].
  split; [exact (bsteps_prefix _ _ _ _ _ Hb)|exact (bsteps_max_depth _ _ _ _ _ Hb)].
Qed.

(** The core case: only empty slots and strong handles to dead objects. The
    state does not change at all. *)
Theorem drop_slots_const_stack0 pri s ss k u :
  Forall (inert_slot0 (heap_of s)) ss ->
  let c := {| st := s; stack := FDropSlots ss :: k; unw := u |} in
  exists n, n <= 2 * length ss + 1 /\
    run pri n c = Running {| st := s; stack := k; unw := u |} /\
    (forall m, m <= n -> exists cm, run pri m c = Running cm /\
                                   length (stack cm) <= length k + 2) /\
    max_depth pri n c <= length k + 2.
Proof.
  intros H0 c.
  destruct (drop_slots_const_stack pri s ss k u (inert0_inert _ _ H0)) as (n & Hn & Hr & Hp & Hm).
  exists n. split; [exact Hn|]. split; [|split; [exact Hp|exact Hm]].
  unfold c. rewrite Hr. rewrite (inert0_heap _ _ _ H0). destruct s as [h r l]. reflexivity.
Qed.

(** ** A whole group *)

Definition ikey (e : inner) : oid := fst (fst e).
Definition ival (e : inner) : payload := snd (fst e).

(** all the handles held by the members' values, in drop order *)
Definition group_slots (es : list inner) : list slot :=
  flat_map (fun e => slots (ival e)) es.

(** the events logged while the values and tables of [es] are dropped *)
Fixpoint group_log (es : list inner) (l : list event) : list event :=
  match es with
  | [] => l
  | e :: es' => group_log es' (EvTableDropped (ikey e) :: EvDtor (pid (ival e)) :: l)
  end.

Fixpoint group_steps (es : list inner) : nat :=
  match es with
  | [] => 1
  | e :: es' => 4 + slots_steps (slots (ival e)) + group_steps es'
  end.

Lemma group_steps_le es :
  group_steps es <= 5 * length es + 2 * length (group_slots es) + 1.
Proof.
  induction es as [|e es IH]; [cbn; lia|].
  cbn [group_steps group_slots flat_map length]. rewrite app_length.
  fold (group_slots es). pose proof (slots_steps_le (slots (ival e))). lia.
Qed.

(** every member's destructor script is empty, and the handles held by all
    the members are inert as a whole *)
Definition inert_group (h : heap) (es : list inner) : Prop :=
  (forall e, In e es -> script (ival e) = []) /\ inert_slots h (group_slots es).

(** core notion: member by member, strong handles to dead objects only *)
Definition inert_group0 (h : heap) (es : list inner) : Prop :=
  Forall (fun e => inert_payload0 h (ival e)) es.

Lemma inert_group0_slots h es : inert_group0 h es -> Forall (inert_slot0 h) (group_slots es).
Proof.
  intros H. induction H as [|e es [_ He] _ IH]; [constructor|].
  cbn [group_slots flat_map]. apply Forall_app. split; [exact He|exact IH].
Qed.

Lemma inert_group0_group h es : inert_group0 h es -> inert_group h es.
Proof.
  intros H. split.
  - intros e He. unfold inert_group0 in H. rewrite Forall_forall in H.
    destruct (H e He) as [Hs _]. exact Hs.
  - apply inert0_inert. apply inert_group0_slots. exact H.
Qed.

Lemma step_inners_nil pri s k u :
  step pri {| st := s; stack := FInners [] :: k; unw := u |} =
  Running {| st := s; stack := k; unw := u |}.
Proof. reflexivity. Qed.

Lemma step_inners_cons pri s o v t es k u :
  step pri {| st := s; stack := FInners ((o, v, t) :: es) :: k; unw := u |} =
  Running {| st := s; stack := FDtorStart v :: FTableDrop o :: FInners es :: k; unw := u |}.
Proof. reflexivity. Qed.

Lemma step_dtor_start pri h r l v k u :
  step pri {| st := mk h r l; stack := FDtorStart v :: k; unw := u |} =
  Running {| st := mk h r (EvDtor (pid v) :: l); stack := FRunDtor v (script v) :: k; unw := u |}.
Proof. reflexivity. Qed.

Lemma step_run_dtor_nil pri s v k u :
  step pri {| st := s; stack := FRunDtor v [] :: k; unw := u |} =
  Running {| st := s; stack := FDropSlots (slots v) :: k; unw := u |}.
Proof. reflexivity. Qed.

Lemma step_table_drop pri h r l o k u :
  step pri {| st := mk h r l; stack := FTableDrop o :: k; unw := u |} =
  Running {| st := mk h r (EvTableDropped o :: l); stack := k; unw := u |}.
Proof. reflexivity. Qed.

(** [drop(inners)]: the loop over the members' (value, table) pairs *)
Lemma inners_bsteps pri r k u : forall es h l,
  inert_group h es ->
  bsteps pri (length k + 4) (group_steps es)
    {| st := mk h r l; stack := FInners es :: k; unw := u |}
    {| st := mk (drop_slots_heap h (group_slots es)) r (group_log es l);
       stack := k; unw := u |}.
Proof.
  induction es as [|e es IH]; intros h l [Hs Hi].
  - cbn [group_steps group_slots flat_map group_log]. apply bsteps_one.
    + cbn [stack length]. lia.
    + cbn [stack]. lia.
    + apply step_inners_nil.
  - destruct e as [[o v] t].
    assert (Hv : script v = []) by (apply (Hs (o, v, t)); left; reflexivity).
    assert (Hs' : forall e, In e es -> script (ival e) = []) by (intros e He; apply Hs; right; exact He).
    cbn [group_slots flat_map ival fst snd] in Hi. fold (group_slots es) in Hi.
    destruct (drop_slots_bsteps pri r (EvDtor (pid v) :: l)
                (FTableDrop o :: FInners es :: k) u (group_slots es) (slots v) h Hi)
      as [Hb Hrest].
    specialize (IH (drop_slots_heap h (slots v))
                   (EvTableDropped o :: EvDtor (pid v) :: l) (conj Hs' Hrest)).
    cbn [group_slots flat_map ival fst snd group_log ikey]. fold (group_slots es).
    rewrite drop_slots_heap_app.
    eapply bsteps_trans_eq with (n := 3) (m := slots_steps (slots v) + (1 + group_steps es));
      [ | |cbn [group_steps ival fst snd]; lia].
    + eapply bs_step; [cbn [stack length]; lia|apply step_inners_cons|].
      eapply bs_step; [cbn [stack length]; lia|apply step_dtor_start|].
      rewrite Hv. eapply bs_step; [cbn [stack length]; lia|apply step_run_dtor_nil|].
      apply bs_refl. cbn [stack length]. lia.
    + eapply bsteps_trans.
      * eapply bsteps_mono; [|exact Hb]. cbn [length]. lia.
      * eapply bs_step; [cbn [stack length]; lia|apply step_table_drop|exact IH].
Qed.

Lemma step_finish_group_ok pri s keys k u h1 :
  finish_group (heap_of s) keys = Ok h1 ->
  step pri {| st := s; stack := FFinishGroup keys :: k; unw := u |} =
  Running {| st := set_heap s h1; stack := k; unw := u |}.
Proof. intros H. cbn [step st stack unw]. rewrite H. reflexivity. Qed.

Lemma step_finish_group_bad pri s keys k u e :
  finish_group (heap_of s) keys = Bad e ->
  step pri {| st := s; stack := FFinishGroup keys :: k; unw := u |} = Halted s e.
Proof. intros H. cbn [step st stack unw]. rewrite H. reflexivity. Qed.

(** the state in which phase three ([FFinishGroup]) starts *)
Definition after_inners (s : state) (es : list inner) : state :=
  mk (drop_slots_heap (heap_of s) (group_slots es)) (regs s) (group_log es (log s)).

(** Phase two and a half of [drop_cycle] -- [drop(inners)] for a group whose
    members' values are inert -- runs in at most five frames on top of the
    caller, whatever the number of members, and takes a number of steps linear
    in the number of members and of handles they hold.  Only [EvDtor] /
    [EvTableDropped] events are logged; the heap changes by [weak] decrements
    only (not at all with strong handles only). *)
Theorem group_inners_bounded pri s es keys k u :
  inert_group (heap_of s) es ->
  bsteps pri (length k + 5) (group_steps es)
    {| st := s; stack := FInners es :: FFinishGroup keys :: k; unw := u |}
    {| st := after_inners s es; stack := FFinishGroup keys :: k; unw := u |} /\
  group_steps es <= 5 * length es + 2 * length (group_slots es) + 1.
Proof.
  intros Hi. split; [|apply group_steps_le]. destruct s as [h r l]. cbn [heap_of] in Hi.
  unfold after_inners. cbn [heap_of regs log].
  eapply bsteps_mono; [|apply (inners_bsteps pri r (FFinishGroup keys :: k) u es h l Hi)].
  cbn [length]. lia.
Qed.

(** The whole teardown, phase three included: from
    [FInners es :: FFinishGroup keys :: k] the machine comes back to the
    caller's stack [k] (or stops on a fault of [finish_group]) without ever
    exceeding [length k + 5] frames. *)
Theorem group_teardown_bounded pri s es keys k u :
  inert_group (heap_of s) es ->
  let c := {| st := s; stack := FInners es :: FFinishGroup keys :: k; unw := u |} in
  let n := group_steps es in
  let s2 := after_inners s es in
  n <= 5 * length es + 2 * length (group_slots es) + 1 /\
  run pri n c = Running {| st := s2; stack := FFinishGroup keys :: k; unw := u |} /\
  (forall m, m <= n -> exists cm, run pri m c = Running cm /\
                                 length (stack cm) <= length k + 5) /\
  run pri (S n) c =
    match finish_group (heap_of s2) keys with
    | Ok h3 => Running {| st := set_heap s2 h3; stack := k; unw := u |}
    | Bad e => Halted s2 e
    end /\
  max_depth pri (S n) c <= length k + 5.
Proof.
  intros Hi c n s2. destruct (group_inners_bounded pri s es keys k u Hi) as [Hb Hn].
  fold c n s2 in Hb. split; [exact Hn|].
  split; [exact (bsteps_run _ _ _ _ _ Hb)|].
  split; [exact (bsteps_prefix _ _ _ _ _ Hb)|].
  assert (Hstep : step pri {| st := s2; stack := FFinishGroup keys :: k; unw := u |} =
    match finish_group (heap_of s2) keys with
    | Ok h3 => Running {| st := set_heap s2 h3; stack := k; unw := u |}
    | Bad e => Halted s2 e
    end).
  { destruct (finish_group (heap_of s2) keys) as [h3|e] eqn:E.
    - apply step_finish_group_ok; exact E.
    - apply step_finish_group_bad; exact E. }
  split.
  - replace (S n) with (n + 1) by lia.
    assert (Hrun : forall a b x y, run pri a x = Running y -> run pri (a + b) x = run pri b y).
    { induction a as [|a IHa]; intros b x y Hr.
      - cbn [run] in Hr. injection Hr as <-. reflexivity.
      - cbn [Nat.add run] in *. destruct (step pri x) as [x1|s1 p1|s1 e1]; try discriminate.
        apply IHa; exact Hr. }
    rewrite (Hrun _ _ _ _ (bsteps_run _ _ _ _ _ Hb)). cbn [run]. rewrite Hstep.
    destruct (finish_group (heap_of s2) keys); reflexivity.
  - replace (S n) with (n + 1) by lia.
    pose proof (bsteps_max_depth_app pri _ _ _ _ 1 Hb) as M.
    cbn [max_depth] in M. rewrite Hstep in M.
    destruct (finish_group (heap_of s2) keys) as [h3|e]; cbn [stack length] in M; lia.
Qed.

(** ** The theorem for [Rc::drop] *)

Lemma max_depth_step pri f c c' :
  step pri c = Running c' ->
  max_depth pri (S f) c = Nat.max (length (stack c)) (max_depth pri f c').
Proof. intros H. cbn [max_depth]. rewrite H. reflexivity. Qed.

Lemma run_app pri : forall a b x y,
  run pri a x = Running y -> run pri (a + b) x = run pri b y.
Proof.
  induction a as [|a IHa]; intros b x y Hr.
  - cbn [run] in Hr. injection Hr as <-. reflexivity.
  - cbn [Nat.add run] in *. destruct (step pri x) as [x1|s1 p1|s1 e1]; try discriminate.
    apply IHa; exact Hr.
Qed.

(** If dropping a handle to [o] finds an orphaned group and collects it
    ([drop_cycle]), and the values of the gathered members are inert, then the
    whole call -- from the [Rc::drop] frame until control is back in the
    caller, or until phase three faults -- never uses more than
    [length k + 5] frames, where [k] is the caller's stack: no recursion
    through the group.  The number of steps is linear. *)
Theorem drop_strong_group_bounded pri s o s1 es keys k u :
  drop_strong pri s o = Ok (s1, [FInners es; FFinishGroup keys]) ->
  inert_group (heap_of s1) es ->
  let c0 := {| st := s; stack := FDropStrong o :: k; unw := u |} in
  let c := {| st := s1; stack := [FInners es; FFinishGroup keys] ++ k; unw := u |} in
  let n := group_steps es in
  let s2 := after_inners s1 es in
  step pri c0 = Running c /\
  n <= 5 * length es + 2 * length (group_slots es) + 1 /\
  run pri n c = Running {| st := s2; stack := FFinishGroup keys :: k; unw := u |} /\
  (forall m, m <= n -> exists cm, run pri m c = Running cm /\
                                 length (stack cm) <= length k + 5) /\
  run pri (S n) c =
    match finish_group (heap_of s2) keys with
    | Ok h3 => Running {| st := set_heap s2 h3; stack := k; unw := u |}
    | Bad e => Halted s2 e
    end /\
  max_depth pri (S n) c <= length k + 5 /\
  max_depth pri (S (S n)) c0 <= length k + 5.
Proof.
  intros Hd Hi c0 c n s2.
  assert (Hstep : step pri c0 = Running c).
  { unfold c0, c. cbn [step st stack unw]. rewrite Hd. reflexivity. }
  destruct (group_teardown_bounded pri s1 es keys k u Hi) as (Hn & Hr & Hp & Hf & Hm).
  cbn [app]. fold n s2 in Hn, Hr, Hp, Hf, Hm.
  split; [exact Hstep|]. split; [exact Hn|]. split; [exact Hr|]. split; [exact Hp|].
  split; [exact Hf|]. split; [exact Hm|].
  rewrite (max_depth_step _ _ _ _ Hstep). unfold c0 at 1. cbn [stack length].
  change ([FInners es; FFinishGroup keys] ++ k) with (FInners es :: FFinishGroup keys :: k) in c.
  fold c in Hm. lia.
Qed.

(** the same with the core notion of inertness (strong handles to dead
    objects only): heap and registers are untouched until phase three *)
Corollary drop_strong_group_bounded0 pri s o s1 es keys k u :
  drop_strong pri s o = Ok (s1, [FInners es; FFinishGroup keys]) ->
  inert_group0 (heap_of s1) es ->
  let c0 := {| st := s; stack := FDropStrong o :: k; unw := u |} in
  let n := group_steps es in
  let s2 := mk (heap_of s1) (regs s1) (group_log es (log s1)) in
  n <= 5 * length es + 2 * length (group_slots es) + 1 /\
  run pri (S n) c0 = Running {| st := s2; stack := FFinishGroup keys :: k; unw := u |} /\
  (forall m, m <= S n -> exists cm, run pri m c0 = Running cm /\
                                   length (stack cm) <= length k + 5) /\
  max_depth pri (S (S n)) c0 <= length k + 5.
Proof.
  intros Hd Hi0 c0 n s2.
  destruct (drop_strong_group_bounded pri s o s1 es keys k u Hd (inert_group0_group _ _ Hi0))
    as (Hstep & Hn & Hr & Hp & _ & _ & Hm).
  fold c0 n in Hstep, Hn, Hr, Hp, Hm.
  assert (E : after_inners s1 es = s2).
  { unfold after_inners, s2. rewrite (inert0_heap _ _ _ (inert_group0_slots _ _ Hi0)). reflexivity. }
  rewrite E in Hr.
  split; [exact Hn|]. split; [|split; [|exact Hm]].
  - cbn [run]. rewrite Hstep. exact Hr.
  - intros m Hle. destruct m as [|m].
    + exists c0. split; [reflexivity|]. unfold c0. cbn [stack length]. lia.
    + cbn [run]. rewrite Hstep. apply Hp. lia.
Qed.

(** ** The hypothesis holds by construction for closed groups *)

Lemma getb_setb_other h k x o : k <> o -> getb (setb h k x) o = getb h o.
Proof. intros H. unfold getb, setb. rewrite nth_error_upd_other by exact H. reflexivity. Qed.

Lemma getb_setb_same h k x :
  k < length h -> freed x = false -> getb (setb h k x) k = Ok x.
Proof. intros H Hf. unfold getb, setb. rewrite nth_error_upd_same by exact H. rewrite Hf. reflexivity. Qed.

Definition uninit_at (h : heap) (o : oid) : Prop :=
  exists b, getb h o = Ok b /\ strong b = Uninit.

Lemma uninit_dead h o : uninit_at h o -> dead_at h o.
Proof. intros (b & Hg & Hs). exists b. split; [exact Hg|]. rewrite Hs. reflexivity. Qed.

(** phase two never touches a member that is already marked *)
Lemma gather_uninit_stable keys : forall h acc h' es o,
  gather h keys acc = Ok (h', es) -> uninit_at h o -> uninit_at h' o.
Proof.
  induction keys as [|k keys IH]; intros h acc h' es o Hg Hu.
  - cbn [gather] in Hg. injection Hg as <- _. exact Hu.
  - cbn [gather] in Hg. unfold bind in Hg.
    destruct (getb h k) as [bk|] eqn:Gk; [|discriminate].
    destruct (negb (is_dead (strong bk))); [eapply IH; eauto|].
    destruct (is_uninit (strong bk)) eqn:Eu; [eapply IH; eauto|].
    destruct (value bk) as [v|]; [|discriminate].
    destruct (links bk) as [t|]; [|discriminate].
    eapply IH; [exact Hg|]. destruct Hu as (b & Hb & Hs).
    destruct (Nat.eq_dec k o) as [->|Hne].
    + assert (bk = b) as -> by congruence. rewrite Hs in Eu. discriminate.
    + exists b. split; [|exact Hs]. rewrite getb_setb_other by exact Hne. exact Hb.
Qed.

(** every member gathered into [inners] is a key and carries the uninit mark
    afterwards *)
Lemma gather_spec keys : forall h acc h' es,
  gather h keys acc = Ok (h', es) ->
  exists es', es = acc ++ es' /\
    forall e, In e es' -> In (ikey e) keys /\ uninit_at h' (ikey e).
Proof.
  induction keys as [|k keys IH]; intros h acc h' es Hg.
  - cbn [gather] in Hg. injection Hg as _ <-. exists []. split; [symmetry; apply app_nil_r|].
    intros e [].
  - cbn [gather] in Hg. unfold bind in Hg.
    destruct (getb h k) as [bk|] eqn:Gk; [|discriminate].
    assert (Hskip : gather h keys acc = Ok (h', es) ->
      exists es', es = acc ++ es' /\
        forall e, In e es' -> In (ikey e) (k :: keys) /\ uninit_at h' (ikey e)).
    { intros Hg'. destruct (IH _ _ _ _ Hg') as (es' & E & H). exists es'. split; [exact E|].
      intros e He. destruct (H e He) as [H1 H2]. split; [right; exact H1|exact H2]. }
    destruct (negb (is_dead (strong bk))); [exact (Hskip Hg)|].
    destruct (is_uninit (strong bk)) eqn:Eu; [exact (Hskip Hg)|].
    destruct (value bk) as [v|]; [|discriminate].
    destruct (links bk) as [t|]; [|discriminate].
    destruct (IH _ _ _ _ Hg) as (es' & E & H). exists ((k, v, t) :: es'). split.
    + rewrite E, <- app_assoc. reflexivity.
    + intros e [<-|He].
      * cbn [ikey fst]. split; [left; reflexivity|].
        eapply gather_uninit_stable; [exact Hg|].
        pose proof (getb_lt _ _ _ Gk) as Hlt. pose proof (getb_ok _ _ _ Gk) as [_ Hf].
        eexists. split; [apply getb_setb_same; [exact Hlt|exact Hf]|reflexivity].
      * destruct (H e He) as [H1 H2]. split; [right; exact H1|exact H2].
Qed.

(** [gather_marks]: when every key is dead and not yet marked, and the keys
    are distinct, phase two marks every key and gathers exactly the keys, in
    order *)
Lemma gather_marks_acc keys : forall h acc h' es,
  NoDup keys ->
  (forall k, In k keys -> exists b, getb h k = Ok b /\ is_dead (strong b) = true /\
                                    is_uninit (strong b) = false) ->
  gather h keys acc = Ok (h', es) ->
  (forall k, In k keys -> uninit_at h' k) /\
  exists es', es = acc ++ es' /\ map ikey es' = keys.
Proof.
  induction keys as [|k keys IH]; intros h acc h' es Hnd Hk Hg.
  - cbn [gather] in Hg. injection Hg as _ <-. split; [intros k []|].
    exists []. split; [symmetry; apply app_nil_r|reflexivity].
  - inversion Hnd as [|x xs Hnin Hnd']; subst.
    destruct (Hk k (or_introl eq_refl)) as (bk & Gk & Hd & Hu).
    cbn [gather] in Hg. unfold bind in Hg. rewrite Gk, Hd, Hu in Hg. cbn [negb] in Hg.
    destruct (value bk) as [v|]; [|discriminate].
    destruct (links bk) as [t|]; [|discriminate].
    assert (Hk' : forall k', In k' keys -> exists b,
              getb (setb h k (with_links (with_value (with_strong bk Uninit) None) None)) k' = Ok b /\
              is_dead (strong b) = true /\ is_uninit (strong b) = false).
    { intros k' Hin. destruct (Hk k' (or_intror Hin)) as (b & G & D & U).
      exists b. split; [|split; assumption].
      rewrite getb_setb_other; [exact G|]. intros ->. contradiction. }
    destruct (IH _ _ _ _ Hnd' Hk' Hg) as (Hall & es' & E & Hmap). split.
    + intros k' [<-|Hin]; [|apply Hall; exact Hin].
      eapply gather_uninit_stable; [exact Hg|].
      pose proof (getb_lt _ _ _ Gk) as Hlt. pose proof (getb_ok _ _ _ Gk) as [_ Hf].
      eexists. split; [apply getb_setb_same; [exact Hlt|exact Hf]|reflexivity].
    + exists ((k, v, t) :: es'). split; [rewrite E, <- app_assoc; reflexivity|].
      cbn [map ikey fst]. rewrite Hmap. reflexivity.
Qed.

Theorem gather_marks h keys h' es :
  NoDup keys ->
  (forall k, In k keys -> exists b, getb h k = Ok b /\ is_dead (strong b) = true /\
                                    is_uninit (strong b) = false) ->
  gather h keys [] = Ok (h', es) ->
  (forall k, In k keys -> exists b', getb h' k = Ok b' /\ strong b' = Uninit) /\
  map (fun e => fst (fst e)) es = keys.
Proof.
  intros Hnd Hk Hg. destruct (gather_marks_acc keys h [] h' es Hnd Hk Hg) as (Hall & es' & E & Hmap).
  split; [exact Hall|]. cbn [app] in E. subst es'. exact Hmap.
Qed.

(** a group is closed when its gathered members have no destructor script and
    hold nothing but strong handles to gathered members *)
Definition closed_group (es : list inner) : Prop :=
  forall e, In e es ->
    script (ival e) = [] /\
    forall sl, In sl (slots (ival e)) ->
      sl = SEmpty \/ exists e', In e' es /\ sl = SStrong (ikey e').

Lemma gathered_closed_inert h keys h' es :
  gather h keys [] = Ok (h', es) -> closed_group es -> inert_group0 h' es.
Proof.
  intros Hg Hc. destruct (gather_spec _ _ _ _ _ Hg) as (es' & E & H). cbn [app] in E. subst es'.
  unfold inert_group0. apply Forall_forall. intros e He. destruct (Hc e He) as [Hs Hsl].
  split; [exact Hs|]. apply Forall_forall. intros sl Hin.
  destruct (Hsl sl Hin) as [->|(e' & He' & ->)]; cbn [inert_slot0]; [exact I|].
  apply uninit_dead. apply (H e' He').
Qed.

Lemma start_unreachable_frames s o s' fr :
  start_unreachable s o = Ok (s', fr) -> exists v, fr = [FDtorStart v; FAfterValue o].
Proof.
  unfold start_unreachable, bind. destruct (getb (heap_of s) o) as [b|]; [|discriminate].
  destruct (value b) as [v|]; [|discriminate]. intros H; injection H as _ <-. eauto.
Qed.

(** the group frames pushed by [drop_strong] come from phase two *)
Lemma drop_strong_group_inv pri s o s1 es keys :
  drop_strong pri s o = Ok (s1, [FInners es; FFinishGroup keys]) ->
  exists h2, gather h2 keys [] = Ok (heap_of s1, es).
Proof.
  unfold drop_strong, bind.
  destruct (getb (heap_of s) o) as [b|]; [|discriminate].
  destruct (strong b) as [n|]; [|discriminate].
  destruct (n =? 0)%N; [discriminate|].
  destruct (get_links _ o) as [t|]; [|discriminate].
  destruct t as [|en t].
  - destruct (n - 1 =? 0)%N; [|discriminate].
    intros H. apply start_unreachable_frames in H as (v & H). discriminate.
  - destruct (n - 1 =? 0)%N.
    + destruct (purge_loop _ o _) as [h2|]; [|discriminate].
      destruct (set_links h2 o []) as [h3|]; [|discriminate].
      intros H. apply start_unreachable_frames in H as (v & H). discriminate.
    + destruct (orphaned_cycle _ o) as [[[oc pops] visits]|]; [|discriminate].
      destruct oc as [cyc|]; [|discriminate].
      destruct (bust_all _ _ _) as [h2|]; [|discriminate].
      destruct (gather h2 _ []) as [[h3 inners]|] eqn:G; [|discriminate].
      intros H. injection H as <- <- <-. exists h2. exact G.
Qed.

(** C15 for closed groups: if [Rc::drop] collects a group whose gathered
    members have trivial destructors and hold only strong handles to each
    other, the teardown runs in constant stack (five frames above the caller)
    and linear time; heap and registers are untouched until phase three. *)
Theorem closed_group_teardown_bounded pri s o s1 es keys k u :
  drop_strong pri s o = Ok (s1, [FInners es; FFinishGroup keys]) ->
  closed_group es ->
  let c0 := {| st := s; stack := FDropStrong o :: k; unw := u |} in
  let n := group_steps es in
  let s2 := mk (heap_of s1) (regs s1) (group_log es (log s1)) in
  n <= 5 * length es + 2 * length (group_slots es) + 1 /\
  run pri (S n) c0 = Running {| st := s2; stack := FFinishGroup keys :: k; unw := u |} /\
  (forall m, m <= S n -> exists cm, run pri m c0 = Running cm /\
                                   length (stack cm) <= length k + 5) /\
  max_depth pri (S (S n)) c0 <= length k + 5.
Proof.
  intros Hd Hc. destruct (drop_strong_group_inv _ _ _ _ _ _ Hd) as (h2 & Hg).
  apply (drop_strong_group_bounded0 pri s o s1 es keys k u Hd).
  exact (gathered_closed_inert _ _ _ _ Hg Hc).
Qed.

(** ** What dropping inert slots does to the heap *)

(** exactly this: every box loses as many [weak] counts as there are [Weak]
    slots naming it; nothing else changes (no count reaches 0 when the slots
    are inert, so nothing is freed) *)
Lemma drop_slots_heap_spec ss : forall h o,
  nth_error (drop_slots_heap h ss) o =
  option_map (fun b => with_weak b (weak b - N.of_nat (wcount o ss))) (nth_error h o).
Proof.
  induction ss as [|sl ss IH]; intros h o.
  - cbn [drop_slots_heap fold_left wcount]. destruct (nth_error h o) as [b|]; [|reflexivity].
    cbn [option_map]. f_equal. destruct b as [s w l t v f]. unfold with_weak. cbn.
    f_equal. lia.
  - assert (Hsame : drop_slot_heap h sl = h -> wcount o (sl :: ss) = wcount o ss ->
              nth_error (drop_slots_heap h (sl :: ss)) o =
              option_map (fun b => with_weak b (weak b - N.of_nat (wcount o (sl :: ss)))) (nth_error h o)).
    { intros E1 E2. unfold drop_slots_heap. cbn [fold_left]. rewrite E1, E2. apply IH. }
    destruct sl as [o'|[o'|]|]; try (apply Hsame; reflexivity).
    unfold drop_slots_heap. cbn [fold_left drop_slot_heap]. fold (drop_slots_heap (dec_weak h o') ss).
    rewrite IH. unfold dec_weak. cbn [wcount].
    destruct (nth_error h o') as [b'|] eqn:E'.
    + unfold setb. rewrite nth_error_upd.
      assert (Hlt : Nat.ltb o' (length h) = true).
      { apply Nat.ltb_lt. apply nth_error_Some. congruence. }
      destruct (Nat.eqb_spec o' o) as [->|Hne].
      * rewrite Hlt, E', Nat.eqb_refl. cbn [option_map]. f_equal.
        unfold with_weak. cbn [strong weak links talloc value freed]. f_equal. lia.
      * assert (Nat.eqb o o' = false) as -> by (apply Nat.eqb_neq; congruence). reflexivity.
    + destruct (Nat.eqb_spec o o') as [->|Hne]; [rewrite E'; reflexivity|reflexivity].
Qed.

(** ** The per-slot reading of the weak condition *)

(** each [Weak] slot on its own: the target has [weak > 1] *)
Definition inert_slot1 (h : heap) (sl : slot) : Prop :=
  match sl with
  | SEmpty => True
  | SStrong o => dead_at h o
  | SWeak None => True
  | SWeak (Some o) => exists b, getb h o = Ok b /\ (1 < weak b)%N
  end.

(** it is enough when no object is named by two of the [Weak] slots *)
Lemma inert1_inert h ss :
  (forall o, wcount o ss <= 1) -> Forall (inert_slot1 h) ss -> inert_slots h ss.
Proof.
  intros Hc H. unfold inert_slots. eapply Forall_impl; [|exact H].
  intros sl Hsl. destruct sl as [o|[o|]|]; cbn [inert_slot1 inert_slot] in *; auto.
  destruct Hsl as (b & Hg & Hw). exists b. split; [exact Hg|]. specialize (Hc o). lia.
Qed.

(** ... and not enough otherwise: two [Weak] slots for an object with
    [weak = 2] release the allocation *)
Example per_slot_weak_condition_insufficient :
  let b := {| strong := Uninit; weak := 2; links := None; talloc := false;
              value := None; freed := false |} in
  let ss := [SWeak (Some 0); SWeak (Some 0)] in
  Forall (inert_slot1 [b]) ss /\
  run [] 3 {| st := mk [b] [] []; stack := [FDropSlots ss]; unw := false |} =
  Running {| st := mk [with_freed (with_weak b 0) true] [] []; stack := []; unw := false |}.
Proof.
  split; [|reflexivity].
  repeat constructor; cbn [inert_slot1]; eexists; (split; [reflexivity|cbn [weak]; lia]).
Qed.

(** ** [gather_marks] gives inert payloads *)

(** under the hypotheses of [gather_marks], a value with a trivial destructor
    whose strong handles all target keys of the group is inert after phase two *)
Corollary gather_marks_inert h keys h' es p :
  NoDup keys ->
  (forall k, In k keys -> exists b, getb h k = Ok b /\ is_dead (strong b) = true /\
                                    is_uninit (strong b) = false) ->
  gather h keys [] = Ok (h', es) ->
  script p = [] ->
  (forall sl, In sl (slots p) -> sl = SEmpty \/ exists k, In k keys /\ sl = SStrong k) ->
  inert_payload0 h' p.
Proof.
  intros Hnd Hk Hg Hs Hsl. destruct (gather_marks _ _ _ _ Hnd Hk Hg) as [Hall _].
  split; [exact Hs|]. apply Forall_forall. intros sl Hin.
  destruct (Hsl sl Hin) as [->|(k & Hkin & ->)]; cbn [inert_slot0]; [exact I|].
  apply uninit_dead. exact (Hall k Hkin).
Qed.

(** ** The hypotheses are satisfiable: a two-object cycle *)

(** two objects that own each other through adopted strong handles; the
    program has dropped its handle to the first and still holds one to the
    second *)
Definition demo_hist : list (op * list oid) :=
  [ (ONewS 0 [], []); (ONewS 1 [], []);
    (OAct (AClone (HReg 0) 2), []); (OAct (AStore 2 (OReg 1) 0), []);
    (OAct (AAdopt (HReg 1) (HSlot (OReg 1) 0)), []);
    (OAct (AClone (HReg 1) 3), []); (OAct (AStore 3 (OReg 0) 0), []);
    (OAct (AAdopt (HReg 0) (HSlot (OReg 0) 0)), []);
    (OAct (ADrop 0), []) ].

Definition demo_state : state := fst (run_history 100 init_state demo_hist).

(** dropping the last outside handle collects the group, and the group is
    closed: [closed_group_teardown_bounded] applies *)
Example closed_group_nonvacuous :
  exists s1 es keys,
    drop_strong [] demo_state 1 = Ok (s1, [FInners es; FFinishGroup keys]) /\
    length es = 2 /\ closed_group es.
Proof.
  eexists. eexists. eexists. split; [vm_compute; reflexivity|]. split; [reflexivity|].
  intros e [<-|[<-|[]]]; (split; [reflexivity|]); cbn [ival fst snd slots]; intros sl Hin.
  - destruct Hin as [<-|[<-|[<-|[<-|[]]]]]; [right|left|left|left]; try reflexivity.
    eexists. split; [right; left; reflexivity|reflexivity].
  - destruct Hin as [<-|[<-|[<-|[<-|[]]]]]; [right|left|left|left]; try reflexivity.
    eexists. split; [left; reflexivity|reflexivity].
Qed.

Print Assumptions drop_slots_const_stack.
Print Assumptions drop_slots_const_stack0.
Print Assumptions group_inners_bounded.
Print Assumptions group_teardown_bounded.
Print Assumptions drop_strong_group_bounded.
Print Assumptions drop_strong_group_bounded0.
Print Assumptions gather_marks.
Print Assumptions drop_slots_heap_spec.
Print Assumptions gather_marks_inert.
Print Assumptions closed_group_teardown_bounded.
Print Assumptions max_depth_sound.
Print Assumptions per_slot_weak_condition_insufficient.
Print Assumptions closed_group_nonvacuous.
