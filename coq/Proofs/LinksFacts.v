(** * Facts about link tables (link.rs): [tbl_get] is the abstraction; every
    operation is characterised by its effect on [tbl_get]. *)
From CR Require Import Base.
Local Open Scope N_scope.

Lemma kind_eqb_eq a b : kind_eqb a b = true <-> a = b.
Proof. destruct a, b; cbn; split; congruence. Qed.

Lemma link_eqb_eq a b : link_eqb a b = true <-> a = b.
Proof.
  destruct a as [x k], b as [y k']; unfold link_eqb; cbn [fst snd].
  rewrite andb_true_iff, Nat.eqb_eq, kind_eqb_eq. split.
  - intros [-> ->]; reflexivity.
  - intros E; injection E as -> ->; auto.
Qed.

Lemma link_eqb_refl a : link_eqb a a = true.
Proof. apply link_eqb_eq; reflexivity. Qed.

Lemma link_eqb_neq a b : link_eqb a b = false <-> a <> b.
Proof.
  split.
  - intros E H. apply link_eqb_eq in H. congruence.
  - intros H. destruct (link_eqb a b) eqn:E; auto. apply link_eqb_eq in E. contradiction.
Qed.

Lemma link_eqb_sym a b : link_eqb a b = link_eqb b a.
Proof.
  destruct (link_eqb a b) eqn:E.
  - apply link_eqb_eq in E; subst. symmetry; apply link_eqb_refl.
  - apply link_eqb_neq in E. symmetry. apply link_eqb_neq. congruence.
Qed.

Definition keys (t : table) : list link := map fst t.

(** well-formed: keys unique, counts positive *)
Definition tbl_wf (t : table) : Prop :=
  NoDup (keys t) /\ Forall (fun e => 0 < snd e) t.

Lemma tbl_wf_nil : tbl_wf [].
Proof. split; constructor. Qed.

Lemma tbl_get_notin t l : ~ In l (keys t) -> tbl_get t l = 0.
Proof.
  induction t as [|[l' c] t IH]; cbn [tbl_get keys map fst In]; intros H; auto.
  destruct (link_eqb l l') eqn:E.
  - apply link_eqb_eq in E; subst. tauto.
  - apply IH. tauto.
Qed.

Lemma tbl_get_in_pos t l : tbl_wf t -> In l (keys t) -> 0 < tbl_get t l.
Proof.
  intros [Hnd Hpos]. induction t as [|[l' c] t IH]; cbn [keys map fst In tbl_get]; intros H; [tauto|].
  inversion Hnd; inversion Hpos; subst.
  destruct (link_eqb l l') eqn:E; [assumption|].
  apply link_eqb_neq in E. destruct H as [H|H]; [congruence|]. apply IH; auto.
Qed.

Lemma tbl_get_pos_in t l : 0 < tbl_get t l -> In l (keys t).
Proof.
  intros H. destruct (in_dec (fun a b => match link_eqb a b as r return link_eqb a b = r -> {a = b} + {a <> b} with
    | true => fun E => left (proj1 (link_eqb_eq a b) E)
    | false => fun E => right (proj1 (link_eqb_neq a b) E) end eq_refl) l (keys t)) as [Hin|Hn]; auto.
  rewrite (tbl_get_notin _ _ Hn) in H. lia.
Qed.

(** [tbl_set] *)
Lemma tbl_get_set t l c l' :
  tbl_get (tbl_set t l c) l' = if link_eqb l' l then c else tbl_get t l'.
Proof.
  induction t as [|[k v] t IH]; cbn [tbl_set tbl_get].
  - reflexivity.
  - destruct (link_eqb l k) eqn:E; cbn [tbl_get].
    + apply link_eqb_eq in E; subst k. destruct (link_eqb l' l); reflexivity.
    + destruct (link_eqb l' k) eqn:E'.
      * apply link_eqb_eq in E'; subst k. rewrite link_eqb_sym, E. reflexivity.
      * apply IH.
Qed.

Lemma keys_set t l c :
  forall x, In x (keys (tbl_set t l c)) <-> x = l \/ In x (keys t).
Proof.
  induction t as [|[k v] t IH]; intros x; cbn [tbl_set keys map fst In].
  - split; intros [H|H]; auto.
  - destruct (link_eqb l k) eqn:E; cbn [keys map fst In].
    + apply link_eqb_eq in E; subst k. intuition congruence.
    + fold (keys (tbl_set t l c)). rewrite IH. fold (keys t). intuition congruence.
Qed.

Lemma tbl_set_wf t l c : tbl_wf t -> 0 < c -> tbl_wf (tbl_set t l c).
Proof.
  intros [Hnd Hpos] Hc. induction t as [|[k v] t IH]; cbn [tbl_set].
  - split; [cbn; constructor; [intros []|constructor] | constructor; [cbn; exact Hc | constructor]].
  - inversion Hnd as [|? ? Hn Hnd']; inversion Hpos as [|? ? Hv Hpos']; subst.
    destruct (link_eqb l k) eqn:E.
    + split; [exact Hnd|]. constructor; auto.
    + destruct (IH Hnd' Hpos') as [H1 H2]. split.
      * cbn [keys map fst]. constructor; auto. fold (keys (tbl_set t l c)).
        rewrite keys_set. intros [->|H]; [|contradiction].
        rewrite link_eqb_refl in E. discriminate.
      * constructor; auto.
Qed.

(** [tbl_del] *)
Lemma tbl_get_del t l l' : tbl_wf t ->
  tbl_get (tbl_del t l) l' = if link_eqb l' l then 0 else tbl_get t l'.
Proof.
  intros [Hnd _]. induction t as [|[k v] t IH]; cbn [tbl_del tbl_get].
  - destruct (link_eqb l' l); reflexivity.
  - inversion Hnd as [|? ? Hn Hnd']; subst.
    destruct (link_eqb l k) eqn:E.
    + apply link_eqb_eq in E; subst k.
      destruct (link_eqb l' l) eqn:E'; [|reflexivity].
      apply link_eqb_eq in E'; subst l'. apply tbl_get_notin; exact Hn.
    + cbn [tbl_get]. destruct (link_eqb l' k) eqn:E'.
      * apply link_eqb_eq in E'; subst k. rewrite link_eqb_sym, E. reflexivity.
      * apply IH; exact Hnd'.
Qed.

Lemma keys_del t l : tbl_wf t ->
  forall x, In x (keys (tbl_del t l)) <-> x <> l /\ In x (keys t).
Proof.
  intros [Hnd _]. induction t as [|[k v] t IH]; intros x; cbn [tbl_del keys map fst In].
  - tauto.
  - inversion Hnd as [|? ? Hn Hnd']; subst.
    destruct (link_eqb l k) eqn:E.
    + apply link_eqb_eq in E; subst k. fold (keys t). split.
      * intros H. split; [|auto]. intros ->. contradiction.
      * intros [H1 [H2|H2]]; [congruence|exact H2].
    + cbn [keys map fst In]. fold (keys (tbl_del t l)) (keys t). rewrite (IH Hnd').
      apply link_eqb_neq in E. split.
      * intros [H|[H1 H2]]; [subst; split; auto; congruence|tauto].
      * intros [H1 [H2|H2]]; auto.
Qed.

Lemma tbl_del_wf t l : tbl_wf t -> tbl_wf (tbl_del t l).
Proof.
  intros Hwf. pose proof Hwf as [Hnd Hpos].
  induction t as [|[k v] t IH]; cbn [tbl_del]; [exact Hwf|].
  inversion Hnd as [|? ? Hn Hnd']; inversion Hpos as [|? ? Hv Hpos']; subst.
  destruct (link_eqb l k) eqn:E.
  - split; assumption.
  - assert (Hwf' : tbl_wf t) by (split; assumption).
    destruct (IH Hwf' Hnd' Hpos') as [H1 H2]. split.
    + cbn [keys map fst]. constructor; auto. fold (keys (tbl_del t l)).
      rewrite (keys_del t l Hwf'). tauto.
    + constructor; auto.
Qed.

(** [Links::insert] *)
Lemma tbl_get_insert t l l' :
  tbl_get (tbl_insert t l) l' = if link_eqb l' l then tbl_get t l + 1 else tbl_get t l'.
Proof. unfold tbl_insert. apply tbl_get_set. Qed.

Lemma tbl_insert_wf t l : tbl_wf t -> tbl_wf (tbl_insert t l).
Proof. intros H. apply tbl_set_wf; [exact H | lia]. Qed.

(** [Links::remove]: truncated subtraction on the addressed key, nothing else *)
Lemma tbl_get_remove t l n l' : tbl_wf t ->
  tbl_get (tbl_remove t l n) l' = if link_eqb l' l then tbl_get t l - n else tbl_get t l'.
Proof.
  intros Hwf. unfold tbl_remove. destruct (N.ltb_spec n (tbl_get t l)) as [H|H].
  - apply tbl_get_set.
  - rewrite tbl_get_del by exact Hwf. destruct (link_eqb l' l); [lia|reflexivity].
Qed.

Lemma tbl_remove_wf t l n : tbl_wf t -> tbl_wf (tbl_remove t l n).
Proof.
  intros Hwf. unfold tbl_remove. destruct (N.ltb_spec n (tbl_get t l)) as [H|H].
  - apply tbl_set_wf; [exact Hwf | lia].
  - apply tbl_del_wf; exact Hwf.
Qed.

(** an absent key stays absent, a redundant remove is a no-op on counts *)
Lemma tbl_remove_absent t l n l' : tbl_wf t -> tbl_get t l = 0 ->
  tbl_get (tbl_remove t l n) l' = tbl_get t l'.
Proof.
  intros Hwf H0. rewrite tbl_get_remove by exact Hwf.
  destruct (link_eqb l' l) eqn:E; [|reflexivity].
  apply link_eqb_eq in E; subst. lia.
Qed.

(** two well-formed tables with the same counts have the same key sets *)
Lemma wf_keys_iff t l : tbl_wf t -> (In l (keys t) <-> 0 < tbl_get t l).
Proof. intros H; split; [apply tbl_get_in_pos; exact H | apply tbl_get_pos_in]. Qed.

(** a well-formed table is empty iff every count is zero: after removing every
    record the table is empty again (C14: "every adoption removed again") *)
Lemma tbl_empty_iff t : tbl_wf t -> (t = [] <-> forall l, tbl_get t l = 0).
Proof.
  intros Hwf. split; [intros ->; reflexivity|].
  destruct t as [|[k v] t]; [reflexivity|]. intros H. exfalso.
  specialize (H k). cbn [tbl_get] in H. rewrite link_eqb_refl in H.
  destruct Hwf as [_ Hpos]. inversion Hpos; subst. cbn in *. lia.
Qed.
