(** * Local facts about single calls: cloning and dropping handles to dead
    objects (C16), [Weak::upgrade] and the Weak counters (C05), no trace for
    objects without recorded adoptions (C14). *)
From CR Require Import Base Atomic Machine LinksFacts HeapFacts.
Local Open Scope N_scope.

(** ** C16 *)
Lemma inc_strong_dead h o b :
  getb h o = Ok b -> is_dead (strong b) = true -> inc_strong h o = Bad HAbort.
Proof.
  unfold inc_strong, bind. intros -> Hd. destruct (strong b) as [n|]; [|reflexivity].
  cbn [is_dead] in Hd. rewrite Hd. reflexivity.
Qed.

Lemma inc_strong_live h o b n :
  getb h o = Ok b -> strong b = Cnt n -> n <> 0 ->
  inc_strong h o = Ok (setb h o (with_strong b (Cnt (n + 1)))).
Proof.
  unfold inc_strong, bind. intros -> -> Hn. apply N.eqb_neq in Hn. rewrite Hn. reflexivity.
Qed.

(** cloning a handle whose target is dead (count 0 or the uninit marker)
    terminates the process; nothing is returned, nothing is changed *)
Theorem clone_dead_aborts s self hr dst o l b :
  resolve_strong s self hr = Some (o, l) -> reg_free s dst = true ->
  getb (heap_of s) o = Ok b -> is_dead (strong b) = true ->
  exec_act s self (AClone hr dst) = AHalt HAbort.
Proof.
  intros Hr Hf Hg Hd. cbn [exec_act]. rewrite Hr, Hf. unfold lift.
  rewrite (inc_strong_dead _ _ _ Hg Hd). reflexivity.
Qed.

Theorem incs_dead_aborts s self r dst o b :
  reg_get s r = RRaw o -> reg_free s dst = true ->
  getb (heap_of s) o = Ok b -> is_dead (strong b) = true ->
  exec_act s self (AIncStrong r dst) = AHalt HAbort.
Proof.
  intros Hr Hf Hg Hd. cbn [exec_act]. rewrite Hr, Hf. unfold lift.
  rewrite (inc_strong_dead _ _ _ Hg Hd). reflexivity.
Qed.

(** dropping such a handle has no effect at all *)
Theorem drop_dead_noop pri s o b :
  getb (heap_of s) o = Ok b -> is_dead (strong b) = true ->
  drop_strong pri s o = Ok (s, []).
Proof.
  unfold drop_strong, bind. intros -> Hd. destruct (strong b) as [n|]; [|reflexivity].
  cbn [is_dead] in Hd. rewrite Hd. reflexivity.
Qed.

Theorem step_drop_dead pri s k u o b :
  getb (heap_of s) o = Ok b -> is_dead (strong b) = true ->
  step pri {| st := s; stack := FDropStrong o :: k; unw := u |} =
  Running {| st := s; stack := k; unw := u |}.
Proof.
  intros Hg Hd. cbn [step st stack unw]. rewrite (drop_dead_noop pri s o b Hg Hd). reflexivity.
Qed.

(** ** C05 *)

(** [Weak::upgrade] returns a handle iff the target's counter is a positive
    count; success increments exactly that counter *)
Theorem upgrade_spec s self wr dst o b :
  resolve_weak s self wr = Some (Some o) -> reg_free s dst = true ->
  getb (heap_of s) o = Ok b ->
  (is_dead (strong b) = true -> exec_act s self (AUpgrade wr dst) = AO s self RNone []) /\
  (forall n, strong b = Cnt n -> n <> 0 ->
     exec_act s self (AUpgrade wr dst) =
       AO (set_reg (set_heap s (setb (heap_of s) o (with_strong b (Cnt (n + 1))))) dst (RStrong o))
          self RSome []).
Proof.
  intros Hr Hf Hg. split.
  - intros Hd. cbn [exec_act]. rewrite Hr, Hf, Hg, Hd. reflexivity.
  - intros n Hs Hn. cbn [exec_act]. rewrite Hr, Hf, Hg.
    assert (is_dead (strong b) = false) as ->.
    { rewrite Hs. cbn. apply N.eqb_neq; exact Hn. }
    unfold lift. rewrite (inc_strong_live _ _ _ _ Hg Hs Hn). reflexivity.
Qed.

Theorem upgrade_dangling s self wr dst :
  resolve_weak s self wr = Some None -> reg_free s dst = true ->
  exec_act s self (AUpgrade wr dst) = AO s self RNone [].
Proof. intros Hr Hf. cbn [exec_act]. rewrite Hr, Hf. reflexivity. Qed.

(** after destruction (uninit marker) a Weak reports 0 and 0 *)
Theorem weak_counts_after_destruction s self wr o b :
  resolve_weak s self wr = Some (Some o) -> getb (heap_of s) o = Ok b ->
  strong b = Uninit ->
  exec_act s self (AWStrongCount wr) = AO s self (RNat 0) [] /\
  exec_act s self (AWWeakCount wr) = AO s self (RNat 0) [].
Proof.
  intros Hr Hg Hs. cbn [exec_act]. rewrite Hr, Hg, Hs. split; reflexivity.
Qed.

(** for a live object a Weak reports the counters themselves *)
Theorem weak_counts_live s self wr o b n :
  resolve_weak s self wr = Some (Some o) -> getb (heap_of s) o = Ok b ->
  strong b = Cnt n -> 0 < n -> 0 < weak b ->
  exec_act s self (AWStrongCount wr) = AO s self (RNat n) [] /\
  exec_act s self (AWWeakCount wr) = AO s self (RNat (weak b - 1)) [].
Proof.
  intros Hr Hg Hs Hn Hw. cbn [exec_act]. rewrite Hr, Hg, Hs. split; [reflexivity|].
  apply N.ltb_lt in Hn. rewrite Hn.
  assert ((weak b =? 0) = false) as -> by (apply N.eqb_neq; lia). reflexivity.
Qed.

(** [Weak::drop] releases the allocation exactly when it removes the last weak *)
Theorem weak_drop_spec h o b h' :
  getb h o = Ok b -> weak_drop h (Some o) = Ok h' ->
  0 < weak b /\
  h' = setb h o (if (weak b - 1 =? 0) then with_freed (with_weak b (weak b - 1)) true
                 else with_weak b (weak b - 1)).
Proof.
  unfold weak_drop, dec_weak_free, bind. intros ->.
  destruct (N.eqb_spec (weak b) 0) as [E|E]; [discriminate|].
  intros H; injection H as <-. split; [lia|reflexivity].
Qed.

(** ** C14 *)
Definition traces (l : list event) : list event :=
  filter (fun e => match e with EvTrace _ _ _ => true | _ => false end) l.

Lemma start_unreachable_log s o s' fr :
  start_unreachable s o = Ok (s', fr) -> log s' = log s.
Proof.
  unfold start_unreachable, bind. destruct (getb (heap_of s) o) as [b|]; [|discriminate].
  destruct (value b); [|discriminate]. intros H; injection H as <- <-. reflexivity.
Qed.

Lemma get_links_setb_strong h o b sc :
  getb h o = Ok b ->
  get_links (setb h o (with_strong b sc)) o =
  match links b with Some t => Ok t | None => Bad (HFault FkTableMoved o) end.
Proof.
  intros Hg. pose proof (getb_lt _ _ _ Hg) as Hlt. apply getb_ok in Hg as [Hn Hf].
  unfold get_links, bind, getb, setb. rewrite nth_error_upd_same by exact Hlt.
  cbn [with_strong freed links]. rewrite Hf. reflexivity.
Qed.

(** dropping a handle to an object whose table is empty performs no trace,
    whatever else exists *)
Theorem drop_unadopted_no_trace pri s o b s' fr :
  getb (heap_of s) o = Ok b -> links b = Some [] ->
  drop_strong pri s o = Ok (s', fr) -> log s' = log s.
Proof.
  intros Hg Hl. unfold drop_strong, bind. rewrite Hg.
  destruct (strong b) as [n|] eqn:Hs; [|intros H; injection H as <- <-; reflexivity].
  destruct (N.eqb_spec n 0) as [E|E]; [intros H; injection H as <- <-; reflexivity|].
  rewrite (get_links_setb_strong _ _ _ _ Hg), Hl.
  destruct (n - 1 =? 0).
  - intros H. apply start_unreachable_log in H. exact H.
  - intros H; injection H as <- <-. reflexivity.
Qed.

(** cloning never traces and never touches a table *)
Theorem clone_no_trace s self hr dst s' self' r fr :
  exec_act s self (AClone hr dst) = AO s' self' r fr -> log s' = log s /\ fr = [].
Proof.
  cbn [exec_act]. destruct (resolve_strong s self hr) as [[o l]|]; [|intros H; injection H as <- _ _ <-; auto].
  destruct (reg_free s dst); [|intros H; injection H as <- _ _ <-; auto].
  unfold lift. destruct (inc_strong (heap_of s) o); [|discriminate].
  intros H; injection H as <- _ _ <-. auto.
Qed.
