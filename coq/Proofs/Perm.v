(** * Independence of table order.

    In the Rust crate the link tables ([Links], a hash map keyed by allocation
    address) and the result of the trace ([cycle_owned_refs]) are hash maps:
    their iteration order depends on the heap layout. In the model a table is
    an association list whose order stands for that iteration order. This file
    shows, at the level of the atomic functions, that what an operation does
    and every count observable afterwards do not depend on that order.

    Two heaps are related by [heap_perm] when they agree box by box on every
    field except that corresponding tables are permutations of each other.
    For well-formed heaps this is the same thing as "equal as finite maps"
    ([heap_eqv]: same non-table fields, same [lget] everywhere); see
    [heap_perm_eqv] / [heap_eqv_perm]. *)
From Coq Require Import Permutation.
From CR Require Import Base Atomic Machine LinksFacts HeapFacts TraceFacts.
Local Open Scope N_scope.

(** ** Relations on results *)

(** both succeed with related values, or both fail with the same fault *)
Definition R_rel {A B} (P : A -> B -> Prop) (x : R A) (y : R B) : Prop :=
  match x, y with
  | Ok a, Ok b => P a b
  | Bad e, Bad e' => e = e'
  | _, _ => False
  end.

Lemma R_rel_bind {A B A' B'} (P : A -> B -> Prop) (Q : A' -> B' -> Prop)
      (x : R A) (y : R B) (f : A -> R A') (g : B -> R B') :
  R_rel P x y ->
  (forall a b, x = Ok a -> y = Ok b -> P a b -> R_rel Q (f a) (g b)) ->
  R_rel Q (bind x f) (bind y g).
Proof.
  unfold R_rel, bind. destruct x as [a|e], y as [b|e']; intros H K; try contradiction.
  - apply K; auto.
  - exact H.
Qed.

Lemma R_rel_ok {A B} (P : A -> B -> Prop) x y a b :
  R_rel P x y -> x = Ok a -> y = Ok b -> P a b.
Proof. intros H -> ->. exact H. Qed.

Lemma R_rel_ok_l {A B} (P : A -> B -> Prop) x y a :
  R_rel P x y -> x = Ok a -> exists b, y = Ok b /\ P a b.
Proof. intros H ->. destruct y as [b|e]; [eauto|contradiction]. Qed.

Lemma R_rel_bad_l {A B} (P : A -> B -> Prop) x y e :
  R_rel P x y -> x = Bad e -> y = Bad e.
Proof. intros H ->. destruct y as [b|e']; [contradiction|]. cbn in H. congruence. Qed.

(** ** Tables *)

Lemma link_eq_dec (a b : link) : {a = b} + {a <> b}.
Proof.
  destruct (link_eqb a b) eqn:E; [left; apply link_eqb_eq | right; apply link_eqb_neq]; exact E.
Qed.

Lemma tbl_get_in t l c : NoDup (keys t) -> In (l, c) t -> tbl_get t l = c.
Proof.
  induction t as [|[k v] t IH]; cbn [keys map fst In tbl_get]; intros Hnd Hin; [contradiction|].
  inversion Hnd as [|? ? Hn Hnd']; subst.
  destruct Hin as [E|Hin].
  - injection E as -> ->. rewrite link_eqb_refl. reflexivity.
  - destruct (link_eqb l k) eqn:E.
    + apply link_eqb_eq in E; subst k. exfalso. apply Hn.
      apply (in_map fst) in Hin. exact Hin.
    + apply IH; assumption.
Qed.

Lemma in_keys_ex t l : In l (keys t) -> exists c, In (l, c) t.
Proof.
  unfold keys. intros H. apply in_map_iff in H as ([l' c] & E & H). cbn [fst] in E. subst. eauto.
Qed.

Lemma perm_keys t t' : Permutation t t' -> Permutation (keys t) (keys t').
Proof. apply Permutation_map. Qed.

(** a permuted table is well formed when the original is *)
Lemma perm_tbl_wf t t' : Permutation t t' -> tbl_wf t -> tbl_wf t'.
Proof.
  intros HP [Hnd Hpos]. split.
  - eapply Permutation_NoDup; [apply perm_keys; exact HP | exact Hnd].
  - rewrite Forall_forall in *. intros e He. apply Hpos.
    eapply Permutation_in; [apply Permutation_sym; exact HP | exact He].
Qed.

(** lookups do not see the order (keys are unique) *)
Lemma perm_tbl_get_nodup t t' l :
  Permutation t t' -> NoDup (keys t) -> tbl_get t' l = tbl_get t l.
Proof.
  intros HP Hnd.
  assert (Hnd' : NoDup (keys t')) by (eapply Permutation_NoDup; [apply perm_keys; exact HP | exact Hnd]).
  destruct (in_dec link_eq_dec l (keys t)) as [Hin|Hn].
  - apply in_keys_ex in Hin as [c Hc].
    rewrite (tbl_get_in t l c Hnd Hc).
    apply tbl_get_in; [exact Hnd'|]. eapply Permutation_in; eauto.
  - rewrite (tbl_get_notin t l Hn). apply tbl_get_notin. intros Hin. apply Hn.
    eapply Permutation_in; [apply Permutation_sym; apply perm_keys; exact HP | exact Hin].
Qed.

Lemma perm_tbl_get t t' l : Permutation t t' -> tbl_wf t -> tbl_get t' l = tbl_get t l.
Proof. intros HP [Hnd _]. apply perm_tbl_get_nodup; assumption. Qed.

Lemma wf_in_iff t l c : tbl_wf t -> (In (l, c) t <-> tbl_get t l = c /\ 0 < c).
Proof.
  intros Hwf. pose proof Hwf as [Hnd Hpos]. split.
  - intros Hin. split; [apply tbl_get_in; assumption|].
    rewrite Forall_forall in Hpos. apply (Hpos _ Hin).
  - intros [Hg Hc]. assert (Hk : In l (keys t)) by (apply tbl_get_pos_in; lia).
    apply in_keys_ex in Hk as [c' Hc']. rewrite (tbl_get_in t l c' Hnd Hc') in Hg. subst. exact Hc'.
Qed.

(** conversely: two well-formed tables that are equal as finite maps are
    permutations of each other *)
Lemma wf_get_perm t t' :
  tbl_wf t -> tbl_wf t' -> (forall l, tbl_get t l = tbl_get t' l) -> Permutation t t'.
Proof.
  intros Hwf Hwf' Hg. apply NoDup_Permutation.
  - destruct Hwf as [Hnd _]. apply NoDup_map_inv in Hnd. exact Hnd.
  - destruct Hwf' as [Hnd _]. apply NoDup_map_inv in Hnd. exact Hnd.
  - intros [l c]. rewrite (wf_in_iff t l c Hwf), (wf_in_iff t' l c Hwf'), Hg. tauto.
Qed.

(** the table operations of link.rs map permuted tables to permuted tables *)
Lemma perm_tbl_insert t t' l :
  Permutation t t' -> tbl_wf t -> Permutation (tbl_insert t l) (tbl_insert t' l).
Proof.
  intros HP Hwf. pose proof (perm_tbl_wf _ _ HP Hwf) as Hwf'.
  apply wf_get_perm; try (apply tbl_insert_wf; assumption).
  intros k. rewrite !tbl_get_insert, !(perm_tbl_get t t' _ HP Hwf). reflexivity.
Qed.

Lemma perm_tbl_remove t t' l n :
  Permutation t t' -> tbl_wf t -> Permutation (tbl_remove t l n) (tbl_remove t' l n).
Proof.
  intros HP Hwf. pose proof (perm_tbl_wf _ _ HP Hwf) as Hwf'.
  apply wf_get_perm; try (apply tbl_remove_wf; assumption).
  intros k. rewrite !tbl_get_remove by assumption. rewrite !(perm_tbl_get t t' _ HP Hwf). reflexivity.
Qed.

(** [extract_if] is a filter *)
Definition bust_keep (ks : list oid) (e : link * N) : bool :=
  match e with
  | ((x, Fwd), _) => negb (memb x ks)
  | _ => true
  end.

Lemma bust_table_filter t ks : bust_table t ks = filter (bust_keep ks) t.
Proof.
  induction t as [|[[x k] c] t IH]; [reflexivity|].
  destruct k; cbn [bust_table filter bust_keep]; rewrite <- ?IH; try reflexivity.
  destruct (memb x ks); cbn [negb]; reflexivity.
Qed.

Lemma perm_filter {A} (f : A -> bool) l l' :
  Permutation l l' -> Permutation (filter f l) (filter f l').
Proof.
  induction 1 as [|x l l' HP IH|x y l|l1 l2 l3 H12 IH12 H23 IH23]; cbn [filter].
  - constructor.
  - destruct (f x); [constructor|]; exact IH.
  - destruct (f x), (f y); try apply Permutation_refl. apply perm_swap.
  - eapply Permutation_trans; eauto.
Qed.

Lemma perm_bust_table t t' ks :
  Permutation t t' -> Permutation (bust_table t ks) (bust_table t' ks).
Proof. intros HP. rewrite !bust_table_filter. apply perm_filter; exact HP. Qed.

Lemma bust_keep_ext ks ks' e :
  (forall x, memb x ks = memb x ks') -> bust_keep ks e = bust_keep ks' e.
Proof. intros H. destruct e as [[x []] c]; cbn [bust_keep]; rewrite ?H; reflexivity. Qed.

(** only the set of keys matters to [extract_if] *)
Lemma bust_table_ext t ks ks' :
  (forall x, memb x ks = memb x ks') -> bust_table t ks = bust_table t ks'.
Proof.
  intros H. rewrite !bust_table_filter. apply filter_ext. intros e. apply bust_keep_ext; exact H.
Qed.

Lemma bust_table_wf t ks : tbl_wf t -> tbl_wf (bust_table t ks).
Proof.
  intros [Hnd Hpos]. rewrite bust_table_filter. split.
  - clear Hpos. induction t as [|[l c] t IH]; cbn [filter keys map fst]; [constructor|].
    inversion Hnd as [|? ? Hn Hnd']; subst.
    destruct (bust_keep ks (l, c)); [|apply IH; exact Hnd'].
    cbn [keys map fst]. constructor; [|apply IH; exact Hnd'].
    intros Hin. apply Hn. unfold keys in Hin. apply in_map_iff in Hin as (e & E & He).
    apply filter_In in He as [He _]. rewrite <- E. apply in_map. exact He.
  - rewrite Forall_forall in *. intros e He. apply filter_In in He as [He _]. auto.
Qed.

(** ** Boxes and heaps *)

Definition opt_perm (o o' : option table) : Prop :=
  match o, o' with
  | Some t, Some t' => Permutation t t'
  | None, None => True
  | _, _ => False
  end.

Definition box_perm (b b' : box) : Prop :=
  strong b' = strong b /\ weak b' = weak b /\ value b' = value b /\ freed b' = freed b /\
  talloc b' = talloc b /\
  match links b, links b' with
  | Some t, Some t' => Permutation t t'
  | None, None => True
  | _, _ => False
  end.

Definition heap_perm (h h' : heap) : Prop := Forall2 box_perm h h'.

Lemma opt_perm_refl o : opt_perm o o.
Proof. destruct o; cbn; auto. Qed.

Lemma opt_perm_sym o o' : opt_perm o o' -> opt_perm o' o.
Proof. destruct o, o'; cbn; auto using Permutation_sym. Qed.

Lemma opt_perm_trans o1 o2 o3 : opt_perm o1 o2 -> opt_perm o2 o3 -> opt_perm o1 o3.
Proof. destruct o1, o2, o3; cbn; try tauto. apply Permutation_trans. Qed.

Lemma box_perm_refl b : box_perm b b.
Proof. unfold box_perm. repeat split. apply (opt_perm_refl (links b)). Qed.

Lemma box_perm_sym b b' : box_perm b b' -> box_perm b' b.
Proof.
  unfold box_perm. intros (H1 & H2 & H3 & H4 & H5 & H6). repeat split; try congruence.
  apply (opt_perm_sym _ _ H6).
Qed.

Lemma box_perm_trans b1 b2 b3 : box_perm b1 b2 -> box_perm b2 b3 -> box_perm b1 b3.
Proof.
  unfold box_perm. intros (H1 & H2 & H3 & H4 & H5 & H6) (K1 & K2 & K3 & K4 & K5 & K6).
  repeat split; try congruence. apply (opt_perm_trans _ _ _ H6 K6).
Qed.

Lemma box_perm_btable b b' : box_perm b b' -> Permutation (btable b) (btable b').
Proof.
  intros (_ & _ & _ & _ & _ & H). unfold btable.
  destruct (links b), (links b'); try contradiction; auto.
Qed.

Lemma Forall2_nth {A B} (P : A -> B -> Prop) l l' :
  Forall2 P l l' ->
  forall o, match nth_error l o, nth_error l' o with
            | Some a, Some b => P a b
            | None, None => True
            | _, _ => False
            end.
Proof.
  induction 1 as [|a b l l' Hab HF IH]; intros [|o]; cbn [nth_error]; auto. apply IH.
Qed.

Lemma Forall2_of_nth {A B} (P : A -> B -> Prop) l l' :
  (forall o, match nth_error l o, nth_error l' o with
             | Some a, Some b => P a b
             | None, None => True
             | _, _ => False
             end) -> Forall2 P l l'.
Proof.
  revert l'. induction l as [|a l IH]; intros [|b l'] H.
  - constructor.
  - specialize (H 0%nat). cbn in H. contradiction.
  - specialize (H 0%nat). cbn in H. contradiction.
  - constructor; [exact (H 0%nat)|]. apply IH. intros o. exact (H (S o)).
Qed.

Lemma Forall2_upd {A B} (P : A -> B -> Prop) l l' i x y :
  Forall2 P l l' -> P x y -> Forall2 P (upd l i x) (upd l' i y).
Proof.
  intros HF Hxy. revert i. induction HF as [|a b l l' Hab HF IH]; intros [|i]; cbn [upd];
    constructor; auto.
Qed.

Lemma Forall2_length' {A B} (P : A -> B -> Prop) l l' : Forall2 P l l' -> length l = length l'.
Proof. induction 1; cbn; auto. Qed.

Lemma heap_perm_refl h : heap_perm h h.
Proof. induction h; constructor; auto using box_perm_refl. Qed.

Lemma heap_perm_sym h h' : heap_perm h h' -> heap_perm h' h.
Proof. induction 1; constructor; auto using box_perm_sym. Qed.

Lemma heap_perm_trans h1 h2 h3 : heap_perm h1 h2 -> heap_perm h2 h3 -> heap_perm h1 h3.
Proof.
  unfold heap_perm. intros H12. revert h3.
  induction H12 as [|a b l l' Hab HF IH]; intros h3 H23.
  - inversion H23; subst. constructor.
  - inversion H23 as [|b0 c l0 l3 Hbc HF3]; subst. constructor.
    + eapply box_perm_trans; eauto.
    + apply IH; exact HF3.
Qed.

Lemma heap_perm_length h h' : heap_perm h h' -> length h' = length h.
Proof. intros H. symmetry. eapply Forall2_length'; exact H. Qed.

Lemma heap_perm_nth h h' o b :
  heap_perm h h' -> nth_error h o = Some b -> exists b', nth_error h' o = Some b' /\ box_perm b b'.
Proof.
  intros HP Hn. pose proof (Forall2_nth _ _ _ HP o) as H. rewrite Hn in H.
  destruct (nth_error h' o) as [b'|]; [eauto|contradiction].
Qed.

Lemma heap_perm_nth_r h h' o b' :
  heap_perm h h' -> nth_error h' o = Some b' -> exists b, nth_error h o = Some b /\ box_perm b b'.
Proof.
  intros HP Hn. pose proof (Forall2_nth _ _ _ HP o) as H. rewrite Hn in H.
  destruct (nth_error h o) as [b|]; [eauto|contradiction].
Qed.

Lemma heap_perm_setb h h' o b b' :
  heap_perm h h' -> box_perm b b' -> heap_perm (setb h o b) (setb h' o b').
Proof. unfold setb. apply Forall2_upd. Qed.

Lemma heap_perm_app h h' b : heap_perm h h' -> heap_perm (h ++ [b]) (h' ++ [b]).
Proof. intros H. apply Forall2_app; [exact H|]. constructor; [apply box_perm_refl|constructor]. Qed.

(** well-formedness carries over *)
Lemma heap_perm_wf h h' : heap_perm h h' -> heap_wf h -> heap_wf h'.
Proof.
  intros HP Hwf o b' Hn. destruct (heap_perm_nth_r _ _ _ _ HP Hn) as (b & Hb & Hbb).
  unfold box_wf. eapply perm_tbl_wf; [apply box_perm_btable; exact Hbb|]. apply (Hwf o b Hb).
Qed.

Lemma tbl_of_perm h h' x : heap_perm h h' -> Permutation (tbl_of h x) (tbl_of h' x).
Proof.
  intros HP. unfold tbl_of. pose proof (Forall2_nth _ _ _ HP x) as H.
  destruct (nth_error h x) as [b|], (nth_error h' x) as [b'|]; try contradiction.
  - apply box_perm_btable; exact H.
  - constructor.
Qed.

(** every recorded count is the same in both heaps *)
Lemma heap_perm_lget h h' o l : heap_perm h h' -> heap_wf h -> lget h' o l = lget h o l.
Proof.
  intros HP Hwf. unfold lget. pose proof (Forall2_nth _ _ _ HP o) as H.
  destruct (nth_error h o) as [b|] eqn:E, (nth_error h' o) as [b'|]; try contradiction; auto.
  apply perm_tbl_get; [apply box_perm_btable; exact H | apply (Hwf o b E)].
Qed.

(** checked accesses succeed or fault alike *)
Lemma getb_perm h h' o : heap_perm h h' -> R_rel box_perm (getb h o) (getb h' o).
Proof.
  intros HP. unfold getb. pose proof (Forall2_nth _ _ _ HP o) as H.
  destruct (nth_error h o) as [b|], (nth_error h' o) as [b'|]; try contradiction; cbn; auto.
  pose proof H as (_ & _ & _ & Hf & _). rewrite Hf. destruct (freed b); cbn; auto.
Qed.

Lemma get_links_perm h h' o :
  heap_perm h h' -> R_rel (@Permutation _) (get_links h o) (get_links h' o).
Proof.
  intros HP. unfold get_links. eapply R_rel_bind; [apply getb_perm; exact HP|].
  intros b b' _ _ (_ & _ & _ & _ & _ & H).
  destruct (links b), (links b'); try contradiction; cbn; auto.
Qed.

Lemma getb_wf h o b : heap_wf h -> getb h o = Ok b -> box_wf b.
Proof. intros Hwf G. apply getb_ok in G as [G _]. apply (Hwf o b G). Qed.

Lemma get_links_wf h o t : heap_wf h -> get_links h o = Ok t -> tbl_wf t.
Proof.
  unfold get_links, bind. intros Hwf. destruct (getb h o) as [b|] eqn:G; [|discriminate].
  pose proof (getb_wf _ _ _ Hwf G) as Hb. unfold box_wf, btable in Hb.
  destruct (links b); [|discriminate]. intros H; injection H as <-. exact Hb.
Qed.

(** ** The trace ([cycle_refs]) *)

Lemma fwd_targets_perm t t' : Permutation t t' -> Permutation (fwd_targets t) (fwd_targets t').
Proof.
  induction 1 as [|[[x k] c] l l' HP IH|[[x k] c] [[y k'] c'] l|l1 l2 l3 H12 IH12 H23 IH23].
  - constructor.
  - destruct k; cbn [fwd_targets]; auto.
  - destruct k, k'; cbn [fwd_targets]; try apply Permutation_refl. apply perm_swap.
  - eapply Permutation_trans; eauto.
Qed.

Lemma bwd_targets_perm t t' : Permutation t t' -> Permutation (bwd_targets t) (bwd_targets t').
Proof.
  induction 1 as [|[[x k] c] l l' HP IH|[[x k] c] [[y k'] c'] l|l1 l2 l3 H12 IH12 H23 IH23].
  - constructor.
  - destruct k; cbn [bwd_targets]; auto.
  - destruct k, k'; cbn [bwd_targets]; try apply Permutation_refl. apply perm_swap.
  - eapply Permutation_trans; eauto.
Qed.

(** the Forward count recorded for a target is a sum over the entries *)
Lemma cntF_perm t t' y : Permutation t t' -> cntF t y = cntF t' y.
Proof.
  induction 1 as [|[[x k] c] l l' HP IH|[[x k] c] [[z k'] c'] l|l1 l2 l3 H12 IH12 H23 IH23].
  - reflexivity.
  - destruct k; cbn [cntF]; rewrite IH; reflexivity.
  - destruct k, k'; cbn [cntF]; try reflexivity. lia.
  - congruence.
Qed.

Lemma sumN_map_perm {A} (f : A -> N) l l' : Permutation l l' -> sumN (map f l) = sumN (map f l').
Proof.
  induction 1 as [|x l l' HP IH|x y l|l1 l2 l3 H12 IH12 H23 IH23]; cbn [map sumN]; try lia.
Qed.

Lemma sumN_map_ext {A} (f g : A -> N) l : (forall x, f x = g x) -> sumN (map f l) = sumN (map g l).
Proof. intros H. induction l as [|x l IH]; cbn [map sumN]; [reflexivity|]. rewrite H, IH. reflexivity. Qed.

Lemma edge_perm h h' x y : heap_perm h h' -> edge h x y -> edge h' x y.
Proof.
  unfold edge. intros HP. apply Permutation_in. apply fwd_targets_perm. apply tbl_of_perm. exact HP.
Qed.

Lemma linked_perm h h' x y : heap_perm h h' -> linked h x y -> linked h' x y.
Proof.
  unfold linked. intros HP [H|H]; [left|right]; revert H; apply Permutation_in.
  - apply fwd_targets_perm. apply tbl_of_perm. exact HP.
  - apply bwd_targets_perm. apply tbl_of_perm. exact HP.
Qed.

Lemma reach_perm h h' a y : heap_perm h h' -> reach h a y -> reach h' a y.
Proof.
  intros HP. induction 1 as [|x y Hr IH He]; [constructor|].
  eapply reach_step; [exact IH|]. eapply edge_perm; eauto.
Qed.

(** The result of the trace does not depend on the iteration order of any
    table: the same targets are recorded with the same owned counts, and the
    numbers of worklist pops and of visited allocations are the same. (The
    order of the result map itself may differ.) *)
Theorem cycle_refs_perm h h' a own pops visits own' pops' visits' :
  heap_perm h h' ->
  cycle_refs h a = Ok (own, pops, visits) ->
  cycle_refs h' a = Ok (own', pops', visits') ->
  (forall y, own_get own' y = own_get own y) /\
  (forall y, In y (map fst own') <-> In y (map fst own)) /\
  pops' = pops /\ visits' = visits.
Proof.
  intros HP H H'. pose proof (heap_perm_sym _ _ HP) as HP'.
  apply cycle_refs_spec in H as (R & Hnd & Hr & Hs & Hk & _ & Hv & Hp).
  apply cycle_refs_spec in H' as (R' & Hnd' & Hr' & Hs' & Hk' & _ & Hv' & Hp').
  assert (HRR : Permutation R R').
  { apply NoDup_Permutation; auto. intros y. rewrite Hr, Hr'.
    split; apply reach_perm; assumption. }
  repeat split.
  - intros y. rewrite Hs, Hs'. rewrite <- (sumN_map_perm _ _ _ HRR).
    apply sumN_map_ext. intros x. symmetry. apply cntF_perm. apply tbl_of_perm. exact HP.
  - rewrite Hk, Hk'. intros (x & Hx & Hl). exists x. split.
    + eapply Permutation_in; [apply Permutation_sym; exact HRR | exact Hx].
    + eapply linked_perm; eauto.
  - rewrite Hk, Hk'. intros (x & Hx & Hl). exists x. split.
    + eapply Permutation_in; [exact HRR | exact Hx].
    + eapply linked_perm; eauto.
  - rewrite Hp, Hp'. f_equal. rewrite <- (sumN_map_perm _ _ _ HRR).
    apply sumN_map_ext. intros x. f_equal. symmetry. apply Permutation_length.
    apply fwd_targets_perm. apply tbl_of_perm. exact HP.
  - rewrite Hv, Hv'. f_equal. symmetry. apply Permutation_length. exact HRR.
Qed.

(** ** The orphan decision ([Rc::orphaned_cycle]) *)

(** two result maps that are equal as finite maps *)
Definition omap_eqv (m m' : omap) : Prop :=
  (forall y, own_get m' y = own_get m y) /\ (forall y, In y (map fst m') <-> In y (map fst m)).

Lemma own_get_in m k c : NoDup (map fst m) -> In (k, c) m -> own_get m k = c.
Proof.
  induction m as [|[k' c'] m IH]; cbn [map fst In own_get]; intros Hnd Hin; [contradiction|].
  inversion Hnd as [|? ? Hn Hnd']; subst. destruct Hin as [E|Hin].
  - injection E as -> ->. rewrite Nat.eqb_refl. reflexivity.
  - destruct (Nat.eqb_spec k k') as [->|Hne]; [|apply IH; assumption].
    exfalso. apply Hn. apply (in_map fst) in Hin. exact Hin.
Qed.

Lemma has_external_false h own :
  has_external h own = Ok false ->
  forall k c, In (k, c) own -> exists b, getb h k = Ok b /\ sgt (strong b) c = false.
Proof.
  induction own as [|[k' c'] own IH]; cbn [has_external In]; intros H k c Hin; [contradiction|].
  unfold bind in H. destruct (getb h k') as [b|] eqn:G; [|discriminate].
  destruct (sgt (strong b) c') eqn:S; [discriminate|].
  destruct Hin as [E|Hin]; [injection E as <- <-; eauto | apply IH; assumption].
Qed.

Lemma has_external_true h own :
  has_external h own = Ok true ->
  exists k c b, In (k, c) own /\ getb h k = Ok b /\ sgt (strong b) c = true.
Proof.
  induction own as [|[k' c'] own IH]; cbn [has_external In]; intros H; [discriminate|].
  unfold bind in H. destruct (getb h k') as [b|] eqn:G; [|discriminate].
  destruct (sgt (strong b) c') eqn:S.
  - exists k', c', b. auto.
  - destruct (IH H) as (k & c & b0 & Hin & Hg & Hs). exists k, c, b0. auto.
Qed.

Lemma omap_eqv_in own own' k c :
  NoDup (map fst own) -> NoDup (map fst own') -> omap_eqv own own' ->
  In (k, c) own -> In (k, c) own'.
Proof.
  intros Hnd Hnd' [Hg Hk] Hin.
  assert (Hkin : In k (map fst own')) by (apply Hk; apply (in_map fst) in Hin; exact Hin).
  apply in_map_iff in Hkin as ([k0 c0] & E & Hin'). cbn [fst] in E. subst k0.
  rewrite <- (own_get_in _ _ _ Hnd Hin), <- Hg, (own_get_in _ _ _ Hnd' Hin'). exact Hin'.
Qed.

Lemma omap_eqv_sym own own' : omap_eqv own own' -> omap_eqv own' own.
Proof. intros [Hg Hk]. split; intros y; [symmetry; apply Hg | symmetry; apply Hk]. Qed.

(** [cycle.iter().any(..)]: when it returns in both orders, the answer only
    depends on the key set, the counts and the strong counters *)
Lemma has_external_perm h h' own own' r r' :
  heap_perm h h' -> NoDup (map fst own) -> NoDup (map fst own') -> omap_eqv own own' ->
  has_external h own = Ok r -> has_external h' own' = Ok r' -> r' = r.
Proof.
  intros HP Hnd Hnd' He H H'. destruct r, r'; auto; exfalso.
  - apply has_external_true in H as (k & c & b & Hin & Hg & Hs).
    pose proof (omap_eqv_in _ _ _ _ Hnd Hnd' He Hin) as Hin'.
    destruct (has_external_false _ _ H' _ _ Hin') as (b' & Hg' & Hs').
    pose proof (R_rel_ok _ _ _ _ _ (getb_perm h h' k HP) Hg Hg') as (E & _). congruence.
  - apply has_external_true in H' as (k & c & b' & Hin' & Hg' & Hs').
    pose proof (omap_eqv_in _ _ _ _ Hnd' Hnd (omap_eqv_sym _ _ He) Hin') as Hin.
    destruct (has_external_false _ _ H _ _ Hin) as (b & Hg & Hs).
    pose proof (R_rel_ok _ _ _ _ _ (getb_perm h h' k HP) Hg Hg') as (E & _). congruence.
Qed.

(** Whether the dropped handle's component is an orphaned cycle, and which
    allocations with which owned counts it consists of, does not depend on the
    iteration order of the tables; neither do the trace counters. *)
Theorem orphaned_cycle_perm h h' a oc p v oc' p' v' :
  heap_perm h h' ->
  orphaned_cycle h a = Ok (oc, p, v) -> orphaned_cycle h' a = Ok (oc', p', v') ->
  match oc, oc' with
  | None, None => True
  | Some c, Some c' =>
      (forall y, own_get c' y = own_get c y) /\ (forall y, In y (map fst c') <-> In y (map fst c))
  | _, _ => False
  end /\ p' = p /\ v' = v.
Proof.
  intros HP. unfold orphaned_cycle, bind.
  destruct (cycle_refs h a) as [[[own pops] visits]|] eqn:E; [|discriminate].
  destruct (cycle_refs h' a) as [[[own' pops'] visits']|] eqn:E'; [|discriminate].
  destruct (cycle_refs_perm _ _ _ _ _ _ _ _ _ HP E E') as (Hg & Hk & -> & ->).
  apply cycle_refs_spec in E as (_ & _ & _ & _ & _ & Hnd & _).
  apply cycle_refs_spec in E' as (_ & _ & _ & _ & _ & Hnd' & _).
  destruct own as [|e own], own' as [|e' own'].
  - intros H H'; injection H as <- <- <-; injection H' as <- <- <-. auto.
  - exfalso. destruct (Hk (fst e')) as [Hk1 _]. apply Hk1. now left.
  - exfalso. destruct (Hk (fst e)) as [_ Hk2]. apply Hk2. now left.
  - destruct (has_external h (e :: own)) as [r|] eqn:X; [|discriminate].
    destruct (has_external h' (e' :: own')) as [r'|] eqn:X'; [|discriminate].
    assert (r' = r) as ->.
    { eapply (has_external_perm h h' (e :: own) (e' :: own')); eauto. split; assumption. }
    intros H H'; injection H as <- <- <-; injection H' as <- <- <-.
    destruct r; auto.
Qed.

(** ** "Equal as finite maps": the weaker relation, and its equivalence with
    [heap_perm] on well-formed heaps *)

(** the fields of a box other than the contents of its table *)
Definition same_nt (b b' : box) : Prop :=
  strong b' = strong b /\ weak b' = weak b /\ value b' = value b /\ freed b' = freed b /\
  talloc b' = talloc b /\ (links b = None <-> links b' = None).

Definition heap_frame (h h' : heap) : Prop := Forall2 same_nt h h'.

Definition heap_eqv (h h' : heap) : Prop :=
  heap_frame h h' /\ forall o l, lget h' o l = lget h o l.

Lemma same_nt_refl b : same_nt b b.
Proof. unfold same_nt; tauto. Qed.

Lemma same_nt_sym b b' : same_nt b b' -> same_nt b' b.
Proof. unfold same_nt. intros (H1 & H2 & H3 & H4 & H5 & H6). repeat split; try congruence; tauto. Qed.

Lemma same_nt_trans b1 b2 b3 : same_nt b1 b2 -> same_nt b2 b3 -> same_nt b1 b3.
Proof.
  unfold same_nt. intros (H1 & H2 & H3 & H4 & H5 & H6) (K1 & K2 & K3 & K4 & K5 & K6).
  repeat split; try congruence; tauto.
Qed.

Lemma box_perm_same_nt b b' : box_perm b b' -> same_nt b b'.
Proof.
  intros (H1 & H2 & H3 & H4 & H5 & H6). repeat split; auto;
    destruct (links b), (links b'); try contradiction; auto; discriminate.
Qed.

Lemma heap_frame_refl h : heap_frame h h.
Proof. induction h; constructor; auto using same_nt_refl. Qed.

Lemma heap_frame_sym h h' : heap_frame h h' -> heap_frame h' h.
Proof. induction 1; constructor; auto using same_nt_sym. Qed.

Lemma heap_frame_trans h1 h2 h3 : heap_frame h1 h2 -> heap_frame h2 h3 -> heap_frame h1 h3.
Proof.
  unfold heap_frame. intros H12. revert h3.
  induction H12 as [|a b l l' Hab HF IH]; intros h3 H23.
  - inversion H23; subst. constructor.
  - inversion H23 as [|b0 c l0 l3 Hbc HF3]; subst. constructor.
    + eapply same_nt_trans; eauto.
    + apply IH; exact HF3.
Qed.

Lemma heap_perm_frame h h' : heap_perm h h' -> heap_frame h h'.
Proof. induction 1; constructor; auto using box_perm_same_nt. Qed.

(** permuted tables are equal finite maps ... *)
Lemma heap_perm_eqv h h' : heap_perm h h' -> heap_wf h -> heap_eqv h h'.
Proof.
  intros HP Hwf. split; [apply heap_perm_frame; exact HP|].
  intros o l. apply heap_perm_lget; assumption.
Qed.

(** ... and well-formed tables that are equal finite maps are permutations *)
Lemma heap_eqv_perm h h' : heap_eqv h h' -> heap_wf h -> heap_wf h' -> heap_perm h h'.
Proof.
  intros [HF Hg] Hwf Hwf'. apply Forall2_of_nth. intros o.
  pose proof (Forall2_nth _ _ _ HF o) as H. specialize (Hwf o). specialize (Hwf' o).
  specialize (Hg o). unfold lget in Hg.
  destruct (nth_error h o) as [b|], (nth_error h' o) as [b'|]; try contradiction; auto.
  destruct H as (H1 & H2 & H3 & H4 & H5 & H6). repeat split; auto.
  specialize (Hwf b eq_refl). specialize (Hwf' b' eq_refl). unfold box_wf in *.
  unfold btable in *. destruct (links b) as [t|], (links b') as [t'|].
  - apply wf_get_perm; auto.
  - destruct H6 as [_ H6]. specialize (H6 eq_refl). discriminate.
  - destruct H6 as [H6 _]. specialize (H6 eq_refl). discriminate.
  - exact I.
Qed.

(** ** Single-box updates *)

Lemma box_perm_with_strong b b' s : box_perm b b' -> box_perm (with_strong b s) (with_strong b' s).
Proof. unfold box_perm. cbn [with_strong strong weak links talloc value freed]. tauto. Qed.

Lemma box_perm_with_weak b b' w : box_perm b b' -> box_perm (with_weak b w) (with_weak b' w).
Proof. unfold box_perm. cbn [with_weak strong weak links talloc value freed]. tauto. Qed.

Lemma box_perm_with_value b b' v : box_perm b b' -> box_perm (with_value b v) (with_value b' v).
Proof. unfold box_perm. cbn [with_value strong weak links talloc value freed]. tauto. Qed.

Lemma box_perm_with_freed b b' f : box_perm b b' -> box_perm (with_freed b f) (with_freed b' f).
Proof. unfold box_perm. cbn [with_freed strong weak links talloc value freed]. tauto. Qed.

Lemma box_perm_with_talloc b b' f : box_perm b b' -> box_perm (with_talloc b f) (with_talloc b' f).
Proof. unfold box_perm. cbn [with_talloc strong weak links talloc value freed]. tauto. Qed.

Lemma box_perm_with_links b b' o o' :
  box_perm b b' -> opt_perm o o' -> box_perm (with_links b o) (with_links b' o').
Proof. unfold box_perm, opt_perm. cbn [with_links strong weak links talloc value freed]. tauto. Qed.

Lemma box_perm_links b b' : box_perm b b' -> opt_perm (links b) (links b').
Proof. intros (_ & _ & _ & _ & _ & H). exact H. Qed.

Lemma box_wf_links b t : box_wf b -> links b = Some t -> tbl_wf t.
Proof. unfold box_wf, btable. intros H E. rewrite E in H. exact H. Qed.

(** [inc_strong] *)
Lemma inc_strong_perm h h' o :
  heap_perm h h' -> R_rel heap_perm (inc_strong h o) (inc_strong h' o).
Proof.
  intros HP. unfold inc_strong. eapply R_rel_bind; [apply getb_perm; exact HP|].
  intros b b' _ _ Hb. pose proof Hb as (Hs & _). rewrite Hs.
  destruct (strong b) as [n|]; [|reflexivity].
  destruct (n =? 0); [reflexivity|]. cbn [R_rel].
  apply heap_perm_setb; [exact HP|]. apply box_perm_with_strong; exact Hb.
Qed.

(** [inc_weak] *)
Lemma inc_weak_perm h h' o :
  heap_perm h h' -> R_rel heap_perm (inc_weak h o) (inc_weak h' o).
Proof.
  intros HP. unfold inc_weak. eapply R_rel_bind; [apply getb_perm; exact HP|].
  intros b b' _ _ Hb. pose proof Hb as (_ & Hw & _). rewrite Hw.
  destruct (weak b =? 0); [reflexivity|]. cbn [R_rel].
  apply heap_perm_setb; [exact HP|]. apply box_perm_with_weak; exact Hb.
Qed.

(** [dec_weak] and the deallocation that may follow *)
Lemma dec_weak_free_perm h h' o :
  heap_perm h h' -> R_rel heap_perm (dec_weak_free h o) (dec_weak_free h' o).
Proof.
  intros HP. unfold dec_weak_free. eapply R_rel_bind; [apply getb_perm; exact HP|].
  intros b b' _ _ Hb. pose proof Hb as (_ & Hw & _). rewrite Hw.
  destruct (weak b =? 0); [reflexivity|]. cbn [R_rel].
  apply heap_perm_setb; [exact HP|].
  destruct (weak b - 1 =? 0); [apply box_perm_with_freed|]; apply box_perm_with_weak; exact Hb.
Qed.

Lemma weak_drop_perm h h' w :
  heap_perm h h' -> R_rel heap_perm (weak_drop h w) (weak_drop h' w).
Proof. intros HP. destruct w as [o|]; cbn [weak_drop R_rel]; [apply dec_weak_free_perm|]; exact HP. Qed.

(** [Links::insert] on the table of one box *)
Lemma links_insert_perm h h' o l :
  heap_perm h h' -> heap_wf h -> R_rel heap_perm (links_insert h o l) (links_insert h' o l).
Proof.
  intros HP Hwf. unfold links_insert. eapply R_rel_bind; [apply getb_perm; exact HP|].
  intros b b' G _ Hb. pose proof (box_perm_links _ _ Hb) as Hl.
  pose proof (getb_wf _ _ _ Hwf G) as Hbw.
  destruct (links b) as [t|] eqn:Lk, (links b') as [t'|]; try contradiction; [|reflexivity].
  cbn [R_rel]. apply heap_perm_setb; [exact HP|]. apply box_perm_with_talloc.
  apply box_perm_with_links; [exact Hb|]. cbn [opt_perm].
  apply perm_tbl_insert; [exact Hl|]. eapply box_wf_links; eauto.
Qed.

Lemma set_links_perm h h' o t t' :
  heap_perm h h' -> Permutation t t' -> R_rel heap_perm (set_links h o t) (set_links h' o t').
Proof.
  intros HP Ht. unfold set_links. eapply R_rel_bind; [apply getb_perm; exact HP|].
  intros b b' _ _ Hb. cbn [R_rel]. apply heap_perm_setb; [exact HP|].
  apply box_perm_with_links; [exact Hb | exact Ht].
Qed.

(** [Links::remove] on the table of one box *)
Lemma links_remove_perm h h' o l n :
  heap_perm h h' -> heap_wf h -> R_rel heap_perm (links_remove h o l n) (links_remove h' o l n).
Proof.
  intros HP Hwf. unfold links_remove. eapply R_rel_bind; [apply get_links_perm; exact HP|].
  intros t t' G _ Ht. apply set_links_perm; [exact HP|].
  apply perm_tbl_remove; [exact Ht|]. eapply get_links_wf; eauto.
Qed.

Lemma links_remove_wf h o l n h1 : heap_wf h -> links_remove h o l n = Ok h1 -> heap_wf h1.
Proof. intros Hwf H. apply (links_remove_spec _ _ _ _ _ Hwf H). Qed.

(** [adopt_unchecked] *)
Theorem adopt_perm h h' same a b :
  heap_perm h h' -> heap_wf h -> R_rel heap_perm (adopt h same a b) (adopt h' same a b).
Proof.
  intros HP Hwf. unfold adopt. destruct same; [apply links_insert_perm; assumption|].
  eapply R_rel_bind; [apply links_insert_perm; assumption|].
  intros h1 h1' E _ HP1. apply links_insert_perm; [exact HP1|]. eapply links_insert_wf; eauto.
Qed.

(** [unadopt] *)
Theorem unadopt_perm h h' same a b :
  heap_perm h h' -> heap_wf h -> R_rel heap_perm (unadopt h same a b) (unadopt h' same a b).
Proof.
  intros HP Hwf. unfold unadopt. destruct same; [apply links_remove_perm; assumption|].
  eapply R_rel_bind; [apply links_remove_perm; assumption|].
  intros h1 h1' E _ HP1. apply links_remove_perm; [exact HP1|]. eapply links_remove_wf; eauto.
Qed.

(** ** The purge loop: iteration over a table in an arbitrary order *)

(** Faults are order dependent here (the loop stops at the first peer whose
    table cannot be borrowed, and which peer that is depends on the order), so
    the statement is: if one order completes, every order completes, and the
    resulting heaps are related. *)
Definition R_ok {A B} (P : A -> B -> Prop) (x : R A) (y : R B) : Prop :=
  forall a, x = Ok a -> exists b, y = Ok b /\ P a b.

Lemma R_rel_R_ok {A B} (P : A -> B -> Prop) x y : R_rel P x y -> R_ok P x y.
Proof. intros H a E. eapply R_rel_ok_l; eauto. Qed.

(** the table of [x] can be borrowed *)
Definition lk_ok (h : heap) (x : oid) : Prop := exists t, get_links h x = Ok t.

Lemma lk_ok_iff h x :
  lk_ok h x <-> exists b, nth_error h x = Some b /\ freed b = false /\ links b <> None.
Proof.
  unfold lk_ok, get_links, getb, bind. split.
  - intros [t H]. destruct (nth_error h x) as [b|]; [|discriminate]. exists b.
    destruct (freed b); [discriminate|]. destruct (links b); [|discriminate].
    repeat split; auto; discriminate.
  - intros (b & -> & -> & Hl). destruct (links b) as [t|]; [eauto|congruence].
Qed.

Lemma lk_ok_frame h h' x : heap_frame h h' -> lk_ok h x -> lk_ok h' x.
Proof.
  intros HF. rewrite !lk_ok_iff. intros (b & Hn & Hf & Hl).
  pose proof (Forall2_nth _ _ _ HF x) as H. rewrite Hn in H.
  destruct (nth_error h' x) as [b'|]; [|contradiction]. exists b'.
  destruct H as (_ & _ & _ & H4 & _ & H6). repeat split; [congruence|tauto].
Qed.

Lemma links_remove_frame h o l n h1 : links_remove h o l n = Ok h1 -> heap_frame h h1.
Proof.
  unfold links_remove, get_links, set_links, bind.
  destruct (getb h o) as [b|] eqn:G; [|discriminate].
  destruct (links b) as [t|] eqn:Lk; [|discriminate]. intros H; injection H as <-.
  apply Forall2_of_nth. intros o'. unfold setb. rewrite nth_error_upd.
  apply getb_ok in G as [Gn Gf].
  destruct (Nat.eqb_spec o o') as [<-|Hne].
  - rewrite Gn. assert (Hlt : (o < length h)%nat) by (apply nth_error_Some; congruence).
    apply Nat.ltb_lt in Hlt. rewrite Hlt.
    unfold same_nt; cbn [with_links strong weak links talloc value freed]. rewrite Lk.
    repeat split; auto; discriminate.
  - destruct (nth_error h o'); auto using same_nt_refl.
Qed.

Lemma links_remove_ok h o l n : lk_ok h o -> exists h1, links_remove h o l n = Ok h1.
Proof.
  intros [t H]. unfold links_remove, bind. rewrite H. unfold set_links, bind.
  unfold get_links, bind in H. destruct (getb h o) as [b|]; [eauto|discriminate].
Qed.

Lemma links_remove_ok_inv h o l n h1 : links_remove h o l n = Ok h1 -> lk_ok h o.
Proof.
  unfold links_remove, bind, lk_ok. destruct (get_links h o) as [t|]; [eauto|discriminate].
Qed.

(** what one iteration does to the peer [x] *)
Lemma purge_step_spec h this x n h1 h2 :
  heap_wf h ->
  links_remove h x (this, Fwd) n = Ok h1 -> links_remove h1 x (this, Bwd) n = Ok h2 ->
  heap_wf h2 /\ heap_frame h h2 /\
  forall o l, lget h2 o l =
    lget h o l - (if Nat.eqb o x && (link_eqb l (this, Fwd) || link_eqb l (this, Bwd)) then n else 0).
Proof.
  intros Hwf E1 E2.
  pose proof (links_remove_frame _ _ _ _ _ E1) as F1.
  pose proof (links_remove_frame _ _ _ _ _ E2) as F2.
  apply links_remove_spec in E1 as (S1 & _ & W1); [|exact Hwf].
  apply links_remove_spec in E2 as (S2 & _ & W2); [|exact W1].
  split; [exact W2|]. split; [eapply heap_frame_trans; eauto|].
  intros o l. rewrite S2, !S1.
  assert (EBF : link_eqb (this, Bwd) (this, Fwd) = false) by (apply link_eqb_neq; congruence).
  rewrite EBF, andb_false_r.
  destruct (Nat.eqb_spec o x) as [->|Hox]; cbn [andb]; [|lia].
  destruct (link_eqb l (this, Bwd)) eqn:EB.
  - apply link_eqb_eq in EB; subst l. rewrite EBF. cbn [orb]. reflexivity.
  - rewrite orb_false_r. destruct (link_eqb l (this, Fwd)) eqn:EF; [|lia].
    apply link_eqb_eq in EF; subst l. reflexivity.
Qed.

(** total of the counts of the entries that name the peer [o] (there can be a
    Forward, a Backward and a Loopback entry for the same peer) *)
Fixpoint psum (t : table) (o : oid) : N :=
  match t with
  | [] => 0
  | ((x, _), n) :: t' => (if Nat.eqb x o then n else 0) + psum t' o
  end.

Lemma psum_perm t t' o : Permutation t t' -> psum t o = psum t' o.
Proof.
  induction 1 as [|[[x k] c] l l' HP IH|[[x k] c] [[z k'] c'] l|l1 l2 l3 H12 IH12 H23 IH23];
    cbn [psum]; try lia.
Qed.

(** the loop as a whole: every peer loses, under the two records that name
    [this], the total of the counts that [this] held for it *)
Lemma purge_loop_spec this t : forall h hf,
  heap_wf h -> purge_loop h this t = Ok hf ->
  heap_wf hf /\ heap_frame h hf /\
  forall o l, lget hf o l =
    lget h o l - (if negb (Nat.eqb o this) && (link_eqb l (this, Fwd) || link_eqb l (this, Bwd))
                  then psum t o else 0).
Proof.
  induction t as [|[[x k] n] t IH]; intros h hf Hwf; cbn [purge_loop psum].
  - intros H; injection H as <-. split; [exact Hwf|]. split; [apply heap_frame_refl|].
    intros o l. destruct (negb (Nat.eqb o this) && _); lia.
  - destruct (Nat.eqb_spec x this) as [->|Hne].
    + intros H. destruct (IH _ _ Hwf H) as (W & F & S). split; [exact W|]. split; [exact F|].
      intros o l. rewrite S. destruct (Nat.eqb_spec o this) as [->|Hne']; cbn [negb andb]; [reflexivity|].
      assert (Nat.eqb this o = false) as -> by (apply Nat.eqb_neq; congruence).
      rewrite N.add_0_l. reflexivity.
    + unfold bind. destruct (links_remove h x (this, Fwd) n) as [h1|] eqn:E1; [|discriminate].
      destruct (links_remove h1 x (this, Bwd) n) as [h2|] eqn:E2; [|discriminate].
      intros H. destruct (purge_step_spec _ _ _ _ _ _ Hwf E1 E2) as (W2 & F2 & S2).
      destruct (IH _ _ W2 H) as (W & F & S). split; [exact W|].
      split; [eapply heap_frame_trans; eauto|].
      intros o l. rewrite S, S2. rewrite (Nat.eqb_sym x o).
      destruct (Nat.eqb_spec o this) as [->|Hne']; cbn [negb andb].
      * assert (Nat.eqb this x = false) as -> by (apply Nat.eqb_neq; congruence).
        cbn [andb]. lia.
      * destruct (link_eqb l (this, Fwd) || link_eqb l (this, Bwd));
          rewrite ?andb_true_r, ?andb_false_r; destruct (Nat.eqb o x); lia.
Qed.

Lemma purge_loop_ok this t : forall h,
  heap_wf h ->
  (forall x k n, In ((x, k), n) t -> x <> this -> lk_ok h x) ->
  exists hf, purge_loop h this t = Ok hf.
Proof.
  induction t as [|[[x k] n] t IH]; intros h Hwf Hok; cbn [purge_loop]; [eauto|].
  destruct (Nat.eqb_spec x this) as [->|Hne].
  - apply IH; [exact Hwf|]. intros y k' m Hin. apply (Hok y k' m). now right.
  - assert (Hx : lk_ok h x) by (apply (Hok x k n); [now left | exact Hne]).
    destruct (links_remove_ok h x (this, Fwd) n Hx) as [h1 E1].
    pose proof (links_remove_frame _ _ _ _ _ E1) as F1.
    destruct (links_remove_ok h1 x (this, Bwd) n (lk_ok_frame _ _ _ F1 Hx)) as [h2 E2].
    unfold bind. rewrite E1, E2.
    destruct (purge_step_spec _ _ _ _ _ _ Hwf E1 E2) as (W2 & F2 & _).
    apply IH; [exact W2|]. intros y k' m Hin Hy. apply (lk_ok_frame _ _ _ F2).
    apply (Hok y k' m); [now right | exact Hy].
Qed.

Lemma purge_loop_ok_inv this t : forall h hf,
  heap_wf h -> purge_loop h this t = Ok hf ->
  forall x k n, In ((x, k), n) t -> x <> this -> lk_ok h x.
Proof.
  induction t as [|[[x k] n] t IH]; intros h hf Hwf; cbn [purge_loop In]; [intros _ ? ? ? []|].
  destruct (Nat.eqb_spec x this) as [->|Hne].
  - intros H y k' m [E|Hin] Hy; [injection E as <- <- <-; congruence|]. eapply IH; eauto.
  - unfold bind. destruct (links_remove h x (this, Fwd) n) as [h1|] eqn:E1; [|discriminate].
    destruct (links_remove h1 x (this, Bwd) n) as [h2|] eqn:E2; [|discriminate].
    intros H y k' m [E|Hin] Hy.
    + injection E as <- <- <-. eapply links_remove_ok_inv; eauto.
    + destruct (purge_step_spec _ _ _ _ _ _ Hwf E1 E2) as (W2 & F2 & _).
      apply (lk_ok_frame _ _ _ (heap_frame_sym _ _ F2)). eapply IH; eauto.
Qed.

Lemma lk_ok_perm h h' x : heap_perm h h' -> lk_ok h x -> lk_ok h' x.
Proof. intros HP. apply lk_ok_frame. apply heap_perm_frame; exact HP. Qed.

(** The purge loop of [drop_unreachable_with_adoptions] / [release_links] run
    over the same entries in another order, on heaps whose tables are in
    another order: completes iff the first run does, and the results agree up
    to the order of the tables. (Proved through the finite-map view: the
    resulting tables have the same [lget] everywhere, hence are permutations
    of each other because both are well formed.) *)
Theorem purge_loop_perm h h' this t t' :
  heap_perm h h' -> heap_wf h -> Permutation t t' ->
  R_ok heap_perm (purge_loop h this t) (purge_loop h' this t').
Proof.
  intros HP Hwf Ht hf H. pose proof (heap_perm_wf _ _ HP Hwf) as Hwf'.
  destruct (purge_loop_ok this t' h' Hwf') as [hf' H'].
  { intros x k n Hin Hx. apply (lk_ok_perm _ _ _ HP).
    apply (purge_loop_ok_inv this t h hf Hwf H x k n); [|exact Hx].
    eapply Permutation_in; [apply Permutation_sym; exact Ht | exact Hin]. }
  exists hf'. split; [exact H'|].
  destruct (purge_loop_spec _ _ _ _ Hwf H) as (W & F & S).
  destruct (purge_loop_spec _ _ _ _ Hwf' H') as (W' & F' & S').
  apply heap_eqv_perm; auto. split.
  - eapply heap_frame_trans; [apply heap_frame_sym; exact F|].
    eapply heap_frame_trans; [apply heap_perm_frame; exact HP | exact F'].
  - intros o l. rewrite S, S', (heap_perm_lget _ _ _ _ HP Hwf), (psum_perm _ _ o Ht). reflexivity.
Qed.

Theorem purge_peers_perm h h' this :
  heap_perm h h' -> heap_wf h -> R_ok heap_perm (purge_peers h this) (purge_peers h' this).
Proof.
  intros HP Hwf hf. unfold purge_peers, bind.
  destruct (get_links h this) as [t|] eqn:G; [|discriminate]. intros H.
  destruct (R_rel_ok_l _ _ _ _ (get_links_perm h h' this HP) G) as (t' & -> & Ht).
  apply (purge_loop_perm h h' this t t' HP Hwf Ht hf H).
Qed.

Lemma purge_peers_wf h this hf : heap_wf h -> purge_peers h this = Ok hf -> heap_wf hf.
Proof.
  unfold purge_peers, bind. intros Hwf. destruct (get_links h this) as [t|]; [|discriminate].
  intros H. apply (purge_loop_spec _ _ _ _ Hwf H).
Qed.

(** [release_links]: purge the peers, move the table out *)
Theorem release_links_perm h h' o :
  heap_perm h h' -> heap_wf h -> R_ok heap_perm (release_links h o) (release_links h' o).
Proof.
  intros HP Hwf hf. unfold release_links, bind.
  destruct (purge_peers h o) as [h1|] eqn:E1; [|discriminate].
  destruct (purge_peers_perm h h' o HP Hwf h1 E1) as (h1' & -> & HP1).
  destruct (getb h1 o) as [b|] eqn:G; [|discriminate].
  destruct (R_rel_ok_l _ _ _ _ (getb_perm h1 h1' o HP1) G) as (b' & -> & Hb).
  pose proof (box_perm_links _ _ Hb) as Hl.
  destruct (links b) as [t|], (links b') as [t'|]; try contradiction; [|discriminate].
  intros H; injection H as <-. eexists; split; [reflexivity|].
  apply heap_perm_setb; [exact HP1|]. apply box_perm_with_links; [exact Hb|exact I].
Qed.

(** ** [drop_cycle], phases one to three, on heaps whose tables are permuted *)

(** phase one for one member *)
Lemma bust_one_perm h h' keys k c :
  heap_perm h h' -> R_rel heap_perm (bust_one h keys k c) (bust_one h' keys k c).
Proof.
  intros HP. unfold bust_one. eapply R_rel_bind; [apply getb_perm; exact HP|].
  intros b b' _ _ Hb. pose proof (box_perm_links _ _ Hb) as Hl. pose proof Hb as (Hs & _).
  destruct (links b) as [t|], (links b') as [t'|]; try contradiction; [|reflexivity].
  cbn [with_links strong]. rewrite Hs. destruct (strong b) as [n|]; [|reflexivity].
  cbn [R_rel]. apply heap_perm_setb; [exact HP|]. apply box_perm_with_strong.
  apply box_perm_with_links; [exact Hb|]. cbn [opt_perm]. apply perm_bust_table; exact Hl.
Qed.

Lemma bust_all_perm keys cyc : forall h h',
  heap_perm h h' -> R_rel heap_perm (bust_all h keys cyc) (bust_all h' keys cyc).
Proof.
  induction cyc as [|[k c] cyc IH]; intros h h' HP; cbn [bust_all]; [exact HP|].
  eapply R_rel_bind; [apply bust_one_perm; exact HP|]. intros h1 h1' _ _ HP1. apply IH; exact HP1.
Qed.

(** the values and tables moved out in phase two: same members, same values,
    tables up to order *)
Definition inner_perm (i i' : inner) : Prop :=
  fst (fst i') = fst (fst i) /\ snd (fst i') = snd (fst i) /\ Permutation (snd i) (snd i').

Definition gather_rel (r r' : heap * list inner) : Prop :=
  heap_perm (fst r) (fst r') /\ Forall2 inner_perm (snd r) (snd r').

Lemma gather_perm keys : forall h h' acc acc',
  heap_perm h h' -> Forall2 inner_perm acc acc' ->
  R_rel gather_rel (gather h keys acc) (gather h' keys acc').
Proof.
  induction keys as [|k keys IH]; intros h h' acc acc' HP Ha; cbn [gather].
  - split; assumption.
  - eapply R_rel_bind; [apply getb_perm; exact HP|].
    intros b b' _ _ Hb. pose proof (box_perm_links _ _ Hb) as Hl.
    pose proof Hb as (Hs & _ & Hv & _). rewrite Hs, Hv.
    destruct (negb (is_dead (strong b))); [apply IH; assumption|].
    destruct (is_uninit (strong b)); [apply IH; assumption|].
    destruct (value b) as [v|]; [|reflexivity].
    destruct (links b) as [t|], (links b') as [t'|]; try contradiction; [|reflexivity].
    apply IH.
    + apply heap_perm_setb; [exact HP|]. apply box_perm_with_links; [|exact I].
      apply box_perm_with_value. apply box_perm_with_strong. exact Hb.
    + apply Forall2_app; [exact Ha|]. constructor; [|constructor].
      repeat split; auto.
Qed.

(** phase three *)
Lemma finish_group_perm keys : forall h h',
  heap_perm h h' -> R_rel heap_perm (finish_group h keys) (finish_group h' keys).
Proof.
  induction keys as [|k keys IH]; intros h h' HP; cbn [finish_group]; [exact HP|].
  eapply R_rel_bind; [apply getb_perm; exact HP|].
  intros b b' _ _ Hb. pose proof Hb as (Hs & _). rewrite Hs.
  destruct (is_dead (strong b)); [|apply IH; exact HP].
  eapply R_rel_bind; [apply dec_weak_free_perm; exact HP|]. intros h1 h1' _ _ HP1. apply IH; exact HP1.
Qed.

(** ** The trace completes in one order iff it completes in the other *)

(** Forward entries of the allocations not yet visited (index [i] upwards) *)
Fixpoint unv (h : heap) (i : nat) (vis : list oid) : nat :=
  match h with
  | [] => 0
  | b :: h' => (if memb i vis then 0 else length (fwd_targets (btable b))) + unv h' (S i) vis
  end.

Lemma unv_skip h : forall j m vis, (m < j)%nat -> unv h j (m :: vis) = unv h j vis.
Proof.
  induction h as [|b h IH]; intros j m vis Hlt; cbn [unv memb]; [reflexivity|].
  assert (Nat.eqb j m = false) as -> by (apply Nat.eqb_neq; lia). cbn [orb].
  rewrite IH by lia. reflexivity.
Qed.

Lemma unv_visit h : forall i n vis b,
  nth_error h n = Some b -> ~ In (i + n)%nat vis ->
  (unv h i ((i + n)%nat :: vis) + length (fwd_targets (btable b)) = unv h i vis)%nat.
Proof.
  induction h as [|b0 h IH]; intros i n vis b Hn Hv; [destruct n; discriminate|].
  destruct n as [|n]; cbn [nth_error] in Hn; cbn [unv memb].
  - injection Hn as ->. rewrite Nat.add_0_r in *. rewrite Nat.eqb_refl. cbn [orb].
    apply memb_false in Hv. rewrite Hv. rewrite unv_skip by lia. lia.
  - assert (Nat.eqb i (i + S n) = false) as -> by (apply Nat.eqb_neq; lia). cbn [orb].
    replace (i + S n)%nat with (S i + n)%nat in * by lia.
    rewrite <- (IH (S i) n vis b Hn Hv). lia.
Qed.

Lemma unv_le h : forall i vis, (unv h i vis <= total_entries h)%nat.
Proof.
  induction h as [|b h IH]; intros i vis; cbn [unv total_entries]; [lia|].
  specialize (IH (S i) vis).
  assert ((if memb i vis then 0 else length (fwd_targets (btable b)))
          <= match links b with Some t => length t | None => 0 end)%nat.
  { unfold btable. destruct (memb i vis); [lia|].
    destruct (links b) as [t|]; [apply fwd_targets_length | cbn; lia]. }
  lia.
Qed.

Lemma get_links_nth h n t :
  get_links h n = Ok t -> exists b, nth_error h n = Some b /\ btable b = t.
Proof.
  unfold get_links, bind. destruct (getb h n) as [b|] eqn:G; [|discriminate].
  apply getb_ok in G as [G _]. exists b. split; [exact G|]. unfold btable.
  destruct (links b); [|discriminate]. injection H as ->. reflexivity.
Qed.

(** the worklist loop terminates without fault as long as every allocation it
    can reach has a borrowable table, with fuel to spare *)
Lemma trace_go_total h (P : oid -> Prop) :
  (forall x, P x -> lk_ok h x) ->
  (forall x y, P x -> edge h x y -> P y) ->
  forall fuel disc vis own pops visits,
  (forall x, In x disc -> P x) ->
  (length disc + unv h 0 vis < fuel)%nat ->
  exists r, trace_go fuel h disc vis own pops visits = Ok r.
Proof.
  intros Hok Hcl. induction fuel as [|f IH]; intros disc vis own pops visits Hd Hm; [lia|].
  cbn [trace_go]. destruct disc as [|n rest]; [eauto|].
  destruct (memb n vis) eqn:E.
  - apply IH; [intros x Hx; apply Hd; now right | cbn [length] in Hm; lia].
  - apply memb_false in E. destruct (Hok n (Hd n (or_introl eq_refl))) as [t G].
    unfold bind. rewrite G. destruct (visit_entries t own []) as [own1 pushed] eqn:V.
    apply visit_entries_spec in V as (Hp & _). cbn [app] in Hp. subst pushed.
    pose proof (get_links_tbl_of _ _ _ G) as Ht.
    destruct (get_links_nth _ _ _ G) as (b & Hn & Hb).
    apply IH.
    + intros x Hx. apply in_app_or in Hx as [Hx|Hx]; [|apply Hd; now right].
      apply in_rev in Hx. apply (Hcl n x); [apply Hd; now left|].
      unfold edge. rewrite Ht. exact Hx.
    + pose proof (unv_visit h 0 n vis b Hn E) as Hu. cbn [Nat.add] in Hu.
      rewrite app_length, rev_length. cbn [length] in Hm. rewrite Hb in Hu. unfold oid in *. lia.
Qed.

(** [cycle_refs] returns whenever every allocation reachable from the start
    can have its table borrowed (the fuel of the model is always enough) *)
Theorem cycle_refs_total h a :
  (forall y, reach h a y -> lk_ok h y) -> exists r, cycle_refs h a = Ok r.
Proof.
  intros Hok. unfold cycle_refs. apply (trace_go_total h (reach h a) Hok).
  - intros x y Hx He. eapply reach_step; eauto.
  - intros x [<-|[]]. constructor.
  - unfold trace_fuel. pose proof (unv_le h 0 []) as H. cbn [length]. lia.
Qed.

Lemma trace_go_inv_ok a h fuel : forall disc vis own pops visits own' pops' visits',
  tinv h a disc vis own pops visits -> (forall x, In x vis -> lk_ok h x) ->
  trace_go fuel h disc vis own pops visits = Ok (own', pops', visits') ->
  exists vis', tinv h a [] vis' own' pops' visits' /\ (forall x, In x vis' -> lk_ok h x).
Proof.
  induction fuel as [|f IH]; intros disc vis own pops visits own' pops' visits' HI Hv Hgo;
    cbn [trace_go] in Hgo; [discriminate|].
  destruct disc as [|n rest].
  - injection Hgo as <- <- <-. exists vis. split; assumption.
  - destruct (memb n vis) eqn:E.
    + apply memb_In in E. eapply IH; [|exact Hv|exact Hgo]. eapply tinv_skip; eauto.
    + apply memb_false in E. unfold bind in Hgo.
      destruct (get_links h n) as [t|] eqn:G; [|discriminate].
      destruct (visit_entries t own []) as [own1 pushed] eqn:V.
      eapply IH; [| |exact Hgo]; [eapply tinv_visit; eauto|].
      intros x [<-|Hx]; [exists t; exact G | apply Hv; exact Hx].
Qed.

(** conversely, a trace that returned has borrowed the table of every
    allocation reachable from its start *)
Theorem cycle_refs_reach_ok h a r :
  cycle_refs h a = Ok r -> forall y, reach h a y -> lk_ok h y.
Proof.
  destruct r as [[own pops] visits]. unfold cycle_refs. intros H.
  destruct (trace_go_inv_ok a h _ _ _ _ _ _ _ _ _ (tinv_init h a) (fun x (F : In x []) => match F with end) H)
    as (R & [H1 H2 H3 H4 H5 H6 H7 H8 H9 H10] & Hok).
  intros y Hr. apply Hok. induction Hr as [|x y Hr IHr He].
  - destruct H4 as [H4|[]]; exact H4.
  - destruct (H3 x y IHr He) as [Hy|[]]; exact Hy.
Qed.

(** The trace faults in one iteration order iff it faults in every other
    (which fault is reported may differ: it is the first unborrowable table met). *)
Theorem cycle_refs_ok_perm h h' a r :
  heap_perm h h' -> cycle_refs h a = Ok r -> exists r', cycle_refs h' a = Ok r'.
Proof.
  intros HP H. apply cycle_refs_total. intros y Hr.
  apply (lk_ok_perm _ _ _ HP). apply (cycle_refs_reach_ok _ _ _ H).
  apply (reach_perm _ _ _ _ (heap_perm_sym _ _ HP) Hr).
Qed.

(** the two previous results in one statement *)
Corollary cycle_refs_perm_ok h h' a own pops visits :
  heap_perm h h' -> cycle_refs h a = Ok (own, pops, visits) ->
  exists own', cycle_refs h' a = Ok (own', pops, visits) /\ omap_eqv own own' /\
               NoDup (map fst own) /\ NoDup (map fst own').
Proof.
  intros HP H. destruct (cycle_refs_ok_perm _ _ _ _ HP H) as [[[own' pops'] visits'] H'].
  destruct (cycle_refs_perm _ _ _ _ _ _ _ _ _ HP H H') as (Hg & Hk & -> & ->).
  exists own'. split; [exact H'|]. split; [split; assumption|].
  apply cycle_refs_spec in H as (_ & _ & _ & _ & _ & Hnd & _).
  apply cycle_refs_spec in H' as (_ & _ & _ & _ & _ & Hnd' & _). auto.
Qed.

(** ** The choice oracle only chooses an order *)

Lemma NoDup_filter' {A} (f : A -> bool) l : NoDup l -> NoDup (filter f l).
Proof.
  induction 1 as [|x l Hn Hnd IH]; cbn [filter]; [constructor|].
  destruct (f x); [|exact IH]. constructor; [|exact IH].
  intros Hin. apply filter_In in Hin as [Hin _]. contradiction.
Qed.

Lemma NoDup_app' {A} (l1 l2 : list A) :
  NoDup l1 -> NoDup l2 -> (forall x, In x l1 -> ~ In x l2) -> NoDup (l1 ++ l2).
Proof.
  induction 1 as [|x l Hn Hnd IH]; cbn [app]; intros H2 Hd; [exact H2|].
  constructor.
  - intros Hin. apply in_app_or in Hin as [Hin|Hin]; [contradiction|].
    apply (Hd x); [now left | exact Hin].
  - apply IH; [exact H2|]. intros y Hy. apply Hd. now right.
Qed.

Lemma dedup_In l x : In x (dedup l) <-> In x l.
Proof.
  induction l as [|a l IH]; cbn [dedup In]; [tauto|].
  rewrite filter_In, IH. split.
  - intros [H|[H _]]; auto.
  - intros [H|H]; [now left|]. destruct (Nat.eqb_spec a x) as [E|E]; [now left|].
    right. split; [exact H|]. reflexivity.
Qed.

Lemma dedup_NoDup l : NoDup (dedup l).
Proof.
  induction l as [|a l IH]; cbn [dedup]; constructor.
  - intros Hin. apply filter_In in Hin as [_ Hin]. rewrite Nat.eqb_refl in Hin. discriminate.
  - apply NoDup_filter'. exact IH.
Qed.

Lemma in_omap_iff m k c : NoDup (map fst m) -> (In (k, c) m <-> In k (map fst m) /\ own_get m k = c).
Proof.
  intros Hnd. split.
  - intros Hin. split; [apply (in_map fst) in Hin; exact Hin | apply own_get_in; assumption].
  - intros [Hk Hg]. apply in_map_iff in Hk as ([k' c'] & E & Hin). cbn [fst] in E. subst k'.
    rewrite (own_get_in _ _ _ Hnd Hin) in Hg. subst c'. exact Hin.
Qed.

(** The member order used by one teardown is a permutation of the trace's
    result, whatever the oracle: the oracle chooses an order, not a content. *)
Theorem order_cycle_perm pri cyc :
  NoDup (map fst cyc) -> Permutation (order_cycle pri cyc) cyc.
Proof.
  intros Hnd. unfold order_cycle.
  set (l1 := filter (fun x => memb x (map fst cyc)) (dedup pri)).
  assert (Hl1 : NoDup l1) by (apply NoDup_filter'; apply dedup_NoDup).
  assert (Hl1in : forall k, In k l1 <-> In k pri /\ In k (map fst cyc)).
  { intros k. unfold l1. rewrite filter_In, dedup_In, memb_In. tauto. }
  apply NoDup_Permutation.
  - apply NoDup_map_inv with (f := fst). rewrite map_app, map_map. cbn [fst]. rewrite map_id.
    apply NoDup_app'.
    + exact Hl1.
    + clear -Hnd. induction cyc as [|[k c] cyc IH]; cbn [filter map fst]; [constructor|].
      inversion Hnd as [|? ? Hn Hnd']; subst.
      destruct (negb (memb k pri)); [|apply IH; exact Hnd'].
      cbn [map fst]. constructor; [|apply IH; exact Hnd'].
      intros Hin. apply Hn. apply in_map_iff in Hin as (e & E & He).
      apply filter_In in He as [He _]. rewrite <- E. apply in_map. exact He.
    + intros k Hk Hk2. apply Hl1in in Hk as [Hp _].
      apply in_map_iff in Hk2 as (e & E & He). apply filter_In in He as [_ He].
      destruct e as [k' c']. cbn [fst] in *. subst k'. apply memb_In in Hp. rewrite Hp in He. discriminate.
  - apply NoDup_map_inv with (f := fst). exact Hnd.
  - intros [k c]. rewrite in_app_iff, in_map_iff, filter_In. cbn [fst].
    rewrite (in_omap_iff cyc k c Hnd). split.
    + intros [(k' & E & Hk')|[[Hk Hg] Hp]]; [|tauto].
      injection E as -> <-. apply Hl1in in Hk' as [_ Hk']. tauto.
    + intros [Hk Hg]. destruct (memb k pri) eqn:Hp.
      * left. exists k. split; [rewrite Hg; reflexivity|]. apply Hl1in. apply memb_In in Hp. tauto.
      * right. tauto.
Qed.

Corollary order_cycle_oracle pri pri' cyc :
  NoDup (map fst cyc) -> Permutation (order_cycle pri cyc) (order_cycle pri' cyc).
Proof.
  intros Hnd. eapply Permutation_trans; [apply order_cycle_perm; exact Hnd|].
  apply Permutation_sym. apply order_cycle_perm; exact Hnd.
Qed.

(** two traces' results that are equal as finite maps are permutations *)
Lemma omap_eqv_perm own own' :
  NoDup (map fst own) -> NoDup (map fst own') -> omap_eqv own own' -> Permutation own own'.
Proof.
  intros Hnd Hnd' He. apply NoDup_Permutation.
  - apply NoDup_map_inv with (f := fst). exact Hnd.
  - apply NoDup_map_inv with (f := fst). exact Hnd'.
  - intros [k c]. split; [apply omap_eqv_in; assumption|].
    apply omap_eqv_in; try assumption. apply omap_eqv_sym; exact He.
Qed.

(** ** Loops that treat each member of a group independently

    [bust_all], [gather] and [finish_group] have the same shape: for each
    member in turn, read its box, compute a new box (or fault), write it back,
    possibly emit something. Steps on distinct members commute, so the final
    heap does not depend on the member order and the emitted items are the
    same up to order. *)
Lemma upd_comm {A} (l : list A) : forall i j x y,
  i <> j -> upd (upd l i x) j y = upd (upd l j y) i x.
Proof.
  induction l as [|a l IH]; intros [|i] [|j] x y H; cbn [upd]; try reflexivity; try congruence.
  rewrite IH by congruence. reflexivity.
Qed.

Lemma upd_same {A} (l : list A) : forall i x, nth_error l i = Some x -> upd l i x = l.
Proof.
  induction l as [|a l IH]; intros [|i] x H; cbn [upd nth_error] in *; try discriminate.
  - injection H as ->. reflexivity.
  - rewrite IH by exact H. reflexivity.
Qed.

Lemma getb_setb_other h k b o : k <> o -> getb (setb h k b) o = getb h o.
Proof. intros H. unfold getb, setb. rewrite nth_error_upd_other by exact H. reflexivity. Qed.

Lemma setb_getb_same h k b : getb h k = Ok b -> setb h k b = h.
Proof. intros G. apply getb_ok in G as [G _]. apply upd_same; exact G. Qed.

Section Runl.
  Variables (T : Type) (key : T -> oid) (g : T -> box -> R (box * list inner)).

  Fixpoint runl (h : heap) (items : list T) : R (heap * list inner) :=
    match items with
    | [] => Ok (h, [])
    | it :: items' =>
        let* b := getb h (key it) in
        let* r := g it b in
        let* r' := runl (setb h (key it) (fst r)) items' in
        Ok (fst r', snd r ++ snd r')
    end.

  Lemma runl_cons_inv h it items hf out :
    runl h (it :: items) = Ok (hf, out) ->
    exists b b1 o1 o2,
      getb h (key it) = Ok b /\ g it b = Ok (b1, o1) /\
      runl (setb h (key it) b1) items = Ok (hf, o2) /\ out = o1 ++ o2.
  Proof.
    cbn [runl]. unfold bind. destruct (getb h (key it)) as [b|] eqn:G1; [|discriminate].
    destruct (g it b) as [[b1 o1]|] eqn:G2; [|discriminate]. cbn [fst snd].
    destruct (runl (setb h (key it) b1) items) as [[hf' o2]|] eqn:G3; [|discriminate].
    cbn [fst snd]. intros H; injection H as <- <-. exists b, b1, o1, o2. auto.
  Qed.

  Lemma runl_cons_intro h it items hf b b1 o1 o2 :
    getb h (key it) = Ok b -> g it b = Ok (b1, o1) ->
    runl (setb h (key it) b1) items = Ok (hf, o2) ->
    runl h (it :: items) = Ok (hf, o1 ++ o2).
  Proof. intros G1 G2 G3. cbn [runl]. unfold bind. rewrite G1, G2. cbn [fst snd]. rewrite G3. reflexivity. Qed.

  Lemma runl_perm items items' :
    Permutation items items' -> NoDup (map key items) ->
    forall h hf out, runl h items = Ok (hf, out) ->
    exists out', runl h items' = Ok (hf, out') /\ Permutation out out'.
  Proof.
    induction 1 as [|x l l' HP IH|x y l|l1 l2 l3 H12 IH12 H23 IH23]; intros Hnd h hf out H.
    - exists out. split; [exact H|apply Permutation_refl].
    - apply runl_cons_inv in H as (b & b1 & o1 & o2 & G1 & G2 & G3 & ->).
      cbn [map] in Hnd. inversion Hnd as [|? ? Hn Hnd']; subst.
      destruct (IH Hnd' _ _ _ G3) as (o2' & G3' & Hp).
      exists (o1 ++ o2'). split; [eapply runl_cons_intro; eauto|].
      apply Permutation_app_head; exact Hp.
    - apply runl_cons_inv in H as (by_ & by1 & oy & o2 & Gy1 & Gy2 & H & ->).
      apply runl_cons_inv in H as (bx & bx1 & ox & o3 & Gx1 & Gx2 & H & ->).
      cbn [map] in Hnd. inversion Hnd as [|? ? Hn Hnd']; subst.
      assert (Hne : key y <> key x) by (intros E; apply Hn; left; congruence).
      rewrite getb_setb_other in Gx1 by exact Hne.
      exists (ox ++ oy ++ o3). split; [|apply Permutation_app_swap_app].
      eapply runl_cons_intro; [exact Gx1 | exact Gx2 |].
      eapply runl_cons_intro; [rewrite getb_setb_other by congruence; exact Gy1 | exact Gy2 |].
      unfold setb in *. rewrite upd_comm by congruence. exact H.
    - destruct (IH12 Hnd _ _ _ H) as (o2 & H2 & Hp2).
      assert (Hnd2 : NoDup (map key l2)).
      { eapply Permutation_NoDup; [apply Permutation_map; exact H12 | exact Hnd]. }
      destruct (IH23 Hnd2 _ _ _ H2) as (o3 & H3 & Hp3).
      exists o3. split; [exact H3|]. eapply Permutation_trans; eauto.
  Qed.
End Runl.

(** phase one as such a loop *)
Definition g_bust (keys : list oid) (it : oid * N) (b : box) : R (box * list inner) :=
  match links b with
  | None => Bad (HFault FkTableMoved (fst it))
  | Some t =>
      match strong b with
      | Uninit => Bad (HFault FkUnderflow (fst it))
      | Cnt n => Ok (with_strong (with_links b (Some (bust_table t keys)))
                                 (Cnt (n - N.min (snd it) n)), [])
      end
  end.

Lemma bust_all_runl keys cyc : forall h,
  bust_all h keys cyc = let* r := runl _ fst (g_bust keys) h cyc in Ok (fst r).
Proof.
  induction cyc as [|[k c] cyc IH]; intros h; cbn [bust_all runl]; [reflexivity|].
  unfold bust_one, g_bust, bind. cbn [fst snd]. destruct (getb h k) as [b|]; [|reflexivity].
  destruct (links b) as [t|]; [|reflexivity]. cbn [with_links strong].
  destruct (strong b) as [n|]; [|reflexivity]. cbn [fst snd].
  rewrite IH. unfold bind. destruct (runl _ fst _ _ cyc) as [[hf o]|]; reflexivity.
Qed.

(** phase three as such a loop *)
Definition g_finish (k : oid) (b : box) : R (box * list inner) :=
  if is_dead (strong b) then
    if (weak b =? 0)%N then Bad (HFault FkUnderflow k)
    else
      let w := (weak b - 1)%N in
      let b' := with_weak b w in
      Ok (if (w =? 0)%N then with_freed b' true else b', [])
  else Ok (b, []).

Lemma finish_group_runl keys : forall h,
  finish_group h keys = let* r := runl _ (fun k => k) g_finish h keys in Ok (fst r).
Proof.
  induction keys as [|k keys IH]; intros h; cbn [finish_group runl]; [reflexivity|].
  unfold g_finish, bind. destruct (getb h k) as [b|] eqn:G; [|reflexivity].
  destruct (is_dead (strong b)).
  - unfold dec_weak_free, bind. rewrite G. destruct (weak b =? 0); [reflexivity|].
    cbn [fst snd]. rewrite IH. unfold bind.
    destruct (runl _ _ _ _ keys) as [[hf o]|]; reflexivity.
  - cbn [fst snd]. rewrite (setb_getb_same _ _ _ G). rewrite IH. unfold bind.
    destruct (runl _ _ _ _ keys) as [[hf o]|]; reflexivity.
Qed.

(** phase two as such a loop *)
Definition g_gather (k : oid) (b : box) : R (box * list inner) :=
  if negb (is_dead (strong b)) then Ok (b, [])
  else if is_uninit (strong b) then Ok (b, [])
  else
    match value b, links b with
    | None, _ => Bad (HFault FkValueMoved k)
    | _, None => Bad (HFault FkTableMoved k)
    | Some v, Some t =>
        Ok (with_links (with_value (with_strong b Uninit) None) None, [(k, v, t)])
    end.

Lemma gather_runl keys : forall h acc,
  gather h keys acc = let* r := runl _ (fun k => k) g_gather h keys in Ok (fst r, acc ++ snd r).
Proof.
  induction keys as [|k keys IH]; intros h acc; cbn [gather runl].
  - unfold bind. cbn [fst snd]. rewrite app_nil_r. reflexivity.
  - unfold g_gather, bind. destruct (getb h k) as [b|] eqn:G; [|reflexivity].
    destruct (negb (is_dead (strong b))).
    { cbn [fst snd]. rewrite (setb_getb_same _ _ _ G). rewrite IH. unfold bind.
      destruct (runl _ _ _ _ keys) as [[hf o]|]; reflexivity. }
    destruct (is_uninit (strong b)).
    { cbn [fst snd]. rewrite (setb_getb_same _ _ _ G). rewrite IH. unfold bind.
      destruct (runl _ _ _ _ keys) as [[hf o]|]; reflexivity. }
    destruct (value b) as [v|]; [|reflexivity].
    destruct (links b) as [t|]; [|reflexivity].
    cbn [fst snd]. rewrite IH. unfold bind.
    destruct (runl _ _ _ _ keys) as [[hf o]|]; [|reflexivity].
    cbn [fst snd app]. rewrite <- app_assoc. reflexivity.
Qed.

Lemma bust_all_keys_ext keys keys' cyc : forall h,
  (forall x, memb x keys = memb x keys') -> bust_all h keys cyc = bust_all h keys' cyc.
Proof.
  induction cyc as [|[k c] cyc IH]; intros h He; cbn [bust_all]; [reflexivity|].
  assert (bust_one h keys k c = bust_one h keys' k c) as ->.
  { unfold bust_one, bind. destruct (getb h k) as [b|]; [|reflexivity].
    destruct (links b) as [t|]; [|reflexivity]. rewrite (bust_table_ext t keys keys' He). reflexivity. }
  unfold bind. destruct (bust_one h keys' k c) as [h1|]; [|reflexivity]. apply IH; exact He.
Qed.

(** Phase one of [drop_cycle]: the heap it produces does not depend on the
    order in which the members are taken. *)
Theorem bust_all_order h keys keys' cyc cyc' hf :
  Permutation cyc cyc' -> NoDup (map fst cyc) -> (forall x, memb x keys = memb x keys') ->
  bust_all h keys cyc = Ok hf -> bust_all h keys' cyc' = Ok hf.
Proof.
  intros HP Hnd He. rewrite <- (bust_all_keys_ext keys keys' cyc' h He).
  rewrite !bust_all_runl. unfold bind.
  destruct (runl _ fst (g_bust keys) h cyc) as [[h1 o]|] eqn:E; [|discriminate].
  cbn [fst]. intros H; injection H as ->.
  destruct (runl_perm _ fst (g_bust keys) _ _ HP Hnd _ _ _ E) as (o' & -> & _). reflexivity.
Qed.

(** Phase two: same heap; the same values and tables are moved out, in the
    order of the members. *)
Theorem gather_order h keys keys' hf inn :
  Permutation keys keys' -> NoDup keys ->
  gather h keys [] = Ok (hf, inn) ->
  exists inn', gather h keys' [] = Ok (hf, inn') /\ Permutation inn inn'.
Proof.
  intros HP Hnd. rewrite !gather_runl. unfold bind.
  destruct (runl _ (fun k => k) g_gather h keys) as [[h1 o]|] eqn:E; [|discriminate].
  cbn [fst snd app]. intros H; injection H as -> ->.
  rewrite <- (map_id keys) in Hnd.
  destruct (runl_perm _ (fun k => k) g_gather _ _ HP Hnd _ _ _ E) as (o' & -> & Hp).
  cbn [fst snd app]. eauto.
Qed.

(** Phase three: same heap. *)
Theorem finish_group_order h keys keys' hf :
  Permutation keys keys' -> NoDup keys ->
  finish_group h keys = Ok hf -> finish_group h keys' = Ok hf.
Proof.
  intros HP Hnd. rewrite !finish_group_runl. unfold bind.
  destruct (runl _ (fun k => k) g_finish h keys) as [[h1 o]|] eqn:E; [|discriminate].
  cbn [fst]. intros H; injection H as ->.
  rewrite <- (map_id keys) in Hnd.
  destruct (runl_perm _ (fun k => k) g_finish _ _ HP Hnd _ _ _ E) as (o' & -> & _). reflexivity.
Qed.

Lemma memb_perm x l l' : Permutation l l' -> memb x l = memb x l'.
Proof.
  intros HP. destruct (memb x l) eqn:E.
  - symmetry. apply memb_In. apply memb_In in E. eapply Permutation_in; eauto.
  - symmetry. apply memb_false. apply memb_false in E. intros Hin. apply E.
    eapply Permutation_in; [apply Permutation_sym; exact HP | exact Hin].
Qed.

(** WHAT [drop_cycle] destroys does not depend on the choice oracle: with any
    two oracles, phases one and two produce the same heap and move out the
    same values and tables (in another order), and phase three, run later on
    whatever heap the destructors left, produces the same heap. *)
Theorem drop_cycle_oracle_indep pri pri' cyc h h2 h3 inn :
  NoDup (map fst cyc) ->
  let c1 := order_cycle pri cyc in let c2 := order_cycle pri' cyc in
  bust_all h (map fst c1) c1 = Ok h2 -> gather h2 (map fst c1) [] = Ok (h3, inn) ->
  bust_all h (map fst c2) c2 = Ok h2 /\
  (exists inn', gather h2 (map fst c2) [] = Ok (h3, inn') /\ Permutation inn inn') /\
  (forall hx hf, finish_group hx (map fst c1) = Ok hf -> finish_group hx (map fst c2) = Ok hf).
Proof.
  intros Hnd c1 c2 H1 H2.
  assert (HP : Permutation c1 c2) by (apply order_cycle_oracle; exact Hnd).
  assert (HPk : Permutation (map fst c1) (map fst c2)) by (apply Permutation_map; exact HP).
  assert (Hnd1 : NoDup (map fst c1)).
  { eapply Permutation_NoDup; [|exact Hnd]. apply Permutation_map. apply Permutation_sym.
    apply order_cycle_perm; exact Hnd. }
  split; [|split].
  - apply (bust_all_order h (map fst c1) (map fst c2) c1 c2 h2 HP Hnd1); [|exact H1].
    intros x. apply memb_perm; exact HPk.
  - eapply gather_order; eauto.
  - intros hx hf. apply finish_group_order; assumption.
Qed.

(** ** [Rc::drop] as one atomic step *)

(** logs agree up to the member order recorded by [EvGroup] *)
Inductive ev_rel : event -> event -> Prop :=
| ev_group ks ks' : Permutation ks ks' -> ev_rel (EvGroup ks) (EvGroup ks')
| ev_same e : ev_rel e e.

(** the moved-out members of a group: the same members with the same values,
    in another order, their tables in another order *)
Definition inners_rel (es es' : list inner) : Prop :=
  exists mid, Permutation es mid /\ Forall2 inner_perm mid es'.

Inductive frame_rel : frame -> frame -> Prop :=
| fr_inners es es' : inners_rel es es' -> frame_rel (FInners es) (FInners es')
| fr_finish ks ks' : Permutation ks ks' -> NoDup ks -> frame_rel (FFinishGroup ks) (FFinishGroup ks')
| fr_same f : frame_rel f f.

Definition state_perm (s s' : state) : Prop :=
  heap_perm (heap_of s) (heap_of s') /\ regs s' = regs s /\ Forall2 ev_rel (log s) (log s').

Lemma heap_wf_setb h o b : heap_wf h -> box_wf b -> heap_wf (setb h o b).
Proof.
  intros Hwf Hb o' b'. unfold setb. rewrite nth_error_upd.
  destruct (Nat.eqb o o'); [|apply Hwf].
  destruct (Nat.ltb o (length h)); [|discriminate]. intros H; injection H as <-. exact Hb.
Qed.

Lemma start_unreachable_perm s s' o s1 fr s1' fr' :
  state_perm s s' ->
  start_unreachable s o = Ok (s1, fr) -> start_unreachable s' o = Ok (s1', fr') ->
  state_perm s1 s1' /\ Forall2 frame_rel fr fr'.
Proof.
  intros (HP & Hr & Hlog). unfold start_unreachable, bind.
  destruct (getb (heap_of s) o) as [b|] eqn:G; [|discriminate].
  destruct (getb (heap_of s') o) as [b'|] eqn:G'; [|discriminate].
  pose proof (R_rel_ok _ _ _ _ _ (getb_perm _ _ o HP) G G') as Hb.
  pose proof Hb as (_ & _ & Hv & _). rewrite Hv. destruct (value b) as [v|]; [|discriminate].
  intros H H'; injection H as <- <-; injection H' as <- <-. split.
  - split; [|split]; cbn [heap_of regs log set_heap mk]; auto.
    apply heap_perm_setb; [exact HP|]. apply box_perm_with_value. apply box_perm_with_strong. exact Hb.
  - repeat constructor.
Qed.

Lemma orphaned_cycle_nodup h a c p v : orphaned_cycle h a = Ok (Some c, p, v) -> NoDup (map fst c).
Proof.
  unfold orphaned_cycle, bind.
  destruct (cycle_refs h a) as [[[own pops] visits]|] eqn:E; [|discriminate].
  apply cycle_refs_spec in E as (_ & _ & _ & _ & _ & Hnd & _).
  destruct own as [|e own]; [discriminate|].
  destruct (has_external h (e :: own)) as [[|]|]; try discriminate.
  intros H; injection H as <- _ _. exact Hnd.
Qed.

Lemma Forall2_ev_refl l : Forall2 ev_rel l l.
Proof. induction l; constructor; auto using ev_same. Qed.

(** Dropping one strong handle, on two states that differ only in the order
    of the link tables (and in the member order of earlier groups in the log),
    with arbitrary choice oracles: the resulting heaps again differ only in
    table order, the registers agree, the same trace counters are logged, the
    same set of members is torn down ([EvGroup] up to order; the boxes marked
    uninit are the same since [strong] agrees box by box), and the pushed
    frames have the same shape with the same members and values. *)
Theorem drop_strong_perm pri pri' s s' o s1 fr s1' fr' :
  state_perm s s' -> heap_wf (heap_of s) ->
  drop_strong pri s o = Ok (s1, fr) -> drop_strong pri' s' o = Ok (s1', fr') ->
  state_perm s1 s1' /\ Forall2 frame_rel fr fr'.
Proof.
  intros HS Hwf. pose proof HS as (HP & Hr & Hlog). unfold drop_strong, bind. cbv zeta.
  destruct (getb (heap_of s) o) as [b|] eqn:G; [|discriminate].
  destruct (getb (heap_of s') o) as [b'|] eqn:G'; [|discriminate].
  pose proof (R_rel_ok _ _ _ _ _ (getb_perm _ _ o HP) G G') as Hb.
  pose proof Hb as (Hs & _). rewrite Hs.
  destruct (strong b) as [n|] eqn:Sb.
  2:{ intros H H'; injection H as <- <-; injection H' as <- <-. split; [exact HS|constructor]. }
  destruct (n =? 0).
  { intros H H'; injection H as <- <-; injection H' as <- <-. split; [exact HS|constructor]. }
  set (h1 := setb (heap_of s) o (with_strong b (Cnt (n - 1)))).
  set (h1' := setb (heap_of s') o (with_strong b' (Cnt (n - 1)))).
  assert (HP1 : heap_perm h1 h1').
  { apply heap_perm_setb; [exact HP|]. apply box_perm_with_strong; exact Hb. }
  assert (Hwf1 : heap_wf h1).
  { apply heap_wf_setb; [exact Hwf|]. pose proof (getb_wf _ _ _ Hwf G) as Hbw. exact Hbw. }
  assert (HS1 : state_perm (set_heap s h1) (set_heap s' h1')).
  { split; [|split]; cbn [heap_of regs log set_heap mk]; auto. }
  destruct (get_links h1 o) as [t|] eqn:GL; [|discriminate].
  destruct (get_links h1' o) as [t'|] eqn:GL'; [|discriminate].
  pose proof (R_rel_ok _ _ _ _ _ (get_links_perm h1 h1' o HP1) GL GL') as Ht.
  destruct t as [|e t], t' as [|e' t'].
  - destruct (n - 1 =? 0).
    + apply start_unreachable_perm; exact HS1.
    + intros H H'; injection H as <- <-; injection H' as <- <-. split; [exact HS1|constructor].
  - exfalso. apply Permutation_nil in Ht. discriminate.
  - exfalso. apply Permutation_sym, Permutation_nil in Ht. discriminate.
  - destruct (n - 1 =? 0).
    + destruct (purge_loop h1 o (e :: t)) as [h2|] eqn:PL; [|discriminate].
      destruct (purge_loop h1' o (e' :: t')) as [h2'|] eqn:PL'; [|discriminate].
      destruct (purge_loop_perm h1 h1' o _ _ HP1 Hwf1 Ht h2 PL) as (h2'' & E & HP2).
      rewrite PL' in E; injection E as <-.
      destruct (set_links h2 o []) as [h3|] eqn:SL; [|discriminate].
      destruct (set_links h2' o []) as [h3'|] eqn:SL'; [|discriminate].
      pose proof (R_rel_ok _ _ _ _ _ (set_links_perm h2 h2' o [] [] HP2 (perm_nil _)) SL SL') as HP3.
      apply start_unreachable_perm.
      split; [|split]; cbn [heap_of regs log set_heap mk]; auto.
    + destruct (orphaned_cycle h1 o) as [[[oc pops] visits]|] eqn:OC; [|discriminate].
      destruct (orphaned_cycle h1' o) as [[[oc' pops'] visits']|] eqn:OC'; [|discriminate].
      destruct (orphaned_cycle_perm _ _ _ _ _ _ _ _ _ HP1 OC OC') as (Hoc & -> & ->).
      destruct oc as [cyc|], oc' as [cyc'|]; try contradiction.
      2:{ intros H H'; injection H as <- <-; injection H' as <- <-. split; [|constructor].
          split; [|split]; cbn [heap_of regs log set_heap add_ev mk]; auto.
          constructor; [apply ev_same | exact Hlog]. }
      pose proof (orphaned_cycle_nodup _ _ _ _ _ OC) as Hnd.
      pose proof (orphaned_cycle_nodup _ _ _ _ _ OC') as Hnd'.
      assert (HPc : Permutation cyc cyc') by (apply omap_eqv_perm; assumption).
      set (c1 := order_cycle pri cyc). set (c2 := order_cycle pri' cyc').
      assert (HP12 : Permutation c1 c2).
      { eapply Permutation_trans; [apply order_cycle_perm; exact Hnd|].
        eapply Permutation_trans; [exact HPc|]. apply Permutation_sym.
        apply order_cycle_perm; exact Hnd'. }
      assert (HPk : Permutation (map fst c1) (map fst c2)) by (apply Permutation_map; exact HP12).
      assert (Hnd1 : NoDup (map fst c1)).
      { eapply Permutation_NoDup; [|exact Hnd]. apply Permutation_map. apply Permutation_sym.
        apply order_cycle_perm; exact Hnd. }
      destruct (bust_all h1 (map fst c1) c1) as [h2|] eqn:BA; [|discriminate].
      destruct (gather h2 (map fst c1) []) as [[h3 inn]|] eqn:GA; [|discriminate].
      destruct (bust_all h1' (map fst c2) c2) as [h2'|] eqn:BA'; [|discriminate].
      destruct (gather h2' (map fst c2) []) as [[h3' inn']|] eqn:GA'; [|discriminate].
      assert (BA2 : bust_all h1 (map fst c2) c2 = Ok h2).
      { apply (bust_all_order h1 (map fst c1) (map fst c2) c1 c2 h2 HP12 Hnd1); [|exact BA].
        intros x. apply memb_perm; exact HPk. }
      pose proof (R_rel_ok _ _ _ _ _ (bust_all_perm (map fst c2) c2 h1 h1' HP1) BA2 BA') as HP2.
      destruct (gather_order h2 _ _ h3 inn HPk Hnd1 GA) as (inn2 & GA2 & Hinn).
      pose proof (R_rel_ok _ _ _ _ _ (gather_perm (map fst c2) h2 h2' [] [] HP2 (Forall2_nil _)) GA2 GA')
        as (HP3 & Hinn').
      cbn [fst snd] in HP3, Hinn'.
      intros H H'; injection H as <- <-; injection H' as <- <-. split.
      * split; [|split]; cbn [heap_of regs log set_heap add_ev mk]; auto.
        constructor; [apply ev_group; exact HPk|]. constructor; [apply ev_same | exact Hlog].
      * constructor; [apply fr_inners; exists inn2; split; assumption|].
        constructor; [apply fr_finish; assumption | constructor].
Qed.

(** Phase three, run later from a [FFinishGroup] frame: with the members in
    another order, on a heap whose tables are in another order, it completes
    iff it does in the first order, and the resulting heaps are related. *)
Corollary finish_group_frames hx hx' ks ks' :
  heap_perm hx hx' -> Permutation ks ks' -> NoDup ks ->
  R_ok heap_perm (finish_group hx ks) (finish_group hx' ks').
Proof.
  intros HP Hk Hnd hf H. apply (finish_group_order hx ks ks' hf Hk Hnd) in H.
  apply (R_rel_ok_l _ _ _ _ (finish_group_perm ks' hx hx' HP) H).
Qed.

(** Phases one and two with both the member order and the table order changed. *)
Corollary bust_gather_frames h h' cyc cyc' h2 h3 inn :
  heap_perm h h' -> Permutation cyc cyc' -> NoDup (map fst cyc) ->
  bust_all h (map fst cyc) cyc = Ok h2 -> gather h2 (map fst cyc) [] = Ok (h3, inn) ->
  exists h2' h3' inn',
    bust_all h' (map fst cyc') cyc' = Ok h2' /\ gather h2' (map fst cyc') [] = Ok (h3', inn') /\
    heap_perm h2 h2' /\ heap_perm h3 h3' /\ inners_rel inn inn'.
Proof.
  intros HP Hc Hnd BA GA.
  assert (HPk : Permutation (map fst cyc) (map fst cyc')) by (apply Permutation_map; exact Hc).
  assert (BA2 : bust_all h (map fst cyc') cyc' = Ok h2).
  { apply (bust_all_order h (map fst cyc) (map fst cyc') cyc cyc' h2 Hc Hnd); [|exact BA].
    intros x. apply memb_perm; exact HPk. }
  destruct (R_rel_ok_l _ _ _ _ (bust_all_perm (map fst cyc') cyc' h h' HP) BA2) as (h2' & BA' & HP2).
  destruct (gather_order h2 _ _ h3 inn HPk Hnd GA) as (inn2 & GA2 & Hinn).
  destruct (R_rel_ok_l _ _ _ _ (gather_perm (map fst cyc') h2 h2' [] [] HP2 (Forall2_nil _)) GA2)
    as ([h3' inn'] & GA' & HP3 & Hinn'). cbn [fst snd] in HP3, Hinn'.
  exists h2', h3', inn'. repeat split; auto. exists inn2. split; assumption.
Qed.
