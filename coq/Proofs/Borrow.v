(** * Borrow: no internal [RefCell] borrow conflict (property C10, "... and no
    internal borrow conflict panic occurs").

    In the Rust crate every link table lives in a [RefCell]
    ([RcBox.links : RefCell<Links<T>>]).  A [BorrowMutError] / [BorrowError]
    panic occurs when the library takes [borrow_mut()] of a table that is
    currently borrowed (shared or mutably) or [borrow()] of one that is
    mutably borrowed.  Moreover user code (value destructors) must never run
    while the library holds a borrow, because the destructor may call
    adopt / unadopt / drop, which borrow tables themselves.

    The model (Model/Atomic.v, Model/Machine.v) transcribes the atomic regions
    as pure functions and has no notion of a borrow.  This file adds it as an
    ANNOTATION layer: for each atomic function a companion returns the sequence
    of borrow events the Rust code performs, in program order; the sequences
    are replayed on an abstract [RefCell] state and shown to be conflict free
    (the replay never gets stuck) and balanced (it ends with nothing borrowed).

    Borrow sites of the crate (grep [borrow] in /repo/src):
    - adopt.rs 144/153/164, 225/234/245 : [adopt_bev], [unadopt_bev]
    - drop.rs 134 ([is_empty] probe)     : [probe_bev]
    - drop.rs 168/171/176 (drop_unreachable) : [drop_unreachable_plain_bev]
    - drop.rs 249 (drop_cycle, phase one) : [bust_bev]
    - drop.rs 370/374 (release_links)     : [release_links_bev]
    - drop.rs 420/426/440 (drop_unreachable_with_adoptions) : [drop_unreachable_bev]
    - cycle.rs 61 (cycle_refs)            : [trace_bev]
    Everything else (counters, Weak, [mem::replace] on the [MaybeUninit]
    fields, phases two and three of drop_cycle) does not go through the
    [RefCell] API. *)
From CR Require Import Base Atomic Machine LinksFacts HeapFacts Local.

(** ** Borrow events and the abstract [RefCell] state *)

Inductive bev :=
| BShr (o : oid)        (* [links.borrow()] on the table of [o] *)
| BMut (o : oid)        (* [links.borrow_mut()] *)
| BRelShr (o : oid)     (* a [Ref] guard is dropped *)
| BRelMut (o : oid).    (* a [RefMut] guard is dropped *)

Definition bev_obj (e : bev) : oid :=
  match e with BShr o | BMut o | BRelShr o | BRelMut o => o end.

(** the borrow flag of one [RefCell]: number of shared borrows, mutable flag *)
Definition cell := (nat * bool)%type.

(** one flag per allocation *)
Definition bstate := oid -> cell.

Definition quiescent0 : bstate := fun _ => (0, false).

(** nothing is borrowed *)
Definition quiescent (st : bstate) : Prop := forall o, st o = (0, false).

Definition bset (st : bstate) (o : oid) (c : cell) : bstate :=
  fun x => if Nat.eqb x o then c else st x.

(** [None] is the panic: [BMut] when shared > 0 or mut ("already borrowed"),
    [BShr] when mut ("already mutably borrowed"); releasing something that is
    not held is also an error (it cannot happen with guards, it makes
    "balanced" meaningful). *)
Definition bstep (st : bstate) (e : bev) : option bstate :=
  match e with
  | BShr o =>
      match st o with
      | (n, false) => Some (bset st o (S n, false))
      | _ => None
      end
  | BMut o =>
      match st o with
      | (O, false) => Some (bset st o (O, true))
      | _ => None
      end
  | BRelShr o =>
      match st o with
      | (S n, false) => Some (bset st o (n, false))
      | _ => None
      end
  | BRelMut o =>
      match st o with
      | (O, true) => Some (bset st o (O, false))
      | _ => None
      end
  end.

Fixpoint breplay (st : bstate) (l : list bev) : option bstate :=
  match l with
  | [] => Some st
  | e :: l' =>
      match bstep st e with
      | Some st1 => breplay st1 l'
      | None => None
      end
  end.

(** ** Basic facts *)

Lemma bset_same st o c : bset st o c o = c.
Proof. unfold bset. rewrite Nat.eqb_refl. reflexivity. Qed.

Lemma bset_other st o c x : x <> o -> bset st o c x = st x.
Proof. intros Hx. unfold bset. apply Nat.eqb_neq in Hx. rewrite Hx. reflexivity. Qed.

Lemma bstep_shr st o n :
  st o = (n, false) -> bstep st (BShr o) = Some (bset st o (S n, false)).
Proof. intros H. unfold bstep. rewrite H. reflexivity. Qed.

Lemma bstep_mut st o :
  st o = (0, false) -> bstep st (BMut o) = Some (bset st o (0, true)).
Proof. intros H. unfold bstep. rewrite H. reflexivity. Qed.

Lemma bstep_relshr st o n :
  st o = (S n, false) -> bstep st (BRelShr o) = Some (bset st o (n, false)).
Proof. intros H. unfold bstep. rewrite H. reflexivity. Qed.

Lemma bstep_relmut st o :
  st o = (0, true) -> bstep st (BRelMut o) = Some (bset st o (0, false)).
Proof. intros H. unfold bstep. rewrite H. reflexivity. Qed.

(** an event only changes the flag of its own object *)
Lemma bstep_other st e st' x :
  bstep st e = Some st' -> x <> bev_obj e -> st' x = st x.
Proof.
  intros H Hx. destruct e as [o|o|o|o]; cbn [bev_obj] in Hx; unfold bstep in H;
    destruct (st o) as [n m]; destruct n as [|n]; destruct m; try discriminate;
    injection H as <-; apply bset_other; exact Hx.
Qed.

Lemma breplay_cons st e l :
  breplay st (e :: l) =
  match bstep st e with Some st1 => breplay st1 l | None => None end.
Proof. reflexivity. Qed.

Lemma breplay_app st l1 l2 :
  breplay st (l1 ++ l2) =
  match breplay st l1 with Some st1 => breplay st1 l2 | None => None end.
Proof.
  revert st. induction l1 as [|e l1 IH]; intros st; [reflexivity|].
  cbn [app]. rewrite !breplay_cons. destruct (bstep st e) as [st1|]; [apply IH|reflexivity].
Qed.

(** a conflict anywhere makes the whole replay fail *)
Lemma breplay_app_none st l1 l2 : breplay st l1 = None -> breplay st (l1 ++ l2) = None.
Proof. intros H. rewrite breplay_app, H. reflexivity. Qed.

(** *** States are functions: everything is stated up to pointwise equality *)
Definition beq (s1 s2 : bstate) : Prop := forall o, s1 o = s2 o.

Lemma beq_refl s : beq s s.
Proof. intros o. reflexivity. Qed.

Lemma beq_sym s1 s2 : beq s1 s2 -> beq s2 s1.
Proof. intros H o. symmetry. apply H. Qed.

Lemma beq_trans s1 s2 s3 : beq s1 s2 -> beq s2 s3 -> beq s1 s3.
Proof. intros H1 H2 o. rewrite H1. apply H2. Qed.

Lemma beq_quiescent s1 s2 : beq s1 s2 -> quiescent s2 -> quiescent s1.
Proof. intros H Hq o. rewrite H. apply Hq. Qed.

Lemma quiescent_beq0 s : quiescent s <-> beq s quiescent0.
Proof. split; intros H o; apply H. Qed.

Definition obeq (a b : option bstate) : Prop :=
  match a, b with
  | Some x, Some y => beq x y
  | None, None => True
  | _, _ => False
  end.

Lemma bset_beq s1 s2 o c : beq s1 s2 -> beq (bset s1 o c) (bset s2 o c).
Proof. intros H x. unfold bset. destruct (Nat.eqb x o); [reflexivity|apply H]. Qed.

Lemma bstep_ext s1 s2 e : beq s1 s2 -> obeq (bstep s1 e) (bstep s2 e).
Proof.
  intros H. destruct e as [o|o|o|o]; unfold bstep; rewrite <- (H o);
    destruct (s1 o) as [n m]; destruct n as [|n]; destruct m; cbn [obeq];
    try exact I; apply bset_beq; exact H.
Qed.

Lemma breplay_ext l : forall s1 s2, beq s1 s2 -> obeq (breplay s1 l) (breplay s2 l).
Proof.
  induction l as [|e l IH]; intros s1 s2 H.
  - exact H.
  - rewrite !breplay_cons. pose proof (bstep_ext s1 s2 e H) as He.
    destruct (bstep s1 e) as [t1|], (bstep s2 e) as [t2|]; cbn [obeq] in He;
      try contradiction; [apply IH; exact He|exact I].
Qed.

(** ** Conflict free and balanced *)

(** from [st] the trace replays without panic and gives every borrow back *)
Definition safe_from (st : bstate) (l : list bev) : Prop :=
  exists st', breplay st l = Some st' /\ beq st' st.

(** the same from any state in which nothing is borrowed *)
Definition cfb (l : list bev) : Prop := forall st, quiescent st -> safe_from st l.

Lemma safe_from_ext s1 s2 l : beq s1 s2 -> safe_from s1 l -> safe_from s2 l.
Proof.
  intros H (t1 & Hr & Hb). pose proof (breplay_ext l s1 s2 H) as He. rewrite Hr in He.
  destruct (breplay s2 l) as [t2|] eqn:E2; cbn [obeq] in He; [|contradiction].
  exists t2. split; [exact E2|].
  apply beq_trans with t1; [apply beq_sym; exact He|].
  apply beq_trans with s1; [exact Hb|exact H].
Qed.

Lemma safe_nil st : safe_from st [].
Proof. exists st. split; [reflexivity|apply beq_refl]. Qed.

(** Composition (goal 2): balanced conflict-free traces can be sequenced. *)
Lemma safe_app st l1 l2 : safe_from st l1 -> safe_from st l2 -> safe_from st (l1 ++ l2).
Proof.
  intros (t1 & Hr1 & Hb1) H2.
  destruct (safe_from_ext st t1 l2 (beq_sym _ _ Hb1) H2) as (t2 & Hr2 & Hb2).
  exists t2. split.
  - rewrite breplay_app, Hr1. exact Hr2.
  - apply beq_trans with t1; assumption.
Qed.

Lemma safe_concat st ls : Forall (safe_from st) ls -> safe_from st (concat ls).
Proof.
  induction 1 as [|l ls Hl _ IH]; [apply safe_nil|]. cbn [concat]. apply safe_app; assumption.
Qed.

(** [borrow_mut(x)] ... release, while [x] is not borrowed *)
Lemma safe_mut_pair st x : st x = (0, false) -> safe_from st [BMut x; BRelMut x].
Proof.
  intros H. eexists. split.
  - rewrite breplay_cons, (bstep_mut _ _ H), breplay_cons, bstep_relmut by apply bset_same.
    reflexivity.
  - intros o. unfold bset. destruct (Nat.eqb o x) eqn:E; [|reflexivity].
    apply Nat.eqb_eq in E. subst o. symmetry. exact H.
Qed.

(** [let g = borrow(x); BODY; drop(g)]: the body runs with one more shared
    borrow of [x] *)
Lemma safe_shr_wrap st x n l :
  st x = (n, false) ->
  safe_from (bset st x (S n, false)) l ->
  safe_from st ([BShr x] ++ l ++ [BRelShr x]).
Proof.
  intros H (t & Hr & Hb). eexists. split.
  - cbn [app]. rewrite breplay_cons, (bstep_shr _ _ _ H), breplay_app, Hr.
    rewrite breplay_cons, (bstep_relshr t x n) by (rewrite Hb; apply bset_same).
    reflexivity.
  - intros o. unfold bset at 1. destruct (Nat.eqb o x) eqn:E.
    + apply Nat.eqb_eq in E. subst o. symmetry. exact H.
    + rewrite Hb. unfold bset. rewrite E. reflexivity.
Qed.

Lemma safe_shr_pair st x n : st x = (n, false) -> safe_from st [BShr x; BRelShr x].
Proof. intros H. apply (safe_shr_wrap st x n [] H). apply safe_nil. Qed.

Lemma cfb_nil : cfb [].
Proof. intros st _. apply safe_nil. Qed.

(** Composition for whole regions. *)
Lemma cfb_app l1 l2 : cfb l1 -> cfb l2 -> cfb (l1 ++ l2).
Proof. intros H1 H2 st Hq. apply safe_app; [apply H1|apply H2]; exact Hq. Qed.

Lemma cfb_concat ls : Forall cfb ls -> cfb (concat ls).
Proof.
  intros H st Hq. apply safe_concat. apply Forall_forall. intros l Hl.
  rewrite Forall_forall in H. apply (H l Hl st Hq).
Qed.

Lemma cfb_concat_map {A} (f : A -> list bev) (xs : list A) :
  (forall x, cfb (f x)) -> cfb (concat (map f xs)).
Proof.
  intros H. apply cfb_concat. apply Forall_forall. intros l Hl.
  apply in_map_iff in Hl. destruct Hl as (x & <- & _). apply H.
Qed.

Lemma cfb_mut_pair x : cfb [BMut x; BRelMut x].
Proof. intros st Hq. apply safe_mut_pair. apply Hq. Qed.

Lemma cfb_shr_pair x : cfb [BShr x; BRelShr x].
Proof. intros st Hq. apply (safe_shr_pair st x 0). apply Hq. Qed.

(** what [cfb] says in the terms of the task statement *)
Lemma cfb_replay l :
  cfb l -> exists st', breplay quiescent0 l = Some st' /\ quiescent st'.
Proof.
  intros H. destruct (H quiescent0) as (st' & Hr & Hb); [intros o; reflexivity|].
  exists st'. split; [exact Hr|]. apply quiescent_beq0. exact Hb.
Qed.

(** a conflict-free trace has no conflict in any of its prefixes either *)
Lemma cfb_prefix l1 l2 :
  cfb (l1 ++ l2) -> exists st', breplay quiescent0 l1 = Some st'.
Proof.
  intros H. destruct (cfb_replay _ H) as (st' & Hr & _). rewrite breplay_app in Hr.
  destruct (breplay quiescent0 l1) as [t|]; [exists t; reflexivity|discriminate].
Qed.

(** ** The event companions of the atomic functions *)

(** *** adopt.rs *)

(** [adopt_unchecked(this, other)]. Same handle object: one [borrow_mut(this)].
    Otherwise [borrow_mut(this)]; insert; [drop(links)] ("this and other may
    point to the same allocation"); [borrow_mut(other)]; insert; release. *)
Definition adopt_bev (same : bool) (a b : oid) : list bev :=
  if same then [BMut a; BRelMut a]
  else [BMut a; BRelMut a] ++ [BMut b; BRelMut b].

(** [unadopt]: the same with remove *)
Definition unadopt_bev (same : bool) (a b : oid) : list bev := adopt_bev same a b.

(** adopt never panics on a borrow, also when the two (distinct) handles point
    to the same allocation ([a = b]): the borrows are sequential, not nested *)
Theorem cfb_adopt_bev same a b : cfb (adopt_bev same a b).
Proof.
  unfold adopt_bev. destruct same; [apply cfb_mut_pair|].
  apply cfb_app; apply cfb_mut_pair.
Qed.

Theorem cfb_unadopt_bev same a b : cfb (unadopt_bev same a b).
Proof. apply cfb_adopt_bev. Qed.

(** *** drop.rs: the purge loop *)

(** mirrors [purge_loop]: entries naming [this] are skipped
    ([ptr::eq(this.inner(), item.as_ptr())]), every other entry takes
    [borrow_mut(item)] for the two removes and releases it *)
Fixpoint purge_bev (this : oid) (entries : table) : list bev :=
  match entries with
  | [] => []
  | ((x, _), _) :: rest =>
      if Nat.eqb x this then purge_bev this rest
      else [BMut x; BRelMut x] ++ purge_bev this rest
  end.

(** [release_links] (and the first half of drop_unreachable_with_adoptions):
    [for .. in links.borrow().iter()] holds the shared borrow of [this] during
    the WHOLE loop *)
Definition release_links_bev (this : oid) (t : table) : list bev :=
  [BShr this] ++ purge_bev this t ++ [BRelShr this].

Definition purge_peers_bev := release_links_bev.

(** [drop_unreachable_with_adoptions]: the loop, then [links.borrow_mut().clear()] *)
Definition drop_unreachable_bev (this : oid) (t : table) : list bev :=
  release_links_bev this t ++ [BMut this; BRelMut this].

(** The purge loop body is safe in ANY state in which only [this] may be
    borrowed: the skip test guarantees [x <> this] for every [BMut x]. *)
Lemma purge_safe this t : forall st,
  (forall x, x <> this -> st x = (0, false)) -> safe_from st (purge_bev this t).
Proof.
  induction t as [|[[x k] n] t IH]; intros st H; [apply safe_nil|].
  cbn [purge_bev]. destruct (Nat.eqb x this) eqn:E; [apply IH; exact H|].
  apply Nat.eqb_neq in E. apply safe_app; [|apply IH; exact H].
  apply safe_mut_pair. apply H. exact E.
Qed.

(** [release_links] never panics on a borrow, whatever the table contains. *)
Theorem cfb_release_links_bev this t : cfb (release_links_bev this t).
Proof.
  intros st Hq. unfold release_links_bev. apply (safe_shr_wrap st this 0); [apply Hq|].
  apply purge_safe. intros x Hx. rewrite bset_other by exact Hx. apply Hq.
Qed.

(** [drop_unreachable_with_adoptions] never panics on a borrow, whatever the
    table contains. *)
Theorem cfb_drop_unreachable_bev this t : cfb (drop_unreachable_bev this t).
Proof.
  unfold drop_unreachable_bev. apply cfb_app; [apply cfb_release_links_bev|apply cfb_mut_pair].
Qed.

(** *** drop.rs: [Rc::drop]'s probe and [drop_unreachable] *)

(** [self.inner().links().borrow().is_empty()]: a temporary *)
Definition probe_bev (o : oid) : list bev := [BShr o; BRelShr o].

(** [drop_unreachable]: [for (item, _) in links.borrow().iter()] and inside,
    for Forward and Loopback entries, [links.borrow_mut()] OF THE SAME TABLE.
    The body would always panic; the function is only called when the table is
    empty, so the body never runs. *)
Definition plain_body_bev (this : oid) (e : link * N) : list bev :=
  match snd (fst e) with
  | Fwd | Loop => [BMut this; BRelMut this]
  | Bwd => []
  end.

Definition drop_unreachable_plain_bev (this : oid) (t : table) : list bev :=
  [BShr this] ++ concat (map (plain_body_bev this) t) ++ [BRelShr this].

Theorem cfb_drop_unreachable_plain_bev this : cfb (drop_unreachable_plain_bev this []).
Proof. apply cfb_shr_pair. Qed.

(** *** cycle.rs: [cycle_refs] *)

(** for each node popped and not yet visited: [borrow(node)] held while its
    entries are iterated (no other borrow inside), released at the end *)
Definition trace_bev (visited_nodes : list oid) : list bev :=
  concat (map (fun n => [BShr n; BRelShr n]) visited_nodes).

Theorem cfb_trace_bev ns : cfb (trace_bev ns).
Proof. apply cfb_concat_map. intros n. apply cfb_shr_pair. Qed.

(** the nodes [trace_go] visits, in order (same recursion as [trace_go]) *)
Fixpoint trace_vis (fuel : nat) (h : heap) (disc vis : list oid) (own : omap) : list oid :=
  match fuel with
  | O => []
  | S f =>
      match disc with
      | [] => []
      | n :: rest =>
          if memb n vis then trace_vis f h rest vis own
          else
            match get_links h n with
            | Bad _ => []
            | Ok t =>
                let '(own', pushed) := visit_entries t own [] in
                n :: trace_vis f h (rev pushed ++ rest) (n :: vis) own'
            end
      end
  end.

Definition trace_nodes (h : heap) (o : oid) : list oid :=
  trace_vis (trace_fuel h) h [o] [] [].

(** sanity of the annotation: one [borrow()] per visit counted by the model *)
Lemma trace_vis_visits : forall f h disc vis own pops visits own' pops' visits',
  trace_go f h disc vis own pops visits = Ok (own', pops', visits') ->
  visits' = (visits + N.of_nat (length (trace_vis f h disc vis own)))%N.
Proof.
  induction f as [|f IH]; intros h disc vis own pops visits own' pops' visits' H;
    cbn [trace_go trace_vis] in *; [discriminate|].
  destruct disc as [|n rest].
  - injection H as _ _ <-. cbn [length]. lia.
  - destruct (memb n vis).
    + apply IH in H. exact H.
    + unfold bind in H. destruct (get_links h n) as [t|e]; [|discriminate].
      destruct (visit_entries t own []) as [own1 pushed].
      apply IH in H. rewrite H. cbn [length]. lia.
Qed.

Lemma trace_nodes_visits h o own pops visits :
  cycle_refs h o = Ok (own, pops, visits) ->
  visits = N.of_nat (length (trace_nodes h o)).
Proof.
  unfold cycle_refs, trace_nodes. intros H. apply trace_vis_visits in H. rewrite H. lia.
Qed.

(** *** drop.rs: [drop_cycle], phase one *)

(** for each key: [borrow_mut(key)] for [extract_if], released before the
    counter loop; phases two and three do not borrow *)
Definition bust_bev (keys : list oid) : list bev :=
  concat (map (fun k => [BMut k; BRelMut k]) keys).

Theorem cfb_bust_bev keys : cfb (bust_bev keys).
Proof. apply cfb_concat_map. intros k. apply cfb_mut_pair. Qed.

(** *** [Rc::drop]: the events along the branches of [drop_strong] *)
Definition drop_strong_bev (pri : list oid) (s : state) (o : oid) : list bev :=
  let h := heap_of s in
  match getb h o with
  | Bad _ => []
  | Ok b =>
      match strong b with
      | Uninit => []                              (* is_dead: return *)
      | Cnt n =>
          if (n =? 0)%N then []                   (* is_dead: return *)
          else
            let n' := (n - 1)%N in
            let h1 := setb h o (with_strong b (Cnt n')) in
            match get_links h1 o with
            | Bad _ => []
            | Ok t =>
                probe_bev o ++
                match t with
                | [] =>
                    if (n' =? 0)%N then drop_unreachable_plain_bev o t else []
                | _ :: _ =>
                    if (n' =? 0)%N then drop_unreachable_bev o t
                    else
                      trace_bev (trace_nodes h1 o) ++
                      match orphaned_cycle h1 o with
                      | Ok (Some cyc, _, _) => bust_bev (map fst (order_cycle pri cyc))
                      | _ => []
                      end
                end
            end
      end
  end.

(** [Rc::drop] up to the point where it calls the first destructor (or
    returns) never panics on a borrow and holds none at that point. *)
Theorem cfb_drop_strong_bev pri s o : cfb (drop_strong_bev pri s o).
Proof.
  unfold drop_strong_bev.
  destruct (getb (heap_of s) o) as [b|e]; [|apply cfb_nil].
  destruct (strong b) as [n|]; [|apply cfb_nil].
  destruct (n =? 0)%N; [apply cfb_nil|].
  destruct (get_links _ o) as [t|e]; [|apply cfb_nil].
  apply cfb_app; [apply cfb_shr_pair|].
  destruct t as [|e0 t].
  - destruct (n - 1 =? 0)%N; [apply cfb_drop_unreachable_plain_bev|apply cfb_nil].
  - destruct (n - 1 =? 0)%N; [apply cfb_drop_unreachable_bev|].
    apply cfb_app; [apply cfb_trace_bev|].
    destruct (orphaned_cycle _ o) as [[[[cyc|] pops] visits]|e]; try apply cfb_nil.
    apply cfb_bust_bev.
Qed.

(** *** The script actions *)

(** [release_links(this)] as called by [try_unwrap] / [make_mut] on heap [h] *)
Definition release_links_of (h : heap) (o : oid) : list bev :=
  match get_links h o with
  | Ok t => release_links_bev o t
  | Bad _ => []
  end.

Lemma cfb_release_links_of h o : cfb (release_links_of h o).
Proof.
  unfold release_links_of. destruct (get_links h o) as [t|e];
    [apply cfb_release_links_bev|apply cfb_nil].
Qed.

(** events of [exec_act]; only adopt, unadopt, try_unwrap and the "steal"
    branch of make_mut touch a table *)
Definition act_bev (s : state) (self : option payload) (a : act) : list bev :=
  let h := heap_of s in
  match a with
  | AAdopt h1 h2 =>
      match resolve_strong s self h1, resolve_strong s self h2 with
      | Some (a, l1), Some (b, l2) => adopt_bev (hloc_eqb l1 l2) a b
      | _, _ => []
      end
  | AUnadopt h1 h2 =>
      match resolve_strong s self h1, resolve_strong s self h2 with
      | Some (a, l1), Some (b, l2) => unadopt_bev (hloc_eqb l1 l2) a b
      | _, _ => []
      end
  | ATryUnwrap r dst =>
      match reg_get s r with
      | RStrong o =>
          if reg_free s dst then
            match getb h o with
            | Bad _ => []
            | Ok b =>
                match strong b with
                | Cnt 1%N => release_links_of h o
                | _ => []
                end
            end
          else []
      | _ => []
      end
  | AMakeMut r =>
      match reg_get s r with
      | RStrong o =>
          match getb h o with
          | Bad _ => []
          | Ok b =>
              let o' := length h in
              match strong b with
              | Cnt 1%N =>
                  if (weak b =? 0)%N then []
                  else if (weak b =? 1)%N then []
                  else
                    match value b with
                    | None => []
                    | Some p =>
                        let p' := {| pid := o'; slots := slots p; script := script p |} in
                        let h1 := setb h o (with_value b None) ++ [new_box p'] in
                        release_links_of h1 o
                    end
              | _ => []       (* clone branch: counters only, then FDropStrong *)
              end
          end
      | _ => []
      end
  | _ => []
  end.

(** No script action (in particular adopt, unadopt, try_unwrap, make_mut)
    panics on a borrow or returns with a borrow held. *)
Theorem cfb_act_bev s self a : cfb (act_bev s self a).
Proof.
  unfold act_bev. destruct a; try exact cfb_nil;
    repeat match goal with
           | |- cfb (match ?x with _ => _ end) => destruct x
           end;
    first [exact cfb_nil | apply cfb_adopt_bev | apply cfb_unadopt_bev
          | apply cfb_release_links_of].
Qed.

(** ** The machine *)

(** events of the atomic region of one machine step. Only [FDropStrong]
    ([Rc::drop]) and the execution of a script action touch a table:
    [FAfterValue] and [FInners]/[FTableDrop] move tables out with
    [mem::replace] on the [MaybeUninit], [FFinishGroup] and the Weak drops of
    [FDropSlots] touch counters only. *)
Definition step_bev (pri : list oid) (c : config) : list bev :=
  match stack c with
  | FDropStrong o :: _ => drop_strong_bev pri (st c) o
  | FRunDtor p (a :: _) :: _ => act_bev (st c) (Some p) a
  | _ => []
  end.

Lemma cfb_step_bev pri c : cfb (step_bev pri c).
Proof.
  unfold step_bev. destruct (stack c) as [|f k]; [apply cfb_nil|].
  destruct f; try apply cfb_nil; [apply cfb_drop_strong_bev|].
  destruct pc as [|a pc]; [apply cfb_nil|apply cfb_act_bev].
Qed.

(** MAIN THEOREM (C10, borrow part). The borrow events of the atomic region of
    any machine step replay without conflict from the state "nothing
    borrowed" and end in a state where nothing is borrowed.  So the library
    never raises "already borrowed" / "already mutably borrowed" inside a
    region, and NO borrow is held when the step returns, which is the only
    moment user code (the frames [FDtorStart] / [FRunDtor]) can run: a
    destructor that re-enters adopt / unadopt / drop finds every table
    unborrowed. *)
Theorem no_borrow_across_user_code : forall pri c,
  exists st', breplay quiescent0 (step_bev pri c) = Some st' /\ quiescent st'.
Proof. intros pri c. apply cfb_replay. apply cfb_step_bev. Qed.

(** the frames at which a destructor starts or ends perform no borrow event
    themselves: what the user's destructor body does is made of script
    actions, each of which is an atomic region covered by [act_bev] *)
Lemma step_bev_dtor_start pri s p k u :
  step_bev pri {| st := s; stack := FDtorStart p :: k; unw := u |} = [].
Proof. reflexivity. Qed.

Lemma step_bev_dtor_end pri s p k u :
  step_bev pri {| st := s; stack := FRunDtor p [] :: k; unw := u |} = [].
Proof. reflexivity. Qed.

(** *** Whole runs and whole calls *)

(** all borrow events of a run, in order *)
Fixpoint run_bev (pri : list oid) (fuel : nat) (c : config) : list bev :=
  match fuel with
  | O => []
  | S f =>
      step_bev pri c ++
      match step pri c with
      | Running c' => run_bev pri f c'
      | _ => []
      end
  end.

Lemma cfb_run_bev pri fuel : forall c, cfb (run_bev pri fuel c).
Proof.
  induction fuel as [|f IH]; intros c; [apply cfb_nil|].
  cbn [run_bev]. apply cfb_app; [apply cfb_step_bev|].
  destruct (step pri c) as [c'| |]; [apply IH|apply cfb_nil|apply cfb_nil].
Qed.

(** events of a top-level call: its own atomic region, then everything the
    destructors it triggers do *)
Definition op_bev (pri : list oid) (fuel : nat) (s : state) (o : op) : list bev :=
  match o with
  | OAct a =>
      act_bev s None a ++
      match exec_act s None a with
      | AO s1 _ _ push => run_bev pri fuel {| st := s1; stack := push; unw := false |}
      | _ => []
      end
  | ONewS dst sc =>
      match exec_new s None dst sc with
      | AO s1 _ _ push => run_bev pri fuel {| st := s1; stack := push; unw := false |}
      | _ => []
      end
  end.

Lemma cfb_op_bev pri fuel s o : cfb (op_bev pri fuel s o).
Proof.
  unfold op_bev. destruct o as [a|dst sc].
  - apply cfb_app; [apply cfb_act_bev|].
    destruct (exec_act s None a); [apply cfb_run_bev|apply cfb_nil|apply cfb_nil].
  - destruct (exec_new s None dst sc); [apply cfb_run_bev|apply cfb_nil|apply cfb_nil].
Qed.

(** The whole event sequence of a top-level call, nested destructors and
    nested drops included, is conflict free and balanced; and so is each of
    its prefixes that ends at a step boundary (take a smaller [fuel]). *)
Theorem no_borrow_conflict_in_call : forall pri fuel s o,
  exists st', breplay quiescent0 (op_bev pri fuel s o) = Some st' /\ quiescent st'.
Proof. intros pri fuel s o. apply cfb_replay. apply cfb_op_bev. Qed.

(** events of a history *)
Fixpoint history_bev (fuel : nat) (s : state) (h : list (op * list oid)) : list bev :=
  match h with
  | [] => []
  | (o, pri) :: h' =>
      op_bev pri fuel s o ++
      let '(s1, r) := exec_op pri fuel s o in
      match r with
      | OHalt _ | OFuel => []
      | _ => history_bev fuel s1 h'
      end
  end.

Theorem no_borrow_conflict_in_history : forall fuel h s,
  exists st', breplay quiescent0 (history_bev fuel s h) = Some st' /\ quiescent st'.
Proof.
  intros fuel h s. apply cfb_replay. revert s.
  induction h as [|[o pri] h IH]; intros s; [apply cfb_nil|].
  cbn [history_bev]. apply cfb_app; [apply cfb_op_bev|].
  destruct (exec_op pri fuel s o) as [s1 r].
  destruct r; first [apply IH | apply cfb_nil].
Qed.

(** ** Faithfulness of the annotation: tables are written under [borrow_mut]

    The companions are not derived from the model, so we check the other
    direction on the functions that write tables: an allocation for which the
    companion has NO [BMut] event is left untouched by the model function.  In
    other words every table write of adopt / unadopt / the purge loop / phase
    one of drop_cycle is covered by a [borrow_mut] of that very table. *)

Lemma links_insert_frame h o l h' x :
  links_insert h o l = Ok h' -> x <> o -> nth_error h' x = nth_error h x.
Proof.
  unfold links_insert, bind. destruct (getb h o) as [b|]; [|discriminate].
  destruct (links b) as [t|]; [|discriminate]. intros H Hx. injection H as <-.
  unfold setb. apply nth_error_upd_other. intros Hc. apply Hx. symmetry. exact Hc.
Qed.

Lemma links_remove_frame h o l n h' x :
  links_remove h o l n = Ok h' -> x <> o -> nth_error h' x = nth_error h x.
Proof.
  unfold links_remove, get_links, set_links, bind.
  destruct (getb h o) as [b|]; [|discriminate].
  destruct (links b) as [t|]; [|discriminate]. intros H Hx. injection H as <-.
  unfold setb. apply nth_error_upd_other. intros Hc. apply Hx. symmetry. exact Hc.
Qed.

Theorem adopt_writes_under_mut h same a b h' x :
  adopt h same a b = Ok h' ->
  ~ In (BMut x) (adopt_bev same a b) -> nth_error h' x = nth_error h x.
Proof.
  unfold adopt, adopt_bev, bind. destruct same; intros H Hn.
  - apply (links_insert_frame _ _ _ _ _ H). intros ->. apply Hn. left. reflexivity.
  - destruct (links_insert h a (b, Fwd)) as [h1|] eqn:E1; [|discriminate].
    rewrite (links_insert_frame _ _ _ _ _ H), (links_insert_frame _ _ _ _ _ E1);
      [reflexivity| |]; intros ->; apply Hn; cbn [app In]; auto.
Qed.

Theorem unadopt_writes_under_mut h same a b h' x :
  unadopt h same a b = Ok h' ->
  ~ In (BMut x) (unadopt_bev same a b) -> nth_error h' x = nth_error h x.
Proof.
  unfold unadopt, unadopt_bev, adopt_bev, bind. destruct same; intros H Hn.
  - apply (links_remove_frame _ _ _ _ _ _ H). intros ->. apply Hn. left. reflexivity.
  - destruct (links_remove h a (b, Fwd) 1) as [h1|] eqn:E1; [|discriminate].
    rewrite (links_remove_frame _ _ _ _ _ _ H), (links_remove_frame _ _ _ _ _ _ E1);
      [reflexivity| |]; intros ->; apply Hn; cbn [app In]; auto.
Qed.

Theorem purge_loop_writes_under_mut this t x : forall h h',
  purge_loop h this t = Ok h' ->
  ~ In (BMut x) (purge_bev this t) -> nth_error h' x = nth_error h x.
Proof.
  induction t as [|[[y k] n] t IH]; intros h h' H Hn; cbn [purge_loop purge_bev] in *.
  - injection H as <-. reflexivity.
  - destruct (Nat.eqb y this); [apply (IH _ _ H Hn)|].
    unfold bind in H.
    destruct (links_remove h y (this, Fwd) n) as [h1|] eqn:E1; [|discriminate].
    destruct (links_remove h1 y (this, Bwd) n) as [h2|] eqn:E2; [|discriminate].
    assert (Hxy : x <> y) by (intros ->; apply Hn; left; reflexivity).
    rewrite (IH _ _ H) by (intros Hc; apply Hn; cbn [app In]; auto).
    rewrite (links_remove_frame _ _ _ _ _ _ E2 Hxy).
    apply (links_remove_frame _ _ _ _ _ _ E1 Hxy).
Qed.

Lemma bust_one_frame h keys k c h' x :
  bust_one h keys k c = Ok h' -> x <> k -> nth_error h' x = nth_error h x.
Proof.
  unfold bust_one, bind. destruct (getb h k) as [b|]; [|discriminate].
  destruct (links b) as [t|]; [|discriminate]. cbn [strong with_links].
  destruct (strong b) as [n|]; [|discriminate]. intros H Hx. injection H as <-.
  unfold setb. apply nth_error_upd_other. intros Hc. apply Hx. symmetry. exact Hc.
Qed.

Theorem bust_all_writes_under_mut keys cyc x : forall h h',
  bust_all h keys cyc = Ok h' ->
  ~ In (BMut x) (bust_bev (map fst cyc)) -> nth_error h' x = nth_error h x.
Proof.
  induction cyc as [|[k c] cyc IH]; intros h h' H Hn; cbn [bust_all] in H.
  - injection H as <-. reflexivity.
  - unfold bind in H. destruct (bust_one h keys k c) as [h1|] eqn:E1; [|discriminate].
    unfold bust_bev in Hn. cbn [map concat fst app] in Hn.
    rewrite (IH _ _ H) by (intros Hc; apply Hn; cbn [In]; auto).
    apply (bust_one_frame _ _ _ _ _ _ E1). intros ->. apply Hn. left. reflexivity.
Qed.

(** the [clear()] of drop_unreachable_with_adoptions ([set_links h o []] in
    [drop_strong]) is covered as well *)
Lemma drop_unreachable_bev_has_mut this t : In (BMut this) (drop_unreachable_bev this t).
Proof. unfold drop_unreachable_bev. apply in_or_app. right. left. reflexivity. Qed.

(** ** Negative controls: the definitions have teeth *)

(** the purge loop WITHOUT the [ptr::eq(this.inner(), item.as_ptr())] test *)
Fixpoint purge_bev_noskip (this : oid) (entries : table) : list bev :=
  match entries with
  | [] => []
  | ((x, _), _) :: rest => [BMut x; BRelMut x] ++ purge_bev_noskip this rest
  end.

Definition release_links_bev_noskip (this : oid) (t : table) : list bev :=
  [BShr this] ++ purge_bev_noskip this t ++ [BRelShr this].

Lemma purge_noskip_stuck this k n t : forall st m rest,
  st this = (S m, false) ->
  In ((this, k), n) t ->
  breplay st (purge_bev_noskip this t ++ rest) = None.
Proof.
  induction t as [|[[x k'] n'] t IH]; intros st m rest Hst Hin; [contradiction|].
  cbn [purge_bev_noskip app]. rewrite breplay_cons.
  destruct (Nat.eq_dec x this) as [->|Hx].
  - unfold bstep. rewrite Hst. reflexivity.
  - destruct Hin as [Heq|Hin]; [injection Heq as -> _ _; contradiction|].
    destruct (bstep st (BMut x)) as [st1|] eqn:E1; [|reflexivity].
    rewrite breplay_cons.
    destruct (bstep st1 (BRelMut x)) as [st2|] eqn:E2; [|reflexivity].
    apply (IH st2 m rest); [|exact Hin].
    rewrite (bstep_other _ _ _ this E2), (bstep_other _ _ _ this E1);
      [exact Hst| |]; cbn [bev_obj]; intros Hc; apply Hx; symmetry; exact Hc.
Qed.

(** Without the skip test the loop panics ("already borrowed") as soon as the
    table of [this] has an entry naming [this] (a self adoption through two
    handles, or a Loopback entry): the skip test is what avoids the panic. *)
Theorem noskip_panics this k n t :
  In ((this, k), n) t ->
  breplay quiescent0 (release_links_bev_noskip this t) = None.
Proof.
  intros Hin. unfold release_links_bev_noskip. cbn [app]. rewrite breplay_cons.
  rewrite (bstep_shr quiescent0 this 0) by reflexivity.
  apply (purge_noskip_stuck this k n t _ 0); [apply bset_same|exact Hin].
Qed.

(** the smallest instance, by computation *)
Example noskip_panics_example :
  breplay quiescent0 (release_links_bev_noskip 0 [((0, Fwd), 1%N)]) = None.
Proof. reflexivity. Qed.

(** ... whereas the real loop is fine on the same table *)
Example skip_ok_example :
  exists st', breplay quiescent0 (release_links_bev 0 [((0, Fwd), 1%N)]) = Some st'
              /\ quiescent st'.
Proof. apply cfb_replay. apply cfb_release_links_bev. Qed.

(** [adopt_unchecked] WITHOUT the explicit [drop(links)]: the second
    [borrow_mut] nested inside the first *)
Definition adopt_bev_nested (a b : oid) : list bev :=
  [BMut a; BMut b; BRelMut b; BRelMut a].

(** it panics exactly when the two handles point to the same allocation *)
Theorem adopt_nested_panics a : breplay quiescent0 (adopt_bev_nested a a) = None.
Proof.
  unfold adopt_bev_nested. rewrite breplay_cons, (bstep_mut quiescent0 a) by reflexivity.
  rewrite breplay_cons. unfold bstep. rewrite bset_same. reflexivity.
Qed.

Theorem adopt_nested_ok a b : a <> b -> cfb (adopt_bev_nested a b).
Proof.
  intros Hab st Hq. unfold adopt_bev_nested. eexists. split.
  - rewrite breplay_cons, (bstep_mut st a) by apply Hq.
    rewrite breplay_cons, bstep_mut
      by (rewrite bset_other by (intros Hc; apply Hab; symmetry; exact Hc); apply Hq).
    rewrite breplay_cons, bstep_relmut by apply bset_same.
    rewrite breplay_cons, bstep_relmut
      by (rewrite !bset_other by (intros Hc; apply Hab; exact Hc); apply bset_same).
    reflexivity.
  - intros o. unfold bset.
    destruct (Nat.eqb o a) eqn:Ea.
    + apply Nat.eqb_eq in Ea. subst o. symmetry. apply Hq.
    + destruct (Nat.eqb o b) eqn:Eb; [|reflexivity].
      apply Nat.eqb_eq in Eb. subst o. symmetry. apply Hq.
Qed.

(** [drop_unreachable] takes [borrow_mut] of the table it is iterating: it is
    safe only because [Rc::drop] calls it on an EMPTY table (the [[]] branch
    of [drop_strong]); with any Forward or Loopback entry it would panic. *)
Theorem drop_unreachable_plain_panics this x k n t :
  k <> Bwd ->
  breplay quiescent0 (drop_unreachable_plain_bev this (((x, k), n) :: t)) = None.
Proof.
  intros Hk. unfold drop_unreachable_plain_bev. cbn [app]. rewrite breplay_cons.
  rewrite (bstep_shr quiescent0 this 0) by reflexivity.
  cbn [map concat]. unfold plain_body_bev at 1. cbn [fst snd].
  destruct k; try (exfalso; apply Hk; reflexivity);
    cbn [app]; rewrite breplay_cons; unfold bstep; rewrite bset_same; reflexivity.
Qed.
