(** * cycle.rs: the worklist trace computes the forward closure of its start
    under recorded Forward links, visits each member exactly once, and returns
    for every target the sum of the Forward counts held by the closure. *)
From CR Require Import Base Atomic LinksFacts HeapFacts.
Local Open Scope N_scope.

Lemma memb_In n l : memb n l = true <-> In n l.
Proof.
  induction l as [|x l IH]; cbn [memb In].
  - split; [discriminate | tauto].
  - rewrite orb_true_iff, IH, Nat.eqb_eq. split; intros [H|H]; auto.
Qed.

Lemma memb_false n l : memb n l = false <-> ~ In n l.
Proof. rewrite <- memb_In. destruct (memb n l); split; congruence. Qed.

(** ** the result map *)
Lemma own_get_add m k c y :
  own_get (own_add m k c) y = own_get m y + (if Nat.eqb y k then c else 0).
Proof.
  induction m as [|[k' c'] m IH]; cbn [own_add own_get].
  - destruct (Nat.eqb y k); lia.
  - destruct (Nat.eqb_spec k k') as [<-|Hne]; cbn [own_get].
    + destruct (Nat.eqb y k); lia.
    + destruct (Nat.eqb_spec y k') as [->|Hne'].
      * destruct (Nat.eqb_spec k' k); [congruence|lia].
      * apply IH.
Qed.

Lemma own_has_add m k c y : own_has (own_add m k c) y = own_has m y || Nat.eqb y k.
Proof.
  induction m as [|[k' c'] m IH]; cbn [own_add own_has].
  - rewrite orb_false_r. reflexivity.
  - destruct (Nat.eqb_spec k k') as [<-|Hne]; cbn [own_has].
    + destruct (Nat.eqb y k), (own_has m y); reflexivity.
    + rewrite IH. rewrite orb_assoc. reflexivity.
Qed.

Lemma own_get_app_zero m k y : own_get (m ++ [(k, 0)]) y = own_get m y.
Proof.
  induction m as [|[k' c'] m IH]; cbn [app own_get].
  - destruct (Nat.eqb y k); reflexivity.
  - destruct (Nat.eqb y k'); auto.
Qed.

Lemma own_has_app m k c y : own_has (m ++ [(k, c)]) y = own_has m y || Nat.eqb y k.
Proof.
  induction m as [|[k' c'] m IH]; cbn [app own_has].
  - rewrite orb_false_r. reflexivity.
  - rewrite IH, orb_assoc. reflexivity.
Qed.

Lemma own_get_dflt m k y : own_get (own_dflt m k) y = own_get m y.
Proof. unfold own_dflt. destruct (own_has m k); auto using own_get_app_zero. Qed.

Lemma own_has_dflt m k y : own_has (own_dflt m k) y = own_has m y || Nat.eqb y k.
Proof.
  unfold own_dflt. destruct (own_has m k) eqn:E.
  - destruct (Nat.eqb_spec y k) as [->|]; [rewrite E|rewrite orb_false_r]; reflexivity.
  - apply own_has_app.
Qed.

Lemma own_has_keys m y : own_has m y = true <-> In y (map fst m).
Proof.
  induction m as [|[k c] m IH]; cbn [own_has map fst In]; [split; [discriminate|tauto]|].
  rewrite orb_true_iff, Nat.eqb_eq, IH. split; intros [H|H]; auto.
Qed.

Lemma own_add_nodup m k c : NoDup (map fst m) -> NoDup (map fst (own_add m k c)).
Proof.
  induction m as [|[k' c'] m IH]; cbn [own_add map fst]; intros H.
  - constructor; [intros []|constructor].
  - inversion H as [|? ? Hn Hnd]; subst. destruct (Nat.eqb_spec k k') as [<-|Hne]; cbn [map fst].
    + constructor; assumption.
    + constructor; [|apply IH; exact Hnd]. intros Hin. apply own_has_keys in Hin.
      rewrite own_has_add in Hin. apply orb_true_iff in Hin as [Hin|Hin].
      * apply own_has_keys in Hin. contradiction.
      * apply Nat.eqb_eq in Hin. congruence.
Qed.

Lemma NoDup_snoc {A} (l : list A) x : NoDup l -> ~ In x l -> NoDup (l ++ [x]).
Proof.
  induction l as [|a l IH]; cbn [app]; intros Hnd Hn.
  - constructor; [intros []|constructor].
  - inversion Hnd as [|? ? Ha Hl]; subst. constructor.
    + intros Hin. apply in_app_or in Hin as [Hin|[->|[]]]; [contradiction|]. apply Hn. now left.
    + apply IH; [exact Hl|]. intros Hin. apply Hn. now right.
Qed.

Lemma own_dflt_nodup m k : NoDup (map fst m) -> NoDup (map fst (own_dflt m k)).
Proof.
  unfold own_dflt. destruct (own_has m k) eqn:E; intros H; [exact H|].
  rewrite map_app. cbn [map fst]. apply NoDup_snoc; [exact H|].
  intros Hin. apply own_has_keys in Hin. congruence.
Qed.

(** ** one visited node *)

(** the Forward count a table records for target [y], entry by entry *)
Fixpoint cntF (t : table) (y : oid) : N :=
  match t with
  | [] => 0
  | ((x, Fwd), c) :: t' => (if Nat.eqb y x then c else 0) + cntF t' y
  | _ :: t' => cntF t' y
  end.

Fixpoint fwd_targets (t : table) : list oid :=
  match t with
  | [] => []
  | ((x, Fwd), _) :: t' => x :: fwd_targets t'
  | _ :: t' => fwd_targets t'
  end.

Fixpoint bwd_targets (t : table) : list oid :=
  match t with
  | [] => []
  | ((x, Bwd), _) :: t' => x :: bwd_targets t'
  | _ :: t' => bwd_targets t'
  end.

Lemma cntF_get t y : tbl_wf t -> cntF t y = tbl_get t (y, Fwd).
Proof.
  intros [Hnd _]. induction t as [|[[x k] c] t IH]; cbn [cntF tbl_get]; [reflexivity|].
  inversion Hnd as [|? ? Hn Hnd']; subst. specialize (IH Hnd').
  unfold link_eqb; cbn [fst snd]. destruct k; cbn [kind_eqb]; rewrite ?andb_false_r, ?andb_true_r; auto.
  destruct (Nat.eqb_spec y x) as [->|Hne]; [|lia].
  rewrite IH. rewrite (tbl_get_notin t (x, Fwd)); [lia|exact Hn].
Qed.

Lemma fwd_targets_keys t y : In y (fwd_targets t) <-> In (y, Fwd) (keys t).
Proof.
  induction t as [|[[x k] c] t IH]; cbn [fwd_targets keys map fst In]; [tauto|].
  fold (keys t). destruct k; cbn [In]; rewrite IH; intuition congruence.
Qed.

Lemma bwd_targets_keys t y : In y (bwd_targets t) <-> In (y, Bwd) (keys t).
Proof.
  induction t as [|[[x k] c] t IH]; cbn [bwd_targets keys map fst In]; [tauto|].
  fold (keys t). destruct k; cbn [In]; rewrite IH; intuition congruence.
Qed.

Lemma fwd_targets_length t : (length (fwd_targets t) <= length t)%nat.
Proof. induction t as [|[[x []] c] t IH]; cbn [fwd_targets length]; lia. Qed.

Lemma visit_entries_spec t : forall own pushed own' pushed',
  visit_entries t own pushed = (own', pushed') ->
  pushed' = pushed ++ fwd_targets t /\
  (forall y, own_get own' y = own_get own y + cntF t y) /\
  (forall y, own_has own' y = own_has own y || memb y (fwd_targets t) || memb y (bwd_targets t)) /\
  (NoDup (map fst own) -> NoDup (map fst own')).
Proof.
  induction t as [|[[x k] c] t IH]; intros own pushed own' pushed'; cbn [visit_entries].
  - intros H; injection H as <- <-. cbn [fwd_targets bwd_targets cntF memb].
    rewrite app_nil_r. repeat split; auto; intros; rewrite ?orb_false_r; try reflexivity; lia.
  - destruct k.
    + intros H. apply IH in H as (-> & H2 & H3 & H4). cbn [fwd_targets bwd_targets cntF memb].
      rewrite <- app_assoc. cbn [app]. repeat split.
      * intros y. rewrite H2, own_get_add. lia.
      * intros y. rewrite H3, own_has_add.
        destruct (own_has own y), (Nat.eqb y x), (memb y (fwd_targets t)); reflexivity.
      * intros Hnd. apply H4. apply own_add_nodup; exact Hnd.
    + intros H. apply IH in H as (-> & H2 & H3 & H4). cbn [fwd_targets bwd_targets cntF memb].
      repeat split.
      * intros y. rewrite H2, own_get_dflt. reflexivity.
      * intros y. rewrite H3, own_has_dflt.
        destruct (own_has own y), (Nat.eqb y x), (memb y (fwd_targets t)), (memb y (bwd_targets t)); reflexivity.
      * intros Hnd. apply H4. apply own_dflt_nodup; exact Hnd.
    + intros H. apply IH in H as (-> & H2 & H3 & H4). cbn [fwd_targets bwd_targets cntF memb].
      repeat split; auto.
Qed.

(** ** the worklist loop *)
Definition tbl_of (h : heap) (o : oid) : table :=
  match nth_error h o with Some b => btable b | None => [] end.

Definition edge (h : heap) (x y : oid) : Prop := In y (fwd_targets (tbl_of h x)).

Inductive reach (h : heap) (a : oid) : oid -> Prop :=
| reach_refl : reach h a a
| reach_step : forall x y, reach h a x -> edge h x y -> reach h a y.

Fixpoint sumN (l : list N) : N :=
  match l with [] => 0 | x :: l' => x + sumN l' end.

Definition linked (h : heap) (x y : oid) : Prop :=
  In y (fwd_targets (tbl_of h x)) \/ In y (bwd_targets (tbl_of h x)).

Record tinv (h : heap) (a : oid) (disc vis : list oid) (own : omap) (pops visits : N) : Prop := {
  ti_vis_reach : forall x, In x vis -> reach h a x;
  ti_disc_reach : forall x, In x disc -> reach h a x;
  ti_closed : forall x y, In x vis -> edge h x y -> In y vis \/ In y disc;
  ti_start : In a vis \/ In a disc;
  ti_nodup : NoDup vis;
  ti_sum : forall y, own_get own y = sumN (map (fun x => cntF (tbl_of h x) y) vis);
  ti_keys : forall y, own_has own y = true <-> exists x, In x vis /\ linked h x y;
  ti_own_nodup : NoDup (map fst own);
  ti_visits : visits = N.of_nat (length vis);
  ti_pops : (pops + N.of_nat (length disc) =
             1 + sumN (map (fun x => N.of_nat (length (fwd_targets (tbl_of h x)))) vis))%N;
}.

Lemma tinv_init h a : tinv h a [a] [] [] 0 0.
Proof.
  constructor.
  - intros x [].
  - intros x [<-|[]]. constructor.
  - intros x y [].
  - right; now left.
  - constructor.
  - intros y. reflexivity.
  - intros y. cbn. split; [discriminate|]. intros (x & [] & _).
  - constructor.
  - reflexivity.
  - reflexivity.
Qed.

Lemma tinv_skip h a n rest vis own pops visits :
  tinv h a (n :: rest) vis own pops visits -> In n vis ->
  tinv h a rest vis own (pops + 1) visits.
Proof.
  intros [H1 H2 H3 H4 H5 H6 H7 H8 H9 H10] Hn. split; auto.
  - intros x Hx. apply H2. now right.
  - intros x y Hx Hxy. destruct (H3 x y Hx Hxy) as [Hy|[<-|Hy]]; auto.
  - destruct H4 as [H4|[<-|H4]]; auto.
  - cbn [length] in H10. lia.
Qed.

Lemma get_links_tbl_of h n t : get_links h n = Ok t -> tbl_of h n = t.
Proof.
  unfold get_links, bind, tbl_of. destruct (getb h n) as [b|] eqn:G; [|discriminate].
  apply getb_ok in G as [-> _]. unfold btable. destruct (links b); [|discriminate].
  intros H; injection H as ->. reflexivity.
Qed.

Lemma tinv_visit h a n rest vis own pops visits t own' pushed :
  tinv h a (n :: rest) vis own pops visits -> ~ In n vis ->
  get_links h n = Ok t -> visit_entries t own [] = (own', pushed) ->
  tinv h a (rev pushed ++ rest) (n :: vis) own' (pops + 1) (visits + 1).
Proof.
  intros [H1 H2 H3 H4 H5 H6 H7 H8 H9 H10] Hn Hg Hv.
  apply get_links_tbl_of in Hg. apply visit_entries_spec in Hv as (Hp & Hs & Hk & Hnd).
  cbn [app] in Hp. subst pushed. split.
  - intros x [<-|Hx]; auto. apply H2. now left.
  - intros x Hx. apply in_app_or in Hx as [Hx|Hx].
    + apply in_rev in Hx. eapply reach_step; [apply H2; now left|]. unfold edge. rewrite Hg. exact Hx.
    + apply H2. now right.
  - intros x y [<-|Hx] Hxy.
    + right. apply in_or_app. left. apply in_rev. rewrite rev_involutive.
      unfold edge in Hxy. rewrite Hg in Hxy. exact Hxy.
    + destruct (H3 x y Hx Hxy) as [Hy|[<-|Hy]].
      * left; now right.
      * left; now left.
      * right. apply in_or_app. now right.
  - destruct H4 as [H4|[<-|H4]].
    + left; now right.
    + left; now left.
    + right. apply in_or_app. now right.
  - constructor; auto.
  - intros y. rewrite Hs, H6. cbn [map sumN]. rewrite Hg. lia.
  - intros y. rewrite Hk. rewrite !orb_true_iff, H7, !memb_In. split.
    + intros [[(x & Hx & Hl)|Hf]|Hb].
      * exists x. split; [now right|exact Hl].
      * exists n. split; [now left|]. left. rewrite Hg. exact Hf.
      * exists n. split; [now left|]. right. rewrite Hg. exact Hb.
    + intros (x & [<-|Hx] & Hl).
      * unfold linked in Hl. rewrite Hg in Hl. tauto.
      * left; left. exists x. auto.
  - apply Hnd. exact H8.
  - rewrite H9. cbn [length]. lia.
  - cbn [map sumN length] in *. rewrite app_length, rev_length. rewrite Hg. lia.
Qed.

Lemma trace_go_inv a h fuel : forall disc vis own pops visits own' pops' visits',
  tinv h a disc vis own pops visits ->
  trace_go fuel h disc vis own pops visits = Ok (own', pops', visits') ->
  exists vis', tinv h a [] vis' own' pops' visits'.
Proof.
  induction fuel as [|f IH]; intros disc vis own pops visits own' pops' visits' HI Hgo;
    cbn [trace_go] in Hgo; [discriminate|].
  destruct disc as [|n rest].
  - injection Hgo as <- <- <-. exists vis. exact HI.
  - destruct (memb n vis) eqn:E.
    + apply memb_In in E. eapply IH; [|exact Hgo]. eapply tinv_skip; eauto.
    + apply memb_false in E. unfold bind in Hgo.
      destruct (get_links h n) as [t|] eqn:G; [|discriminate].
      destruct (visit_entries t own []) as [own1 pushed] eqn:V.
      eapply IH; [|exact Hgo]. eapply tinv_visit; eauto.
Qed.

(** what [cycle_refs] returns when it returns *)
Theorem cycle_refs_spec h a own pops visits :
  cycle_refs h a = Ok (own, pops, visits) ->
  exists R,
    NoDup R /\ (forall y, In y R <-> reach h a y) /\
    (forall y, own_get own y = sumN (map (fun x => cntF (tbl_of h x) y) R)) /\
    (forall y, In y (map fst own) <-> exists x, In x R /\ linked h x y) /\
    NoDup (map fst own) /\
    visits = N.of_nat (length R) /\
    pops = (1 + sumN (map (fun x => N.of_nat (length (fwd_targets (tbl_of h x)))) R))%N.
Proof.
  unfold cycle_refs. intros H.
  destruct (trace_go_inv a h _ _ _ _ _ _ _ _ _ (tinv_init h a) H) as (R & [H1 H2 H3 H4 H5 H6 H7 H8 H9 H10]).
  exists R. repeat split; auto.
  - intros Hr. induction Hr as [|x y Hr IHr He].
    + destruct H4 as [H4|[]]; exact H4.
    + destruct (H3 x y IHr He) as [Hy|[]]; exact Hy.
  - intros Hy. apply H7. apply own_has_keys. exact Hy.
  - intros Hy. apply own_has_keys. apply H7. exact Hy.
  - cbn [length] in H10. lia.
Qed.
