(** * Without adoptions the machine is std::rc.

    Part A (this half of the file): a program that never records an adoption
    keeps every link table empty; on such heaps [Rc::drop] of cactusref is the
    [Drop for Rc] of std (decrement; at zero drop the value, release the
    implicit weak), never traces, never tears down a group and does not depend
    on the hash-order oracle.

    Part B: the refinement of [StdRc] (Proofs/StdRc.v): the abstraction
    ([Cnt n |-> n], [Uninit |-> 0], table erased, frames one to one) commutes
    with every call, every machine step (panics and unwinding included), whole
    calls and whole histories; logs are compared modulo [EvTableDropped].

    Part C: the strong counter equals the number of handles, hence no handle
    points to a destroyed object and the comparison of results is exact
    ([noadopt_is_std_exact]). The whole [act] language minus adopt/unadopt is
    covered; there is no restriction to a sub-language. *)
From CR Require Import Base Atomic Machine LinksFacts HeapFacts TraceFacts Local StdRc.
Local Open Scope N_scope.

(** ** Generic list facts *)
Lemma upd_upd {A} (l : list A) i x y : upd (upd l i x) i y = upd l i y.
Proof.
  revert i; induction l as [|a l IH]; intros [|i]; cbn [upd]; auto.
  f_equal; apply IH.
Qed.

Lemma upd_app_l {A} (l t : list A) i x :
  (i < length l)%nat -> upd (l ++ t) i x = upd l i x ++ t.
Proof.
  revert i; induction l as [|a l IH]; intros [|i] H; cbn [upd app length] in *; try lia; auto.
  f_equal; apply IH; lia.
Qed.

Lemma upd_same {A} (l : list A) i x : nth_error l i = Some x -> upd l i x = l.
Proof.
  revert i; induction l as [|a l IH]; intros [|i] H; cbn [upd nth_error] in *;
    try discriminate; auto.
  - congruence.
  - f_equal; auto.
Qed.

Lemma Forall_upd {A} (P : A -> Prop) l i x : Forall P l -> P x -> Forall P (upd l i x).
Proof.
  intros Hl Hx; revert i; induction Hl as [|a l Ha Hl IH]; intros [|i]; cbn [upd]; auto.
Qed.

Lemma Forall_nth_default {A} (P : A -> Prop) l i d : Forall P l -> P d -> P (nth i l d).
Proof.
  intros Hl Hd; revert i; induction Hl as [|a l Ha Hl IH]; intros [|i]; cbn [nth]; auto.
Qed.

Lemma nth_error_lt {A} (l : list A) i x : nth_error l i = Some x -> (i < length l)%nat.
Proof. intros H. apply nth_error_Some. congruence. Qed.

(** ** 1. The no-adoption discipline *)

(** every link table is empty or has been moved out *)
Definition no_records (h : heap) : Prop :=
  forall o b, nth_error h o = Some b -> links b = Some [] \/ links b = None.

(** an object that still has owners still has its table *)
Definition live_has_table (h : heap) : Prop :=
  forall o b n, nth_error h o = Some b -> strong b = Cnt n -> n <> 0 -> links b <> None.

Definition noadopt_act (a : act) : bool :=
  match a with
  | AAdopt _ _ | AUnadopt _ _ => false
  | _ => true
  end.

Definition noadopt_script (sc : list act) : bool := forallb noadopt_act sc.

Definition noadopt_op (o : op) : bool :=
  match o with
  | OAct a => noadopt_act a
  | ONewS _ sc => noadopt_script sc
  end.

(** the destructor script of a value never adopts *)
Definition payload_ok (p : payload) : Prop := noadopt_script (script p) = true.

Definition box_ok (b : box) : Prop := forall p, value b = Some p -> payload_ok p.
Definition heap_ok (h : heap) : Prop := forall o b, nth_error h o = Some b -> box_ok b.

Definition reg_ok (x : reg) : Prop :=
  match x with RLoose p => payload_ok p | _ => True end.

Definition frame_ok (f : frame) : Prop :=
  match f with
  | FDtorStart p => payload_ok p
  | FRunDtor p pc => payload_ok p /\ noadopt_script pc = true
  | FInners es => Forall (fun e : inner => payload_ok (snd (fst e))) es
  | _ => True
  end.

Definition state_noadopt (s : state) : Prop :=
  no_records (heap_of s) /\ heap_ok (heap_of s) /\ Forall reg_ok (regs s).

(** no payload anywhere (heap, registers, frames) has an adopting script, and
    no table holds a record *)
Definition cfg_noadopt (c : config) : Prop :=
  state_noadopt (st c) /\ Forall frame_ok (stack c).

Definition self_ok (self : option payload) : Prop :=
  match self with Some p => payload_ok p | None => True end.

(** the frames of [drop_cycle] *)
Definition group_frame (f : frame) : bool :=
  match f with
  | FInners _ | FTableDrop _ | FFinishGroup _ => true
  | _ => false
  end.

Definition no_group (k : list frame) : Prop := Forall (fun f => group_frame f = false) k.

(** ** Internal form of the invariants: one predicate per box, the
    [live_has_table] clause switched by [lt] *)
Definition heap_all (P : box -> Prop) (h : heap) : Prop :=
  forall o b, nth_error h o = Some b -> P b.

Definition box_inv (lt : bool) (b : box) : Prop :=
  (links b = Some [] \/ links b = None) /\ box_ok b /\
  (lt = true -> links b = None -> strong b = Uninit \/ strong b = Cnt 0).

Definition st_inv (lt : bool) (s : state) : Prop :=
  heap_all (box_inv lt) (heap_of s) /\ Forall reg_ok (regs s).

Lemma live_box_iff (b : box) :
  (forall n, strong b = Cnt n -> n <> 0 -> links b <> None) <->
  (links b = None -> strong b = Uninit \/ strong b = Cnt 0).
Proof.
  split.
  - intros H Hl. destruct (strong b) as [n|] eqn:S; [|auto].
    destruct (N.eq_dec n 0) as [->|Hn]; [auto|]. exfalso. exact (H n eq_refl Hn Hl).
  - intros H n S Hn Hl. destruct (H Hl) as [E|E]; congruence.
Qed.

Lemma st_inv_false s : st_inv false s <-> state_noadopt s.
Proof.
  unfold st_inv, state_noadopt, heap_all, box_inv, no_records, heap_ok. split.
  - intros [H R]. repeat split; auto; intros o b Hb; apply (H o b Hb).
  - intros (H1 & H2 & R). split; auto. intros o b Hb. repeat split; eauto. discriminate.
Qed.

Lemma st_inv_true s :
  st_inv true s <-> state_noadopt s /\ live_has_table (heap_of s).
Proof.
  unfold st_inv, state_noadopt, heap_all, box_inv, no_records, heap_ok, live_has_table. split.
  - intros [H R]. repeat split; auto; try (intros o b Hb; apply (H o b Hb)).
    intros o b n Hb. apply live_box_iff. intros Hl. apply (H o b Hb); auto.
  - intros ((H1 & H2 & R) & H3). split; auto. intros o b Hb. repeat split; eauto.
    intros _. apply live_box_iff. intros n. apply (H3 o b n Hb).
Qed.

Lemma st_inv_weaken lt s : st_inv lt s -> st_inv false s.
Proof.
  intros [H R]. split; auto. intros o b Hb. destruct (H o b Hb) as (A & B & _).
  repeat split; auto. discriminate.
Qed.

Lemma st_inv_norec lt s : st_inv lt s -> no_records (heap_of s).
Proof. intros H. apply st_inv_weaken, st_inv_false in H. apply H. Qed.

(** what happens to a box that is being destroyed ([Uninit]): it stays so, and
    its table is not taken away *)
Definition bstep (b b' : box) : Prop :=
  strong b = Uninit -> strong b' = Uninit /\ (links b <> None -> links b' <> None).

Definition heap_rel (h h' : heap) : Prop :=
  forall o b, nth_error h o = Some b -> exists b', nth_error h' o = Some b' /\ bstep b b'.

Definition hstep (lt : bool) (h h' : heap) : Prop :=
  (heap_all (box_inv lt) h -> heap_all (box_inv lt) h') /\ heap_rel h h'.

Lemma bstep_refl b : bstep b b.
Proof. unfold bstep; auto. Qed.

Lemma heap_rel_refl h : heap_rel h h.
Proof. intros o b H. exists b. split; auto using bstep_refl. Qed.

Lemma heap_rel_trans h1 h2 h3 : heap_rel h1 h2 -> heap_rel h2 h3 -> heap_rel h1 h3.
Proof.
  intros H1 H2 o b Hb. destruct (H1 o b Hb) as (b2 & Hb2 & S2).
  destruct (H2 o b2 Hb2) as (b3 & Hb3 & S3). exists b3. split; auto.
  unfold bstep in *. intros U. destruct (S2 U) as [U2 L2]. destruct (S3 U2) as [U3 L3]. auto.
Qed.

Lemma hstep_refl lt h : hstep lt h h.
Proof. split; auto using heap_rel_refl. Qed.

Lemma hstep_trans lt h1 h2 h3 : hstep lt h1 h2 -> hstep lt h2 h3 -> hstep lt h1 h3.
Proof. intros [A1 B1] [A2 B2]. split; [auto | eapply heap_rel_trans; eauto]. Qed.

Lemma heap_all_setb P h o b' : heap_all P h -> P b' -> heap_all P (setb h o b').
Proof.
  intros Hh Hb o' b1. unfold setb. rewrite nth_error_upd.
  destruct (Nat.eqb o o'); [|apply Hh].
  destruct (Nat.ltb o (length h)); [|discriminate]. intros H; injection H as <-. exact Hb.
Qed.

Lemma nth_error_snoc {A} (l : list A) x i y :
  nth_error (l ++ [x]) i = Some y -> nth_error l i = Some y \/ (i = length l /\ y = x).
Proof.
  intros H. destruct (Nat.lt_ge_cases i (length l)) as [L|L].
  - rewrite nth_error_app1 in H by exact L. auto.
  - rewrite nth_error_app2 in H by exact L.
    destruct (i - length l)%nat as [|m] eqn:E; cbn [nth_error] in H.
    + injection H as <-. right. split; [lia|reflexivity].
    + destruct m; discriminate.
Qed.

Lemma heap_all_app P h b : heap_all P h -> P b -> heap_all P (h ++ [b]).
Proof.
  intros Hh Hb o b1 H. apply nth_error_snoc in H as [H|[_ ->]]; [eapply Hh; eauto|exact Hb].
Qed.

Lemma heap_rel_setb h o b b' :
  nth_error h o = Some b -> bstep b b' -> heap_rel h (setb h o b').
Proof.
  intros Hb Hs o' b1 H1. unfold setb. rewrite nth_error_upd.
  destruct (Nat.eqb_spec o o') as [<-|Hne].
  - pose proof (nth_error_lt _ _ _ Hb) as L. apply Nat.ltb_lt in L. rewrite L.
    exists b'. split; auto. assert (b1 = b) as -> by congruence. exact Hs.
  - exists b1. split; auto using bstep_refl.
Qed.

Lemma heap_rel_app h t : heap_rel h (h ++ t).
Proof.
  intros o b Hb. exists b. split; auto using bstep_refl.
  rewrite nth_error_app1; auto. eapply nth_error_lt; eauto.
Qed.

Lemma hstep_setb lt h o b b' :
  nth_error h o = Some b -> (box_inv lt b -> box_inv lt b') -> bstep b b' ->
  hstep lt h (setb h o b').
Proof.
  intros Hb Hi Hs. split; [|eapply heap_rel_setb; eauto].
  intros Hh. apply heap_all_setb; auto. apply Hi, (Hh o b Hb).
Qed.

Lemma hstep_app lt h b : box_inv lt b -> hstep lt h (h ++ [b]).
Proof. intros Hb. split; [|apply heap_rel_app]. intros Hh. apply heap_all_app; auto. Qed.

(** closes the per-box side conditions *)
Ltac box_tac :=
  unfold box_inv, box_ok, bstep;
  cbn [strong weak links talloc value freed
       with_strong with_weak with_links with_talloc with_value with_freed new_box];
  timeout 20 (intuition (try congruence; try discriminate)).

(** ** The counter primitives keep the discipline *)
Lemma inc_strong_hstep lt h o h' : inc_strong h o = Ok h' -> hstep lt h h'.
Proof.
  unfold inc_strong, bind. destruct (getb h o) as [b|] eqn:G; [|discriminate].
  apply getb_ok in G as [Gn Gf]. destruct (strong b) as [n|] eqn:S; [|discriminate].
  destruct (N.eqb_spec n 0) as [E|E]; [discriminate|]. intros H; injection H as <-.
  eapply hstep_setb; eauto; box_tac.
Qed.

Lemma inc_weak_hstep lt h o h' : inc_weak h o = Ok h' -> hstep lt h h'.
Proof.
  unfold inc_weak, bind. destruct (getb h o) as [b|] eqn:G; [|discriminate].
  apply getb_ok in G as [Gn Gf]. destruct (weak b =? 0); [discriminate|].
  intros H; injection H as <-. eapply hstep_setb; eauto; box_tac.
Qed.

Lemma dec_weak_free_hstep lt h o h' : dec_weak_free h o = Ok h' -> hstep lt h h'.
Proof.
  unfold dec_weak_free, bind. destruct (getb h o) as [b|] eqn:G; [|discriminate].
  apply getb_ok in G as [Gn Gf]. destruct (weak b =? 0); [discriminate|].
  intros H; injection H as <-. destruct (weak b - 1 =? 0); eapply hstep_setb; eauto; box_tac.
Qed.

Lemma weak_drop_hstep lt h w h' : weak_drop h w = Ok h' -> hstep lt h h'.
Proof.
  destruct w as [o|]; cbn [weak_drop].
  - apply dec_weak_free_hstep.
  - intros H; injection H as <-. apply hstep_refl.
Qed.

Lemma clone_slots_hstep lt ss : forall h h', clone_slots h ss = Ok h' -> hstep lt h h'.
Proof.
  induction ss as [|sl ss IH]; intros h h'; cbn [clone_slots].
  - intros H; injection H as <-. apply hstep_refl.
  - destruct sl as [o|[o|]|]; unfold bind; auto.
    + destruct (inc_strong h o) as [h1|] eqn:E; [|discriminate]. intros H.
      eapply hstep_trans; [eapply inc_strong_hstep; eauto | eauto].
    + destruct (inc_weak h o) as [h1|] eqn:E; [|discriminate]. intros H.
      eapply hstep_trans; [eapply inc_weak_hstep; eauto | eauto].
Qed.

(** [release_links] on an object without records: nothing to purge, the table
    is moved out *)
Lemma release_links_norec h o b :
  getb h o = Ok b -> links b = Some [] ->
  release_links h o = Ok (setb h o (with_links b None)).
Proof.
  intros G L. unfold release_links, purge_peers, get_links, bind. rewrite G, L.
  cbn [purge_loop]. rewrite G, L. reflexivity.
Qed.

Lemma release_links_moved h o b :
  getb h o = Ok b -> links b = None -> release_links h o = Bad (HFault FkTableMoved o).
Proof.
  intros G L. unfold release_links, purge_peers, get_links, bind. rewrite G, L. reflexivity.
Qed.

Lemma getb_setb_same h o b b' :
  getb h o = Ok b -> freed b' = false -> getb (setb h o b') o = Ok b'.
Proof.
  intros G F. pose proof (getb_lt _ _ _ G) as L. unfold getb, setb.
  rewrite nth_error_upd_same by exact L. rewrite F. reflexivity.
Qed.

(** ** 2. Preservation by one action *)
Definition simple_frame (f : frame) : Prop :=
  match f with FDropStrong _ | FDtorStart _ => True | _ => False end.

(** the events of the cycle machinery: a trace, a group teardown *)
Definition cyc_event (e : event) : bool :=
  match e with EvTrace _ _ _ | EvGroup _ => true | _ => false end.

(** [l'] extends [l] by events none of which is a trace or a group teardown *)
Definition quiet_ext (l l' : list event) : Prop :=
  exists d, l' = d ++ l /\ Forall (fun e => cyc_event e = false) d.

Lemma quiet_refl l : quiet_ext l l.
Proof. exists []. split; [reflexivity|constructor]. Qed.

Lemma quiet_cons l e : cyc_event e = false -> quiet_ext l (e :: l).
Proof. intros H. exists [e]. split; [reflexivity|]. constructor; [exact H|constructor]. Qed.

(** what one call adds to the log: nothing, or one [EvTableDropped] *)
Definition tbl_ext (l l' : list event) : Prop :=
  l' = l \/ exists o, l' = EvTableDropped o :: l.

Lemma tbl_refl l : tbl_ext l l.
Proof. left. reflexivity. Qed.

Lemma tbl_quiet l l' : tbl_ext l l' -> quiet_ext l l'.
Proof. intros [->|[o ->]]; [apply quiet_refl|apply quiet_cons; reflexivity]. Qed.

Lemma quiet_trans l1 l2 l3 : quiet_ext l1 l2 -> quiet_ext l2 l3 -> quiet_ext l1 l3.
Proof.
  intros (d1 & -> & F1) (d2 & -> & F2). exists (d2 ++ d1). split; [apply app_assoc|].
  apply Forall_app. auto.
Qed.

(** what a successful action guarantees about its result *)
Definition aout_ok (lt : bool) (s : state) (x : aout) : Prop :=
  match x with
  | AO s' self' r push =>
      st_inv lt s' /\ self_ok self' /\ Forall frame_ok push /\
      heap_rel (heap_of s) (heap_of s') /\ Forall simple_frame push /\
      tbl_ext (log s) (log s')
  | _ => True
  end.

Lemma ok_AO lt s s' self r push :
  st_inv lt s -> hstep lt (heap_of s) (heap_of s') -> Forall reg_ok (regs s') ->
  self_ok self -> Forall frame_ok push -> Forall simple_frame push ->
  tbl_ext (log s) (log s') ->
  aout_ok lt s (AO s' self r push).
Proof.
  intros [Hh Hr] [H1 H2] R S F P Q. cbn [aout_ok].
  split; [split; [exact (H1 Hh)|exact R]|]. auto.
Qed.

Lemma ok_invalid lt s self : st_inv lt s -> self_ok self -> aout_ok lt s (invalid s self).
Proof.
  intros Hs Hself. unfold invalid. apply ok_AO; auto using hstep_refl, tbl_refl. apply Hs.
Qed.

Lemma ok_lift lt s s0 self x k :
  (forall h', x = Ok h' -> aout_ok lt s (k (set_heap s0 h'))) -> aout_ok lt s (lift s0 self x k).
Proof. intros H. unfold lift. destruct x as [h'|e]; [apply H; reflexivity|exact I]. Qed.

Lemma reg_get_ok s r : Forall reg_ok (regs s) -> reg_ok (reg_get s r).
Proof. intros H. unfold reg_get. apply Forall_nth_default; [exact H|exact I]. Qed.

(** the object addressed by an [oref] carries a well-behaved payload *)
Definition owner_ok (h : heap) (ow : owner) : Prop :=
  match ow with
  | WBox o p => exists b, nth_error h o = Some b /\ value b = Some p
  | WSelf p => payload_ok p
  end.

Lemma resolve_owner_ok s self w ow :
  self_ok self -> resolve_owner s self w = Some ow -> owner_ok (heap_of s) ow.
Proof.
  intros Hself. destruct w as [r|]; cbn [resolve_owner].
  - destruct (reg_get s r) as [o| | | |]; try discriminate.
    destruct (nth_error (heap_of s) o) as [b|] eqn:Hb; [|discriminate].
    destruct (value b) as [p|] eqn:Hv; [|discriminate].
    intros H; injection H as <-. cbn [owner_ok]. eauto.
  - destruct self as [p|]; [|discriminate]. intros H; injection H as <-. exact Hself.
Qed.

Lemma resolve_slot_ok s self w k ow sl :
  self_ok self -> resolve_slot s self w k = Some (ow, sl) -> owner_ok (heap_of s) ow.
Proof.
  intros Hself. unfold resolve_slot.
  destruct (resolve_owner s self w) as [ow'|] eqn:E; [|discriminate].
  destruct (nth_error (slots (owner_payload ow')) k); [|discriminate].
  intros H; injection H as <- _. eapply resolve_owner_ok; eauto.
Qed.

Lemma write_slot_ok lt s self ow k sl s1 self1 :
  st_inv lt s -> self_ok self -> owner_ok (heap_of s) ow ->
  write_slot s self ow k sl = (s1, self1) ->
  hstep lt (heap_of s) (heap_of s1) /\ regs s1 = regs s /\ self_ok self1 /\ log s1 = log s.
Proof.
  intros Hs Hself How. destruct ow as [o p|p]; cbn [write_slot owner_ok] in *.
  - destruct How as (b & Hb & Hv). rewrite Hb. intros H; injection H as <- <-.
    unfold set_heap; cbn [heap_of regs log mk]. split; [|repeat split; auto].
    eapply hstep_setb; eauto; [|box_tac].
    unfold box_inv, box_ok; cbn [links strong value with_value].
    intros (A & B & C). repeat split; auto. intros q Hq. injection Hq as <-.
    unfold payload_ok, set_payload_slot; cbn [script]. apply (B p Hv).
  - intros H; injection H as <- <-. split; [apply hstep_refl|repeat split; auto].
Qed.

Lemma exec_new_ok lt s self dst sc :
  noadopt_script sc = true -> st_inv lt s -> self_ok self ->
  aout_ok lt s (exec_new s self dst sc).
Proof.
  intros Hsc Hs Hself. unfold exec_new. destruct (reg_free s dst); [|apply ok_invalid; auto].
  apply ok_AO; auto; unfold set_reg, set_heap; cbn [heap_of regs mk].
  - apply hstep_app. unfold box_inv, box_ok; cbn [links value strong new_box].
    repeat split; auto; try discriminate. intros p H; injection H as <-. exact Hsc.
  - apply Forall_upd; [apply Hs|exact I].
  - apply tbl_refl.
Qed.

Ltac ok_state := unfold set_reg, set_heap, add_ev; cbn [heap_of regs log mk].

Ltac ok_side :=
  ok_state;
  try first [ assumption | apply hstep_refl | exact I | apply tbl_refl
            | solve [right; eexists; reflexivity]
            | solve [repeat (apply Forall_upd; [|try exact I]); auto]
            | solve [repeat constructor; auto] ].

Lemma exec_act_ok lt s self a :
  noadopt_act a = true -> st_inv lt s -> self_ok self -> aout_ok lt s (exec_act s self a).
Proof.
  intros Ha Hs Hself. pose proof Hs as [Hh Hr].
  assert (Hinv : aout_ok lt s (invalid s self)) by (apply ok_invalid; auto).
  assert (Hsame : forall r, aout_ok lt s (AO s self r [])).
  { intros r. apply ok_AO; auto using hstep_refl, tbl_refl. }
  destruct a; cbn [noadopt_act] in Ha; try discriminate; cbn [exec_act].
  - (* ANew *) apply exec_new_ok; auto.
  - (* AClone *)
    destruct (resolve_strong s self h) as [[o l]|]; [|exact Hinv].
    destruct (reg_free s dst); [|exact Hinv]. apply ok_lift; intros h' E.
    apply ok_AO; auto; ok_side. eapply inc_strong_hstep; eauto.
  - (* ADrop *)
    destruct (reg_get s r) as [o|w|o|p|] eqn:Er; try exact Hinv.
    + apply ok_AO; auto; ok_side.
    + apply ok_lift; intros h' E.
      apply ok_AO; auto; ok_side. eapply weak_drop_hstep; eauto.
    + pose proof (reg_get_ok s r Hr) as Hp. rewrite Er in Hp. cbn [reg_ok] in Hp.
      apply ok_AO; auto; ok_side.
  - (* ADowngrade *)
    destruct (resolve_strong s self h) as [[o l]|]; [|exact Hinv].
    destruct (reg_free s dst); [|exact Hinv]. apply ok_lift; intros h' E.
    apply ok_AO; auto; ok_side. eapply inc_weak_hstep; eauto.
  - (* AUpgrade *)
    destruct (resolve_weak s self w) as [w'|]; [|exact Hinv].
    destruct (reg_free s dst); [|exact Hinv]. destruct w' as [o|]; [|apply Hsame].
    destruct (getb (heap_of s) o) as [b|e]; [|exact I].
    destruct (is_dead (strong b)); [apply Hsame|]. apply ok_lift; intros h' E.
    apply ok_AO; auto; ok_side. eapply inc_strong_hstep; eauto.
  - (* ACloneWeak *)
    destruct (resolve_weak s self w) as [w'|]; [|exact Hinv].
    destruct (reg_free s dst); [|exact Hinv]. destruct w' as [o|].
    + apply ok_lift; intros h' E.
      apply ok_AO; auto; ok_side. eapply inc_weak_hstep; eauto.
    + apply ok_AO; auto; ok_side.
  - (* AWeakNew *)
    destruct (reg_free s dst); [|exact Hinv]. apply ok_AO; auto; ok_side.
  - (* AStore *)
    destruct (slot_of_reg (reg_get s src)) as [sl|]; [|exact Hinv].
    destruct (resolve_slot s self w k) as [[ow [o|w'|]]|] eqn:E; try exact Hinv.
    apply resolve_slot_ok in E; [|exact Hself].
    destruct (write_slot (set_reg s src REmpty) self ow k sl) as [s1 self1] eqn:W.
    apply write_slot_ok with (lt := lt) in W as (W1 & W2 & W3 & W4); auto.
    + apply ok_AO; auto; [rewrite W2; ok_side|rewrite W4; ok_side].
    + split; ok_side.
  - (* ATake *)
    destruct (resolve_slot s self w k) as [[ow sl]|] eqn:E; [|exact Hinv].
    destruct (reg_of_slot sl) as [x|] eqn:Ex; [|exact Hinv].
    destruct (reg_free s dst); [|exact Hinv].
    apply resolve_slot_ok in E; [|exact Hself].
    destruct (write_slot s self ow k SEmpty) as [s1 self1] eqn:W.
    apply write_slot_ok with (lt := lt) in W as (W1 & W2 & W3 & W4); auto.
    apply ok_AO; auto; ok_side; try (rewrite W4; apply tbl_refl). rewrite W2. apply Forall_upd; auto.
    destruct sl; cbn [reg_of_slot] in Ex; try discriminate; injection Ex as <-; exact I.
  - (* ATryUnwrap *)
    destruct (reg_get s r) as [o| | | |] eqn:Er; try exact Hinv.
    destruct (reg_free s dst); [|exact Hinv].
    destruct (getb (heap_of s) o) as [b|e] eqn:G; [|exact I].
    destruct (strong b) as [[|[q|q|]]|] eqn:S; try apply Hsame.
    pose proof (getb_ok _ _ _ G) as [Gn Gf]. destruct (Hh o b Gn) as (HL & HB & HT).
    destruct HL as [HL|HL]; [|rewrite (release_links_moved _ _ _ G HL); exact I].
    rewrite (release_links_norec _ _ _ G HL). cbn [lift]. ok_state.
    rewrite (getb_setb_same _ _ _ _ G) by exact Gf. cbn [value with_links].
    destruct (value b) as [p|] eqn:V; [|exact I]. unfold setb. rewrite upd_upd. fold (setb (heap_of s) o (with_strong (with_value (with_links b None) None) (Cnt 0))).
    apply ok_lift; intros h' E. apply weak_drop_hstep with (lt := lt) in E.
    apply ok_AO; auto; ok_side.
    + eapply hstep_trans; [|exact E]. eapply hstep_setb; eauto; box_tac.
    + apply Forall_upd; [apply Forall_upd; auto; exact I|]. cbn [reg_ok]. apply (HB p V).
  - (* AGetMut *)
    destruct (reg_get s r) as [o| | | |]; try exact Hinv.
    destruct (getb (heap_of s) o) as [b|e]; [|exact I].
    destruct (weak b =? 0); [exact I|apply Hsame].
  - (* AMakeMut *)
    destruct (reg_get s r) as [o| | | |] eqn:Er; try exact Hinv.
    destruct (getb (heap_of s) o) as [b|e] eqn:G; [|exact I].
    pose proof (getb_ok _ _ _ G) as [Gn Gf]. destruct (Hh o b Gn) as (HL & HB & HT).
    pose proof (getb_lt _ _ _ G) as Lt.
    assert (Hclone :
      aout_ok lt s
        match value b with
        | Some p =>
            lift s self (clone_slots (heap_of s) (cloned_slots (slots p))) (fun s1 =>
              AO (set_reg (set_heap s1 (heap_of s1 ++
                    [new_box {| pid := length (heap_of s); slots := cloned_slots (slots p); script := [] |}]))
                    r (RStrong (length (heap_of s)))) self RUnit [FDropStrong o])
        | None => AHalt (HFault FkValueMoved o)
        end).
    { destruct (value b) as [p|] eqn:V; [|exact I]. apply ok_lift; intros h' E.
      apply clone_slots_hstep with (lt := lt) in E.
      apply ok_AO; auto; ok_side.
      eapply hstep_trans; [exact E|]. apply hstep_app.
      unfold box_inv, box_ok; cbn [links value strong new_box].
      repeat split; auto; try discriminate. intros q H; injection H as <-. reflexivity. }
    destruct (strong b) as [[|[q|q|]]|] eqn:S; try exact Hclone.
    destruct (weak b =? 0); [exact I|]. destruct (weak b =? 1); [apply Hsame|].
    destruct (value b) as [p|] eqn:V; [|exact I].
    set (nb := new_box {| pid := length (heap_of s); slots := slots p; script := script p |}).
    assert (G1 : getb (setb (heap_of s) o (with_value b None) ++ [nb]) o = Ok (with_value b None)).
    { unfold getb, setb. rewrite nth_error_app1 by (rewrite upd_length; exact Lt).
      rewrite nth_error_upd_same by exact Lt. cbn [freed with_value]. rewrite Gf. reflexivity. }
    destruct HL as [HL|HL]; [|rewrite (release_links_moved _ _ _ G1); [exact I|exact HL]].
    rewrite (release_links_norec _ _ _ G1) by exact HL. cbn [lift]. ok_state.
    rewrite (getb_setb_same _ _ _ _ G1) by exact Gf.
    unfold setb. rewrite upd_upd. rewrite upd_app_l by (rewrite upd_length; exact Lt).
    rewrite upd_upd. apply ok_AO; auto; ok_side.
    refine (hstep_trans _ _ _ _ (hstep_setb lt (heap_of s) o b _ Gn _ _) (hstep_app _ _ _ _)).
    + box_tac.
    + box_tac.
    + unfold nb, box_inv, box_ok; cbn [links value strong new_box].
      repeat split; auto; try discriminate. intros q H; injection H as <-.
      unfold payload_ok; cbn [script]. apply (HB p V).
  - (* AIntoRaw *)
    destruct (reg_get s r) as [o| | | |]; try exact Hinv. apply ok_AO; auto; ok_side.
  - (* AFromRaw *)
    destruct (reg_get s r) as [ | |o| |]; try exact Hinv. apply ok_AO; auto; ok_side.
  - (* AIncStrong *)
    destruct (reg_get s r) as [ | |o| |]; try exact Hinv.
    destruct (reg_free s dst); [|exact Hinv]. apply ok_lift; intros h' E.
    apply ok_AO; auto; ok_side. eapply inc_strong_hstep; eauto.
  - (* ADecStrong *)
    destruct (reg_get s r) as [ | |o| |]; try exact Hinv. apply ok_AO; auto; ok_side.
  - (* APtrEq *)
    destruct (resolve_strong s self h1) as [[a l1]|]; [|exact Hinv].
    destruct (resolve_strong s self h2) as [[b l2]|]; [|exact Hinv]. apply Hsame.
  - (* AStrongCount *)
    destruct (resolve_strong s self h) as [[o l]|]; [|exact Hinv].
    destruct (getb (heap_of s) o) as [b|e]; [apply Hsame|exact I].
  - (* AWeakCount *)
    destruct (resolve_strong s self h) as [[o l]|]; [|exact Hinv].
    destruct (getb (heap_of s) o) as [b|e]; [|exact I].
    destruct (weak b =? 0); [exact I|apply Hsame].
  - (* AWStrongCount *)
    destruct (resolve_weak s self w) as [[o|]|]; [|apply Hsame|exact Hinv].
    destruct (getb (heap_of s) o) as [b|e]; [apply Hsame|exact I].
  - (* AWWeakCount *)
    destruct (resolve_weak s self w) as [[o|]|]; [|apply Hsame|exact Hinv].
    destruct (getb (heap_of s) o) as [b|e]; [|exact I].
    destruct (strong b) as [n|]; [|apply Hsame].
    destruct (0 <? n); [|apply Hsame]. destruct (weak b =? 0); [exact I|apply Hsame].
  - (* ADeref *)
    destruct (resolve_strong s self h) as [[o l]|]; [|exact Hinv].
    destruct (getb (heap_of s) o) as [b|e]; [|exact I].
    destruct (value b); [apply Hsame|exact I].
  - (* APanic *) exact I.
Qed.

(** ** 3. The fast path: [Rc::drop] on a heap without records *)

(** the transcription of std's [Drop for Rc] in the same state space *)
Definition std_drop_strong (s : state) (o : oid) : R (state * list frame) :=
  let h := heap_of s in
  let* b := getb h o in
  match strong b with
  | Uninit => Ok (s, [])
  | Cnt n =>
      if (n =? 0)%N then Ok (s, [])
      else
        let s1 := set_heap s (setb h o (with_strong b (Cnt (n - 1)))) in
        if (n - 1 =? 0)%N then start_unreachable s1 o else Ok (s1, [])
  end.

(** the table of the object is present and empty: cactusref's drop is std's *)
Lemma drop_strong_norec pri s o b :
  getb (heap_of s) o = Ok b -> links b = Some [] ->
  drop_strong pri s o = std_drop_strong s o.
Proof.
  intros G L. unfold drop_strong, std_drop_strong, bind. rewrite G.
  destruct (strong b) as [n|]; [|reflexivity]. destruct (n =? 0); [reflexivity|].
  rewrite (get_links_setb_strong _ _ _ _ G), L. reflexivity.
Qed.

(** the table has been moved out while the object still has owners: the real
    drop reads a moved-out table *)
Lemma drop_strong_moved pri s o b n :
  getb (heap_of s) o = Ok b -> links b = None -> strong b = Cnt n -> n <> 0 ->
  drop_strong pri s o = Bad (HFault FkTableMoved o).
Proof.
  intros G L S Hn. unfold drop_strong, bind. rewrite G, S.
  apply N.eqb_neq in Hn. rewrite Hn.
  rewrite (get_links_setb_strong _ _ _ _ G), L. reflexivity.
Qed.

Lemma std_drop_dead s o b :
  getb (heap_of s) o = Ok b -> is_dead (strong b) = true -> std_drop_strong s o = Ok (s, []).
Proof.
  unfold std_drop_strong, bind. intros -> Hd. destruct (strong b) as [n|]; [|reflexivity].
  cbn [is_dead] in Hd. rewrite Hd. reflexivity.
Qed.

(** Rust: as long as no adoption has been recorded anywhere and every object
    that still has owners still has its link table, [<Rc as Drop>::drop] of
    cactusref does exactly what [<std::rc::Rc as Drop>::drop] does, whatever the
    iteration order of the hash maps. *)
Theorem drop_strong_fast pri s o :
  no_records (heap_of s) -> live_has_table (heap_of s) ->
  drop_strong pri s o = std_drop_strong s o.
Proof.
  intros Hn Hl. destruct (getb (heap_of s) o) as [b|e] eqn:G.
  - pose proof (getb_ok _ _ _ G) as [Gn Gf]. destruct (Hn o b Gn) as [L|L].
    + eapply drop_strong_norec; eauto.
    + assert (Hd : is_dead (strong b) = true).
      { destruct (strong b) as [n|] eqn:S; [|reflexivity]. cbn [is_dead].
        destruct (N.eqb_spec n 0) as [E|E]; [reflexivity|]. exfalso. exact (Hl o b n Gn S E L). }
      rewrite (drop_dead_noop pri s o b G Hd), (std_drop_dead s o b G Hd). reflexivity.
  - unfold drop_strong, std_drop_strong, bind. rewrite G. reflexivity.
Qed.

(** the same without [live_has_table], for one object whose table is present *)
Theorem drop_strong_fast_present pri s o b :
  no_records (heap_of s) -> getb (heap_of s) o = Ok b -> links b <> None ->
  drop_strong pri s o = std_drop_strong s o.
Proof.
  intros Hn G L. pose proof (getb_ok _ _ _ G) as [Gn Gf]. destruct (Hn o b Gn) as [L'|L'].
  - eapply drop_strong_norec; eauto.
  - contradiction.
Qed.

(** without [live_has_table]: whenever the real drop returns, std's returns the same *)
Lemma drop_strong_norec_ok pri s o s' fr :
  no_records (heap_of s) -> drop_strong pri s o = Ok (s', fr) ->
  std_drop_strong s o = Ok (s', fr).
Proof.
  intros Hn H. destruct (getb (heap_of s) o) as [b|e] eqn:G.
  - pose proof (getb_ok _ _ _ G) as [Gn Gf]. destruct (Hn o b Gn) as [L|L].
    + rewrite <- H. symmetry. eapply drop_strong_norec; eauto.
    + destruct (strong b) as [n|] eqn:S.
      * destruct (N.eq_dec n 0) as [->|E].
        -- rewrite <- H. rewrite (drop_dead_noop pri s o b G), (std_drop_dead s o b G);
             auto; rewrite S; reflexivity.
        -- rewrite (drop_strong_moved pri s o b n G L S E) in H. discriminate.
      * rewrite <- H. rewrite (drop_dead_noop pri s o b G), (std_drop_dead s o b G);
          auto; rewrite S; reflexivity.
  - unfold drop_strong, bind in H. rewrite G in H. discriminate.
Qed.

(** Rust: without recorded adoptions the outcome of dropping a handle does not
    depend on the hash-map iteration order. *)
Theorem drop_strong_oracle_free pri pri' s o :
  no_records (heap_of s) -> drop_strong pri s o = drop_strong pri' s o.
Proof.
  intros Hn. destruct (getb (heap_of s) o) as [b|e] eqn:G.
  - pose proof (getb_ok _ _ _ G) as [Gn Gf]. destruct (Hn o b Gn) as [L|L].
    + rewrite (drop_strong_norec pri s o b G L), (drop_strong_norec pri' s o b G L). reflexivity.
    + destruct (strong b) as [n|] eqn:S.
      * destruct (N.eq_dec n 0) as [->|E].
        -- rewrite (drop_dead_noop pri s o b G), (drop_dead_noop pri' s o b G);
             auto; rewrite S; reflexivity.
        -- rewrite (drop_strong_moved pri s o b n G L S E),
                   (drop_strong_moved pri' s o b n G L S E). reflexivity.
      * rewrite (drop_dead_noop pri s o b G), (drop_dead_noop pri' s o b G);
          auto; rewrite S; reflexivity.
  - unfold drop_strong, bind. rewrite G. reflexivity.
Qed.

(** the three ways std's drop can return *)
Lemma std_drop_strong_cases s o s' fr :
  std_drop_strong s o = Ok (s', fr) ->
  exists b, getb (heap_of s) o = Ok b /\
    ((is_dead (strong b) = true /\ s' = s /\ fr = []) \/
     (exists n, strong b = Cnt n /\ n <> 0 /\ n - 1 <> 0 /\
        s' = set_heap s (setb (heap_of s) o (with_strong b (Cnt (n - 1)))) /\ fr = []) \/
     (exists v, strong b = Cnt 1 /\ value b = Some v /\
        s' = set_heap s (setb (heap_of s) o (with_value (with_strong b Uninit) None)) /\
        fr = [FDtorStart v; FAfterValue o])).
Proof.
  unfold std_drop_strong, bind. destruct (getb (heap_of s) o) as [b|e] eqn:G; [|discriminate].
  intros H. exists b. split; [reflexivity|].
  destruct (strong b) as [n|] eqn:S.
  - destruct (N.eqb_spec n 0) as [E|E].
    + injection H as <- <-. left. subst n. auto.
    + destruct (N.eqb_spec (n - 1) 0) as [E1|E1].
      * right; right. assert (n = 1) as -> by lia.
        unfold start_unreachable, bind, set_heap in H. cbn [heap_of regs log mk] in H.
        rewrite (getb_setb_same _ _ _ _ G) in H by (apply getb_ok in G; apply G).
        cbn [value with_strong] in H. destruct (value b) as [v|] eqn:V; [|discriminate].
        injection H as <- <-. exists v. repeat split; auto.
        unfold set_heap, setb; cbn [heap_of regs log mk]. rewrite upd_upd. reflexivity.
      * injection H as <- <-. right; left. exists n. auto.
  - injection H as <- <-. left. auto.
Qed.

(** ** Preservation by one machine step *)

(** the objects whose value destructor is in progress *)
Fixpoint after_oids (k : list frame) : list oid :=
  match k with
  | [] => []
  | FAfterValue o :: k' => o :: after_oids k'
  | _ :: k' => after_oids k'
  end.

(** every pending "rest of drop_unreachable" belongs to a distinct object that
    is marked [Uninit] and still has its table *)
Definition after_ok (h : heap) (k : list frame) : Prop :=
  NoDup (after_oids k) /\
  forall o, In o (after_oids k) ->
    exists b, nth_error h o = Some b /\ strong b = Uninit /\ links b <> None.

Definition cfg_inv (lt : bool) (c : config) : Prop :=
  st_inv lt (st c) /\ Forall frame_ok (stack c) /\
  (lt = true -> after_ok (heap_of (st c)) (stack c)).

Lemma cfg_inv_false c : cfg_inv false c <-> cfg_noadopt c.
Proof.
  unfold cfg_inv, cfg_noadopt. rewrite st_inv_false. split.
  - intros (A & B & _). auto.
  - intros (A & B). split; [exact A|split; [exact B|discriminate]].
Qed.

Lemma cfg_inv_true c :
  cfg_inv true c <->
  cfg_noadopt c /\ live_has_table (heap_of (st c)) /\ after_ok (heap_of (st c)) (stack c).
Proof.
  unfold cfg_inv, cfg_noadopt. rewrite st_inv_true. split.
  - intros ((A & B) & C & D). auto.
  - intros ((A & B) & C & D). auto.
Qed.

Lemma after_oids_app a b : after_oids (a ++ b) = after_oids a ++ after_oids b.
Proof.
  induction a as [|f a IH]; [reflexivity|].
  destruct f; cbn [after_oids app]; rewrite ?IH; reflexivity.
Qed.

Lemma after_oids_simple push : Forall simple_frame push -> after_oids push = [].
Proof.
  induction 1 as [|f push Hf _ IH]; [reflexivity|].
  destruct f; cbn [simple_frame] in Hf; try contradiction; exact IH.
Qed.

Lemma after_ok_rel h h' k : heap_rel h h' -> after_ok h k -> after_ok h' k.
Proof.
  intros Hr [Hn Ha]. split; auto. intros o Ho. destruct (Ha o Ho) as (b & Hb & S & L).
  destruct (Hr o b Hb) as (b' & Hb' & Hs). destruct (Hs S) as [S' L']. eauto.
Qed.

Lemma after_ok_tail h f k :
  (match f with FAfterValue _ => False | _ => True end) -> after_ok h (f :: k) -> after_ok h k.
Proof. destruct f; cbn [after_oids]; unfold after_ok; cbn [after_oids]; tauto. Qed.

Lemma after_ok_same_oids h k k' : after_oids k' = after_oids k -> after_ok h k -> after_ok h k'.
Proof. unfold after_ok. intros ->. auto. Qed.

Lemma unwind_stack_facts k : forall s s1 k1,
  unwind_stack s k = (s1, k1) ->
  heap_of s1 = heap_of s /\ regs s1 = regs s /\ after_oids k1 = [] /\
  (Forall frame_ok k -> Forall frame_ok k1) /\ (no_group k -> no_group k1).
Proof.
  induction k as [|f k IH]; intros s s1 k1; cbn [unwind_stack].
  - intros H; injection H as <- <-. repeat split; auto.
  - destruct (unwind_stack s k) as [s0 k0] eqn:E.
    destruct (IH _ _ _ E) as (A & B & C & D & G).
    assert (FL : forall keys s2, heap_of (fold_left (fun s x => add_ev s (EvLeak x)) keys s2) = heap_of s2 /\
                                 regs (fold_left (fun s x => add_ev s (EvLeak x)) keys s2) = regs s2).
    { induction keys as [|x keys IHk]; intros s2; cbn [fold_left]; auto.
      destruct (IHk (add_ev s2 (EvLeak x))) as [P Q]. rewrite P, Q. auto. }
    destruct f; intros H; injection H as <- <-; cbn [after_oids heap_of regs add_ev mk];
      try (destruct (FL keys s0) as [P Q]; rewrite P, Q);
      (split; [exact A|split; [exact B|split; [exact C|]]]);
      (split; [intros Hf; inversion Hf as [|? ? Hf1 Hf2]; subst; specialize (D Hf2)
              |intros Hg; inversion Hg as [|? ? Hg1 Hg2]; subst; specialize (G Hg2)]);
      auto; try (constructor; auto); try exact I; try discriminate.
Qed.

Lemma finish_group_hstep lt keys : forall h h', finish_group h keys = Ok h' -> hstep lt h h'.
Proof.
  induction keys as [|x keys IH]; intros h h'; cbn [finish_group].
  - intros H; injection H as <-. apply hstep_refl.
  - unfold bind. destruct (getb h x) as [b|e]; [|discriminate].
    destruct (is_dead (strong b)); [|apply IH].
    destruct (dec_weak_free h x) as [h1|e] eqn:E; [|discriminate]. intros H.
    eapply hstep_trans; [eapply dec_weak_free_hstep; eauto|eauto].
Qed.

Definition outcome_ok (lt : bool) (x : outcome) : Prop :=
  match x with
  | Running c' => cfg_inv lt c'
  | Finished s _ => st_inv lt s
  | Halted s _ => st_inv lt s
  end.

Lemma noadopt_script_cons a pc :
  noadopt_script (a :: pc) = true -> noadopt_act a = true /\ noadopt_script pc = true.
Proof. unfold noadopt_script; cbn [forallb]. apply andb_true_iff. Qed.

Lemma Forall_app_intro {A} (P : A -> Prop) l1 l2 : Forall P l1 -> Forall P l2 -> Forall P (l1 ++ l2).
Proof. intros H1 H2. apply Forall_app. auto. Qed.

Lemma step_ok lt pri c : cfg_inv lt c -> outcome_ok lt (step pri c).
Proof.
  destruct c as [s k u]. intros (Hs & Hk & Ha). cbn [st stack unw] in *.
  pose proof Hs as [Hh Hr].
  unfold step; cbn [st stack unw]. destruct k as [|f k]; [exact Hs|].
  inversion Hk as [|? ? Hf Hk']; subst.
  destruct f as [o|p|p pc|ss|o|es|o|keys|r].
  - (* FDropStrong *)
    destruct (drop_strong pri s o) as [[s1 push]|e] eqn:E; [|first [exact I|exact Hs]].
    apply drop_strong_norec_ok in E; [|eapply st_inv_norec; eauto].
    apply std_drop_strong_cases in E as (b & G & [(D & -> & ->)|[(n & S & N0 & N1 & -> & ->)|(v & S & V & -> & ->)]]).
    + cbn [outcome_ok app]. split; [exact Hs|split; [exact Hk'|]]. cbn [st stack].
      intros T. eapply after_ok_tail; [|apply (Ha T)]. first [exact I|exact Hs].
    + pose proof (getb_ok _ _ _ G) as [Gn Gf].
      assert (HS : hstep lt (heap_of s) (setb (heap_of s) o (with_strong b (Cnt (n - 1))))).
      { eapply hstep_setb; eauto; box_tac. }
      cbn [outcome_ok app]. split; [|split; [exact Hk'|]]; cbn [st stack]; ok_state.
      * split; [apply HS; exact Hh|exact Hr].
      * intros T. eapply after_ok_rel; [apply HS|]. eapply after_ok_tail; [|apply (Ha T)]. first [exact I|exact Hs].
    + pose proof (getb_ok _ _ _ G) as [Gn Gf]. destruct (Hh o b Gn) as (HL & HB & HT).
      assert (HS : hstep lt (heap_of s) (setb (heap_of s) o (with_value (with_strong b Uninit) None))).
      { eapply hstep_setb; eauto; box_tac. }
      cbn [outcome_ok app]. split; [|split]; cbn [st stack]; ok_state.
      * split; [apply HS; exact Hh|exact Hr].
      * constructor; [apply (HB v V)|]. constructor; [first [exact I|exact Hs]|exact Hk'].
      * intros T. specialize (Ha T). apply after_ok_tail in Ha; [|first [exact I|exact Hs]].
        assert (Nin : ~ In o (after_oids k)).
        { intros Hin. destruct Ha as [_ Hb]. destruct (Hb o Hin) as (b' & Hb' & S' & _).
          congruence. }
        eapply after_ok_rel in Ha; [|apply HS]. destruct Ha as [Nd Hb].
        split; cbn [after_oids].
        -- constructor; [exact Nin|exact Nd].
        -- intros o' [<-|Hin]; [|apply Hb; exact Hin].
           exists (with_value (with_strong b Uninit) None). unfold setb.
           rewrite nth_error_upd_same by (eapply nth_error_lt; eauto).
           split; [reflexivity|]. split; [reflexivity|]. cbn [links with_value with_strong].
           intros L. destruct (HT T L) as [X|X]; congruence.
  - (* FDtorStart *)
    cbn [outcome_ok]. split; [|split]; cbn [st stack]; ok_state.
    + exact Hs.
    + constructor; [|exact Hk']. cbn [frame_ok] in *. auto.
    + intros T. exact (Ha T).
  - (* FRunDtor *)
    destruct Hf as [Hp Hpc]. destruct pc as [|a pc].
    + cbn [outcome_ok]. split; [exact Hs|split]; cbn [st stack].
      * constructor; [first [exact I|exact Hs]|exact Hk'].
      * intros T. exact (Ha T).
    + apply noadopt_script_cons in Hpc as [Hact Hpc].
      pose proof (exec_act_ok lt s (Some p) a Hact Hs Hp) as Hx.
      destruct (exec_act s (Some p) a) as [s1 self r push|e|].
      * destruct Hx as (X1 & X2 & X3 & X4 & X5 & X6).
        cbn [outcome_ok]. split; [exact X1|split]; cbn [st stack].
        -- apply Forall_app_intro; [exact X3|]. constructor; [first [exact I|exact Hs]|].
           constructor; [|exact Hk']. split; [|exact Hpc].
           destruct self as [q|]; [exact X2|exact Hp].
        -- intros T. eapply after_ok_rel; [exact X4|]. eapply after_ok_same_oids; [|apply (Ha T)].
           rewrite after_oids_app, (after_oids_simple _ X5). reflexivity.
      * first [exact I|exact Hs].
      * destruct u; [first [exact I|exact Hs]|]. destruct (unwind_stack s k) as [s1 k1] eqn:E.
        destruct (unwind_stack_facts _ _ _ _ E) as (A & B & C & D & _).
        cbn [outcome_ok]. split; [|split]; cbn [st stack].
        -- unfold st_inv. rewrite A, B. exact Hs.
        -- constructor; [first [exact I|exact Hs]|auto].
        -- intros _. rewrite A. split; cbn [after_oids]; rewrite C; [constructor|intros o []].
  - (* FDropSlots *)
    destruct ss as [|sl ss].
    + cbn [outcome_ok]. split; [exact Hs|split; [exact Hk'|]]. cbn [st stack].
      intros T. apply (Ha T).
    + destruct sl as [o|w|].
      * cbn [outcome_ok]. split; [exact Hs|split]; cbn [st stack].
        -- constructor; [first [exact I|exact Hs]|]. constructor; [first [exact I|exact Hs]|exact Hk'].
        -- intros T. apply (Ha T).
      * destruct (weak_drop (heap_of s) w) as [h1|e] eqn:E; [|first [exact I|exact Hs]].
        apply weak_drop_hstep with (lt := lt) in E.
        cbn [outcome_ok]. split; [|split]; cbn [st stack]; ok_state.
        -- split; [apply E; exact Hh|exact Hr].
        -- constructor; [first [exact I|exact Hs]|exact Hk'].
        -- intros T. eapply after_ok_rel; [apply E|]. apply (Ha T).
      * cbn [outcome_ok]. split; [exact Hs|split]; cbn [st stack].
        -- constructor; [first [exact I|exact Hs]|exact Hk'].
        -- intros T. apply (Ha T).
  - (* FAfterValue *)
    destruct (getb (heap_of s) o) as [b|e] eqn:G; [|first [exact I|exact Hs]].
    destruct (links b) as [t|] eqn:L; [|first [exact I|exact Hs]].
    pose proof (getb_ok _ _ _ G) as [Gn Gf].
    assert (G1 : getb (setb (heap_of s) o (with_links b None)) o = Ok (with_links b None)).
    { apply (getb_setb_same _ _ _ _ G). exact Gf. }
    unfold dec_weak_free, bind. rewrite G1. cbn [weak with_links].
    destruct (weak b =? 0); [first [exact I|exact Hs]|]. unfold setb. rewrite upd_upd.
    set (b' := if weak b - 1 =? 0 then with_freed (with_weak (with_links b None) (weak b - 1)) true
               else with_weak (with_links b None) (weak b - 1)).
    assert (Hb' : strong b' = strong b /\ links b' = None /\ value b' = value b).
    { unfold b'. destruct (weak b - 1 =? 0); cbn; auto. }
    destruct Hb' as (B1 & B2 & B3).
    assert (HU : lt = true -> strong b = Uninit /\ ~ In o (after_oids k)).
    { intros T. destruct (Ha T) as [Nd Hb]. cbn [after_oids] in *.
      destruct (Hb o (or_introl eq_refl)) as (b0 & Hb0 & S0 & _).
      assert (b0 = b) as -> by congruence. split; [exact S0|]. inversion Nd; auto. }
    cbn [outcome_ok]. split; [|split]; cbn [st stack]; ok_state.
    + split; [|exact Hr]. apply heap_all_setb; [exact Hh|].
      destruct (Hh o b Gn) as (HL & HB & HT). unfold box_inv, box_ok. rewrite B1, B2, B3.
      split; [auto|split; [exact HB|]]. intros T _. left. apply (HU T).
    + exact Hk'.
    + intros T. destruct (HU T) as [SU Nin]. destruct (Ha T) as [Nd Hb]. cbn [after_oids] in *.
      split; [inversion Nd; auto|]. intros o' Hin.
      destruct (Hb o' (or_intror Hin)) as (b0 & Hb0 & S0 & L0). exists b0.
      rewrite nth_error_upd_other; [auto|]. intros <-. contradiction.
  - (* FInners *)
    destruct es as [|[[o v] t] es].
    + cbn [outcome_ok]. split; [exact Hs|split; [exact Hk'|]]. cbn [st stack].
      intros T. apply (Ha T).
    + cbn [outcome_ok]. split; [exact Hs|split]; cbn [st stack].
      * cbn [frame_ok] in Hf. inversion Hf as [|? ? Hv Hes]; subst. cbn [fst snd] in Hv.
        constructor; [exact Hv|]. constructor; [first [exact I|exact Hs]|]. constructor; [exact Hes|exact Hk'].
      * intros T. apply (Ha T).
  - (* FTableDrop *)
    cbn [outcome_ok]. split; [|split; [exact Hk'|]]; cbn [st stack]; ok_state.
    + exact Hs.
    + intros T. apply (Ha T).
  - (* FFinishGroup *)
    destruct (finish_group (heap_of s) keys) as [h1|e] eqn:E; [|first [exact I|exact Hs]].
    apply finish_group_hstep with (lt := lt) in E.
    cbn [outcome_ok]. split; [|split; [exact Hk'|]]; cbn [st stack]; ok_state.
    + split; [apply E; exact Hh|exact Hr].
    + intros T. eapply after_ok_rel; [apply E|]. apply (Ha T).
  - (* FRes *)
    cbn [outcome_ok]. split; [|split; [exact Hk'|]]; cbn [st stack]; ok_state.
    + exact Hs.
    + intros T. apply (Ha T).
Qed.

(** ** Public statements of 2. and 3. *)

(** Rust: a call other than adopt/unadopt, made in a world without records and
    without adopting destructors, leaves such a world (and only schedules
    handle drops and value destructors). *)
Theorem exec_act_noadopt s self a s' self' r push :
  noadopt_act a = true -> state_noadopt s -> self_ok self ->
  exec_act s self a = AO s' self' r push ->
  state_noadopt s' /\ self_ok self' /\ Forall frame_ok push.
Proof.
  intros Ha Hs Hself E. apply st_inv_false in Hs.
  pose proof (exec_act_ok false s self a Ha Hs Hself) as H. rewrite E in H.
  destruct H as (A & B & C & _). apply st_inv_false in A. auto.
Qed.

Theorem exec_new_noadopt s self dst sc s' self' r push :
  noadopt_script sc = true -> state_noadopt s -> self_ok self ->
  exec_new s self dst sc = AO s' self' r push ->
  state_noadopt s' /\ self_ok self' /\ Forall frame_ok push.
Proof.
  intros Ha Hs Hself E. apply st_inv_false in Hs.
  pose proof (exec_new_ok false s self dst sc Ha Hs Hself) as H. rewrite E in H.
  destruct H as (A & B & C & _). apply st_inv_false in A. auto.
Qed.

(** the same with [live_has_table] *)
Theorem exec_act_live s self a s' self' r push :
  noadopt_act a = true -> state_noadopt s -> live_has_table (heap_of s) -> self_ok self ->
  exec_act s self a = AO s' self' r push -> live_has_table (heap_of s').
Proof.
  intros Ha Hs Hl Hself E. assert (Hi : st_inv true s) by (apply st_inv_true; auto).
  pose proof (exec_act_ok true s self a Ha Hi Hself) as H. rewrite E in H.
  destruct H as (A & _). apply st_inv_true in A. apply A.
Qed.

(** Rust: [Rc::drop] keeps the discipline. *)
Theorem drop_strong_noadopt pri s o s' push :
  state_noadopt s -> drop_strong pri s o = Ok (s', push) ->
  state_noadopt s' /\ Forall frame_ok push.
Proof.
  intros Hs E.
  assert (Hc : cfg_inv false {| st := s; stack := [FDropStrong o]; unw := false |}).
  { apply cfg_inv_false. split; [exact Hs|]. constructor; [exact I|constructor]. }
  pose proof (step_ok false pri _ Hc) as H. cbn [step st stack unw] in H. rewrite E in H.
  cbn [outcome_ok] in H. apply cfg_inv_false in H. destruct H as [A B]. cbn [st stack] in *.
  rewrite app_nil_r in B. auto.
Qed.

(** Rust: one step of any destructor-running region keeps the discipline. *)
Theorem step_noadopt pri c c' :
  cfg_noadopt c -> step pri c = Running c' -> cfg_noadopt c'.
Proof.
  intros Hc E. apply cfg_inv_false in Hc. pose proof (step_ok false pri c Hc) as H.
  rewrite E in H. apply cfg_inv_false. exact H.
Qed.

(** the full invariant of a std-like run *)
Definition std_inv (c : config) : Prop :=
  cfg_noadopt c /\ live_has_table (heap_of (st c)) /\ after_ok (heap_of (st c)) (stack c).

(** Rust: [live_has_table] is preserved too, provided the pending
    "rest of drop_unreachable" frames belong to objects already marked
    [Uninit] (which is how they are created). *)
Theorem step_std_inv pri c c' : std_inv c -> step pri c = Running c' -> std_inv c'.
Proof.
  intros Hc E. apply cfg_inv_true in Hc. pose proof (step_ok true pri c Hc) as H.
  rewrite E in H. apply cfg_inv_true. exact H.
Qed.

Lemma run_ok lt pri n : forall c, cfg_inv lt c -> outcome_ok lt (run pri n c).
Proof.
  induction n as [|n IH]; intros c Hc; cbn [run]; [exact Hc|].
  pose proof (step_ok lt pri c Hc) as H. destruct (step pri c) as [c'|s b|s e]; auto.
Qed.

Theorem run_noadopt pri n c c' : cfg_noadopt c -> run pri n c = Running c' -> cfg_noadopt c'.
Proof.
  intros Hc E. apply cfg_inv_false in Hc. pose proof (run_ok false pri n c Hc) as H.
  rewrite E in H. apply cfg_inv_false. exact H.
Qed.

Theorem run_std_inv pri n c c' : std_inv c -> run pri n c = Running c' -> std_inv c'.
Proof.
  intros Hc E. apply cfg_inv_true in Hc. pose proof (run_ok true pri n c Hc) as H.
  rewrite E in H. apply cfg_inv_true. exact H.
Qed.

(** *** Consequences *)

(** Rust: without recorded adoptions no step performs a reachability trace
    ([EvTrace]) or a group teardown ([EvGroup]). *)
Lemma unwind_stack_log k : forall s s1 k1,
  unwind_stack s k = (s1, k1) -> quiet_ext (log s) (log s1).
Proof.
  induction k as [|f k IH]; intros s s1 k1; cbn [unwind_stack].
  - intros H; injection H as <- <-. apply quiet_refl.
  - destruct (unwind_stack s k) as [s0 k0] eqn:E. specialize (IH _ _ _ E).
    assert (FL : forall keys s2, quiet_ext (log s2)
                   (log (fold_left (fun s x => add_ev s (EvLeak x)) keys s2))).
    { induction keys as [|x keys IHk]; intros s2; cbn [fold_left]; [apply quiet_refl|].
      eapply quiet_trans; [|apply IHk]. apply quiet_cons. reflexivity. }
    destruct f; intros H; injection H as <- <-; auto.
    + eapply quiet_trans; [exact IH|]. apply quiet_cons. reflexivity.
    + eapply quiet_trans; [exact IH|]. apply FL.
Qed.

Theorem step_quiet pri c c' :
  cfg_noadopt c -> step pri c = Running c' -> quiet_ext (log (st c)) (log (st c')).
Proof.
  destruct c as [s k u]. intros [Hs Hk]. cbn [st stack] in *. apply st_inv_false in Hs.
  unfold step; cbn [st stack unw]. destruct k as [|f k]; [discriminate|].
  inversion Hk as [|? ? Hf Hk']; subst.
  destruct f as [o|p|p pc|ss|o|es|o|keys|r].
  - destruct (drop_strong pri s o) as [[s1 push]|e] eqn:E; [|discriminate].
    intros H; injection H as <-. cbn [st].
    apply drop_strong_norec_ok in E; [|eapply st_inv_norec; eauto].
    apply std_drop_strong_cases in E as (b & G & [(D & -> & ->)|[(n & S & N0 & N1 & -> & ->)|(v & S & V & -> & ->)]]);
      apply quiet_refl.
  - intros H; injection H as <-. apply quiet_cons. reflexivity.
  - destruct Hf as [Hp Hpc]. destruct pc as [|a pc].
    + intros H; injection H as <-. apply quiet_refl.
    + apply noadopt_script_cons in Hpc as [Hact Hpc].
      pose proof (exec_act_ok false s (Some p) a Hact Hs Hp) as Hx.
      destruct (exec_act s (Some p) a) as [s1 self r push|e|].
      * intros H; injection H as <-. apply tbl_quiet, Hx.
      * discriminate.
      * destruct u; [discriminate|]. destruct (unwind_stack s k) as [s1 k1] eqn:E.
        intros H; injection H as <-. cbn [st]. eapply unwind_stack_log; eauto.
  - destruct ss as [|[o|w|] ss].
    + intros H; injection H as <-. apply quiet_refl.
    + intros H; injection H as <-. apply quiet_refl.
    + destruct (weak_drop (heap_of s) w); [|discriminate].
      intros H; injection H as <-. apply quiet_refl.
    + intros H; injection H as <-. apply quiet_refl.
  - destruct (getb (heap_of s) o) as [b|e]; [|discriminate].
    destruct (links b); [|discriminate].
    destruct (dec_weak_free _ o); [|discriminate].
    intros H; injection H as <-. apply quiet_cons. reflexivity.
  - destruct es as [|[[o v] t] es]; intros H; injection H as <-; apply quiet_refl.
  - intros H; injection H as <-. apply quiet_cons. reflexivity.
  - destruct (finish_group (heap_of s) keys); [|discriminate].
    intros H; injection H as <-. apply quiet_refl.
  - intros H; injection H as <-. apply quiet_cons. reflexivity.
Qed.

Lemma quiet_traces l l' : quiet_ext l l' -> traces l' = traces l.
Proof.
  intros (d & -> & F). unfold traces. rewrite filter_app.
  induction F as [|e d He _ IH]; [reflexivity|]. cbn [filter app].
  destruct e; cbn [cyc_event] in He; try discriminate; exact IH.
Qed.

Definition cyc_events (l : list event) : list event := filter cyc_event l.

Lemma quiet_cyc_events l l' : quiet_ext l l' -> cyc_events l' = cyc_events l.
Proof.
  intros (d & -> & F). unfold cyc_events. rewrite filter_app.
  induction F as [|e d He _ IH]; [reflexivity|]. cbn [filter app]. rewrite He. exact IH.
Qed.

(** the log's traces stay what they were (C14's [traces]) *)
Corollary step_no_trace pri c c' :
  cfg_noadopt c -> step pri c = Running c' ->
  traces (log (st c')) = traces (log (st c)) /\
  cyc_events (log (st c')) = cyc_events (log (st c)).
Proof.
  intros Hc E. pose proof (step_quiet pri c c' Hc E) as Q.
  split; [apply quiet_traces|apply quiet_cyc_events]; exact Q.
Qed.

(** Rust: no [drop_cycle] frame ([inners], per-member table drop, phase three)
    is ever pushed. *)
Theorem step_no_group pri c c' :
  cfg_noadopt c -> no_group (stack c) -> step pri c = Running c' -> no_group (stack c').
Proof.
  destruct c as [s k u]. intros [Hs Hk] Hg. cbn [st stack] in *. apply st_inv_false in Hs.
  unfold step; cbn [st stack unw]. destruct k as [|f k]; [discriminate|].
  inversion Hk as [|? ? Hf Hk']; subst. inversion Hg as [|? ? Hgf Hg']; subst.
  destruct f as [o|p|p pc|ss|o|es|o|keys|r]; cbn [group_frame] in Hgf; try discriminate.
  - destruct (drop_strong pri s o) as [[s1 push]|e] eqn:E; [|discriminate].
    intros H; injection H as <-. cbn [stack].
    apply drop_strong_norec_ok in E; [|eapply st_inv_norec; eauto].
    apply std_drop_strong_cases in E as (b & G & [(D & -> & ->)|[(n & S & N0 & N1 & -> & ->)|(v & S & V & -> & ->)]]);
      cbn [app]; auto. constructor; [reflexivity|]. constructor; [reflexivity|exact Hg'].
  - intros H; injection H as <-. constructor; [reflexivity|exact Hg'].
  - destruct Hf as [Hp Hpc]. destruct pc as [|a pc].
    + intros H; injection H as <-. constructor; [reflexivity|exact Hg'].
    + apply noadopt_script_cons in Hpc as [Hact Hpc].
      pose proof (exec_act_ok false s (Some p) a Hact Hs Hp) as Hx.
      destruct (exec_act s (Some p) a) as [s1 self r push|e|].
      * intros H; injection H as <-. cbn [stack]. destruct Hx as (_ & _ & _ & _ & X5 & _).
        apply Forall_app_intro.
        -- eapply Forall_impl; [|exact X5]. intros f Hsf. destruct f; cbn in Hsf; try contradiction; reflexivity.
        -- constructor; [reflexivity|]. constructor; [reflexivity|exact Hg'].
      * discriminate.
      * destruct u; [discriminate|]. destruct (unwind_stack s k) as [s1 k1] eqn:E.
        intros H; injection H as <-. cbn [stack].
        destruct (unwind_stack_facts _ _ _ _ E) as (_ & _ & _ & _ & G).
        constructor; [reflexivity|apply G; exact Hg'].
  - destruct ss as [|[o|w|] ss].
    + intros H; injection H as <-. exact Hg'.
    + intros H; injection H as <-. constructor; [reflexivity|]. constructor; [reflexivity|exact Hg'].
    + destruct (weak_drop (heap_of s) w); [|discriminate].
      intros H; injection H as <-. constructor; [reflexivity|exact Hg'].
    + intros H; injection H as <-. constructor; [reflexivity|exact Hg'].
  - destruct (getb (heap_of s) o) as [b|e]; [|discriminate].
    destruct (links b); [|discriminate].
    destruct (dec_weak_free _ o); [|discriminate].
    intros H; injection H as <-. exact Hg'.
  - intros H; injection H as <-. exact Hg'.
Qed.

(** Rust: the result of a step does not depend on the iteration order of any
    hash map. *)
Theorem step_oracle_free pri pri' c : cfg_noadopt c -> step pri c = step pri' c.
Proof.
  destruct c as [s k u]. intros [Hs Hk]. cbn [st stack] in *.
  unfold step; cbn [st stack unw]. destruct k as [|f k]; [reflexivity|].
  destruct f; try reflexivity.
  rewrite (drop_strong_oracle_free pri pri' s o) by apply Hs. reflexivity.
Qed.

Theorem run_oracle_free pri pri' n : forall c, cfg_noadopt c -> run pri n c = run pri' n c.
Proof.
  induction n as [|n IH]; intros c Hc; cbn [run]; [reflexivity|].
  rewrite <- (step_oracle_free pri pri' c Hc).
  destruct (step pri c) as [c'|s b|s e] eqn:E; auto.
  apply IH. eapply step_noadopt; eauto.
Qed.

(** Rust: a whole call on a record-free world gives the same state and outcome
    for every hash order. *)
Theorem exec_op_oracle_free pri pri' fuel s o :
  state_noadopt s -> noadopt_op o = true -> exec_op pri fuel s o = exec_op pri' fuel s o.
Proof.
  intros Hs Ho. unfold exec_op.
  set (first := match o with OAct a => exec_act s None a | ONewS dst sc => exec_new s None dst sc end).
  assert (Hf : aout_ok false s first).
  { apply st_inv_false in Hs. destruct o as [a|dst sc]; cbn [noadopt_op] in Ho; unfold first.
    - apply exec_act_ok; auto. exact I.
    - apply exec_new_ok; auto. exact I. }
  destruct first as [s1 self r push|e|]; try reflexivity.
  destruct Hf as (A & _ & C & _).
  rewrite (run_oracle_free pri pri' fuel); [reflexivity|].
  split; cbn [st stack]; [apply st_inv_false; exact A|exact C].
Qed.

(** * Part B: cactusref without adoptions refines [StdRc] *)

(** ** The abstraction *)
Definition cnt_of (c : scount) : N := match c with Cnt n => n | Uninit => 0 end.

(** [Cnt n |-> n], [Uninit |-> 0], the table is erased *)
Definition abs_box (b : box) : sbox :=
  {| sstrong := cnt_of (strong b); sweak := weak b; svalue := value b; sfreed := freed b |}.

Definition abs_heap (h : heap) : sheap := map abs_box h.

(** results are compared as they are, except that the strong count read
    through a strong handle to a destroyed object ([usize::MAX] in cactusref;
    such a handle cannot exist in a safe std program) is compared as 0. Part C
    shows that this case never arises in a run from the initial state, so
    there the comparison is the identity ([abs_result_exact]). *)
Definition abs_result (r : result) : result :=
  match r with RCnt c => RCnt (Cnt (cnt_of c)) | _ => r end.

(** the log is compared modulo [EvTableDropped] *)
Definition keep_ev (e : event) : bool :=
  match e with EvTableDropped _ => false | _ => true end.
Definition abs_ev (e : event) : event :=
  match e with EvRes r => EvRes (abs_result r) | _ => e end.
Definition abs_log (l : list event) : list event := map abs_ev (filter keep_ev l).

Definition abs_state (s : state) : sstate :=
  smk (abs_heap (heap_of s)) (regs s) (abs_log (log s)).

(** frames are mapped one to one; the frames of [drop_cycle] have no
    counterpart (they never occur, [step_no_group]) *)
Definition abs_frame (f : frame) : sframe :=
  match f with
  | FDropStrong o => SFDropStrong o
  | FDtorStart p => SFDtorStart p
  | FRunDtor p pc => SFRunDtor p pc
  | FDropSlots ss => SFDropSlots ss
  | FAfterValue o => SFReleaseWeak o
  | FRes r => SFRes (abs_result r)
  | FInners _ | FTableDrop _ | FFinishGroup _ => SFDropSlots []
  end.

Definition abs_cfg (c : config) : sconfig :=
  {| sst := abs_state (st c); sstack := map abs_frame (stack c); sunw := unw c |}.

Definition abs_aout (x : aout) : saout :=
  match x with
  | AO s self r push => SAO (abs_state s) self (abs_result r) (map abs_frame push)
  | AHalt e => SAHalt e
  | APanicOut => SAPanicOut
  end.

Definition abs_outcome (x : outcome) : soutcome :=
  match x with
  | Running c => SRunning (abs_cfg c)
  | Finished s b => SFinished (abs_state s) b
  | Halted s e => SHalted (abs_state s) e
  end.

Definition abs_op_outcome (x : op_outcome) : op_outcome :=
  match x with ODone r => ODone (abs_result r) | _ => x end.

Definition Rmap {A B} (f : A -> B) (x : R A) : R B :=
  match x with Ok a => Ok (f a) | Bad e => Bad e end.

(** ** The primitives commute with the abstraction *)
Lemma map_upd {A B} (f : A -> B) l i x : map f (upd l i x) = upd (map f l) i (f x).
Proof.
  revert i; induction l as [|a l IH]; intros [|i]; cbn [upd map]; auto. f_equal; apply IH.
Qed.

Lemma abs_setb h o b : abs_heap (setb h o b) = upd (abs_heap h) o (abs_box b).
Proof. apply map_upd. Qed.

Lemma abs_app h b : abs_heap (h ++ [b]) = abs_heap h ++ [abs_box b].
Proof. unfold abs_heap. rewrite map_app. reflexivity. Qed.

Lemma abs_length h : length (abs_heap h) = length h.
Proof. apply map_length. Qed.

Lemma abs_nth h o : nth_error (abs_heap h) o = option_map abs_box (nth_error h o).
Proof. apply nth_error_map. Qed.

Lemma abs_getb h o : sgetb (abs_heap h) o = Rmap abs_box (getb h o).
Proof.
  unfold sgetb, getb. rewrite abs_nth. destruct (nth_error h o) as [b|]; cbn [option_map Rmap]; auto.
  cbn [sfreed abs_box]. destruct (freed b); reflexivity.
Qed.

Lemma abs_inc_strong h o : s_inc_strong (abs_heap h) o = Rmap abs_heap (inc_strong h o).
Proof.
  unfold s_inc_strong, inc_strong, bind. rewrite abs_getb.
  destruct (getb h o) as [b|e]; cbn [Rmap]; [|reflexivity].
  cbn [sstrong abs_box]. destruct (strong b) as [n|] eqn:S; cbn [cnt_of]; [|reflexivity].
  destruct (n =? 0); cbn [Rmap]; [reflexivity|]. rewrite abs_setb. unfold abs_box, sb_strong.
  cbn [strong weak value freed with_strong sstrong sweak svalue sfreed cnt_of]. reflexivity.
Qed.

Lemma abs_inc_weak h o : s_inc_weak (abs_heap h) o = Rmap abs_heap (inc_weak h o).
Proof.
  unfold s_inc_weak, inc_weak, bind. rewrite abs_getb.
  destruct (getb h o) as [b|e]; cbn [Rmap]; [|reflexivity].
  cbn [sweak abs_box]. destruct (weak b =? 0); cbn [Rmap]; [reflexivity|].
  rewrite abs_setb. reflexivity.
Qed.

Lemma abs_dec_weak_free h o : s_dec_weak_free (abs_heap h) o = Rmap abs_heap (dec_weak_free h o).
Proof.
  unfold s_dec_weak_free, dec_weak_free, bind. rewrite abs_getb.
  destruct (getb h o) as [b|e]; cbn [Rmap]; [|reflexivity].
  cbn [sweak abs_box]. destruct (weak b =? 0); cbn [Rmap]; [reflexivity|].
  rewrite abs_setb. destruct (weak b - 1 =? 0); reflexivity.
Qed.

Lemma abs_weak_drop h w : s_weak_drop (abs_heap h) w = Rmap abs_heap (weak_drop h w).
Proof. destruct w as [o|]; cbn [s_weak_drop weak_drop Rmap]; auto using abs_dec_weak_free. Qed.

Lemma abs_clone_slots ss : forall h, s_clone_slots (abs_heap h) ss = Rmap abs_heap (clone_slots h ss).
Proof.
  induction ss as [|sl ss IH]; intros h; cbn [s_clone_slots clone_slots Rmap]; [reflexivity|].
  destruct sl as [o|[o|]|]; unfold bind; auto.
  - rewrite abs_inc_strong. destruct (inc_strong h o) as [h1|e]; cbn [Rmap]; auto.
  - rewrite abs_inc_weak. destruct (inc_weak h o) as [h1|e]; cbn [Rmap]; auto.
Qed.

(** ** Resolution of handle references commutes *)
Lemma abs_heap_of s : sheap_of (abs_state s) = abs_heap (heap_of s).
Proof. reflexivity. Qed.
Lemma abs_reg_get s r : s_reg_get (abs_state s) r = reg_get s r.
Proof. reflexivity. Qed.
Lemma abs_reg_free s r : s_reg_free (abs_state s) r = reg_free s r.
Proof. reflexivity. Qed.

Lemma abs_resolve_owner s self w : s_resolve_owner (abs_state s) self w = resolve_owner s self w.
Proof.
  destruct w as [r|]; cbn [s_resolve_owner resolve_owner]; [|reflexivity].
  rewrite abs_reg_get. destruct (reg_get s r); try reflexivity.
  rewrite abs_heap_of, abs_nth. destruct (nth_error (heap_of s) o) as [b|]; reflexivity.
Qed.

Lemma abs_resolve_slot s self w k : s_resolve_slot (abs_state s) self w k = resolve_slot s self w k.
Proof. unfold s_resolve_slot, resolve_slot. rewrite abs_resolve_owner. reflexivity. Qed.

Lemma abs_resolve_strong s self h :
  s_resolve_strong (abs_state s) self h = option_map fst (resolve_strong s self h).
Proof.
  destruct h as [r|w k]; cbn [s_resolve_strong resolve_strong].
  - rewrite abs_reg_get. destruct (reg_get s r); reflexivity.
  - rewrite abs_resolve_slot. destruct (resolve_slot s self w k) as [[ow [o|t|]]|]; reflexivity.
Qed.

Lemma abs_resolve_weak s self h : s_resolve_weak (abs_state s) self h = resolve_weak s self h.
Proof.
  destruct h as [r|w k]; cbn [s_resolve_weak resolve_weak].
  - rewrite abs_reg_get. reflexivity.
  - rewrite abs_resolve_slot. reflexivity.
Qed.

Lemma abs_write_slot s self ow k sl :
  s_write_slot (abs_state s) self ow k sl =
  (abs_state (fst (write_slot s self ow k sl)), snd (write_slot s self ow k sl)).
Proof.
  destruct ow as [o p|p]; cbn [s_write_slot write_slot]; [|reflexivity].
  rewrite abs_heap_of, abs_nth. destruct (nth_error (heap_of s) o) as [b|]; cbn [option_map fst snd]; [|reflexivity].
  unfold abs_state, set_heap, s_set_heap; cbn [heap_of regs log mk sheap_of sregs slog smk].
  rewrite abs_setb. reflexivity.
Qed.

Lemma abs_lift s0 ss self x sx k k' :
  sx = Rmap abs_heap x ->
  (forall h', k' (s_set_heap ss (abs_heap h')) = abs_aout (k (set_heap s0 h'))) ->
  s_lift ss sx k' = abs_aout (lift s0 self x k).
Proof.
  intros -> H. unfold s_lift, lift. destruct x as [h'|e]; cbn [Rmap abs_aout]; auto.
Qed.

(** ** One call commutes with the abstraction *)
Ltac abs_st :=
  unfold abs_state, set_reg, set_heap, add_ev, s_set_reg, s_set_heap, s_add_ev;
  cbn [heap_of regs log mk sheap_of sregs slog smk].

Lemma abs_is_dead b : (sstrong (abs_box b) =? 0) = is_dead (strong b).
Proof. cbn [sstrong abs_box]. destruct (strong b); reflexivity. Qed.

Lemma abs_exec_new s self dst sc :
  s_exec_new (abs_state s) self dst sc = abs_aout (exec_new s self dst sc).
Proof.
  unfold s_exec_new, exec_new. rewrite abs_reg_free. destruct (reg_free s dst); [|reflexivity].
  cbn [abs_aout]. abs_st. rewrite abs_app, abs_length. reflexivity.
Qed.

(** Rust: every call of the API other than adopt/unadopt, made on a world
    without records, returns what std's returns and changes the counters, the
    value and the allocation in the same way. *)
Lemma abs_exec_act s self a :
  noadopt_act a = true -> st_inv true s ->
  s_exec_act (abs_state s) self a = abs_aout (exec_act s self a).
Proof.
  intros Ha [Hh Hr].
  destruct a; cbn [noadopt_act] in Ha; try discriminate; cbn [s_exec_act exec_act].
  - (* ANew *) apply abs_exec_new.
  - (* AClone *)
    rewrite abs_resolve_strong. destruct (resolve_strong s self h) as [[o l]|]; cbn [option_map fst]; [|reflexivity].
    rewrite abs_reg_free. destruct (reg_free s dst); [|reflexivity].
    apply abs_lift; [apply abs_inc_strong|intros h'; reflexivity].
  - (* ADrop *)
    rewrite abs_reg_get. destruct (reg_get s r); try reflexivity.
    apply abs_lift; [apply abs_weak_drop|intros h'; reflexivity].
  - (* ADowngrade *)
    rewrite abs_resolve_strong. destruct (resolve_strong s self h) as [[o l]|]; cbn [option_map fst]; [|reflexivity].
    rewrite abs_reg_free. destruct (reg_free s dst); [|reflexivity].
    apply abs_lift; [apply abs_inc_weak|intros h'; reflexivity].
  - (* AUpgrade *)
    rewrite abs_resolve_weak. destruct (resolve_weak s self w) as [w'|]; [|reflexivity].
    rewrite abs_reg_free. destruct (reg_free s dst); [|reflexivity].
    destruct w' as [o|]; [|reflexivity]. rewrite abs_heap_of, abs_getb.
    destruct (getb (heap_of s) o) as [b|e]; cbn [Rmap]; [|reflexivity].
    rewrite abs_is_dead. destruct (is_dead (strong b)); [reflexivity|].
    apply abs_lift; [apply abs_inc_strong|intros h'; reflexivity].
  - (* ACloneWeak *)
    rewrite abs_resolve_weak. destruct (resolve_weak s self w) as [w'|]; [|reflexivity].
    rewrite abs_reg_free. destruct (reg_free s dst); [|reflexivity].
    destruct w' as [o|]; [|reflexivity].
    apply abs_lift; [apply abs_inc_weak|intros h'; reflexivity].
  - (* AWeakNew *)
    rewrite abs_reg_free. destruct (reg_free s dst); reflexivity.
  - (* AStore *)
    rewrite abs_reg_get, abs_resolve_slot.
    destruct (slot_of_reg (reg_get s src)) as [sl|]; [|reflexivity].
    destruct (resolve_slot s self w k) as [[ow [o|t|]]|]; try reflexivity.
    change (s_set_reg (abs_state s) src REmpty) with (abs_state (set_reg s src REmpty)).
    rewrite abs_write_slot. destruct (write_slot (set_reg s src REmpty) self ow k sl) as [s1 self1].
    reflexivity.
  - (* ATake *)
    rewrite abs_resolve_slot. destruct (resolve_slot s self w k) as [[ow sl]|]; [|reflexivity].
    destruct (reg_of_slot sl) as [x|]; [|reflexivity].
    rewrite abs_reg_free. destruct (reg_free s dst); [|reflexivity].
    rewrite abs_write_slot. destruct (write_slot s self ow k SEmpty) as [s1 self1].
    reflexivity.
  - (* ATryUnwrap *)
    rewrite abs_reg_get. destruct (reg_get s r) as [o| | | |]; try reflexivity.
    rewrite abs_reg_free. destruct (reg_free s dst); [|reflexivity].
    rewrite abs_heap_of, abs_getb.
    destruct (getb (heap_of s) o) as [b|e] eqn:G; cbn [Rmap]; [|reflexivity].
    cbn [sstrong svalue abs_box].
    destruct (strong b) as [[|[q|q|]]|] eqn:S; try reflexivity.
    pose proof (getb_ok _ _ _ G) as [Gn Gf]. destruct (Hh o b Gn) as (HL & HB & HT).
    destruct HL as [HL|HL]; [|destruct (HT eq_refl HL); congruence].
    rewrite (release_links_norec _ _ _ G HL). cbn [lift]. ok_state.
    rewrite (getb_setb_same _ _ _ _ G) by exact Gf. cbn [value with_links cnt_of N.eqb Pos.eqb].
    destruct (value b) as [p|] eqn:V; [|reflexivity]. unfold setb. rewrite upd_upd.
    apply abs_lift; [|intros h'; reflexivity].
    rewrite <- abs_weak_drop. f_equal. rewrite abs_setb. reflexivity.
  - (* AGetMut *)
    rewrite abs_reg_get. destruct (reg_get s r) as [o| | | |]; try reflexivity.
    rewrite abs_heap_of, abs_getb.
    destruct (getb (heap_of s) o) as [b|e]; cbn [Rmap]; [|reflexivity].
    cbn [sweak sstrong abs_box]. destruct (weak b =? 0); [reflexivity|].
    destruct (strong b) as [[|[q|q|]]|]; reflexivity.
  - (* AMakeMut *)
    rewrite abs_reg_get. destruct (reg_get s r) as [o| | | |]; try reflexivity.
    rewrite abs_heap_of, abs_getb.
    destruct (getb (heap_of s) o) as [b|e] eqn:G; cbn [Rmap]; [|reflexivity].
    pose proof (getb_ok _ _ _ G) as [Gn Gf]. destruct (Hh o b Gn) as (HL & HB & HT).
    pose proof (getb_lt _ _ _ G) as Lt.
    cbn [sstrong sweak svalue abs_box]. rewrite abs_length.
    destruct (strong b) as [[|[q|q|]]|] eqn:S; cbn [cnt_of N.eqb Pos.eqb];
      try (destruct (value b) as [p|]; [|reflexivity];
           apply abs_lift; [apply abs_clone_slots|];
           intros h'; cbn [abs_aout]; abs_st; rewrite abs_app; reflexivity).
    destruct (weak b =? 0); [reflexivity|]. destruct (weak b =? 1); [reflexivity|].
    destruct (value b) as [p|] eqn:V; [|reflexivity].
    set (nb := new_box {| pid := length (heap_of s); slots := slots p; script := script p |}).
    assert (G1 : getb (setb (heap_of s) o (with_value b None) ++ [nb]) o = Ok (with_value b None)).
    { unfold getb, setb. rewrite nth_error_app1 by (rewrite upd_length; exact Lt).
      rewrite nth_error_upd_same by exact Lt. cbn [freed with_value]. rewrite Gf. reflexivity. }
    destruct HL as [HL|HL]; [|destruct (HT eq_refl HL); congruence].
    rewrite (release_links_norec _ _ _ G1) by exact HL. cbn [lift]. ok_state.
    rewrite (getb_setb_same _ _ _ _ G1) by exact Gf.
    unfold setb. rewrite upd_upd. rewrite upd_app_l by (rewrite upd_length; exact Lt).
    rewrite upd_upd. cbn [abs_aout]. abs_st. rewrite abs_app, abs_setb. reflexivity.
  - (* AIntoRaw *)
    rewrite abs_reg_get. destruct (reg_get s r); reflexivity.
  - (* AFromRaw *)
    rewrite abs_reg_get. destruct (reg_get s r); reflexivity.
  - (* AIncStrong *)
    rewrite abs_reg_get. destruct (reg_get s r) as [ | |o| |]; try reflexivity.
    rewrite abs_reg_free. destruct (reg_free s dst); [|reflexivity].
    apply abs_lift; [apply abs_inc_strong|intros h'; reflexivity].
  - (* ADecStrong *)
    rewrite abs_reg_get. destruct (reg_get s r); reflexivity.
  - (* APtrEq *)
    rewrite !abs_resolve_strong.
    destruct (resolve_strong s self h1) as [[a l1]|]; cbn [option_map fst]; [|reflexivity].
    destruct (resolve_strong s self h2) as [[b l2]|]; reflexivity.
  - (* AStrongCount *)
    rewrite abs_resolve_strong. destruct (resolve_strong s self h) as [[o l]|]; cbn [option_map fst]; [|reflexivity].
    rewrite abs_heap_of, abs_getb. destruct (getb (heap_of s) o) as [b|e]; reflexivity.
  - (* AWeakCount *)
    rewrite abs_resolve_strong. destruct (resolve_strong s self h) as [[o l]|]; cbn [option_map fst]; [|reflexivity].
    rewrite abs_heap_of, abs_getb. destruct (getb (heap_of s) o) as [b|e]; cbn [Rmap]; [|reflexivity].
    cbn [sweak abs_box]. destruct (weak b =? 0); reflexivity.
  - (* AWStrongCount *)
    rewrite abs_resolve_weak. destruct (resolve_weak s self w) as [[o|]|]; try reflexivity.
    rewrite abs_heap_of, abs_getb. destruct (getb (heap_of s) o) as [b|e]; cbn [Rmap]; [|reflexivity].
    cbn [sstrong abs_box]. destruct (strong b); reflexivity.
  - (* AWWeakCount *)
    rewrite abs_resolve_weak. destruct (resolve_weak s self w) as [[o|]|]; try reflexivity.
    rewrite abs_heap_of, abs_getb. destruct (getb (heap_of s) o) as [b|e]; cbn [Rmap]; [|reflexivity].
    cbn [sstrong sweak abs_box]. destruct (strong b) as [n|]; cbn [cnt_of]; [|reflexivity].
    destruct (0 <? n); [|reflexivity]. destruct (weak b =? 0); reflexivity.
  - (* ADeref *)
    rewrite abs_resolve_strong. destruct (resolve_strong s self h) as [[o l]|]; cbn [option_map fst]; [|reflexivity].
    rewrite abs_heap_of, abs_getb. destruct (getb (heap_of s) o) as [b|e]; cbn [Rmap]; [|reflexivity].
    cbn [svalue abs_box]. destruct (value b); reflexivity.
  - (* APanic *) reflexivity.
Qed.

(** ** [Drop for Rc] commutes *)
Definition abs_pair (x : state * list frame) : sstate * list sframe :=
  (abs_state (fst x), map abs_frame (snd x)).

Lemma abs_start_unreachable s o :
  (forall b, getb (heap_of s) o = Ok b -> cnt_of (strong b) = 0) ->
  s_drop_value (abs_state s) o = Rmap abs_pair (start_unreachable s o).
Proof.
  intros Hz. unfold s_drop_value, start_unreachable, bind. rewrite abs_heap_of, abs_getb.
  destruct (getb (heap_of s) o) as [b|e] eqn:G; cbn [Rmap]; [|reflexivity].
  cbn [svalue abs_box]. destruct (value b) as [v|]; cbn [Rmap]; [|reflexivity].
  unfold abs_pair; cbn [fst snd map abs_frame]. abs_st. rewrite abs_setb.
  unfold abs_box, sb_value; cbn [strong weak value freed with_value with_strong sstrong sweak svalue sfreed cnt_of].
  rewrite (Hz b eq_refl). reflexivity.
Qed.

Lemma abs_std_drop_strong s o :
  s_drop_strong (abs_state s) o = Rmap abs_pair (std_drop_strong s o).
Proof.
  unfold s_drop_strong, std_drop_strong, bind. rewrite abs_heap_of, abs_getb.
  destruct (getb (heap_of s) o) as [b|e] eqn:G; cbn [Rmap]; [|reflexivity].
  cbn [sstrong abs_box]. destruct (strong b) as [n|] eqn:S; cbn [cnt_of N.eqb]; [|reflexivity].
  destruct (n =? 0); [reflexivity|].
  destruct (N.eqb_spec (n - 1) 0) as [E|E].
  - rewrite <- abs_start_unreachable.
    + f_equal. abs_st. rewrite abs_setb. reflexivity.
    + intros b1. ok_state. rewrite (getb_setb_same _ _ _ _ G) by (apply getb_ok in G; apply G).
      intros H; injection H as <-. cbn [strong with_strong cnt_of]. exact E.
  - cbn [Rmap]. unfold abs_pair; cbn [fst snd map]. abs_st. rewrite abs_setb. reflexivity.
Qed.

(** ** Unwinding commutes *)
Lemma abs_unwind_stack k : forall s,
  no_group k ->
  s_unwind_stack (abs_state s) (map abs_frame k) = abs_pair (unwind_stack s k).
Proof.
  induction k as [|f k IH]; intros s Hg; cbn [map s_unwind_stack unwind_stack]; [reflexivity|].
  inversion Hg as [|? ? Hf Hg']; subst. rewrite (IH s Hg').
  destruct (unwind_stack s k) as [s1 k1]. unfold abs_pair; cbn [fst snd].
  destruct f; cbn [group_frame] in Hf; try discriminate; reflexivity.
Qed.

(** ** The simulation *)

(** the invariant of a std-like run: no adopting script anywhere, no record in
    any table, live objects have their table, pending value destructions
    belong to distinct [Uninit] objects, no [drop_cycle] frame *)
Definition sim_inv (c : config) : Prop := cfg_inv true c /\ no_group (stack c).

Lemma sim_inv_iff c : sim_inv c <-> std_inv c /\ no_group (stack c).
Proof. unfold sim_inv, std_inv. rewrite cfg_inv_true. tauto. Qed.

Lemma sim_inv_step pri c c' : sim_inv c -> step pri c = Running c' -> sim_inv c'.
Proof.
  intros [Hc Hg] E. split.
  - pose proof (step_ok true pri c Hc) as H. rewrite E in H. exact H.
  - eapply step_no_group; eauto. apply cfg_inv_true in Hc. apply Hc.
Qed.

(** Rust: one step of cactusref's drop machinery, in a world without recorded
    adoptions, is one step of std's; the abstraction commutes with it and the
    events ([EvDtor], results, leaks) are the same. *)
Theorem sim_step pri c : sim_inv c -> sstep (abs_cfg c) = abs_outcome (step pri c).
Proof.
  destruct c as [s k u]. intros [(Hs & Hk & Ha) Hg]. cbn [st stack unw] in *.
  pose proof Hs as [Hh Hr]. specialize (Ha eq_refl).
  unfold sstep, step, abs_cfg; cbn [st stack unw sst sstack sunw].
  destruct k as [|f k]; [reflexivity|]. cbn [map].
  inversion Hk as [|? ? Hf Hk']; subst. inversion Hg as [|? ? Hgf Hg']; subst.
  destruct f as [o|p|p pc|ss|o|es|o|keys|r]; cbn [group_frame] in Hgf; try discriminate;
    cbn [abs_frame].
  - (* FDropStrong *)
    apply st_inv_true in Hs as [Hn Hl].
    rewrite (drop_strong_fast pri s o) by (apply Hn || exact Hl).
    rewrite abs_std_drop_strong. destruct (std_drop_strong s o) as [[s1 push]|e]; cbn [Rmap abs_pair fst snd abs_outcome]; [|reflexivity].
    unfold abs_cfg; cbn [st stack unw]. rewrite map_app. reflexivity.
  - (* FDtorStart *) reflexivity.
  - (* FRunDtor *)
    destruct Hf as [Hp Hpc]. destruct pc as [|a pc]; [reflexivity|].
    apply noadopt_script_cons in Hpc as [Hact Hpc].
    rewrite (abs_exec_act s (Some p) a Hact Hs).
    destruct (exec_act s (Some p) a) as [s1 self r push|e|]; cbn [abs_aout abs_outcome].
    + unfold abs_cfg; cbn [st stack unw]. rewrite map_app. reflexivity.
    + reflexivity.
    + destruct u; [reflexivity|]. rewrite (abs_unwind_stack k s Hg').
      destruct (unwind_stack s k) as [s1 k1]. reflexivity.
  - (* FDropSlots *)
    destruct ss as [|[o|w|] ss]; try reflexivity.
    rewrite abs_heap_of, abs_weak_drop. destruct (weak_drop (heap_of s) w) as [h1|e]; reflexivity.
  - (* FAfterValue *)
    rewrite abs_heap_of.
    destruct (getb (heap_of s) o) as [b|e] eqn:G.
    + pose proof (getb_ok _ _ _ G) as [Gn Gf].
      destruct Ha as [Nd Hb]. cbn [after_oids] in Hb.
      destruct (Hb o (or_introl eq_refl)) as (b0 & Hb0 & S0 & L0).
      assert (b0 = b) as -> by congruence.
      destruct (links b) as [t|] eqn:L; [|congruence].
      assert (E : abs_heap (heap_of s) = abs_heap (setb (heap_of s) o (with_links b None))).
      { rewrite abs_setb. symmetry. apply upd_same. rewrite abs_nth, Gn. reflexivity. }
      rewrite E, abs_dec_weak_free.
      destruct (dec_weak_free (setb (heap_of s) o (with_links b None)) o) as [h2|e]; reflexivity.
    + unfold s_dec_weak_free, bind. rewrite abs_getb, G. reflexivity.
  - (* FRes *) reflexivity.
Qed.

Theorem sim_run pri n : forall c, sim_inv c -> srun n (abs_cfg c) = abs_outcome (run pri n c).
Proof.
  induction n as [|n IH]; intros c Hc; cbn [srun run]; [reflexivity|].
  rewrite (sim_step pri c Hc). destruct (step pri c) as [c'|s b|s e] eqn:E; cbn [abs_outcome]; auto.
  apply IH. eapply sim_inv_step; eauto.
Qed.

(** ** Whole calls and histories *)
Lemma simple_no_group push : Forall simple_frame push -> no_group push.
Proof.
  intros H. eapply Forall_impl; [|exact H]. intros f Hf.
  destruct f; cbn in Hf; try contradiction; reflexivity.
Qed.

Lemma first_ok s o :
  st_inv true s -> noadopt_op o = true ->
  aout_ok true s (match o with OAct a => exec_act s None a | ONewS dst sc => exec_new s None dst sc end) /\
  match o with OAct a => s_exec_act (abs_state s) None a | ONewS dst sc => s_exec_new (abs_state s) None dst sc end =
  abs_aout (match o with OAct a => exec_act s None a | ONewS dst sc => exec_new s None dst sc end).
Proof.
  intros Hs Ho. destruct o as [a|dst sc]; cbn [noadopt_op] in Ho; split.
  - apply exec_act_ok; auto. exact I.
  - apply abs_exec_act; auto.
  - apply exec_new_ok; auto. exact I.
  - apply abs_exec_new.
Qed.

Lemma start_sim_inv s1 push u :
  st_inv true s1 -> Forall frame_ok push -> Forall simple_frame push ->
  sim_inv {| st := s1; stack := push; unw := u |}.
Proof.
  intros A C D. split; [split; [exact A|split; [exact C|]]|apply simple_no_group; exact D].
  intros _. cbn [st stack]. split; rewrite (after_oids_simple _ D); [constructor|intros x []].
Qed.

(** Rust: a whole API call (with all the destructors it triggers) on a world
    without recorded adoptions has the same outcome as the same call on std,
    and leaves the corresponding state. *)
Theorem sim_exec_op pri fuel s o :
  st_inv true s -> noadopt_op o = true ->
  s_exec_op fuel (abs_state s) o =
  (abs_state (fst (exec_op pri fuel s o)), abs_op_outcome (snd (exec_op pri fuel s o))).
Proof.
  intros Hs Ho. destruct (first_ok s o Hs Ho) as [Hok Heq]. unfold s_exec_op, exec_op.
  rewrite Heq.
  destruct (match o with OAct a => exec_act s None a | ONewS dst sc => exec_new s None dst sc end)
    as [s1 self r push|e|]; cbn [abs_aout]; try reflexivity.
  destruct Hok as (A & _ & C & _ & D & _).
  pose proof (sim_run pri fuel _ (start_sim_inv s1 push false A C D)) as R.
  unfold abs_cfg in R; cbn [st stack unw] in R. rewrite R.
  destruct (run pri fuel {| st := s1; stack := push; unw := false |}) as [c|s2 [|]|s2 e]; reflexivity.
Qed.

(** ... and the discipline holds again after the call *)
Theorem exec_op_inv pri fuel s o :
  st_inv true s -> noadopt_op o = true -> st_inv true (fst (exec_op pri fuel s o)).
Proof.
  intros Hs Ho. destruct (first_ok s o Hs Ho) as [Hok _]. unfold exec_op.
  destruct (match o with OAct a => exec_act s None a | ONewS dst sc => exec_new s None dst sc end)
    as [s1 self r push|e|]; try exact Hs.
  destruct Hok as (A & _ & C & _ & D & _).
  destruct (start_sim_inv s1 push false A C D) as [Hc _].
  pose proof (run_ok true pri fuel _ Hc) as H.
  destruct (run pri fuel {| st := s1; stack := push; unw := false |}) as [c|s2 [|]|s2 e];
    cbn [fst outcome_ok] in *; auto. apply H.
Qed.

Definition noadopt_history (h : list (op * list oid)) : Prop :=
  Forall (fun x => noadopt_op (fst x) = true) h.

Theorem sim_history fuel h : forall s,
  st_inv true s -> noadopt_history h ->
  s_run_history fuel (abs_state s) (map fst h) =
  (abs_state (fst (run_history fuel s h)), map abs_op_outcome (snd (run_history fuel s h))).
Proof.
  induction h as [|[o pri] h IH]; intros s Hs Hh; cbn [map fst s_run_history run_history]; [reflexivity|].
  inversion Hh as [|? ? Ho Hh']; subst. cbn [fst] in Ho.
  rewrite (sim_exec_op pri fuel s o Hs Ho).
  pose proof (exec_op_inv pri fuel s o Hs Ho) as Hs1.
  destruct (exec_op pri fuel s o) as [s1 r]. cbn [fst snd] in *.
  destruct r as [r| |e|]; cbn [abs_op_outcome]; try reflexivity.
  - rewrite (IH s1 Hs1 Hh'). destruct (run_history fuel s1 h) as [s2 rs]. reflexivity.
  - rewrite (IH s1 Hs1 Hh'). destruct (run_history fuel s1 h) as [s2 rs]. reflexivity.
Qed.

Lemma init_inv : st_inv true init_state.
Proof.
  split.
  - intros o b H. destruct o; discriminate.
  - cbn. repeat constructor.
Qed.

(** the sequence of value destructions recorded in a log, oldest last *)
Definition dtor_seq (l : list event) : list nat :=
  flat_map (fun e => match e with EvDtor p => [p] | _ => [] end) l.

Lemma dtor_seq_abs l : dtor_seq (abs_log l) = dtor_seq l.
Proof.
  unfold dtor_seq, abs_log. induction l as [|e l IH]; [reflexivity|].
  destruct e; cbn [filter keep_ev map abs_ev flat_map app]; rewrite ?IH; reflexivity.
Qed.

(** Rust: a program that never calls adopt/unadopt (neither directly nor from
    a destructor) observes, call by call, the same results as the same program
    on [std::rc], ends in the corresponding state (same counters, same values,
    same released allocations), and its values are destroyed in the same
    sequence — for every hash order [pri] of every call. *)
Theorem noadopt_is_std fuel h :
  noadopt_history h ->
  let '(s, rs) := run_history fuel init_state h in
  s_run_history fuel s_init_state (map fst h) = (abs_state s, map abs_op_outcome rs) /\
  dtor_seq (slog (abs_state s)) = dtor_seq (log s).
Proof.
  intros Hh. pose proof (sim_history fuel h init_state init_inv Hh) as H.
  destruct (run_history fuel init_state h) as [s rs]. cbn [fst snd] in H.
  split; [exact H|]. apply dtor_seq_abs.
Qed.

(** ** Further corollaries and the hypotheses spelled out *)

(** [sim_step] with its invariant unfolded *)
Corollary sim_step_explicit pri c :
  cfg_noadopt c -> live_has_table (heap_of (st c)) ->
  after_ok (heap_of (st c)) (stack c) -> no_group (stack c) ->
  sstep (abs_cfg c) = abs_outcome (step pri c).
Proof. intros A B C D. apply sim_step. apply sim_inv_iff. unfold std_inv. auto. Qed.

Lemma sim_inv_run pri n : forall c c', sim_inv c -> run pri n c = Running c' -> sim_inv c'.
Proof.
  induction n as [|n IH]; intros c c' Hc; cbn [run].
  - intros H; injection H as <-. exact Hc.
  - destruct (step pri c) as [c1|s b|s e] eqn:E; try discriminate.
    apply IH. eapply sim_inv_step; eauto.
Qed.

(** Rust: [live_has_table] is kept by [Rc::new] and by [Rc::drop] *)
Theorem exec_new_live s self dst sc s' self' r push :
  noadopt_script sc = true -> state_noadopt s -> live_has_table (heap_of s) -> self_ok self ->
  exec_new s self dst sc = AO s' self' r push -> live_has_table (heap_of s').
Proof.
  intros Ha Hs Hl Hself E. assert (Hi : st_inv true s) by (apply st_inv_true; auto).
  pose proof (exec_new_ok true s self dst sc Ha Hi Hself) as H. rewrite E in H.
  destruct H as (A & _). apply st_inv_true in A. apply A.
Qed.

Theorem drop_strong_live pri s o s' push :
  state_noadopt s -> live_has_table (heap_of s) -> drop_strong pri s o = Ok (s', push) ->
  live_has_table (heap_of s').
Proof.
  intros Hs Hl E.
  assert (Hc : cfg_inv true {| st := s; stack := [FDropStrong o]; unw := false |}).
  { split; [apply st_inv_true; auto|split].
    - constructor; [exact I|constructor].
    - intros _. split; cbn [st stack after_oids]; [constructor|intros x []]. }
  pose proof (step_ok true pri _ Hc) as H. cbn [step st stack unw] in H. rewrite E in H.
  cbn [outcome_ok] in H. destruct H as (A & _). apply st_inv_true in A. apply A.
Qed.

(** [live_has_table] alone is NOT preserved by [step]: a pending
    "rest of drop_unreachable" frame for an object that is not marked [Uninit]
    moves the table of a live object out. This is why [std_inv] carries
    [after_ok]. *)
Example live_has_table_needs_after_ok :
  let b := {| strong := Cnt 1; weak := 2; links := Some []; talloc := false;
              value := None; freed := false |} in
  let c := {| st := mk [b] [] []; stack := [FAfterValue 0%nat]; unw := false |} in
  cfg_noadopt c /\ live_has_table (heap_of (st c)) /\
  exists c', step [] c = Running c' /\ ~ live_has_table (heap_of (st c')).
Proof.
  cbn zeta. split; [|split].
  - split; [split; [|split]|]; cbn [st stack heap_of regs mk].
    + intros [|o] b H; cbn in H; [injection H as <-; auto|destruct o; discriminate].
    + intros [|o] b H; cbn in H; [injection H as <-|destruct o; discriminate].
      intros p Hp; discriminate.
    + constructor.
    + constructor; [exact I|constructor].
  - intros [|o] b n H; cbn in H; [injection H as <-|destruct o; discriminate].
    cbn. discriminate.
  - eexists. split; [reflexivity|]. cbn. intros H.
    apply (H 0%nat _ 1 eq_refl eq_refl); [discriminate|reflexivity].
Qed.

(** where a step leaves the state when it does not continue *)
Lemma step_stop_state pri c :
  match step pri c with
  | Running _ => True
  | Finished s _ => s = st c
  | Halted s _ => s = st c
  end.
Proof.
  destruct c as [s k u]. unfold step; cbn [st stack unw].
  destruct k as [|f k]; [reflexivity|].
  destruct f as [o|p|p pc|ss|o|es|o|keys|r]; try exact I.
  - destruct (drop_strong pri s o) as [[s1 push]|e]; [exact I|reflexivity].
  - destruct pc as [|a pc]; [exact I|].
    destruct (exec_act s (Some p) a) as [s1 self r push|e|]; [exact I|reflexivity|].
    destruct u; [reflexivity|]. destruct (unwind_stack s k); exact I.
  - destruct ss as [|[o|w|] ss]; try exact I.
    destruct (weak_drop (heap_of s) w); [exact I|reflexivity].
  - destruct (getb (heap_of s) o) as [b|e]; [|reflexivity].
    destruct (links b); [|reflexivity].
    destruct (dec_weak_free _ o); [exact I|reflexivity].
  - destruct es as [|[[o v] t] es]; exact I.
  - destruct (finish_group (heap_of s) keys); [exact I|reflexivity].
Qed.

Definition outcome_state (x : outcome) : state :=
  match x with Running c => st c | Finished s _ => s | Halted s _ => s end.

Lemma run_quiet pri n : forall c,
  cfg_noadopt c -> quiet_ext (log (st c)) (log (outcome_state (run pri n c))).
Proof.
  induction n as [|n IH]; intros c Hc; cbn [run]; [apply quiet_refl|].
  pose proof (step_stop_state pri c) as Hst.
  destruct (step pri c) as [c'|s b|s e] eqn:E; cbn [outcome_state].
  - eapply quiet_trans; [eapply step_quiet; eauto|]. apply IH. eapply step_noadopt; eauto.
  - subst s. apply quiet_refl.
  - subst s. apply quiet_refl.
Qed.

Lemma exec_op_quiet pri fuel s o :
  st_inv false s -> noadopt_op o = true ->
  quiet_ext (log s) (log (fst (exec_op pri fuel s o))) /\ st_inv false (fst (exec_op pri fuel s o)).
Proof.
  intros Hs Ho. unfold exec_op.
  assert (Hok : aout_ok false s
            (match o with OAct a => exec_act s None a | ONewS dst sc => exec_new s None dst sc end)).
  { destruct o as [a|dst sc]; cbn [noadopt_op] in Ho.
    - apply exec_act_ok; auto. exact I.
    - apply exec_new_ok; auto. exact I. }
  destruct (match o with OAct a => exec_act s None a | ONewS dst sc => exec_new s None dst sc end)
    as [s1 self r push|e|]; cbn [fst]; try (split; [apply quiet_refl|exact Hs]).
  destruct Hok as (A & _ & C & _ & D & Q). apply tbl_quiet in Q.
  assert (Hc : cfg_inv false {| st := s1; stack := push; unw := false |}).
  { split; [exact A|split; [exact C|discriminate]]. }
  pose proof (run_quiet pri fuel _ (proj1 (cfg_inv_false _) Hc)) as Q2.
  pose proof (run_ok false pri fuel _ Hc) as H. cbn [st] in Q2.
  destruct (run pri fuel {| st := s1; stack := push; unw := false |}) as [c|s2 [|]|s2 e];
    cbn [fst outcome_ok outcome_state] in *;
    (split; [eapply quiet_trans; eauto|]); auto. apply H.
Qed.

(** Rust: a program that never adopts never runs a reachability trace and
    never tears down a group: its log contains no [EvTrace] and no [EvGroup]. *)
Theorem noadopt_no_cycle_events fuel h : forall s,
  st_inv false s -> noadopt_history h ->
  cyc_events (log (fst (run_history fuel s h))) = cyc_events (log s).
Proof.
  induction h as [|[o pri] h IH]; intros s Hs Hh; cbn [run_history fst]; [reflexivity|].
  inversion Hh as [|? ? Ho Hh']; subst. cbn [fst] in Ho.
  destruct (exec_op_quiet pri fuel s o Hs Ho) as [Q Hs1].
  destruct (exec_op pri fuel s o) as [s1 r]. cbn [fst] in *.
  apply quiet_cyc_events in Q.
  destruct r as [r| |e|]; cbn [fst]; auto.
  - specialize (IH s1 Hs1 Hh'). destruct (run_history fuel s1 h) as [s2 rs]. cbn [fst] in *. congruence.
  - specialize (IH s1 Hs1 Hh'). destruct (run_history fuel s1 h) as [s2 rs]. cbn [fst] in *. congruence.
Qed.

Corollary noadopt_program_never_traces fuel h :
  noadopt_history h ->
  cyc_events (log (fst (run_history fuel init_state h))) = [] /\
  traces (log (fst (run_history fuel init_state h))) = [].
Proof.
  intros Hh. pose proof (noadopt_no_cycle_events fuel h init_state (st_inv_weaken _ _ init_inv) Hh) as H.
  cbn [log init_state mk cyc_events filter] in H. split; [exact H|].
  revert H. generalize (log (fst (run_history fuel init_state h))). intros l.
  unfold cyc_events, traces. induction l as [|e l IH]; [reflexivity|]. cbn [filter].
  destruct e; cbn [cyc_event]; try discriminate; auto.
Qed.

(** results are compared exactly, except for one shape *)
Lemma abs_result_id r : abs_result r = r \/ r = RCnt Uninit.
Proof. destruct r as [| | | |[n|]| | |]; auto. Qed.

(** * Part C: handles are counted, so the comparison of results is exact. *)

(** ** Counting the strong handles to an object *)
Definition eqN (a b : oid) : N := if Nat.eqb a b then 1 else 0.

Fixpoint sumf {A} (f : A -> N) (l : list A) : N :=
  match l with [] => 0 | x :: l' => f x + sumf f l' end.

Definition hs (o : oid) (sl : slot) : N :=
  match sl with SStrong o' => eqN o o' | _ => 0 end.
Definition hss (o : oid) (ss : list slot) : N := sumf (hs o) ss.
Definition hp (o : oid) (p : payload) : N := hss o (slots p).
Definition hr (o : oid) (x : reg) : N :=
  match x with
  | RStrong o' | RRaw o' => eqN o o'
  | RLoose p => hp o p
  | _ => 0
  end.
Definition hb (o : oid) (b : box) : N :=
  match value b with Some p => hp o p | None => 0 end.
Definition hf (o : oid) (f : frame) : N :=
  match f with
  | FDropStrong o' => eqN o o'
  | FDtorStart p | FRunDtor p _ => hp o p
  | FDropSlots ss => hss o ss
  | _ => 0
  end.
Definition hself (o : oid) (self : option payload) : N :=
  match self with Some p => hp o p | None => 0 end.

Definition hcnt (o : oid) (h : heap) : N := sumf (hb o) h.
Definition hstate (o : oid) (s : state) : N := sumf (hr o) (regs s) + hcnt o (heap_of s).

(** the strong counter as a number *)
Definition sc (h : heap) (o : oid) : N :=
  match nth_error h o with Some b => cnt_of (strong b) | None => 0 end.

(** ** Sums over updated lists *)
Lemma sumf_app {A} (f : A -> N) l1 l2 : sumf f (l1 ++ l2) = sumf f l1 + sumf f l2.
Proof. induction l1 as [|x l1 IH]; cbn [sumf app]; [reflexivity|]. rewrite IH. lia. Qed.

Lemma sumf_upd {A} (f : A -> N) l i x a :
  nth_error l i = Some a -> sumf f (upd l i x) + f a = sumf f l + f x.
Proof.
  revert i; induction l as [|y l IH]; intros [|i] H; cbn [nth_error upd sumf] in *; try discriminate.
  - injection H as ->. lia.
  - specialize (IH i H). lia.
Qed.

Lemma sumf_ge {A} (f : A -> N) l i a : nth_error l i = Some a -> f a <= sumf f l.
Proof.
  revert i; induction l as [|y l IH]; intros [|i] H; cbn [nth_error sumf] in *; try discriminate.
  - injection H as ->. lia.
  - specialize (IH i H). lia.
Qed.

Lemma upd_beyond {A} (l : list A) i x : (length l <= i)%nat -> upd l i x = l.
Proof.
  revert i; induction l as [|y l IH]; intros [|i] H; cbn [upd length] in *; auto; try lia.
  f_equal. apply IH. lia.
Qed.

Lemma nth_error_nth_d {A} (l : list A) i d : (i < length l)%nat -> nth_error l i = Some (nth i l d).
Proof.
  revert i; induction l as [|y l IH]; intros [|i] H; cbn [length nth nth_error] in *; try lia; auto.
  apply IH. lia.
Qed.

(** writing a register that is free *)
Lemma sumf_reg_free o s dst x :
  reg_free s dst = true -> sumf (hr o) (upd (regs s) dst x) = sumf (hr o) (regs s) + hr o x.
Proof.
  unfold reg_free, reg_get. intros H. apply andb_true_iff in H as [L E]. apply Nat.ltb_lt in L.
  pose proof (sumf_upd (hr o) (regs s) dst x _ (nth_error_nth_d _ _ REmpty L)) as Hs.
  destruct (nth dst (regs s) REmpty); try discriminate. cbn [hr] in Hs. lia.
Qed.

(** overwriting a register that holds something *)
Lemma sumf_reg_set o s r x y :
  reg_get s r = y -> y <> REmpty ->
  sumf (hr o) (upd (regs s) r x) + hr o y = sumf (hr o) (regs s) + hr o x.
Proof.
  unfold reg_get. intros E Hy. destruct (Nat.lt_ge_cases r (length (regs s))) as [L|L].
  - rewrite <- E. apply sumf_upd. apply nth_error_nth_d. exact L.
  - rewrite nth_overflow in E by exact L. congruence.
Qed.

Lemma hcnt_setb o h i b b' :
  nth_error h i = Some b -> hcnt o (setb h i b') + hb o b = hcnt o h + hb o b'.
Proof. apply sumf_upd. Qed.

Lemma hcnt_setb_same o h i b b' :
  nth_error h i = Some b -> value b' = value b -> hcnt o (setb h i b') = hcnt o h.
Proof.
  intros H V. pose proof (hcnt_setb o h i b b' H) as E. unfold hb in E. rewrite V in E. lia.
Qed.

Lemma hcnt_app o h b : hcnt o (h ++ [b]) = hcnt o h + hb o b.
Proof. unfold hcnt. rewrite sumf_app. cbn [sumf]. lia. Qed.

Lemma sc_setb h i b b' o :
  nth_error h i = Some b ->
  sc (setb h i b') o = if Nat.eqb i o then cnt_of (strong b') else sc h o.
Proof.
  intros H. unfold sc, setb. rewrite nth_error_upd. destruct (Nat.eqb i o); [|reflexivity].
  apply nth_error_lt in H. apply Nat.ltb_lt in H. rewrite H. reflexivity.
Qed.

Lemma sc_setb_same h i b b' o :
  nth_error h i = Some b -> strong b' = strong b -> sc (setb h i b') o = sc h o.
Proof.
  intros H S. rewrite (sc_setb _ _ _ _ _ H). destruct (Nat.eqb_spec i o) as [<-|]; [|reflexivity].
  unfold sc. rewrite H, S. reflexivity.
Qed.

Lemma sc_app h b o :
  sc (h ++ [b]) o = if Nat.eqb o (length h) then cnt_of (strong b) else sc h o.
Proof.
  unfold sc. destruct (Nat.eqb_spec o (length h)) as [->|Hne].
  - rewrite nth_error_app_new. reflexivity.
  - destruct (Nat.lt_ge_cases o (length h)) as [L|L].
    + rewrite nth_error_app1 by exact L. reflexivity.
    + rewrite nth_error_app2 by exact L.
      destruct (o - length h)%nat as [|m] eqn:E; [lia|].
      assert (nth_error h o = None) as -> by (apply nth_error_None; exact L).
      destruct m; reflexivity.
Qed.

Lemma eqN_refl o : eqN o o = 1.
Proof. unfold eqN. rewrite Nat.eqb_refl. reflexivity. Qed.

Lemma eqN_sym a b : eqN a b = eqN b a.
Proof. unfold eqN. rewrite Nat.eqb_sym. reflexivity. Qed.

(** ** The counter primitives *)
Definition hv_same (h h' : heap) : Prop := forall o, hcnt o h' = hcnt o h.

Lemma inc_strong_cnt h o1 h' :
  inc_strong h o1 = Ok h' -> hv_same h h' /\ forall o, sc h' o = sc h o + eqN o o1.
Proof.
  unfold inc_strong, bind. destruct (getb h o1) as [b|] eqn:G; [|discriminate].
  apply getb_ok in G as [Gn Gf]. destruct (strong b) as [n|] eqn:S; [|discriminate].
  destruct (n =? 0); [discriminate|]. intros H; injection H as <-. split.
  - intros o. eapply hcnt_setb_same; eauto.
  - intros o. rewrite (sc_setb _ _ _ _ _ Gn), (eqN_sym o o1). unfold eqN. destruct (Nat.eqb_spec o1 o) as [<-|].
    + unfold sc. rewrite Gn, S. reflexivity.
    + lia.
Qed.

Lemma inc_weak_cnt h o1 h' :
  inc_weak h o1 = Ok h' -> hv_same h h' /\ forall o, sc h' o = sc h o.
Proof.
  unfold inc_weak, bind. destruct (getb h o1) as [b|] eqn:G; [|discriminate].
  apply getb_ok in G as [Gn Gf]. destruct (weak b =? 0); [discriminate|].
  intros H; injection H as <-. split.
  - intros o. eapply hcnt_setb_same; eauto.
  - intros o. eapply sc_setb_same; eauto.
Qed.

Lemma dec_weak_free_cnt h o1 h' :
  dec_weak_free h o1 = Ok h' -> hv_same h h' /\ forall o, sc h' o = sc h o.
Proof.
  unfold dec_weak_free, bind. destruct (getb h o1) as [b|] eqn:G; [|discriminate].
  apply getb_ok in G as [Gn Gf]. destruct (weak b =? 0); [discriminate|].
  intros H; injection H as <-. destruct (weak b - 1 =? 0); split; intros o;
    first [eapply hcnt_setb_same; eauto; reflexivity | eapply sc_setb_same; eauto; reflexivity].
Qed.

Lemma weak_drop_cnt h w h' :
  weak_drop h w = Ok h' -> hv_same h h' /\ forall o, sc h' o = sc h o.
Proof.
  destruct w as [o1|]; cbn [weak_drop]; [apply dec_weak_free_cnt|].
  intros H; injection H as <-. split; intros o; reflexivity.
Qed.

Lemma clone_slots_cnt ss : forall h h',
  clone_slots h ss = Ok h' -> hv_same h h' /\ forall o, sc h' o = sc h o + hss o ss.
Proof.
  induction ss as [|sl ss IH]; intros h h'; cbn [clone_slots].
  - intros H; injection H as <-. split; intros o; cbn; [reflexivity|lia].
  - unfold hss in *. destruct sl as [o1|[o1|]|]; unfold bind; cbn [sumf hs].
    + destruct (inc_strong h o1) as [h1|] eqn:E; [|discriminate]. intros H.
      apply inc_strong_cnt in E as [A B]. apply IH in H as [C D]. split.
      * intros o. rewrite C, A. reflexivity.
      * intros o. rewrite D, B. lia.
    + destruct (inc_weak h o1) as [h1|] eqn:E; [|discriminate]. intros H.
      apply inc_weak_cnt in E as [A B]. apply IH in H as [C D]. split.
      * intros o. rewrite C, A. reflexivity.
      * intros o. rewrite D, B. lia.
    + intros H. apply IH in H as [C D]. split; [exact C|]. intros o. rewrite D. lia.
    + intros H. apply IH in H as [C D]. split; [exact C|]. intros o. rewrite D. lia.
Qed.

Lemma hb_some o b p : value b = Some p -> hb o b = hp o p.
Proof. unfold hb. intros ->. reflexivity. Qed.
Lemma hb_none o b : value b = None -> hb o b = 0.
Proof. unfold hb. intros ->. reflexivity. Qed.

(** ** Resolution finds counted handles *)
Definition owner_at (s : state) (self : option payload) (ow : owner) : Prop :=
  match ow with
  | WBox o1 p => exists b, nth_error (heap_of s) o1 = Some b /\ value b = Some p
  | WSelf p => self = Some p
  end.

Lemma resolve_owner_at s self w ow : resolve_owner s self w = Some ow -> owner_at s self ow.
Proof.
  destruct w as [r|]; cbn [resolve_owner].
  - destruct (reg_get s r) as [o| | | |]; try discriminate.
    destruct (nth_error (heap_of s) o) as [b|] eqn:Hb; [|discriminate].
    destruct (value b) as [p|] eqn:Hv; [|discriminate].
    intros H; injection H as <-. cbn [owner_at]. eauto.
  - destruct self as [p|]; [|discriminate]. intros H; injection H as <-. reflexivity.
Qed.

Lemma resolve_slot_at s self w k ow sl :
  resolve_slot s self w k = Some (ow, sl) ->
  owner_at s self ow /\ nth_error (slots (owner_payload ow)) k = Some sl.
Proof.
  unfold resolve_slot. destruct (resolve_owner s self w) as [ow'|] eqn:E; [|discriminate].
  destruct (nth_error (slots (owner_payload ow')) k) as [sl'|] eqn:N; [|discriminate].
  intros H; injection H as <- <-. split; [eapply resolve_owner_at; eauto|exact N].
Qed.

Lemma owner_at_ge s self ow o :
  owner_at s self ow -> hp o (owner_payload ow) <= hcnt o (heap_of s) + hself o self.
Proof.
  destruct ow as [o1 p|p]; cbn [owner_at owner_payload].
  - intros (b & Hb & Hv). pose proof (sumf_ge (hb o) _ _ _ Hb) as G.
    rewrite (hb_some o b p Hv) in G. unfold hcnt. lia.
  - intros ->. cbn [hself]. lia.
Qed.

Lemma resolve_strong_has s self hr0 o l :
  resolve_strong s self hr0 = Some (o, l) ->
  1 <= sumf (hr o) (regs s) + hcnt o (heap_of s) + hself o self.
Proof.
  destruct hr0 as [r|w k]; cbn [resolve_strong].
  - destruct (reg_get s r) as [o'| | | |] eqn:E; try discriminate. intros H; injection H as <- _.
    unfold reg_get in E. destruct (Nat.lt_ge_cases r (length (regs s))) as [L|L].
    + pose proof (sumf_ge (hr o') _ _ _ (nth_error_nth_d _ _ REmpty L)) as G.
      rewrite E in G. cbn [hr] in G. rewrite eqN_refl in G. lia.
    + rewrite nth_overflow in E by exact L. discriminate.
  - destruct (resolve_slot s self w k) as [[ow [o'|t|]]|] eqn:E; try discriminate.
    intros H; injection H as <- _. apply resolve_slot_at in E as [A B].
    pose proof (owner_at_ge s self ow o' A) as G.
    pose proof (sumf_ge (hs o') _ _ _ B) as G2. cbn [hs] in G2. rewrite eqN_refl in G2.
    unfold hp, hss in G. lia.
Qed.

Lemma write_slot_cnt s self ow k sl old s1 self1 :
  owner_at s self ow -> nth_error (slots (owner_payload ow)) k = Some old ->
  write_slot s self ow k sl = (s1, self1) ->
  regs s1 = regs s /\
  (forall o, hcnt o (heap_of s1) + hself o self1 + hs o old =
             hcnt o (heap_of s) + hself o self + hs o sl) /\
  (forall o, sc (heap_of s1) o = sc (heap_of s) o) /\
  (self1 = None -> self = None).
Proof.
  destruct ow as [o1 p|p]; cbn [owner_at owner_payload write_slot].
  - intros (b & Hb & Hv) Hk. rewrite Hb. intros H; injection H as <- <-.
    unfold set_heap; cbn [heap_of regs mk]. split; [reflexivity|]. split; [|split; [|auto]].
    + intros o. pose proof (hcnt_setb o _ _ _ (with_value b (Some (set_payload_slot p k sl))) Hb) as E.
      rewrite (hb_some o b p Hv) in E.
      rewrite (hb_some o (with_value b (Some (set_payload_slot p k sl))) (set_payload_slot p k sl)) in E
        by reflexivity.
      unfold hp, hss, set_payload_slot in *. cbn [slots] in E.
      pose proof (sumf_upd (hs o) _ _ sl _ Hk) as E2. lia.
    + intros o. eapply sc_setb_same; eauto.
  - intros -> Hk H; injection H as <- <-. split; [reflexivity|]. split; [|split; [auto|discriminate]].
    intros o. cbn [hself]. unfold hp, hss, set_payload_slot; cbn [slots].
    pose proof (sumf_upd (hs o) _ _ sl _ Hk) as E2. lia.
Qed.

(** ** One call keeps the count *)

(** the handles to [o] in registers, heap values and the running destructor's
    value, plus [X] handles elsewhere (the rest of the stack), are as many as
    the strong counter of [o] says *)
Definition cnt_at (s : state) (self : option payload) (o : oid) (X : N) : Prop :=
  sumf (hr o) (regs s) + hcnt o (heap_of s) + hself o self + X = sc (heap_of s) o.

Definition res_exact (r : result) : Prop := r <> RCnt Uninit.

Definition cok (s : state) (self : option payload) (x : aout) : Prop :=
  match x with
  | AO s' self' r push =>
      (forall o X, cnt_at s self o X -> cnt_at s' self' o (sumf (hf o) push + X)) /\
      ((forall o, exists X, cnt_at s self o X) -> res_exact r) /\
      (self' = None -> self = None)
  | _ => True
  end.

Lemma cok_same s self r : (forall c, r <> RCnt c) -> cok s self (AO s self r []).
Proof.
  intros Hr. cbn [cok sumf]. split; [|split; [intros _; apply Hr|auto]].
  intros o X H. unfold cnt_at in *. lia.
Qed.

Lemma cok_lift s s0 self x k :
  (forall h', x = Ok h' -> cok s self (k (set_heap s0 h'))) -> cok s self (lift s0 self x k).
Proof. intros H. unfold lift. destruct x as [h'|e]; [apply H; reflexivity|exact I]. Qed.

Lemma cok_heap_reg s self h' dst x r (d : oid -> N) :
  reg_free s dst = true -> hv_same (heap_of s) h' ->
  (forall o, sc h' o = sc (heap_of s) o + d o) -> (forall o, hr o x = d o) ->
  (forall c, r <> RCnt c) ->
  cok s self (AO (set_reg (set_heap s h') dst x) self r []).
Proof.
  intros Hf Hv Hs Hx Hr. cbn [cok sumf]. split; [|split; [intros _; apply Hr|auto]].
  intros o X H. unfold cnt_at in *. ok_state.
  rewrite (sumf_reg_free o s dst x Hf), Hv, Hs, Hx. lia.
Qed.

Lemma sumf_upd_empty o rs dst x :
  nth_error rs dst = Some REmpty -> sumf (hr o) (upd rs dst x) = sumf (hr o) rs + hr o x.
Proof. intros H. pose proof (sumf_upd (hr o) rs dst x _ H) as E. cbn [hr] in E. lia. Qed.

Lemma reg_free_nth s dst : reg_free s dst = true -> nth_error (regs s) dst = Some REmpty.
Proof.
  unfold reg_free, reg_get. intros H. apply andb_true_iff in H as [L E]. apply Nat.ltb_lt in L.
  rewrite (nth_error_nth_d _ _ REmpty L). destruct (nth dst (regs s) REmpty); try discriminate.
  reflexivity.
Qed.

Lemma reg_free_after_set s r y x dst :
  reg_get s r = y -> y <> REmpty -> reg_free s dst = true ->
  nth_error (upd (regs s) r x) dst = Some REmpty.
Proof.
  intros E Hy Hf. pose proof (reg_free_nth s dst Hf) as N. rewrite nth_error_upd.
  destruct (Nat.eqb_spec r dst) as [->|]; [|exact N].
  unfold reg_get in E. rewrite (nth_error_nth _ _ REmpty N) in E. congruence.
Qed.

Lemma clone_slots_length ss : forall h h', clone_slots h ss = Ok h' -> length h' = length h.
Proof.
  induction ss as [|sl ss IH]; intros h h'; cbn [clone_slots].
  - intros H; injection H as <-. reflexivity.
  - destruct sl as [o1|[o1|]|]; unfold bind; auto.
    + unfold inc_strong, bind. destruct (getb h o1) as [b|]; [|discriminate].
      destruct (strong b) as [n|]; [|discriminate]. destruct (n =? 0); [discriminate|].
      intros H. apply IH in H. rewrite H. apply upd_length.
    + unfold inc_weak, bind. destruct (getb h o1) as [b|]; [|discriminate].
      destruct (weak b =? 0); [discriminate|].
      intros H. apply IH in H. rewrite H. apply upd_length.
Qed.

Lemma sc_beyond h o : (length h <= o)%nat -> sc h o = 0.
Proof. intros L. unfold sc. apply nth_error_None in L. rewrite L. reflexivity. Qed.

Lemma hss_empty o : hss o empty_slots = 0.
Proof. reflexivity. Qed.

Lemma hb_new_box o p : hb o (new_box p) = hp o p.
Proof. reflexivity. Qed.

(** [Clone for Node] copies all the handles of the node or none of them *)
Lemma cloned_slots_cases ss : cloned_slots ss = ss \/ cloned_slots ss = empty_slots.
Proof. unfold cloned_slots. destruct (clone_detached ss); auto. Qed.

Lemma sumf_empty_slots (f : slot -> N) : f SEmpty = 0 -> sumf f empty_slots = 0.
Proof.
  intros Hf. unfold empty_slots. induction NSLOTS as [|n IH]; cbn [repeat sumf]; [reflexivity|].
  rewrite Hf, IH. reflexivity.
Qed.

(** for every weight that ignores empty slots, the clone weighs as much as the
    original, or nothing *)
Lemma sumf_cloned_cases (f : slot -> N) ss :
  f SEmpty = 0 -> sumf f (cloned_slots ss) = sumf f ss \/ sumf f (cloned_slots ss) = 0.
Proof.
  intros Hf. destruct (cloned_slots_cases ss) as [-> | ->]; [left; reflexivity|].
  right. apply sumf_empty_slots, Hf.
Qed.

Lemma sumf_cloned_le (f : slot -> N) ss :
  f SEmpty = 0 -> sumf f (cloned_slots ss) <= sumf f ss.
Proof. intros Hf. destruct (sumf_cloned_cases f ss Hf) as [E|E]; rewrite E; lia. Qed.

Lemma hss_cloned_le o ss : hss o (cloned_slots ss) <= hss o ss.
Proof. apply sumf_cloned_le. reflexivity. Qed.

Lemma exec_new_count s self dst sc0 : cok s self (exec_new s self dst sc0).
Proof.
  unfold exec_new. destruct (reg_free s dst) eqn:Hf; [|apply cok_same; discriminate].
  cbn [cok sumf]. split; [|split; [intros _; discriminate|auto]].
  intros o X H. unfold cnt_at in *. ok_state.
  rewrite (sumf_reg_free o s dst _ Hf), hcnt_app, sc_app. cbn [hr].
  rewrite hb_new_box. unfold hp; cbn [slots]. rewrite hss_empty.
  unfold eqN. destruct (Nat.eqb_spec o (length (heap_of s))) as [->|Hne]; cbn [strong new_box cnt_of].
  - rewrite sc_beyond in H by lia. lia.
  - lia.
Qed.

Lemma exec_act_count s self a :
  noadopt_act a = true -> st_inv true s -> cok s self (exec_act s self a).
Proof.
  intros Ha [Hh Hr].
  assert (Hinv : cok s self (invalid s self)) by (apply cok_same; discriminate).
  destruct a; cbn [noadopt_act] in Ha; try discriminate; cbn [exec_act].
  - (* ANew *) apply exec_new_count.
  - (* AClone *)
    destruct (resolve_strong s self h) as [[o1 l]|]; [|exact Hinv].
    destruct (reg_free s dst) eqn:Hf; [|exact Hinv]. apply cok_lift; intros h' E.
    apply inc_strong_cnt in E as [A B].
    apply (cok_heap_reg s self h' dst _ _ (fun o => eqN o o1)); auto; discriminate.
  - (* ADrop *)
    destruct (reg_get s r) as [o1|w|o1|p|] eqn:Er; try exact Hinv.
    + cbn [cok sumf hf]. split; [|split; [intros _; discriminate|auto]].
      intros o X H. unfold cnt_at in *. ok_state.
      pose proof (sumf_reg_set o s r REmpty _ Er ltac:(discriminate)) as E. cbn [hr] in E. lia.
    + apply cok_lift; intros h' E. apply weak_drop_cnt in E as [A B].
      cbn [cok sumf]. split; [|split; [intros _; discriminate|auto]].
      intros o X H. unfold cnt_at in *. ok_state.
      pose proof (sumf_reg_set o s r REmpty _ Er ltac:(discriminate)) as E. cbn [hr] in E.
      rewrite A, B. lia.
    + cbn [cok sumf hf]. split; [|split; [intros _; discriminate|auto]].
      intros o X H. unfold cnt_at in *. ok_state.
      pose proof (sumf_reg_set o s r REmpty _ Er ltac:(discriminate)) as E. cbn [hr] in E. lia.
  - (* ADowngrade *)
    destruct (resolve_strong s self h) as [[o1 l]|]; [|exact Hinv].
    destruct (reg_free s dst) eqn:Hf; [|exact Hinv]. apply cok_lift; intros h' E.
    apply inc_weak_cnt in E as [A B].
    apply (cok_heap_reg s self h' dst _ _ (fun o => 0)); auto; try discriminate.
    intros o. rewrite B. lia.
  - (* AUpgrade *)
    destruct (resolve_weak s self w) as [w'|]; [|exact Hinv].
    destruct (reg_free s dst) eqn:Hf; [|exact Hinv].
    destruct w' as [o1|]; [|apply cok_same; discriminate].
    destruct (getb (heap_of s) o1) as [b|e]; [|exact I].
    destruct (is_dead (strong b)); [apply cok_same; discriminate|]. apply cok_lift; intros h' E.
    apply inc_strong_cnt in E as [A B].
    apply (cok_heap_reg s self h' dst _ _ (fun o => eqN o o1)); auto; discriminate.
  - (* ACloneWeak *)
    destruct (resolve_weak s self w) as [w'|]; [|exact Hinv].
    destruct (reg_free s dst) eqn:Hf; [|exact Hinv]. destruct w' as [o1|].
    + apply cok_lift; intros h' E. apply inc_weak_cnt in E as [A B].
      apply (cok_heap_reg s self h' dst _ _ (fun o => 0)); auto; try discriminate.
      intros o. rewrite B. lia.
    + apply (cok_heap_reg s self (heap_of s) dst _ _ (fun o => 0)); auto; try discriminate.
      * intros o. reflexivity.
      * intros o. lia.
  - (* AWeakNew *)
    destruct (reg_free s dst) eqn:Hf; [|exact Hinv].
    apply (cok_heap_reg s self (heap_of s) dst _ _ (fun o => 0)); auto; try discriminate.
    + intros o. reflexivity.
    + intros o. lia.
  - (* AStore *)
    destruct (slot_of_reg (reg_get s src)) as [sl|] eqn:Esl; [|exact Hinv].
    destruct (resolve_slot s self w k) as [[ow [o1|w'|]]|] eqn:E; try exact Hinv.
    apply resolve_slot_at in E as [At Hk].
    destruct (write_slot (set_reg s src REmpty) self ow k sl) as [s1 self1] eqn:W.
    apply (write_slot_cnt _ _ _ _ _ SEmpty) in W as (W1 & W2 & W3 & W4); auto.
    cbn [cok sumf]. split; [|split; [intros _; discriminate|exact W4]].
    intros o X H. unfold cnt_at in *. specialize (W2 o). specialize (W3 o).
    rewrite W1, W3. cbn [set_reg heap_of regs mk hs] in *.
    assert (Hy : reg_get s src <> REmpty) by (intros Q; rewrite Q in Esl; discriminate).
    pose proof (sumf_reg_set o s src REmpty _ eq_refl Hy) as E. cbn [hr] in E.
    assert (hr o (reg_get s src) = hs o sl).
    { destruct (reg_get s src); cbn [slot_of_reg] in Esl; try discriminate;
        injection Esl as <-; reflexivity. }
    lia.
  - (* ATake *)
    destruct (resolve_slot s self w k) as [[ow sl]|] eqn:E; [|exact Hinv].
    destruct (reg_of_slot sl) as [x|] eqn:Ex; [|exact Hinv].
    destruct (reg_free s dst) eqn:Hf; [|exact Hinv].
    apply resolve_slot_at in E as [At Hk].
    destruct (write_slot s self ow k SEmpty) as [s1 self1] eqn:W.
    apply (write_slot_cnt _ _ _ _ _ sl) in W as (W1 & W2 & W3 & W4); auto.
    cbn [cok sumf]. split; [|split; [intros _; discriminate|exact W4]].
    intros o X H. unfold cnt_at in *. specialize (W2 o). specialize (W3 o). ok_state.
    rewrite W1, W3. rewrite (sumf_reg_free o s dst x Hf). cbn [hs] in W2.
    assert (hr o x = hs o sl).
    { destruct sl; cbn [reg_of_slot] in Ex; try discriminate; injection Ex as <-; reflexivity. }
    lia.
  - (* ATryUnwrap *)
    destruct (reg_get s r) as [o1| | | |] eqn:Er; try exact Hinv.
    destruct (reg_free s dst) eqn:Hf; [|exact Hinv].
    destruct (getb (heap_of s) o1) as [b|e] eqn:G; [|exact I].
    destruct (strong b) as [[|[q|q|]]|] eqn:S; try (apply cok_same; discriminate).
    pose proof (getb_ok _ _ _ G) as [Gn Gf]. destruct (Hh o1 b Gn) as (HL & HB & HT).
    destruct HL as [HL|HL]; [|rewrite (release_links_moved _ _ _ G HL); exact I].
    rewrite (release_links_norec _ _ _ G HL). cbn [lift]. ok_state.
    rewrite (getb_setb_same _ _ _ _ G) by exact Gf. cbn [value with_links].
    destruct (value b) as [p|] eqn:V; [|exact I]. unfold setb. rewrite upd_upd.
    fold (setb (heap_of s) o1 (with_strong (with_value (with_links b None) None) (Cnt 0))).
    apply cok_lift; intros h' E. apply weak_drop_cnt in E as [A B].
    cbn [cok sumf]. split; [|split; [intros _; discriminate|auto]].
    intros o X H. unfold cnt_at in *. ok_state. rewrite A, B.
    rewrite (sumf_upd_empty o _ dst _ (reg_free_after_set s r _ REmpty dst Er ltac:(discriminate) Hf)).
    pose proof (sumf_reg_set o s r REmpty _ Er ltac:(discriminate)) as E1. cbn [hr] in E1 |- *.
    pose proof (hcnt_setb o _ _ _ (with_strong (with_value (with_links b None) None) (Cnt 0)) Gn) as E2.
    rewrite (hb_some o b p V) in E2.
    rewrite (hb_none o (with_strong (with_value (with_links b None) None) (Cnt 0)) eq_refl) in E2.
    rewrite (sc_setb _ _ _ _ _ Gn). cbn [strong with_strong cnt_of].
    unfold eqN in *. destruct (Nat.eqb_spec o1 o) as [<-|Hne].
    + rewrite Nat.eqb_refl in E1. unfold sc in H. rewrite Gn, S in H. cbn [cnt_of] in H. lia.
    + assert (Nat.eqb o o1 = false) as Q by (apply Nat.eqb_neq; congruence). rewrite Q in E1. lia.
  - (* AGetMut *)
    destruct (reg_get s r) as [o1| | | |]; try exact Hinv.
    destruct (getb (heap_of s) o1) as [b|e]; [|exact I].
    destruct (weak b =? 0); [exact I|apply cok_same; discriminate].
  - (* AMakeMut *)
    destruct (reg_get s r) as [o1| | | |] eqn:Er; try exact Hinv.
    destruct (getb (heap_of s) o1) as [b|e] eqn:G; [|exact I].
    pose proof (getb_ok _ _ _ G) as [Gn Gf]. destruct (Hh o1 b Gn) as (HL & HB & HT).
    pose proof (getb_lt _ _ _ G) as Lt.
    assert (Hclone :
      cok s self
        match value b with
        | Some p =>
            lift s self (clone_slots (heap_of s) (cloned_slots (slots p))) (fun s1 =>
              AO (set_reg (set_heap s1 (heap_of s1 ++
                    [new_box {| pid := length (heap_of s); slots := cloned_slots (slots p); script := [] |}]))
                    r (RStrong (length (heap_of s)))) self RUnit [FDropStrong o1])
        | None => AHalt (HFault FkValueMoved o1)
        end).
    { destruct (value b) as [p|] eqn:V; [|exact I]. apply cok_lift; intros h' E.
      pose proof (clone_slots_length _ _ _ E) as Len. apply clone_slots_cnt in E as [A B].
      cbn [cok sumf hf]. split; [|split; [intros _; discriminate|auto]].
      intros o X H. unfold cnt_at in *. ok_state.
      pose proof (sumf_reg_set o s r (RStrong (length (heap_of s))) _ Er ltac:(discriminate)) as E1.
      cbn [hr] in E1. rewrite hcnt_app, sc_app, A, B, Len.
      rewrite hb_new_box. unfold hp at 1; cbn [slots].
      pose proof (sumf_ge (hb o) _ _ _ Gn) as Ge. rewrite (hb_some o b p V) in Ge.
      unfold hp in Ge. fold (hcnt o (heap_of s)) in Ge.
      pose proof (hss_cloned_le o (slots p)) as Cl.
      unfold eqN in *. destruct (Nat.eqb_spec o (length (heap_of s))) as [->|Hne];
        cbn [strong new_box cnt_of].
      - rewrite sc_beyond in H by lia. lia.
      - lia. }
    destruct (strong b) as [[|[q|q|]]|] eqn:S; try exact Hclone.
    destruct (weak b =? 0); [exact I|]. destruct (weak b =? 1); [apply cok_same; discriminate|].
    destruct (value b) as [p|] eqn:V; [|exact I].
    set (nb := new_box {| pid := length (heap_of s); slots := slots p; script := script p |}).
    assert (G1 : getb (setb (heap_of s) o1 (with_value b None) ++ [nb]) o1 = Ok (with_value b None)).
    { unfold getb, setb. rewrite nth_error_app1 by (rewrite upd_length; exact Lt).
      rewrite nth_error_upd_same by exact Lt. cbn [freed with_value]. rewrite Gf. reflexivity. }
    destruct HL as [HL|HL]; [|rewrite (release_links_moved _ _ _ G1); [exact I|exact HL]].
    rewrite (release_links_norec _ _ _ G1) by exact HL. cbn [lift]. ok_state.
    rewrite (getb_setb_same _ _ _ _ G1) by exact Gf.
    unfold setb. rewrite upd_upd. rewrite upd_app_l by (rewrite upd_length; exact Lt).
    rewrite upd_upd.
    cbn [cok sumf]. split; [|split; [intros _; discriminate|auto]].
    intros o X H. unfold cnt_at in *. ok_state.
    set (B := with_weak (with_strong (with_links (with_value b None) None) (Cnt 0))
                (weak (with_links (with_value b None) None) - 1)).
    fold (setb (heap_of s) o1 B).
    pose proof (sumf_reg_set o s r (RStrong (length (heap_of s))) _ Er ltac:(discriminate)) as E1.
    cbn [hr] in E1. rewrite hcnt_app, sc_app.
    pose proof (hcnt_setb o _ _ _ B Gn) as E2.
    rewrite (hb_some o b p V), (hb_none o B eq_refl) in E2.
    unfold nb at 1. rewrite hb_new_box. unfold hp at 1; cbn [slots]. fold (hp o p).
    rewrite (sc_setb _ _ _ _ _ Gn). unfold setb in E2 |- *. rewrite upd_length.
    unfold eqN in *. destruct (Nat.eqb_spec o (length (heap_of s))) as [->|Hne];
      cbn [strong new_box cnt_of nb B with_weak with_strong].
    + rewrite sc_beyond in H by lia.
      assert (Nat.eqb (length (heap_of s)) o1 = false) as Q by (apply Nat.eqb_neq; lia).
      rewrite Q in E1. lia.
    + destruct (Nat.eqb_spec o1 o) as [<-|Hne2].
      * rewrite Nat.eqb_refl in E1. unfold sc in H. rewrite Gn, S in H. cbn [cnt_of] in H. lia.
      * assert (Nat.eqb o o1 = false) as Q by (apply Nat.eqb_neq; congruence). rewrite Q in E1. lia.
  - (* AIntoRaw *)
    destruct (reg_get s r) as [o1| | | |] eqn:Er; try exact Hinv.
    cbn [cok sumf]. split; [|split; [intros _; discriminate|auto]].
    intros o X H. unfold cnt_at in *. ok_state.
    pose proof (sumf_reg_set o s r (RRaw o1) _ Er ltac:(discriminate)) as E. cbn [hr] in E. lia.
  - (* AFromRaw *)
    destruct (reg_get s r) as [ | |o1| |] eqn:Er; try exact Hinv.
    cbn [cok sumf]. split; [|split; [intros _; discriminate|auto]].
    intros o X H. unfold cnt_at in *. ok_state.
    pose proof (sumf_reg_set o s r (RStrong o1) _ Er ltac:(discriminate)) as E. cbn [hr] in E. lia.
  - (* AIncStrong *)
    destruct (reg_get s r) as [ | |o1| |]; try exact Hinv.
    destruct (reg_free s dst) eqn:Hf; [|exact Hinv]. apply cok_lift; intros h' E.
    apply inc_strong_cnt in E as [A B].
    apply (cok_heap_reg s self h' dst _ _ (fun o => eqN o o1)); auto; discriminate.
  - (* ADecStrong *)
    destruct (reg_get s r) as [ | |o1| |] eqn:Er; try exact Hinv.
    cbn [cok sumf hf]. split; [|split; [intros _; discriminate|auto]].
    intros o X H. unfold cnt_at in *. ok_state.
    pose proof (sumf_reg_set o s r REmpty _ Er ltac:(discriminate)) as E. cbn [hr] in E. lia.
  - (* APtrEq *)
    destruct (resolve_strong s self h1) as [[a l1]|]; [|exact Hinv].
    destruct (resolve_strong s self h2) as [[b l2]|]; [|exact Hinv]. apply cok_same; discriminate.
  - (* AStrongCount *)
    destruct (resolve_strong s self h) as [[o1 l]|] eqn:E; [|exact Hinv].
    destruct (getb (heap_of s) o1) as [b|e] eqn:G; [|exact I].
    cbn [cok sumf]. split; [|split; [|auto]].
    + intros o X H. unfold cnt_at in *. lia.
    + intros H. destruct (H o1) as [X HX]. unfold cnt_at in HX.
      pose proof (resolve_strong_has _ _ _ _ _ E) as Ge.
      apply getb_ok in G as [Gn _]. unfold sc in HX. rewrite Gn in HX.
      unfold res_exact. intros Q. injection Q as Q. rewrite Q in HX. cbn [cnt_of] in HX. lia.
  - (* AWeakCount *)
    destruct (resolve_strong s self h) as [[o1 l]|]; [|exact Hinv].
    destruct (getb (heap_of s) o1) as [b|e]; [|exact I].
    destruct (weak b =? 0); [exact I|apply cok_same; discriminate].
  - (* AWStrongCount *)
    destruct (resolve_weak s self w) as [[o1|]|]; [|apply cok_same; discriminate|exact Hinv].
    destruct (getb (heap_of s) o1) as [b|e]; [apply cok_same; discriminate|exact I].
  - (* AWWeakCount *)
    destruct (resolve_weak s self w) as [[o1|]|]; [|apply cok_same; discriminate|exact Hinv].
    destruct (getb (heap_of s) o1) as [b|e]; [|exact I].
    destruct (strong b) as [n|]; [|apply cok_same; discriminate].
    destruct (0 <? n); [|apply cok_same; discriminate].
    destruct (weak b =? 0); [exact I|apply cok_same; discriminate].
  - (* ADeref *)
    destruct (resolve_strong s self h) as [[o1 l]|]; [|exact Hinv].
    destruct (getb (heap_of s) o1) as [b|e]; [|exact I].
    destruct (value b); [apply cok_same; discriminate|exact I].
  - (* APanic *) exact I.
Qed.

(** ** One machine step keeps the count *)

(** Rust: the strong counter of every allocation equals the number of [Rc]
    handles to it that exist anywhere (registers, fields of live values,
    values being destroyed, pending drops). *)
Definition count_ok (c : config) : Prop :=
  forall o, sumf (hr o) (regs (st c)) + hcnt o (heap_of (st c)) + sumf (hf o) (stack c)
            = sc (heap_of (st c)) o.

Definition st_count (s : state) : Prop :=
  forall o, sumf (hr o) (regs s) + hcnt o (heap_of s) = sc (heap_of s) o.

Definition res_ok_frame (f : frame) : Prop :=
  match f with FRes r => res_exact r | _ => True end.
Definition res_ok_ev (e : event) : Prop :=
  match e with EvRes r => res_exact r | _ => True end.

Definition exact_inv (c : config) : Prop :=
  count_ok c /\ Forall res_ok_frame (stack c) /\ Forall res_ok_ev (log (st c)).

Definition exact_out (x : outcome) : Prop :=
  match x with
  | Running c' => exact_inv c'
  | Finished s _ => st_count s /\ Forall res_ok_ev (log s)
  | Halted s _ => Forall res_ok_ev (log s)
  end.

Lemma unwind_stack_cnt k : forall s s1 k1,
  unwind_stack s k = (s1, k1) -> Forall res_ok_ev (log s) ->
  heap_of s1 = heap_of s /\ regs s1 = regs s /\
  (forall o, sumf (hf o) k1 = sumf (hf o) k) /\
  Forall res_ok_frame k1 /\ Forall res_ok_ev (log s1).
Proof.
  induction k as [|f k IH]; intros s s1 k1; cbn [unwind_stack].
  - intros H; injection H as <- <-. intros L. repeat split; auto.
  - destruct (unwind_stack s k) as [s0 k0] eqn:E. intros H L.
    destruct (IH _ _ _ E L) as (A & B & C & D & G).
    assert (FL : forall keys s2, Forall res_ok_ev (log s2) ->
               heap_of (fold_left (fun s x => add_ev s (EvLeak x)) keys s2) = heap_of s2 /\
               regs (fold_left (fun s x => add_ev s (EvLeak x)) keys s2) = regs s2 /\
               Forall res_ok_ev (log (fold_left (fun s x => add_ev s (EvLeak x)) keys s2))).
    { induction keys as [|x keys IHk]; intros s2 L2; cbn [fold_left]; auto.
      destruct (IHk (add_ev s2 (EvLeak x))) as (P & Q & R).
      - cbn [add_ev log mk]. constructor; [exact I|exact L2].
      - rewrite P, Q. auto. }
    destruct f; injection H as <- <-; cbn [heap_of regs log add_ev mk];
      try (destruct (FL keys s0 G) as (P & Q & R); rewrite P, Q);
      (split; [exact A|split; [exact B|split; [|split]]]);
      try (intros oo; cbn [sumf hf]; rewrite (C oo); unfold hp, hss; lia);
      try exact D; try exact G; try exact R;
      try (constructor; [exact I|assumption]).
Qed.

Lemma simple_res_ok push : Forall simple_frame push -> Forall res_ok_frame push.
Proof.
  intros H. eapply Forall_impl; [|exact H]. intros f Hf.
  destruct f; cbn in Hf; try contradiction; exact I.
Qed.

Ltac ex_open :=
  cbn [exact_out]; unfold exact_inv, count_ok, st_count;
  (split; [|split]); cbn [st stack]; ok_state.

Lemma step_exact pri c : sim_inv c -> exact_inv c -> exact_out (step pri c).
Proof.
  destruct c as [s k u]. intros [(Hs & Hk & Ha) Hg] (Hc & Hrf & Hre). cbn [st stack unw] in *.
  pose proof Hs as [Hh Hr]. unfold count_ok in Hc; cbn [st stack] in Hc.
  unfold step; cbn [st stack unw].
  destruct k as [|f k].
  { cbn [exact_out]; unfold exact_inv, count_ok, st_count. split; [|exact Hre]. intros o. specialize (Hc o). cbn [sumf] in Hc. lia. }
  inversion Hk as [|? ? Hf Hk']; subst. inversion Hg as [|? ? Hgf Hg']; subst.
  inversion Hrf as [|? ? Hrf1 Hrf']; subst.
  destruct f as [o1|p|p pc|ss|o1|es|o1|keys|r]; cbn [group_frame] in Hgf; try discriminate.
  - (* FDropStrong *)
    pose proof (proj1 (st_inv_true s) Hs) as [Hn Hl].
    rewrite (drop_strong_fast pri s o1) by (apply Hn || exact Hl).
    destruct (std_drop_strong s o1) as [[s1 push]|e] eqn:E; [|exact Hre].
    apply std_drop_strong_cases in E as (b & G & [(D & -> & ->)|[(n & S & N0 & N1 & -> & ->)|(v & S & V & -> & ->)]]);
      pose proof (getb_ok _ _ _ G) as [Gn Gf]; cbn [exact_out app]; unfold exact_inv, count_ok, st_count; (split; [|split]); cbn [st stack]; auto.
    + exfalso. specialize (Hc o1). cbn [sumf hf] in Hc. rewrite eqN_refl in Hc.
      unfold sc in Hc. rewrite Gn in Hc. destruct (strong b) as [n|]; cbn [is_dead cnt_of] in *.
      * apply N.eqb_eq in D. lia.
      * lia.
    + intros o. specialize (Hc o). cbn [sumf hf] in Hc. ok_state.
      rewrite (hcnt_setb_same o _ _ _ (with_strong b (Cnt (n - 1))) Gn eq_refl), (sc_setb _ _ _ _ _ Gn).
      cbn [strong with_strong cnt_of].
      rewrite eqN_sym in Hc. unfold eqN in Hc. destruct (Nat.eqb_spec o1 o) as [Heq|Hne]; [subst o|].
      * unfold sc in Hc. rewrite Gn, S in Hc. cbn [cnt_of] in Hc. lia.
      * lia.
    + intros o. specialize (Hc o). cbn [sumf hf] in Hc |- *. ok_state.
      pose proof (hcnt_setb o _ _ _ (with_value (with_strong b Uninit) None) Gn) as E2.
      rewrite (hb_some o b v V) in E2.
      rewrite (hb_none o (with_value (with_strong b Uninit) None) eq_refl) in E2.
      rewrite (sc_setb _ _ _ _ _ Gn). cbn [strong with_value with_strong cnt_of].
      rewrite eqN_sym in Hc. unfold eqN in Hc. destruct (Nat.eqb_spec o1 o) as [Heq|Hne]; [subst o|].
      * unfold sc in Hc. rewrite Gn, S in Hc. cbn [cnt_of] in Hc. lia.
      * lia.
  - (* FDtorStart *)
    ex_open.
    + intros o. specialize (Hc o). cbn [sumf hf] in *. exact Hc.
    + constructor; [exact I|exact Hrf'].
    + constructor; [exact I|exact Hre].
  - (* FRunDtor *)
    destruct Hf as [Hp Hpc]. destruct pc as [|a pc].
    + ex_open.
      * intros o. specialize (Hc o). cbn [sumf hf] in *. exact Hc.
      * constructor; [exact I|exact Hrf'].
      * exact Hre.
    + apply noadopt_script_cons in Hpc as [Hact Hpc].
      pose proof (exec_act_count s (Some p) a Hact Hs) as Hx.
      pose proof (exec_act_ok true s (Some p) a Hact Hs Hp) as Hy.
      destruct (exec_act s (Some p) a) as [s1 self r push|e|].
      * destruct Hx as (X1 & X2 & X3). destruct Hy as (_ & _ & _ & _ & Y5 & Y6).
        destruct self as [q|]; [|specialize (X3 eq_refl); discriminate].
        assert (Hat : forall o, cnt_at s (Some p) o (sumf (hf o) k)).
        { intros o. specialize (Hc o). unfold cnt_at. cbn [sumf hf hself] in *. lia. }
        ex_open.
        -- intros o. specialize (X1 o _ (Hat o)). unfold cnt_at in X1.
           rewrite sumf_app. cbn [sumf hf hself] in *. lia.
        -- apply Forall_app. split; [apply simple_res_ok; exact Y5|].
           constructor; [|constructor; [exact I|exact Hrf']]. cbn [res_ok_frame].
           apply X2. intros o. eexists. apply Hat.
        -- destruct Y6 as [->|[o' ->]]; [exact Hre|constructor; [exact I|exact Hre]].
      * exact Hre.
      * destruct u; [exact Hre|]. destruct (unwind_stack s k) as [s1 k1] eqn:E.
        destruct (unwind_stack_cnt _ _ _ _ E Hre) as (A & B & C & D & G).
        ex_open.
        -- intros o. specialize (Hc o). rewrite A, B. cbn [sumf hf] in *. rewrite (C o).
           unfold hp in Hc. exact Hc.
        -- constructor; [exact I|exact D].
        -- exact G.
  - (* FDropSlots *)
    destruct ss as [|[o1|w|] ss].
    + ex_open; [|exact Hrf'|exact Hre].
      intros o. specialize (Hc o). cbn [sumf hf hss] in *. lia.
    + ex_open; [| |exact Hre].
      * intros o. specialize (Hc o). unfold hss in *. cbn [sumf hf hs hss] in *. unfold hss. lia.
      * constructor; [exact I|]. constructor; [exact I|exact Hrf'].
    + destruct (weak_drop (heap_of s) w) as [h1|e] eqn:E; [|exact Hre].
      apply weak_drop_cnt in E as [A B].
      ex_open; [| |exact Hre].
      * intros o. specialize (Hc o). unfold hss in *. cbn [sumf hf hs hss] in *. unfold hss.
        rewrite A, B. lia.
      * constructor; [exact I|exact Hrf'].
    + ex_open; [| |exact Hre].
      * intros o. specialize (Hc o). unfold hss in *. cbn [sumf hf hs hss] in *. unfold hss. lia.
      * constructor; [exact I|exact Hrf'].
  - (* FAfterValue *)
    destruct (getb (heap_of s) o1) as [b|e] eqn:G; [|exact Hre].
    destruct (links b) as [t|] eqn:L; [|exact Hre].
    pose proof (getb_ok _ _ _ G) as [Gn Gf].
    destruct (dec_weak_free (setb (heap_of s) o1 (with_links b None)) o1) as [h2|e] eqn:E; [|exact Hre].
    apply dec_weak_free_cnt in E as [A B].
    ex_open; [|exact Hrf'|].
    + intros o. specialize (Hc o). cbn [sumf hf] in Hc. rewrite A, B.
      rewrite (hcnt_setb_same o _ _ _ (with_links b None) Gn eq_refl),
              (sc_setb_same _ _ _ (with_links b None) o Gn eq_refl). lia.
    + constructor; [exact I|exact Hre].
  - (* FRes *)
    ex_open; [|exact Hrf'|].
    + intros o. specialize (Hc o). cbn [sumf hf] in Hc. lia.
    + constructor; [exact Hrf1|exact Hre].
Qed.

(** a call made from the top level has no "self" value, before or after *)
Lemma exec_act_self_none s a s' self' r push :
  exec_act s None a = AO s' self' r push -> self' = None.
Proof.
  assert (HW : forall sX ow k sl s1 self1,
             owner_at sX None ow -> write_slot sX None ow k sl = (s1, self1) -> self1 = None).
  { intros sX [o p|p] k sl s1 self1; cbn [owner_at write_slot]; [|discriminate].
    intros _. destruct (nth_error (heap_of sX) o); intros H; injection H as _ <-; reflexivity. }
  destruct a; cbn [exec_act].
  8: { destruct (slot_of_reg (reg_get s src)); [|intros H; injection H as _ <- _ _; reflexivity].
       destruct (resolve_slot s None w k) as [[ow [o1|w'|]]|] eqn:E;
         try (intros H; injection H as _ <- _ _; reflexivity).
       apply resolve_slot_at in E as [At _].
       destruct (write_slot (set_reg s src REmpty) None ow k s0) as [s1 self1] eqn:W.
       intros H; injection H as _ <- _ _. eapply HW; [|exact W]. exact At. }
  8: { destruct (resolve_slot s None w k) as [[ow sl]|] eqn:E;
         [|intros H; injection H as _ <- _ _; reflexivity].
       destruct (reg_of_slot sl); [|intros H; injection H as _ <- _ _; reflexivity].
       destruct (reg_free s dst); [|intros H; injection H as _ <- _ _; reflexivity].
       apply resolve_slot_at in E as [At _].
       destruct (write_slot s None ow k SEmpty) as [s1 self1] eqn:W.
       intros H; injection H as _ <- _ _. eapply HW; [|exact W]. exact At. }
  all: unfold exec_new, invalid, lift;
    timeout 60 (repeat (cbv beta; match goal with
            | |- context [match ?x with _ => _ end] => destruct x
            end));
    intros H; try discriminate; injection H as _ <- _ _; reflexivity.
Qed.

Lemma exec_new_self_none s dst sc0 s' self' r push :
  exec_new s None dst sc0 = AO s' self' r push -> self' = None.
Proof.
  unfold exec_new, invalid. destruct (reg_free s dst); intros H; injection H as _ <- _ _; reflexivity.
Qed.

(** ** Whole runs *)
Lemma run_exact pri n : forall c, sim_inv c -> exact_inv c -> exact_out (run pri n c).
Proof.
  induction n as [|n IH]; intros c Hc He; cbn [run]; [exact He|].
  pose proof (step_exact pri c Hc He) as H.
  destruct (step pri c) as [c'|s b|s e] eqn:E; auto.
  apply IH; [eapply sim_inv_step; eauto|exact H].
Qed.

(** the state between two calls *)
Definition st_exact (s : state) : Prop := st_count s /\ Forall res_ok_ev (log s).

Definition oo_exact (x : op_outcome) : Prop :=
  match x with ODone r => res_exact r | _ => True end.

Lemma exec_op_exact pri fuel s o :
  st_inv true s -> st_exact s -> noadopt_op o = true ->
  oo_exact (snd (exec_op pri fuel s o)) /\
  Forall res_ok_ev (log (fst (exec_op pri fuel s o))) /\
  (match snd (exec_op pri fuel s o) with
   | ODone _ | OPanicked => st_count (fst (exec_op pri fuel s o))
   | _ => True
   end).
Proof.
  intros Hs [Hc Hl] Ho. destruct (first_ok s o Hs Ho) as [Hok _]. unfold exec_op.
  assert (Hk : cok s None (match o with OAct a => exec_act s None a
                                   | ONewS dst sc0 => exec_new s None dst sc0 end)).
  { destruct o as [a|dst sc0]; cbn [noadopt_op] in Ho;
      [apply exec_act_count; auto|apply exec_new_count]. }
  assert (Hn : forall s1 self r push,
             (match o with OAct a => exec_act s None a
                         | ONewS dst sc0 => exec_new s None dst sc0 end) = AO s1 self r push ->
             self = None).
  { intros s1 self r push. destruct o as [a|dst sc0];
      [apply exec_act_self_none|apply exec_new_self_none]. }
  destruct (match o with OAct a => exec_act s None a | ONewS dst sc0 => exec_new s None dst sc0 end)
    as [s1 self r push|e|]; cbn [fst snd oo_exact]; auto.
  specialize (Hn _ _ _ _ eq_refl). subst self.
  destruct Hok as (A & _ & C & _ & D & Q). destruct Hk as (K1 & K2 & _).
  assert (Hat : forall o0, cnt_at s None o0 0).
  { intros o0. unfold cnt_at. cbn [hself]. rewrite <- (Hc o0). lia. }
  assert (He : exact_inv {| st := s1; stack := push; unw := false |}).
  { split; [|split]; cbn [st stack].
    - intros o0. specialize (K1 o0 0 (Hat o0)). unfold cnt_at in K1. cbn [hself st stack] in *. lia.
    - apply simple_res_ok. exact D.
    - destruct Q as [->|[o' ->]]; [exact Hl|constructor; [exact I|exact Hl]]. }
  pose proof (run_exact pri fuel _ (start_sim_inv s1 push false A C D) He) as R.
  assert (Hr : res_exact r) by (apply K2; intros o0; eexists; apply Hat).
  destruct (run pri fuel {| st := s1; stack := push; unw := false |}) as [c|s2 [|]|s2 e];
    cbn [fst snd oo_exact exact_out] in *.
  - split; [exact I|split; [apply R|exact I]].
  - split; [exact I|split; apply R].
  - split; [exact Hr|split; apply R].
  - split; [exact I|split; [exact R|exact I]].
Qed.

Lemma history_exact fuel h : forall s,
  st_inv true s -> st_exact s -> noadopt_history h ->
  Forall oo_exact (snd (run_history fuel s h)) /\
  Forall res_ok_ev (log (fst (run_history fuel s h))).
Proof.
  induction h as [|[o pri] h IH]; intros s Hs He Hh; cbn [run_history fst snd].
  - split; [constructor|apply He].
  - inversion Hh as [|? ? Ho Hh']; subst. cbn [fst] in Ho.
    pose proof (exec_op_exact pri fuel s o Hs He Ho) as (E1 & E2 & E3).
    pose proof (exec_op_inv pri fuel s o Hs Ho) as Hs1.
    destruct (exec_op pri fuel s o) as [s1 r]. cbn [fst snd] in *.
    destruct r as [r| |e|]; cbn [fst snd].
    + destruct (IH s1 Hs1 (conj E3 E2) Hh') as [I1 I2].
      destruct (run_history fuel s1 h) as [s2 rs]. cbn [fst snd] in *. split; [constructor; auto|exact I2].
    + destruct (IH s1 Hs1 (conj E3 E2) Hh') as [I1 I2].
      destruct (run_history fuel s1 h) as [s2 rs]. cbn [fst snd] in *. split; [constructor; auto|exact I2].
    + split; [constructor; [exact I|constructor]|exact E2].
    + split; [constructor; [exact I|constructor]|exact E2].
Qed.

Lemma abs_result_exact r : res_exact r -> abs_result r = r.
Proof. unfold res_exact. destruct r as [| | | |[n|]| | |]; cbn; congruence. Qed.

Lemma abs_oo_exact rs : Forall oo_exact rs -> map abs_op_outcome rs = rs.
Proof.
  induction 1 as [|x rs Hx _ IH]; [reflexivity|]. cbn [map]. rewrite IH. f_equal.
  destruct x; cbn [abs_op_outcome oo_exact] in *; auto. rewrite abs_result_exact; auto.
Qed.

Lemma abs_log_exact l : Forall res_ok_ev l -> abs_log l = filter keep_ev l.
Proof.
  unfold abs_log. induction 1 as [|e l He _ IH]; [reflexivity|]. cbn [filter].
  destruct (keep_ev e); [|exact IH]. cbn [map]. rewrite IH. f_equal.
  destruct e; cbn [abs_ev res_ok_ev] in *; auto. rewrite abs_result_exact; auto.
Qed.

Lemma init_exact : st_exact init_state.
Proof. split; [|constructor]. intros o. cbn. destruct o; reflexivity. Qed.

(** Rust: the final statement. A program that never calls adopt/unadopt
    (neither directly nor from a destructor) gets from cactusref exactly the
    results it gets from [std::rc] — every call outcome is equal, the log of
    destructor starts, script results and leaks is equal once the
    [EvTableDropped] entries (which std has no counterpart for) are removed,
    and the final heaps correspond (same counters, values, released
    allocations) — whatever the hash orders [pri]. In particular no strong
    handle ever points to a destroyed ([Uninit]) object. *)
Theorem noadopt_is_std_exact fuel h :
  noadopt_history h ->
  let '(s, rs) := run_history fuel init_state h in
  s_run_history fuel s_init_state (map fst h) =
    (smk (abs_heap (heap_of s)) (regs s) (filter keep_ev (log s)), rs).
Proof.
  intros Hh. pose proof (sim_history fuel h init_state init_inv Hh) as H.
  pose proof (history_exact fuel h init_state init_inv init_exact Hh) as [E1 E2].
  destruct (run_history fuel init_state h) as [s rs]. cbn [fst snd] in *.
  change (abs_state init_state) with s_init_state in H. rewrite H.
  rewrite (abs_oo_exact rs E1). unfold abs_state. rewrite (abs_log_exact _ E2). reflexivity.
Qed.

(** Rust: in a program without adoptions the strong counter of every
    allocation is the number of [Rc] handles that exist (between calls). *)
Theorem noadopt_counts fuel h :
  noadopt_history h ->
  let '(s, rs) := run_history fuel init_state h in
  match last rs (ODone RUnit) with
  | ODone _ | OPanicked => st_count s
  | _ => True
  end.
Proof.
  intros Hh.
  assert (G : forall h s, st_inv true s -> st_exact s -> noadopt_history h ->
            match last (snd (run_history fuel s h)) (ODone RUnit) with
            | ODone _ | OPanicked => st_count (fst (run_history fuel s h))
            | _ => True
            end).
  { clear h Hh. induction h as [|[o pri] h IH]; intros s Hs He Hh; cbn [run_history fst snd last].
    - apply He.
    - inversion Hh as [|? ? Ho Hh']; subst. cbn [fst] in Ho.
      pose proof (exec_op_exact pri fuel s o Hs He Ho) as (E1 & E2 & E3).
      pose proof (exec_op_inv pri fuel s o Hs Ho) as Hs1.
      destruct (exec_op pri fuel s o) as [s1 r]. cbn [fst snd] in *.
      destruct r as [r| |e|]; cbn [fst snd last]; try exact I.
      + specialize (IH s1 Hs1 (conj E3 E2) Hh').
        destruct (run_history fuel s1 h) as [s2 [|r2 rs]] eqn:ER; cbn [fst snd last] in *.
        * destruct h as [|[o2 p2] h2]; cbn [run_history] in ER.
          -- injection ER as <-. exact E3.
          -- destruct (exec_op p2 fuel s1 o2) as [s3 [ | | | ]];
               try destruct (run_history fuel s3 h2); discriminate.
        * exact IH.
      + specialize (IH s1 Hs1 (conj E3 E2) Hh').
        destruct (run_history fuel s1 h) as [s2 [|r2 rs]] eqn:ER; cbn [fst snd last] in *.
        * destruct h as [|[o2 p2] h2]; cbn [run_history] in ER.
          -- injection ER as <-. exact E3.
          -- destruct (exec_op p2 fuel s1 o2) as [s3 [ | | | ]];
               try destruct (run_history fuel s3 h2); discriminate.
        * exact IH. }
  specialize (G h init_state init_inv init_exact Hh).
  destruct (run_history fuel init_state h) as [s rs]. exact G.
Qed.

(** ** [Print Assumptions] of the main statements *)
Print Assumptions drop_strong_fast.
Print Assumptions step_noadopt.
Print Assumptions step_std_inv.
Print Assumptions step_no_trace.
Print Assumptions step_no_group.
Print Assumptions exec_op_oracle_free.
Print Assumptions sim_step.
Print Assumptions sim_exec_op.
Print Assumptions noadopt_is_std.
Print Assumptions noadopt_program_never_traces.
Print Assumptions noadopt_is_std_exact.
Print Assumptions noadopt_counts.
