(** * cycle.rs: totality of the worklist trace.

    [cycle_refs] (Model/Atomic.v) recurses on fuel and faults when [get_links]
    meets a freed box or a moved-out table.  On a heap whose recorded Forward
    links all point at live boxes that still own their table, neither happens:
    the fuel [trace_fuel h] always suffices and no fault is raised.  The same
    holds for [orphaned_cycle] when the Backward links point at live boxes. *)
From CR Require Import Base Atomic LinksFacts HeapFacts TraceFacts.

(** the box [o] is allocated, not released, and still owns its link table *)
Definition has_table (h : heap) (o : oid) : Prop :=
  exists b t, getb h o = Ok b /\ links b = Some t.

(** every recorded Forward link of a live box points at a live box with a table *)
Definition closed_fwd (h : heap) : Prop :=
  forall o b t x c, nth_error h o = Some b -> freed b = false -> links b = Some t ->
    In ((x, Fwd), c) t -> has_table h x.

(** every recorded Backward link of a live box points at a live box *)
Definition closed_bwd (h : heap) : Prop :=
  forall o b t x c, nth_error h o = Some b -> freed b = false -> links b = Some t ->
    In ((x, Bwd), c) t -> exists b', getb h x = Ok b'.

(** ** small facts *)
Lemma has_table_get_links h o :
  has_table h o -> exists t, get_links h o = Ok t.
Proof.
  intros (b & t & G & L). exists t. unfold get_links, bind. rewrite G, L. reflexivity.
Qed.

Lemma has_table_lt h o : has_table h o -> o < length h.
Proof. intros (b & t & G & _). eapply getb_lt; exact G. Qed.

Lemma has_table_getb h o : has_table h o -> exists b, getb h o = Ok b.
Proof. intros (b & t & G & _). exists b. exact G. Qed.

Lemma fwd_targets_entry t y : In y (fwd_targets t) -> exists c, In ((y, Fwd), c) t.
Proof.
  intros H. apply fwd_targets_keys in H. unfold keys in H. apply in_map_iff in H.
  destruct H as ([l c] & E & Hin). cbn [fst] in E. subst l. exists c. exact Hin.
Qed.

Lemma bwd_targets_entry t y : In y (bwd_targets t) -> exists c, In ((y, Bwd), c) t.
Proof.
  intros H. apply bwd_targets_keys in H. unfold keys in H. apply in_map_iff in H.
  destruct H as ([l c] & E & Hin). cbn [fst] in E. subst l. exists c. exact Hin.
Qed.

(** the Forward successors of a node with a table have tables *)
Lemma edge_has_table h x y :
  closed_fwd h -> has_table h x -> edge h x y -> has_table h y.
Proof.
  intros Hc (b & t & G & L) He. unfold edge in He.
  apply getb_ok in G as [Gn Gf]. unfold tbl_of in He. rewrite Gn in He.
  unfold btable in He. rewrite L in He.
  apply fwd_targets_entry in He as (c & Hin).
  eapply Hc; eauto.
Qed.

(** STRETCH 4.  Everything the trace can reach is a live box with a table: the
    trace never follows a dangling Forward link. *)
Theorem reach_has_table h a y :
  has_table h a -> closed_fwd h -> reach h a y -> has_table h y.
Proof.
  intros Ha Hc Hr. induction Hr as [|x y Hr IH He]; [exact Ha|].
  eapply edge_has_table; eauto.
Qed.

(** the Backward/Forward neighbours of a node with a table are live boxes *)
Lemma linked_getb h x y :
  closed_fwd h -> closed_bwd h -> has_table h x -> linked h x y ->
  exists b, getb h y = Ok b.
Proof.
  intros Hf Hb Hx [Hl|Hl].
  - apply has_table_getb. eapply edge_has_table; eauto.
  - destruct Hx as (b & t & G & L). apply getb_ok in G as [Gn Gf].
    unfold tbl_of in Hl. rewrite Gn in Hl. unfold btable in Hl. rewrite L in Hl.
    apply bwd_targets_entry in Hl as (c & Hin). eapply Hb; eauto.
Qed.

(** ** the termination measure *)

(** out-degree (number of Forward entries) of node [x] *)
Definition wt (h : heap) (x : oid) : nat := length (fwd_targets (tbl_of h x)).

(** total out-degree of the nodes of [l] that are not yet visited *)
Definition usum (h : heap) (vis : list oid) (l : list oid) : nat :=
  list_sum (map (fun x => if memb x vis then 0 else wt h x) l).

Lemma usum_cons h vis a l :
  usum h vis (a :: l) = (if memb a vis then 0 else wt h a) + usum h vis l.
Proof. reflexivity. Qed.

Lemma usum_notin h vis n l : ~ In n l -> usum h (n :: vis) l = usum h vis l.
Proof.
  induction l as [|a l IH]; intros Hn; [reflexivity|].
  rewrite !usum_cons. rewrite IH by (intros Hin; apply Hn; now right).
  cbn [memb]. destruct (Nat.eqb_spec a n) as [->|Hne]; [exfalso; apply Hn; now left|].
  reflexivity.
Qed.

Lemma usum_visit h vis n l :
  NoDup l -> In n l -> memb n vis = false ->
  usum h vis l = wt h n + usum h (n :: vis) l.
Proof.
  induction l as [|a l IH]; intros Hnd Hin Hv; [destruct Hin|].
  inversion Hnd as [|? ? Ha Hl]; subst. rewrite !usum_cons. cbn [memb].
  destruct (Nat.eqb_spec a n) as [->|Hne].
  - rewrite Hv. rewrite usum_notin by exact Ha. cbn [orb]. lia.
  - destruct Hin as [Hin|Hin]; [congruence|].
    rewrite (IH Hl Hin Hv). cbn [orb]. lia.
Qed.

Lemma list_sum_cons a l : list_sum (a :: l) = a + list_sum l.
Proof. reflexivity. Qed.

(** a sum over the indices of a list is a sum over its elements *)
Lemma list_sum_seq_nth {A} (F : option A -> nat) (l : list A) :
  list_sum (map (fun x => F (nth_error l x)) (seq 0 (length l))) =
  list_sum (map (fun b => F (Some b)) l).
Proof.
  induction l as [|b l IH]; [reflexivity|].
  cbn [length seq map nth_error].
  rewrite <- seq_shift, map_map. cbn [nth_error].
  change (F (Some b) + list_sum (map (fun x => F (nth_error l x)) (seq 0 (length l))) =
          F (Some b) + list_sum (map (fun b0 => F (Some b0)) l)).
  rewrite IH. reflexivity.
Qed.

Lemma usum_init_le h : usum h [] (seq 0 (length h)) <= total_entries h.
Proof.
  unfold usum, wt, tbl_of. cbn [memb].
  rewrite (list_sum_seq_nth
             (fun o => length (fwd_targets (match o with Some b => btable b | None => [] end))) h).
  induction h as [|b h IH]; [reflexivity|].
  cbn [map total_entries]. rewrite list_sum_cons.
  assert (length (fwd_targets (btable b)) <=
          match links b with Some t => length t | None => 0 end) as Hb.
  { unfold btable. destruct (links b) as [t|]; [apply fwd_targets_length|reflexivity]. }
  lia.
Qed.

(** ** the loop never faults and never runs out of fuel *)
Lemma trace_go_total h : closed_fwd h ->
  forall fuel disc vis own pops visits,
    (forall x, In x disc -> has_table h x) ->
    length disc + usum h vis (seq 0 (length h)) < fuel ->
    exists r, trace_go fuel h disc vis own pops visits = Ok r.
Proof.
  intros Hc. induction fuel as [|f IH]; intros disc vis own pops visits Hd Hm; [lia|].
  cbn [trace_go]. destruct disc as [|n rest]; [eexists; reflexivity|].
  cbn [length] in Hm.
  destruct (memb n vis) eqn:E.
  - apply IH; [intros x Hx; apply Hd; now right | lia].
  - assert (Hn : has_table h n) by (apply Hd; now left).
    destruct (has_table_get_links _ _ Hn) as (t & G).
    unfold bind. rewrite G.
    destruct (visit_entries t own []) as [own1 pushed] eqn:V.
    apply visit_entries_spec in V as (Hp & _). cbn [app] in Hp. subst pushed.
    pose proof (get_links_tbl_of _ _ _ G) as Ht.
    apply IH.
    + intros x Hx. apply in_app_or in Hx as [Hx|Hx]; [|apply Hd; now right].
      apply in_rev in Hx. eapply edge_has_table; [exact Hc|exact Hn|].
      unfold edge. rewrite Ht. exact Hx.
    + rewrite app_length, rev_length.
      pose proof (usum_visit h vis n (seq 0 (length h)) (seq_NoDup _ _)) as Hu.
      rewrite Hu in Hm.
      * unfold wt in Hm. rewrite Ht in Hm. clear Hu. unfold oid in *. lia.
      * apply in_seq. pose proof (has_table_lt _ _ Hn). lia.
      * exact E.
Qed.

(** CORE 1.  [cycle_refs] started on a live box, in a heap whose Forward links
    point at live boxes with tables, returns normally: the worklist loop of
    cycle.rs terminates within the linear bound [trace_fuel] and never touches a
    released box or a moved-out table. *)
Theorem cycle_refs_total h a : has_table h a -> closed_fwd h ->
  exists own pops visits, cycle_refs h a = Ok (own, pops, visits).
Proof.
  intros Ha Hc. unfold cycle_refs.
  destruct (trace_go_total h Hc (trace_fuel h) [a] [] [] 0%N 0%N) as ([[own pops] visits] & H).
  - intros x [<-|[]]. exact Ha.
  - pose proof (usum_init_le h). unfold trace_fuel. cbn [length]. lia.
  - exists own, pops, visits. exact H.
Qed.

(** CORE 3.  Totality and the partial-correctness specification in one lemma:
    the trace returns, and what it returns is the Forward closure [R] of the
    start, each member visited once, with the summed Forward counts. *)
Theorem cycle_refs_total_spec h a : has_table h a -> closed_fwd h ->
  exists own pops visits R,
    cycle_refs h a = Ok (own, pops, visits) /\
    NoDup R /\ (forall y, In y R <-> reach h a y) /\
    (forall y, own_get own y = sumN (map (fun x => cntF (tbl_of h x) y) R)) /\
    (forall y, In y (map fst own) <-> exists x, In x R /\ linked h x y) /\
    NoDup (map fst own) /\
    visits = N.of_nat (length R) /\
    pops = (1 + sumN (map (fun x => N.of_nat (length (fwd_targets (tbl_of h x)))) R))%N.
Proof.
  intros Ha Hc. destruct (cycle_refs_total h a Ha Hc) as (own & pops & visits & H).
  destruct (cycle_refs_spec _ _ _ _ _ H) as (R & HR).
  exists own, pops, visits, R. split; [exact H|exact HR].
Qed.

(** ** the orphan test *)
Lemma has_external_total h : forall own,
  (forall k, In k (map fst own) -> exists b, getb h k = Ok b) ->
  exists e, has_external h own = Ok e.
Proof.
  induction own as [|[k c] own IH]; intros Hk; cbn [has_external]; [eexists; reflexivity|].
  destruct (Hk k) as (b & G); [now left|]. unfold bind. rewrite G.
  destruct (sgt (strong b) c); [eexists; reflexivity|].
  apply IH. intros k' Hk'. apply Hk. now right.
Qed.

(** CORE 2.  [Rc::orphaned_cycle] returns normally when, in addition, the
    Backward links point at live boxes: the [any(..)] scan over the result map
    only reads the strong counts of Forward/Backward neighbours of reachable
    boxes. *)
Theorem orphaned_cycle_total h a : has_table h a -> closed_fwd h -> closed_bwd h ->
  exists oc pops visits, orphaned_cycle h a = Ok (oc, pops, visits).
Proof.
  intros Ha Hf Hb.
  destruct (cycle_refs_total_spec h a Ha Hf)
    as (own & pops & visits & R & H & _ & HR & _ & Hk & _).
  unfold orphaned_cycle, bind. rewrite H.
  destruct own as [|e own]; [do 3 eexists; reflexivity|].
  destruct (has_external_total h (e :: own)) as (ext & He).
  - intros k Hin. apply Hk in Hin as (x & Hx & Hl).
    eapply linked_getb; [exact Hf|exact Hb| |exact Hl].
    eapply reach_has_table; [exact Ha|exact Hf|]. apply HR. exact Hx.
  - rewrite He. do 3 eexists; reflexivity.
Qed.

(** ** STRETCH 5: the linear cost in closed form *)
Lemma sumN_of_nat (f : oid -> nat) l :
  sumN (map (fun x => N.of_nat (f x)) l) = N.of_nat (list_sum (map f l)).
Proof.
  induction l as [|x l IH]; [reflexivity|].
  cbn [map sumN]. rewrite list_sum_cons, IH. lia.
Qed.

Lemma list_sum_app_mid (f : oid -> nat) l1 a l2 :
  list_sum (map f (l1 ++ a :: l2)) = f a + list_sum (map f (l1 ++ l2)).
Proof.
  rewrite !map_app, !list_sum_app. cbn [map]. rewrite list_sum_cons. lia.
Qed.

(** a sum over a duplicate-free sublist is bounded by the sum over the list *)
Lemma list_sum_nodup_incl (f : oid -> nat) : forall R l,
  NoDup R -> incl R l -> list_sum (map f R) <= list_sum (map f l).
Proof.
  induction R as [|a R IH]; intros l Hnd Hi; [cbn; lia|].
  inversion Hnd as [|? ? Ha HR]; subst.
  destruct (in_split a l) as (l1 & l2 & ->); [apply Hi; now left|].
  rewrite list_sum_app_mid. cbn [map]. rewrite list_sum_cons.
  assert (incl R (l1 ++ l2)) as Hi'.
  { intros x Hx. assert (In x (l1 ++ a :: l2)) as Hx' by (apply Hi; now right).
    apply in_app_or in Hx' as [Hx'|[<-|Hx']]; [apply in_or_app; now left|contradiction|
      apply in_or_app; now right]. }
  specialize (IH _ HR Hi'). lia.
Qed.

(** The trace is linear: it pops at most one worklist element per recorded
    link (plus the start), and visits at most every allocation once. *)
Theorem cycle_refs_cost h a own pops visits :
  has_table h a -> closed_fwd h ->
  cycle_refs h a = Ok (own, pops, visits) ->
  (pops <= 1 + N.of_nat (total_entries h))%N /\ (visits <= N.of_nat (length h))%N.
Proof.
  intros Ha Hc H.
  destruct (cycle_refs_spec _ _ _ _ _ H) as (R & Hnd & HR & _ & _ & _ & Hv & Hp).
  assert (Hi : incl R (seq 0 (length h))).
  { intros x Hx. apply in_seq. apply HR in Hx.
    pose proof (has_table_lt _ _ (reach_has_table _ _ _ Ha Hc Hx)). lia. }
  split.
  - rewrite Hp. rewrite (sumN_of_nat (fun x => length (fwd_targets (tbl_of h x)))).
    pose proof (list_sum_nodup_incl (fun x => length (fwd_targets (tbl_of h x))) _ _ Hnd Hi) as Hle.
    pose proof (usum_init_le h) as Hu. unfold usum, wt in Hu. cbn [memb] in Hu. unfold oid in *. lia.
  - rewrite Hv. pose proof (NoDup_incl_length Hnd Hi) as Hl. rewrite seq_length in Hl. lia.
Qed.

(** closed form of the above together with totality *)
Corollary cycle_refs_total_cost h a : has_table h a -> closed_fwd h ->
  exists own pops visits,
    cycle_refs h a = Ok (own, pops, visits) /\
    (pops <= 1 + N.of_nat (total_entries h))%N /\ (visits <= N.of_nat (length h))%N.
Proof.
  intros Ha Hc. destruct (cycle_refs_total h a Ha Hc) as (own & pops & visits & H).
  exists own, pops, visits. split; [exact H|]. eapply cycle_refs_cost; eauto.
Qed.

Print Assumptions cycle_refs_total.
Print Assumptions cycle_refs_total_spec.
Print Assumptions orphaned_cycle_total.
Print Assumptions reach_has_table.
Print Assumptions cycle_refs_total_cost.
