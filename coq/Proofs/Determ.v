(** * Whole-run oracle independence.

    The choice oracle [pri] of a call only fixes the order in which the
    members of a collected group are torn down.  For programs that keep every
    stored handle recorded and whose values have no destructor scripts
    ([good] call boundaries, Inv/Recorded.v), what a call destroys and every
    counter afterwards is a function of the sequence of calls alone: two runs
    of the same calls under arbitrary oracles return the same results and end
    in the same heap and registers; their logs contain the same destructor
    runs, the same released tables and the same released allocations, up to
    the order inside one group. *)
From Coq Require Import Permutation.
From CR Require Import Base Atomic Machine LinksFacts HeapFacts TraceFacts Local Tokens InvDef InvLemmas
  ActBase ActClone DropDec GroupOps Group DropLast StepInv RunInv TablesFrame Perm Recorded.
Local Open Scope N_scope.

(** ** 1. the machine never reads the log *)

(** append [x] at the old end of the log *)
Definition alog (x : list event) (s : state) : state := mk (heap_of s) (regs s) (log s ++ x).

Definition alog_cfg (x : list event) (c : config) : config :=
  {| st := alog x (st c); stack := stack c; unw := unw c |}.

Definition alog_out (x : list event) (o : outcome) : outcome :=
  match o with
  | Running c => Running (alog_cfg x c)
  | Finished s b => Finished (alog x s) b
  | Halted s e => Halted (alog x s) e
  end.

Definition alog_aout (x : list event) (o : aout) : aout :=
  match o with
  | AO s self r push => AO (alog x s) self r push
  | AHalt e => AHalt e
  | APanicOut => APanicOut
  end.

Definition alog_R {A} (x : list event) (r : R (state * A)) : R (state * A) :=
  match r with Ok (s, a) => Ok (alog x s, a) | Bad e => Bad e end.

Lemma alog_nil s : alog (log s) (mk (heap_of s) (regs s) []) = s.
Proof. destruct s; reflexivity. Qed.

Lemma exec_new_alog x s self dst sc :
  exec_new (alog x s) self dst sc = alog_aout x (exec_new s self dst sc).
Proof.
  unfold exec_new, invalid. change (reg_free (alog x s) dst) with (reg_free s dst).
  destruct (reg_free s dst); reflexivity.
Qed.

Ltac alog_norm x s :=
  change (reg_get (alog x s)) with (reg_get s);
  change (reg_free (alog x s)) with (reg_free s);
  change (resolve_strong (alog x s)) with (resolve_strong s);
  change (resolve_weak (alog x s)) with (resolve_weak s);
  change (resolve_slot (alog x s)) with (resolve_slot s);
  change (heap_of (alog x s)) with (heap_of s);
  cbn [heap_of set_heap mk].

Ltac alog_split :=
  repeat match goal with
  | |- context [match ?y with _ => _ end] =>
      lazymatch y with
      | context [alog] => fail
      | _ => destruct y
      end
  end.

Lemma write_slot_alog x s self ow k sl :
  write_slot (alog x s) self ow k sl =
  (alog x (fst (write_slot s self ow k sl)), snd (write_slot s self ow k sl)).
Proof.
  unfold write_slot. destruct ow as [o p|p]; [|reflexivity]. alog_norm x s.
  destruct (nth_error (heap_of s) o); reflexivity.
Qed.

Lemma exec_act_alog x s self a :
  exec_act (alog x s) self a = alog_aout x (exec_act s self a).
Proof.
  destruct a; cbn [exec_act]; try apply exec_new_alog; unfold invalid, lift; alog_norm x s;
    try (alog_split; reflexivity).
  - (* store *)
    destruct (slot_of_reg (reg_get s src)) as [sl|]; [|reflexivity].
    destruct (resolve_slot s self w k) as [[ow [| |]]|]; try reflexivity.
    change (set_reg (alog x s) src REmpty) with (alog x (set_reg s src REmpty)).
    rewrite write_slot_alog. destruct (write_slot (set_reg s src REmpty) self ow k sl); reflexivity.
  - (* take *)
    destruct (resolve_slot s self w k) as [[ow sl]|]; [|reflexivity].
    destruct (reg_of_slot sl); [|reflexivity]. destruct (reg_free s dst); [|reflexivity].
    rewrite write_slot_alog. destruct (write_slot s self ow k SEmpty); reflexivity.
Qed.

Lemma start_unreachable_alog x s o :
  start_unreachable (alog x s) o = alog_R x (start_unreachable s o).
Proof.
  unfold start_unreachable, bind. alog_norm x s.
  destruct (getb (heap_of s) o) as [b|]; [|reflexivity]. destruct (value b); reflexivity.
Qed.

Lemma drop_strong_alog pri x s o :
  drop_strong pri (alog x s) o = alog_R x (drop_strong pri s o).
Proof.
  unfold drop_strong, bind. alog_norm x s.
  destruct (getb (heap_of s) o) as [b|]; [|reflexivity].
  destruct (strong b) as [n|]; [|reflexivity]. destruct (n =? 0); [reflexivity|].
  destruct (get_links _ o) as [[|e t]|]; try reflexivity.
  - destruct (n - 1 =? 0); [|reflexivity].
    apply (start_unreachable_alog x (set_heap s _) o).
  - destruct (n - 1 =? 0).
    + destruct (purge_loop _ o (e :: t)) as [h2|]; [|reflexivity]. cbn [bind].
      destruct (set_links h2 o []) as [h3|]; [|reflexivity].
      apply (start_unreachable_alog x (set_heap (set_heap s _) h3) o).
    + destruct (orphaned_cycle _ o) as [[[[cyc|] pops] visits]|]; try reflexivity.
      destruct (bust_all _ _ _) as [h2|]; [|reflexivity].
      destruct (gather h2 _ []) as [[h3 inn]|]; reflexivity.
Qed.

Lemma fold_leak_alog x keys : forall s,
  fold_left (fun s y => add_ev s (EvLeak y)) keys (alog x s) =
  alog x (fold_left (fun s y => add_ev s (EvLeak y)) keys s).
Proof. induction keys as [|y keys IH]; intros s; cbn [fold_left]; [reflexivity|]. apply (IH (add_ev s (EvLeak y))). Qed.

Lemma unwind_stack_alog x k : forall s,
  unwind_stack (alog x s) k = (alog x (fst (unwind_stack s k)), snd (unwind_stack s k)).
Proof.
  induction k as [|f k IH]; intros s; cbn [unwind_stack]; [reflexivity|].
  rewrite IH. destruct (unwind_stack s k) as [s1 k1]. cbn [fst snd].
  destruct f; try reflexivity. cbn [fst snd]. rewrite fold_leak_alog. reflexivity.
Qed.

Theorem step_alog pri x c : step pri (alog_cfg x c) = alog_out x (step pri c).
Proof.
  destruct c as [s k u]. unfold alog_cfg. cbn [st stack unw].
  destruct k as [|f k]; [reflexivity|]. destruct f as [o|p|p pc|ss|o|es|o|keys|r]; cbn [step st stack unw].
  - rewrite drop_strong_alog. destruct (drop_strong pri s o) as [[s1 push]|]; reflexivity.
  - reflexivity.
  - destruct pc as [|a pc]; [reflexivity|]. rewrite exec_act_alog.
    destruct (exec_act s (Some p) a) as [s1 self r push|e|]; try reflexivity.
    destruct u; [reflexivity|]. rewrite unwind_stack_alog. destruct (unwind_stack s k); reflexivity.
  - destruct ss as [|[o|w|] ss]; try reflexivity. alog_norm x s.
    destruct (weak_drop (heap_of s) w); reflexivity.
  - alog_norm x s. destruct (getb (heap_of s) o) as [b|]; [|reflexivity].
    destruct (links b); [|reflexivity]. destruct (dec_weak_free _ o); reflexivity.
  - destruct es as [|[[o v] t] es]; reflexivity.
  - reflexivity.
  - alog_norm x s. destruct (finish_group (heap_of s) keys); reflexivity.
  - reflexivity.
Qed.

(** only [Rc::drop] consults the oracle *)
Lemma step_pri_irrel pri pri' c :
  (forall o k, stack c <> FDropStrong o :: k) -> step pri' c = step pri c.
Proof.
  destruct c as [s [|f k] u]; cbn [stack]; intros H; [reflexivity|].
  destruct f; try reflexivity. elim (H o k). reflexivity.
Qed.

(** ** 2. what is observed of a log *)
Definition dtors (l : list event) : list nat :=
  flat_map (fun e => match e with EvDtor p => [p] | _ => [] end) l.
Definition frees (l : list event) : list oid :=
  flat_map (fun e => match e with EvFreed o => [o] | _ => [] end) l.
Definition tdrops (l : list event) : list oid :=
  flat_map (fun e => match e with EvTableDropped o => [o] | _ => [] end) l.

(** the same destructor runs, released allocations and released tables, in any order *)
Definition lperm (l l' : list event) : Prop :=
  Permutation (dtors l) (dtors l') /\ Permutation (frees l) (frees l') /\
  Permutation (tdrops l) (tdrops l').

Definition obs_eq (s s' : state) : Prop :=
  heap_of s' = heap_of s /\ regs s' = regs s /\
  Permutation (dtors (log s)) (dtors (log s')) /\ Permutation (frees (log s)) (frees (log s')) /\
  Permutation (tdrops (log s)) (tdrops (log s')).

Lemma lperm_refl l : lperm l l.
Proof. repeat split; apply Permutation_refl. Qed.

Lemma lperm_sym l l' : lperm l l' -> lperm l' l.
Proof. intros (A & B & C). repeat split; apply Permutation_sym; assumption. Qed.

Lemma lperm_trans l1 l2 l3 : lperm l1 l2 -> lperm l2 l3 -> lperm l1 l3.
Proof. intros (A & B & C) (A' & B' & C'). repeat split; eapply Permutation_trans; eassumption. Qed.

Lemma lperm_app a a' b b' : lperm a a' -> lperm b b' -> lperm (a ++ b) (a' ++ b').
Proof.
  intros (A & B & C) (A' & B' & C'). unfold lperm, dtors, frees, tdrops. rewrite !flat_map_app.
  repeat split; apply Permutation_app; assumption.
Qed.

Lemma lperm_perm l l' : Permutation l l' -> lperm l l'.
Proof. intros H. repeat split; apply Permutation_flat_map; exact H. Qed.

Lemma lperm_cons e l l' : lperm l l' -> lperm (e :: l) (e :: l').
Proof. apply (lperm_app [e] [e]). apply lperm_refl. Qed.

Lemma lperm_group ks ks' l l' : lperm l l' -> lperm (EvGroup ks :: l) (EvGroup ks' :: l').
Proof. intros H. exact H. Qed.

Lemma obs_eq_refl s : obs_eq s s.
Proof. repeat split; apply Permutation_refl. Qed.

(** ** 3. Weak::drop commutes with Weak::drop *)
Fixpoint wd_list (h : heap) (ws : list oid) : R heap :=
  match ws with
  | [] => Ok h
  | o :: ws' => let* h1 := dec_weak_free h o in wd_list h1 ws'
  end.

Lemma wd_list_app ws1 : forall h ws2,
  wd_list h (ws1 ++ ws2) = let* h1 := wd_list h ws1 in wd_list h1 ws2.
Proof.
  induction ws1 as [|o ws1 IH]; intros h ws2; cbn [app wd_list]; [reflexivity|].
  unfold bind. destruct (dec_weak_free h o) as [h1|]; [apply IH|reflexivity].
Qed.

Definition dwf_box (b : box) : box :=
  if (weak b - 1 =? 0) then with_freed (with_weak b (weak b - 1)) true else with_weak b (weak b - 1).

Lemma dec_weak_free_inv h o h1 : dec_weak_free h o = Ok h1 ->
  exists b, getb h o = Ok b /\ (weak b =? 0) = false /\ h1 = setb h o (dwf_box b).
Proof.
  unfold dec_weak_free, bind. destruct (getb h o) as [b|] eqn:G; [|discriminate].
  destruct (weak b =? 0) eqn:E; [discriminate|]. intros H; injection H as <-.
  exists b. split; [reflexivity|]. split; [exact E|]. unfold dwf_box.
  destruct (weak b - 1 =? 0); reflexivity.
Qed.

Lemma dec_weak_free_intro h o b : getb h o = Ok b -> (weak b =? 0) = false ->
  dec_weak_free h o = Ok (setb h o (dwf_box b)).
Proof.
  intros G E. unfold dec_weak_free, bind. rewrite G, E. unfold dwf_box.
  destruct (weak b - 1 =? 0); reflexivity.
Qed.

Lemma dec_weak_free_swap h x y h1 h2 :
  dec_weak_free h x = Ok h1 -> dec_weak_free h1 y = Ok h2 ->
  exists h1', dec_weak_free h y = Ok h1' /\ dec_weak_free h1' x = Ok h2.
Proof.
  intros H1 H2. destruct (Nat.eq_dec x y) as [->|Hne]; [exists h1; auto|].
  apply dec_weak_free_inv in H1 as (bx & Gx & Ex & ->).
  apply dec_weak_free_inv in H2 as (by_ & Gy & Ey & ->).
  rewrite getb_setb_other in Gy by exact Hne.
  exists (setb h y (dwf_box by_)). split; [apply dec_weak_free_intro; assumption|].
  rewrite (dec_weak_free_intro (setb h y (dwf_box by_)) x bx).
  - unfold setb. rewrite upd_comm by congruence. reflexivity.
  - rewrite getb_setb_other by congruence. exact Gx.
  - exact Ex.
Qed.

(** a sequence of [Weak::drop]s succeeds in any order, with the same heap *)
Lemma wd_list_perm ws ws' : Permutation ws ws' ->
  forall h hf, wd_list h ws = Ok hf -> wd_list h ws' = Ok hf.
Proof.
  induction 1 as [|x l l' HP IH|x y l|l1 l2 l3 H12 IH12 H23 IH23]; intros h hf H.
  - exact H.
  - cbn [wd_list] in *. unfold bind in *. destruct (dec_weak_free h x) as [h1|]; [|discriminate].
    apply IH; exact H.
  - cbn [wd_list] in *. unfold bind in *.
    destruct (dec_weak_free h y) as [h1|] eqn:E1; [|discriminate].
    destruct (dec_weak_free h1 x) as [h2|] eqn:E2; [|discriminate].
    destruct (dec_weak_free_swap _ _ _ _ _ E1 E2) as (h1' & -> & ->). exact H.
  - apply IH23, IH12, H.
Qed.

(** dying and destroyed objects stay so while Weak handles are dropped *)
Definition dead_at (h : heap) (y : oid) : Prop :=
  exists b, nth_error h y = Some b /\ is_dead (strong b) = true.

Lemma dec_weak_free_dead h o h1 y : dec_weak_free h o = Ok h1 -> dead_at h y -> dead_at h1 y.
Proof.
  intros H (b & Hb & Hd). apply dec_weak_free_inv in H as (bo & G & _ & ->).
  unfold dead_at, setb. rewrite nth_error_upd. destruct (Nat.eqb_spec o y) as [->|Hne]; [|exists b; auto].
  pose proof (getb_lt _ _ _ G) as Hlt. apply Nat.ltb_lt in Hlt. rewrite Hlt.
  apply getb_ok in G as [G _]. assert (bo = b) as -> by congruence.
  eexists. split; [reflexivity|]. unfold dwf_box. destruct (weak b - 1 =? 0); exact Hd.
Qed.

Lemma wd_list_dead ws : forall h h1 y, wd_list h ws = Ok h1 -> dead_at h y -> dead_at h1 y.
Proof.
  induction ws as [|o ws IH]; intros h h1 y H Hd; cbn [wd_list] in H.
  - injection H as <-. exact Hd.
  - unfold bind in H. destruct (dec_weak_free h o) as [h0|] eqn:E; [|discriminate].
    eapply IH; [exact H|]. eapply dec_weak_free_dead; eassumption.
Qed.

(** [Rc::drop] of a handle to a dying or destroyed object does nothing *)
Lemma drop_strong_dead pri s y : dead_at (heap_of s) y ->
  drop_strong pri s y = Ok (s, []) \/ exists e, drop_strong pri s y = Bad e.
Proof.
  intros (b & Hb & Hd). unfold drop_strong, bind. destruct (getb (heap_of s) y) as [b'|e] eqn:G; [|right; eauto].
  left. apply getb_ok in G as [G _]. assert (b' = b) as -> by congruence.
  destruct (strong b) as [n|]; [|reflexivity]. cbn [is_dead] in Hd. rewrite Hd. reflexivity.
Qed.

(** ** 4. the teardown of a group, as one big step *)
Notation cfg s k u := {| st := s; stack := k; unw := u |}.

Inductive reach_cfg (pri : list oid) : config -> config -> Prop :=
| rc_refl c : reach_cfg pri c c
| rc_step c c1 c2 : step pri c = Running c1 -> reach_cfg pri c1 c2 -> reach_cfg pri c c2.

Lemma rc_trans pri c1 c2 c3 : reach_cfg pri c1 c2 -> reach_cfg pri c2 c3 -> reach_cfg pri c1 c3.
Proof. induction 1; intros H'; [exact H'|]. eapply rc_step; eauto. Qed.

Lemma run_fin_step pri f c sf bf : run pri f c = Finished sf bf ->
  match step pri c with
  | Running c1 => exists f1, f = S f1 /\ run pri f1 c1 = Finished sf bf
  | Finished s b => s = sf /\ b = bf
  | Halted _ _ => False
  end.
Proof.
  destruct f as [|f]; cbn [run]; [discriminate|]. destruct (step pri c) as [c1|s b|s e].
  - intros H. exists f. auto.
  - intros H; injection H as -> ->. auto.
  - discriminate.
Qed.

Definition slot_weaks (ss : list slot) : list oid :=
  flat_map (fun sl => match sl with SWeak (Some o) => [o] | _ => [] end) ss.

Definition slot_ok (h : heap) (sl : slot) : Prop :=
  match sl with SStrong y => dead_at h y | _ => True end.

Lemma slot_ok_wd h h1 o sl : dec_weak_free h o = Ok h1 -> slot_ok h sl -> slot_ok h1 sl.
Proof. destruct sl; cbn [slot_ok]; auto. apply dec_weak_free_dead. Qed.

(** the field drop glue of a value all of whose strong handles point to dying
    objects: only the Weak handles have an effect *)
Lemma slots_phase pri ss : forall s k u f sf bf,
  Forall (slot_ok (heap_of s)) ss ->
  run pri f (cfg s (FDropSlots ss :: k) u) = Finished sf bf ->
  exists f1 s1, (f1 < f)%nat /\ run pri f1 (cfg s1 k u) = Finished sf bf /\
    reach_cfg pri (cfg s (FDropSlots ss :: k) u) (cfg s1 k u) /\
    regs s1 = regs s /\ log s1 = log s /\ wd_list (heap_of s) (slot_weaks ss) = Ok (heap_of s1).
Proof.
  induction ss as [|sl ss IH]; intros s k u f sf bf Hok H.
  - apply run_fin_step in H. cbn [step st stack unw] in H. destruct H as (f1 & -> & H).
    exists f1, s. split; [lia|]. split; [exact H|]. split; [eapply rc_step; [reflexivity|apply rc_refl]|]. auto.
  - inversion Hok as [|? ? Hsl Hss]; subst.
    pose proof H as H0. apply run_fin_step in H0. destruct sl as [y|w|]; cbn [step st stack unw] in H0.
    + destruct H0 as (f1 & -> & H1). pose proof H1 as H2. apply run_fin_step in H2.
      cbn [step st stack unw] in H2. cbn [slot_ok] in Hsl.
      destruct (drop_strong_dead pri s y Hsl) as [E|(e & E)]; rewrite E in H2; [|contradiction].
      destruct H2 as (f2 & -> & H2). cbn [app] in H2.
      destruct (IH s k u f2 sf bf Hss H2) as (f3 & s1 & Hlt & Hr & Hrc & R1 & L1 & W1).
      exists f3, s1. split; [lia|]. split; [exact Hr|]. split; [|auto].
      eapply rc_step; [reflexivity|]. eapply rc_step; [cbn [step st stack unw]; rewrite E; reflexivity|]. exact Hrc.
    + destruct (weak_drop (heap_of s) w) as [h1|] eqn:E; [|contradiction].
      destruct H0 as (f1 & -> & H1).
      assert (Hss1 : Forall (slot_ok h1) ss).
      { destruct w as [o|]; cbn [weak_drop] in E; [|injection E as <-; exact Hss].
        eapply Forall_impl; [|exact Hss]. intros a. apply (slot_ok_wd _ _ _ _ E). }
      destruct (IH (set_heap s h1) k u f1 sf bf Hss1 H1) as (f3 & s1 & Hlt & Hr & Hrc & R1 & L1 & W1).
      exists f3, s1. split; [lia|]. split; [exact Hr|]. split; [|split; [exact R1|split; [exact L1|]]].
      * eapply rc_step; [cbn [step st stack unw]; rewrite E; reflexivity|]. exact Hrc.
      * cbn [heap_of set_heap mk] in W1. destruct w as [o|]; cbn [weak_drop] in E.
        -- cbn [slot_weaks flat_map app wd_list]. fold (slot_weaks ss). unfold bind. rewrite E. exact W1.
        -- injection E as <-. exact W1.
    + destruct H0 as (f1 & -> & H1).
      destruct (IH s k u f1 sf bf Hss H1) as (f3 & s1 & Hlt & Hr & Hrc & R1 & L1 & W1).
      exists f3, s1. split; [lia|]. split; [exact Hr|]. split; [|auto].
      eapply rc_step; [reflexivity|]. exact Hrc.
Qed.

(** the members' values, with what is needed of each *)
Definition inner_ok (h : heap) (e : inner) : Prop :=
  script (snd (fst e)) = [] /\ Forall (slot_ok h) (slots (snd (fst e))).

Definition inn_weaks (es : list inner) : list oid :=
  flat_map (fun e => slot_weaks (slots (snd (fst e)))) es.

(** newest first, like the log *)
Definition inn_log (es : list inner) : list event :=
  rev (flat_map (fun e => [EvDtor (pid (snd (fst e))); EvTableDropped (fst (fst e))]) es).

Lemma inner_ok_wd ws : forall h h1 e, wd_list h ws = Ok h1 -> inner_ok h e -> inner_ok h1 e.
Proof.
  intros h h1 e H [Hs Hf]. split; [exact Hs|]. eapply Forall_impl; [|exact Hf].
  intros [y|w|]; cbn [slot_ok]; auto. eapply wd_list_dead; exact H.
Qed.

Lemma inners_phase pri es : forall s k u f sf bf,
  Forall (inner_ok (heap_of s)) es ->
  run pri f (cfg s (FInners es :: k) u) = Finished sf bf ->
  exists f1 s1, (f1 < f)%nat /\ run pri f1 (cfg s1 k u) = Finished sf bf /\
    reach_cfg pri (cfg s (FInners es :: k) u) (cfg s1 k u) /\
    regs s1 = regs s /\ log s1 = inn_log es ++ log s /\
    wd_list (heap_of s) (inn_weaks es) = Ok (heap_of s1).
Proof.
  induction es as [|[[o v] t] es IH]; intros s k u f sf bf Hok H.
  - apply run_fin_step in H. cbn [step st stack unw] in H. destruct H as (f1 & -> & H).
    exists f1, s. split; [lia|]. split; [exact H|]. split; [eapply rc_step; [reflexivity|apply rc_refl]|]. auto.
  - inversion Hok as [|? ? [Hsc Hsl] Hes]; subst. cbn [fst snd] in Hsc, Hsl.
    apply run_fin_step in H. cbn [step st stack unw] in H. destruct H as (f1 & -> & H).
    apply run_fin_step in H. cbn [step st stack unw] in H. destruct H as (f2 & -> & H).
    rewrite Hsc in H.
    apply run_fin_step in H. cbn [step st stack unw] in H. destruct H as (f3 & -> & H).
    destruct (slots_phase pri (slots v) (add_ev s (EvDtor (pid v))) _ u f3 sf bf Hsl H) as (f4 & s1 & Hlt & H1 & Hrc1 & R1 & L1 & W1).
    cbn [heap_of regs log add_ev mk] in R1, L1, W1.
    apply run_fin_step in H1. cbn [step st stack unw] in H1. destruct H1 as (f5 & -> & H1).
    assert (Hes1 : Forall (inner_ok (heap_of (add_ev s1 (EvTableDropped o)))) es).
    { cbn [heap_of add_ev mk]. eapply Forall_impl; [|exact Hes]. intros e. eapply inner_ok_wd; exact W1. }
    destruct (IH _ k u f5 sf bf Hes1 H1) as (f6 & s2 & Hlt2 & H2 & Hrc2 & R2 & L2 & W2).
    cbn [heap_of regs log add_ev mk] in R2, L2, W2.
    exists f6, s2. split; [lia|]. split; [exact H2|]. split; [|split; [congruence|split]].
    + eapply rc_step; [reflexivity|]. eapply rc_step; [reflexivity|]. cbn [st stack unw]. rewrite Hsc.
      eapply rc_step; [reflexivity|]. eapply rc_trans; [exact Hrc1|].
      eapply rc_step; [reflexivity|]. exact Hrc2.
    + rewrite L2, L1. unfold inn_log. cbn [flat_map fst snd app]. cbn [rev]. rewrite <- !app_assoc. reflexivity.
    + unfold inn_weaks. cbn [flat_map fst snd]. rewrite wd_list_app. unfold bind. rewrite W1. exact W2.
Qed.

Lemma group_phase pri es keys s k u f sf bf :
  Forall (inner_ok (heap_of s)) es ->
  run pri f (cfg s (FInners es :: FFinishGroup keys :: k) u) = Finished sf bf ->
  exists f1 s1 hw, (f1 < f)%nat /\ run pri f1 (cfg s1 k u) = Finished sf bf /\
    reach_cfg pri (cfg s (FInners es :: FFinishGroup keys :: k) u) (cfg s1 k u) /\
    regs s1 = regs s /\ log s1 = inn_log es ++ log s /\
    wd_list (heap_of s) (inn_weaks es) = Ok hw /\ finish_group hw keys = Ok (heap_of s1).
Proof.
  intros Hok H.
  destruct (inners_phase pri es s _ u f sf bf Hok H) as (f1 & s1 & Hlt & H1 & Hrc & R1 & L1 & W1).
  apply run_fin_step in H1. cbn [step st stack unw] in H1.
  destruct (finish_group (heap_of s1) keys) as [hf|] eqn:E; [|contradiction].
  destruct H1 as (f2 & -> & H2).
  exists f2, (set_heap s1 hf), (heap_of s1). split; [lia|]. split; [exact H2|]. split; [|auto].
  eapply rc_trans; [exact Hrc|]. eapply rc_step; [cbn [step st stack unw]; rewrite E; reflexivity|apply rc_refl].
Qed.

Lemma inn_weaks_perm es es' : Permutation es es' -> Permutation (inn_weaks es) (inn_weaks es').
Proof. apply Permutation_flat_map. Qed.

Lemma inn_log_perm es es' : Permutation es es' -> lperm (inn_log es) (inn_log es').
Proof.
  intros H. apply lperm_perm. unfold inn_log.
  eapply Permutation_trans; [apply Permutation_sym, Permutation_rev|].
  eapply Permutation_trans; [|apply Permutation_rev]. apply Permutation_flat_map. exact H.
Qed.

(** ** 5. [Rc::drop] under two oracles *)
Lemma drop_strong_two pri pri' s o s1 push :
  drop_strong pri s o = Ok (s1, push) ->
  drop_strong pri' s o = Ok (s1, push) \/
  exists s2 es es' keys keys',
    s1 = add_ev s2 (EvGroup keys) /\ push = [FInners es; FFinishGroup keys] /\
    drop_strong pri' s o = Ok (add_ev s2 (EvGroup keys'), [FInners es'; FFinishGroup keys']) /\
    Permutation es es' /\ Permutation keys keys' /\ NoDup keys.
Proof.
  unfold drop_strong, bind. destruct (getb (heap_of s) o) as [b|]; [|discriminate].
  destruct (strong b) as [n|]; [|auto]. destruct (n =? 0); [auto|].
  destruct (get_links _ o) as [[|e t]|]; [|  |discriminate].
  { destruct (n - 1 =? 0); auto. }
  destruct (n - 1 =? 0); [auto|].
  destruct (orphaned_cycle _ o) as [[[[cyc|] pops] visits]|] eqn:OC; [|auto|discriminate].
  pose proof (orphaned_cycle_nodup _ _ _ _ _ OC) as Hnd.
  destruct (bust_all _ (map fst (order_cycle pri cyc)) _) as [h2|] eqn:BA; [|discriminate].
  destruct (gather h2 _ []) as [[h3 es]|] eqn:GA; [|discriminate].
  intros H; injection H as <- <-. right.
  destruct (drop_cycle_oracle_indep pri pri' cyc _ h2 h3 es Hnd BA GA) as (BA' & (es' & GA' & HP) & _).
  rewrite BA', GA'. eexists _, es, es', _, _. split; [reflexivity|]. split; [reflexivity|].
  split; [reflexivity|]. split; [exact HP|].
  split; [apply Permutation_map; apply order_cycle_oracle; exact Hnd|].
  eapply Permutation_NoDup; [|exact Hnd]. apply Permutation_map, Permutation_sym, order_cycle_perm. exact Hnd.
Qed.

(** ** 6. the invariants along a run *)
Definition ok (c : config) : Prop :=
  Inv_cfg c /\ recorded (heap_of (st c)) /\ no_scripts c.

Lemma ok_step pri c c1 : ok c -> step pri c = Running c1 -> ok c1.
Proof.
  intros (HI & Hrec & Hns) H. destruct (step_recorded pri c c1 HI Hrec Hns H) as [Hrec1 Hns1].
  split; [|auto]. destruct (recorded_step_hyp c Hrec Hns) as [Hh _].
  pose proof (step_inv pri c HI Hh) as Hg. rewrite H in Hg. exact Hg.
Qed.

Lemma ok_reach pri c c1 : reach_cfg pri c c1 -> ok c -> ok c1.
Proof. induction 1 as [c|c c1 c2 Hs _ IH]; intros Hok; [exact Hok|]. apply IH. eapply ok_step; eassumption. Qed.

(** the collected values are the members' values *)
Lemma gather_mem : forall keys h acc h3 inn, gather h keys acc = Ok (h3, inn) ->
  forall e, In e inn -> In e acc \/
    (In (fst (fst e)) keys /\ exists b, nth_error h (fst (fst e)) = Some b /\ value b = Some (snd (fst e))).
Proof.
  induction keys as [|k keys IH]; intros h acc h3 inn; cbn [gather].
  - intros H; injection H as <- <-. auto.
  - unfold bind. destruct (getb h k) as [b|] eqn:G; [|discriminate].
    assert (Hstep : forall e, (In e acc \/ In (fst (fst e)) keys /\
               (exists b0, nth_error h (fst (fst e)) = Some b0 /\ value b0 = Some (snd (fst e)))) ->
             In e acc \/ In (fst (fst e)) (k :: keys) /\
               (exists b0, nth_error h (fst (fst e)) = Some b0 /\ value b0 = Some (snd (fst e)))).
    { intros e [H|[H1 H2]]; [left; exact H|right; split; [right; exact H1|exact H2]]. }
    destruct (negb (is_dead (strong b))); [intros H e He; apply Hstep, (IH _ _ _ _ H e He)|].
    destruct (is_uninit (strong b)); [intros H e He; apply Hstep, (IH _ _ _ _ H e He)|].
    destruct (value b) as [v|] eqn:Ev; [|discriminate]. destruct (links b) as [t|]; [|discriminate].
    intros H e He. destruct (IH _ _ _ _ H e He) as [Hin|[Hin (b0 & Hb0 & Hv0)]].
    + apply in_app_or in Hin as [Hin|[<-|[]]]; [left; exact Hin|]. right. cbn [fst snd].
      split; [left; reflexivity|]. exists b. split; [apply getb_ok in G; tauto|exact Ev].
    + right. split; [right; exact Hin|]. unfold setb in Hb0. rewrite nth_error_upd in Hb0.
      destruct (Nat.eqb_spec k (fst (fst e))) as [Ek|Hne]; [|exists b0; auto].
      destruct (Nat.ltb k (length h)); [|discriminate]. injection Hb0 as <-. discriminate.
Qed.

Lemma recorded_setb_strong h o b c : nth_error h o = Some b -> recorded h ->
  recorded (setb h o (with_strong b c)).
Proof.
  intros Hb Hrec a b' p Hb' Hv y. rewrite (lget_setb_same_table h o b (with_strong b c) Hb eq_refl).
  unfold setb in Hb'. rewrite nth_error_upd in Hb'. destruct (Nat.eqb_spec o a) as [<-|Hne].
  - destruct (Nat.ltb o (length h)); [|discriminate]. injection Hb' as <-. apply (Hrec o b p Hb Hv).
  - apply (Hrec a b' p Hb' Hv).
Qed.

(** KEY FACT.  In a heap where every stored handle is recorded, the values of
    a collected group hold strong handles to members only: a recorded
    adoption is an edge of the traced graph, and the group is closed under
    edges.  After phase two every member is marked, so dropping these handles
    does nothing. *)
Lemma group_inner_ok pri s o k u s1 es keys :
  ok (cfg s (FDropStrong o :: k) u) ->
  drop_strong pri s o = Ok (s1, [FInners es; FFinishGroup keys]) ->
  Forall (inner_ok (heap_of s1)) es.
Proof.
  intros (HI & Hrec & (Hn & _ & _)) H. unfold Inv_cfg in HI. cbn [st stack] in HI, Hrec, Hn.
  pose proof (ti_wf _ (inv_tbl _ _ HI)) as Hwf.
  destruct (drop_strong_struct pri s o s1 _ Hwf Hn H) as (_ & _ & Hnsf).
  inversion Hnsf as [|? ? Hnsi _]; subst. cbn [ns_frame] in Hnsi.
  unfold drop_strong, bind in H. destruct (getb (heap_of s) o) as [b|] eqn:G; [|discriminate].
  destruct (strong b) as [n|] eqn:Es; [|discriminate]. destruct (n =? 0) eqn:En0; [discriminate|].
  set (h1 := setb (heap_of s) o (with_strong b (Cnt (n - 1)))) in *.
  destruct (get_links h1 o) as [[|e t]|]; [| |discriminate].
  { destruct (n - 1 =? 0); [|discriminate]. unfold start_unreachable, bind in H.
    brk H. }
  destruct (n - 1 =? 0) eqn:En1.
  { destruct (purge_loop h1 o (e :: t)) as [h2|]; [|discriminate]. cbn [bind] in H.
    destruct (set_links h2 o []) as [h3|]; [|discriminate]. unfold start_unreachable, bind in H.
    brk H. }
  destruct (orphaned_cycle h1 o) as [[[[cyc|] pops] visits]|] eqn:OC; [|discriminate|discriminate].
  destruct (bust_all h1 _ _) as [h2|] eqn:BA; [|discriminate].
  destruct (gather h2 _ []) as [[h3 es0]|] eqn:GA; [|discriminate].
  injection H as <- <- <-. cbn [heap_of add_ev set_heap mk].
  apply getb_ok in G as [Hb _]. apply N.eqb_neq in En0, En1.
  assert (Hn2 : 1 < n) by lia.
  pose proof (dec_strong_inv s o k b n HI Hb Es Hn2) as HI1. fold h1 in HI1.
  assert (Hrec1 : recorded h1) by (apply recorded_setb_strong; assumption).
  pose proof (ti_wf _ (inv_tbl _ _ HI1)) as Hwf1. cbn [heap_of set_heap mk] in Hwf1.
  destruct (group_inv (set_heap s h1) k o pri cyc pops visits HI1
              (disc_traced _ _ (recorded_disc _ Hrec1)) OC) as (h2' & h3' & es' & BA' & GA' & Hgh & Hkeys & _).
  cbn [heap_of set_heap mk] in BA', GA', Hgh, Hkeys. rewrite BA in BA'. injection BA' as <-.
  rewrite GA in GA'. injection GA' as <- <-.
  pose proof (bust_all_vk _ _ _ _ BA) as [_ Hvk].
  apply Forall_forall. intros [[k0 v] t0] Hin. split.
  { rewrite Forall_forall in Hnsi. apply (Hnsi _ Hin). }
  cbn [fst snd]. apply Forall_forall. intros [y|w|] Hy; cbn [slot_ok]; auto.
  destruct (gather_mem _ _ _ _ _ GA _ Hin) as [[]|[Hk0 (b2 & Hb2 & Hv2)]]. cbn [fst snd] in Hk0, Hb2, Hv2.
  destruct (Hvk k0 b2 v Hb2 Hv2) as [(b1 & Hb1 & Hv1)|(_ & Hem & _)].
  2:{ rewrite Hem in Hy. apply repeat_spec in Hy. discriminate. }
  assert (Hpos : 0 < lget h1 k0 (y, Fwd)).
  { rewrite (Hrec1 k0 b1 v Hb1 Hv1 y). pose proof (total_in_le (sw_strong y) _ _ Hy) as Hle.
    rewrite sw_strong_self in Hle. lia. }
  assert (Hyk : In y (map fst (order_cycle pri cyc))).
  { apply Hkeys. apply reach_step with (x := k0); [apply Hkeys; exact Hk0|].
    unfold edge. apply (fwd_target_lget _ _ _ Hwf1). exact Hpos. }
  destruct (ti_names _ (inv_tbl _ _ HI1) k0 y Fwd Hpos) as (by_ & Hby & _). cbn [heap_of set_heap mk] in Hby.
  exists (gone by_). split; [eapply group_heap_member; eassumption|reflexivity].
Qed.

(** ** 7. two runs of the same stack under two oracles *)
Definition cfg_rel (c c' : config) : Prop :=
  heap_of (st c') = heap_of (st c) /\ regs (st c') = regs (st c) /\
  stack c' = stack c /\ unw c' = unw c /\ lperm (log (st c)) (log (st c')).

Lemma obs_eq_alog l l' s : lperm l l' -> obs_eq (alog l s) (alog l' s).
Proof.
  intros Hl. destruct (lperm_app (log s) (log s) l l' (lperm_refl _) Hl) as (A & B & C).
  split; [reflexivity|]. split; [reflexivity|]. cbn [log alog mk]. auto.
Qed.

Theorem run_indep pri pri' : forall f f' c c' sf bf sf' bf',
  cfg_rel c c' -> ok c -> ok c' ->
  run pri f c = Finished sf bf -> run pri' f' c' = Finished sf' bf' ->
  bf' = bf /\ obs_eq sf sf'.
Proof.
  induction f as [f IH] using lt_wf_ind. intros f' c c' sf bf sf' bf' Hrel Hok Hok' H H'.
  destruct c as [[h r l] k u], c' as [[h' r' l'] k' u']. destruct Hrel as (Eh & Er & Ek & Eu & Hl).
  cbn [st stack unw heap_of regs log] in Eh, Er, Ek, Eu, Hl. subst h' r' k' u'.
  set (s0 := mk h r []). set (c0 := cfg s0 k u).
  change (cfg {| heap_of := h; regs := r; log := l |} k u) with (alog_cfg l c0) in *.
  change (cfg {| heap_of := h; regs := r; log := l' |} k u) with (alog_cfg l' c0) in *.
  pose proof (run_fin_step _ _ _ _ _ H) as S. pose proof (run_fin_step _ _ _ _ _ H') as S'.
  rewrite step_alog in S, S'.
  (* both oracles take the same step *)
  assert (Hlock : step pri' c0 = step pri c0 -> bf' = bf /\ obs_eq sf sf').
  { intros E. rewrite E in S'. destruct (step pri c0) as [c1|s1 b1|s1 e1] eqn:E1; cbn [alog_out] in S, S'.
    - destruct S as (f1 & -> & R1). destruct S' as (f1' & -> & R1').
      apply (IH f1 (Nat.lt_succ_diag_r f1) f1' (alog_cfg l c1) (alog_cfg l' c1) sf bf sf' bf'); auto.
      + split; [reflexivity|]. split; [reflexivity|]. split; [reflexivity|]. split; [reflexivity|].
        cbn [alog_cfg st alog log mk]. apply lperm_app; [apply lperm_refl|exact Hl].
      + apply (ok_step pri _ _ Hok). rewrite step_alog, E1. reflexivity.
      + apply (ok_step pri' _ _ Hok'). rewrite step_alog, E. reflexivity.
    - destruct S as [<- <-]. destruct S' as [<- <-]. split; [reflexivity|]. apply obs_eq_alog; exact Hl.
    - contradiction. }
  destruct k as [|fr k1]; [apply Hlock; reflexivity|].
  destruct fr as [o|p|p pc|ss|o|es|o|keys|r0]; try (apply Hlock; reflexivity).
  (* Rc::drop *)
  cbn [step c0 st stack unw] in S, S'.
  destruct (drop_strong pri s0 o) as [[s1 push]|] eqn:E; [|contradiction].
  destruct (drop_strong_two pri pri' s0 o s1 push E)
    as [E'|(s2 & es & es' & keys & keys' & -> & -> & E' & HPe & HPk & Hnd)].
  { apply Hlock. cbn [step c0 st stack unw]. rewrite E, E'. reflexivity. }
  rewrite E' in S'. cbn [alog_out] in S, S'.
  destruct S as (f1 & -> & R1). destruct S' as (f1' & -> & R1').
  cbn [alog_cfg st stack unw app] in R1, R1'.
  (* the members' handles are inert, in both runs *)
  assert (D : drop_strong pri (alog l s0) o = Ok (alog l (add_ev s2 (EvGroup keys)), [FInners es; FFinishGroup keys])).
  { rewrite drop_strong_alog, E. reflexivity. }
  assert (D' : drop_strong pri' (alog l' s0) o = Ok (alog l' (add_ev s2 (EvGroup keys')), [FInners es'; FFinishGroup keys'])).
  { rewrite drop_strong_alog, E'. reflexivity. }
  pose proof (group_inner_ok pri _ o k1 u _ es keys Hok D) as Hin.
  pose proof (group_inner_ok pri' _ o k1 u _ es' keys' Hok' D') as Hin'.
  destruct (group_phase pri es keys _ k1 u f1 sf bf Hin R1) as (f2 & sA & hw & Hlt & RA & RcA & RegA & LogA & WA & FA).
  destruct (group_phase pri' es' keys' _ k1 u f1' sf' bf' Hin' R1') as (f2' & sB & hw' & Hlt' & RB & RcB & RegB & LogB & WB & FB).
  cbn [heap_of regs log alog add_ev mk] in RegA, LogA, WA, RegB, LogB, WB.
  apply (wd_list_perm _ _ (inn_weaks_perm _ _ HPe)) in WA. rewrite WA in WB. injection WB as <-.
  apply (finish_group_order _ _ _ _ HPk Hnd) in FA. rewrite FA in FB. injection FB as EhB.
  apply (IH f2 ltac:(lia) f2' (cfg sA k1 u) (cfg sB k1 u) sf bf sf' bf'); auto.
  - split; [symmetry; exact EhB|]. split; [cbn [st]; congruence|]. split; [reflexivity|]. split; [reflexivity|].
    cbn [st]. rewrite LogA, LogB. apply lperm_app; [apply inn_log_perm; exact HPe|].
    apply lperm_group. apply lperm_app; [apply lperm_refl|exact Hl].
  - eapply ok_reach; [|exact Hok]. eapply rc_step; [|exact RcA].
    unfold alog_cfg. cbn [step st stack unw c0]. rewrite D. reflexivity.
  - eapply ok_reach; [|exact Hok']. eapply rc_step; [|exact RcB].
    unfold alog_cfg. cbn [step st stack unw c0]. rewrite D'. reflexivity.
Qed.

(** ** 8. THEOREM 1: one call *)
Lemma op_start_alog x s o : op_start (alog x s) o = alog_aout x (op_start s o).
Proof. destruct o; cbn [op_start]; [apply exec_act_alog|apply exec_new_alog]. Qed.

Lemma exec_op_unfold pri f s o :
  exec_op pri f s o =
  match op_start s o with
  | AHalt e => (s, OHalt e)
  | APanicOut => (s, OPanicked)
  | AO s1 _ r push =>
      match run pri f (cfg s1 push false) with
      | Finished s2 false => (s2, ODone r)
      | Finished s2 true => (s2, OPanicked)
      | Halted s2 e => (s2, OHalt e)
      | Running c => (st c, OFuel)
      end
  end.
Proof. reflexivity. Qed.

(** what the two runs of one call have in common: the first, atomic part is
    the same function of heap and registers *)
Lemma exec_op_indep_gen pri pri' f f' s s' o :
  Inv s [] -> Inv s' [] -> obs_eq s s' ->
  (forall s1 self r push, op_start s o = AO s1 self r push -> ok (cfg s1 push false)) ->
  (forall s1 self r push, op_start s' o = AO s1 self r push -> ok (cfg s1 push false)) ->
  completed (snd (exec_op pri f s o)) = true -> completed (snd (exec_op pri' f' s' o)) = true ->
  snd (exec_op pri' f' s' o) = snd (exec_op pri f s o) /\
  obs_eq (fst (exec_op pri f s o)) (fst (exec_op pri' f' s' o)).
Proof.
  intros HI HI' (Eh & Er & Hl) Hst Hst'. fold (lperm (log s) (log s')) in Hl. rewrite !exec_op_unfold.
  set (s0 := mk (heap_of s) (regs s) []).
  assert (Es : s = alog (log s) s0) by (symmetry; apply alog_nil).
  assert (Es' : s' = alog (log s') s0) by (unfold s0; rewrite <- Eh, <- Er; symmetry; apply alog_nil).
  assert (Hobs : obs_eq s s') by (rewrite Es, Es'; apply obs_eq_alog; exact Hl).
  pose proof (op_start_alog (log s) s0 o) as A. rewrite <- Es in A.
  pose proof (op_start_alog (log s') s0 o) as A'. rewrite <- Es' in A'.
  destruct (op_start s0 o) as [s1 self r push|e|]; cbn [alog_aout] in A, A'; rewrite A, A'; cbn [fst snd].
  - specialize (Hst _ _ _ _ A). specialize (Hst' _ _ _ _ A').
    destruct (run pri f (cfg (alog (log s) s1) push false)) as [c|sA bA|sA e] eqn:RA;
      [discriminate| |discriminate].
    destruct (run pri' f' (cfg (alog (log s') s1) push false)) as [c|sB bB|sB e] eqn:RB;
      [intros _; discriminate| |intros _; discriminate].
    intros _ _.
    assert (Hrel : cfg_rel (cfg (alog (log s) s1) push false) (cfg (alog (log s') s1) push false)).
    { split; [reflexivity|]. split; [reflexivity|]. split; [reflexivity|]. split; [reflexivity|].
      cbn [st log alog mk]. apply lperm_app; [apply lperm_refl|exact Hl]. }
    destruct (run_indep pri pri' f f' _ _ sA bA sB bB Hrel Hst Hst' RA RB) as [-> Ho].
    destruct bA; cbn [fst snd]; auto.
  - discriminate.
  - auto.
Qed.

(** Rust reading: a call of a method that neither stores nor records a handle,
    made at a call boundary where every stored handle is recorded, returns the
    same result and leaves the same heap and the same registers whatever the
    iteration order of the hash maps; the same destructors have run and the
    same tables and allocations have been released, in an order that may
    differ inside one collected group only. *)
Theorem exec_op_oracle_independent pri pri' f f' s s' o :
  good s -> good s' -> obs_eq s s' -> quiet_op o = true ->
  completed (snd (exec_op pri f s o)) = true -> completed (snd (exec_op pri' f' s' o)) = true ->
  snd (exec_op pri' f' s' o) = snd (exec_op pri f s o) /\
  obs_eq (fst (exec_op pri f s o)) (fst (exec_op pri' f' s' o)).
Proof.
  intros (HI & Hrec & Hns) (HI' & Hrec' & Hns') Ho Hq. apply exec_op_indep_gen; auto.
  - intros s1 self r push E. apply (op_start_recorded s o s1 self r push HI Hrec Hns Hq E).
  - intros s1 self r push E. apply (op_start_recorded s' o s1 self r push HI' Hrec' Hns' Hq E).
Qed.

(** ** 9. THEOREM 2: histories *)

(** one atomic action on two states that differ in the log only *)
Lemma exec_act_obs s s' self a s1 sf r p :
  obs_eq s s' -> exec_act s self a = AO s1 sf r p ->
  exists s1', exec_act s' self a = AO s1' sf r p /\ obs_eq s1 s1'.
Proof.
  intros (Eh & Er & Hl) E. fold (lperm (log s) (log s')) in Hl.
  set (s0 := mk (heap_of s) (regs s) []).
  assert (Es : s = alog (log s) s0) by (symmetry; apply alog_nil).
  assert (Es' : s' = alog (log s') s0) by (unfold s0; rewrite <- Eh, <- Er; symmetry; apply alog_nil).
  rewrite Es, exec_act_alog in E. rewrite Es', exec_act_alog.
  destruct (exec_act s0 self a) as [t1 sf1 r1 p1|e|]; try discriminate. cbn [alog_aout] in *.
  injection E as <- <- <- <-. eexists. split; [reflexivity|]. apply obs_eq_alog; exact Hl.
Qed.

Lemma obs_reg_get s s' r : obs_eq s s' -> reg_get s' r = reg_get s r.
Proof. intros (_ & Er & _). unfold reg_get. rewrite Er. reflexivity. Qed.

Lemma obs_reg_free s s' r : obs_eq s s' -> reg_free s' r = reg_free s r.
Proof. intros Ho. unfold reg_free. rewrite (obs_reg_get _ _ r Ho). destruct Ho as (_ & -> & _). reflexivity. Qed.

Lemma link_pre_obs s s' ra rb t k : obs_eq s s' -> link_pre s ra rb t k -> link_pre s' ra rb t k.
Proof.
  intros Ho (oa & ob & b & p & H1 & H2 & H3 & H4 & H5). exists oa, ob, b, p.
  rewrite !(obs_reg_get _ _ _ Ho), (obs_reg_free _ _ _ Ho). destruct Ho as (-> & _). auto.
Qed.

Lemma unlink_pre_obs s s' ra k t : obs_eq s s' -> unlink_pre s ra k t -> unlink_pre s' ra k t.
Proof.
  intros Ho (oa & ob & b & p & H1 & H2 & H3 & H4). exists oa, ob, b, p.
  rewrite !(obs_reg_get _ _ _ Ho), (obs_reg_free _ _ _ Ho). destruct Ho as (-> & _). auto.
Qed.

(** the link idiom, on two states that differ in the log only, with any oracles *)
Lemma link_block_obs f f' s s' ra rb t k p1 p2 p3 q1 q2 q3 :
  good s -> good s' -> obs_eq s s' -> link_pre s ra rb t k ->
  exists s3 s3', good s3 /\ good s3' /\ obs_eq s3 s3' /\
    (forall rest, run_history (S f) s (link_block ra rb t k p1 p2 p3 ++ rest) =
       (fst (run_history (S f) s3 rest),
        ODone RUnit :: ODone RUnit :: ODone RUnit :: snd (run_history (S f) s3 rest))) /\
    (forall rest, run_history (S f') s' (link_block ra rb t k q1 q2 q3 ++ rest) =
       (fst (run_history (S f') s3' rest),
        ODone RUnit :: ODone RUnit :: ODone RUnit :: snd (run_history (S f') s3' rest))).
Proof.
  intros Hg Hg' Ho Hpre.
  destruct (link_acts s ra rb t k Hg Hpre) as (s1 & s2 & s3 & X1 & X2 & X3 & Hg3).
  destruct (link_acts s' ra rb t k Hg' (link_pre_obs _ _ _ _ _ _ Ho Hpre)) as (s1' & s2' & s3' & X1' & X2' & X3' & Hg3').
  destruct (exec_act_obs _ _ _ _ _ _ _ _ Ho X1) as (y1 & Y1 & Ho1). rewrite X1' in Y1. injection Y1 as <-.
  destruct (exec_act_obs _ _ _ _ _ _ _ _ Ho1 X2) as (y2 & Y2 & Ho2). rewrite X2' in Y2. injection Y2 as <-.
  destruct (exec_act_obs _ _ _ _ _ _ _ _ Ho2 X3) as (y3 & Y3 & Ho3). rewrite X3' in Y3. injection Y3 as <-.
  exists s3, s3'. split; [exact Hg3|]. split; [exact Hg3'|]. split; [exact Ho3|]. split; intros rest; unfold link_block; cbn [app].
  - destruct (hist_atomic f s _ p1 s1 None RUnit
                ((OAct (AAdopt (HReg ra) (HReg t)), p2) :: (OAct (AStore t (OReg ra) k), p3) :: rest) X1) as [_ B1].
    destruct (hist_atomic f s1 _ p2 s2 None RUnit ((OAct (AStore t (OReg ra) k), p3) :: rest) X2) as [_ B2].
    destruct (hist_atomic f s2 _ p3 s3 None RUnit rest X3) as [_ B3].
    rewrite B1, B2, B3. reflexivity.
  - destruct (hist_atomic f' s' _ q1 s1' None RUnit
                ((OAct (AAdopt (HReg ra) (HReg t)), q2) :: (OAct (AStore t (OReg ra) k), q3) :: rest) X1') as [_ B1].
    destruct (hist_atomic f' s1' _ q2 s2' None RUnit ((OAct (AStore t (OReg ra) k), q3) :: rest) X2') as [_ B2].
    destruct (hist_atomic f' s2' _ q3 s3' None RUnit rest X3') as [_ B3].
    rewrite B1, B2, B3. reflexivity.
Qed.

Lemma unlink_block_obs f f' s s' ra k t p1 p2 q1 q2 :
  good s -> good s' -> obs_eq s s' -> unlink_pre s ra k t ->
  exists s2 s2', good s2 /\ good s2' /\ obs_eq s2 s2' /\
    (forall rest, run_history (S f) s (unlink_block ra k t p1 p2 ++ rest) =
       (fst (run_history (S f) s2 rest), ODone RUnit :: ODone RUnit :: snd (run_history (S f) s2 rest))) /\
    (forall rest, run_history (S f') s' (unlink_block ra k t q1 q2 ++ rest) =
       (fst (run_history (S f') s2' rest), ODone RUnit :: ODone RUnit :: snd (run_history (S f') s2' rest))).
Proof.
  intros Hg Hg' Ho Hpre.
  destruct (unlink_acts s ra k t Hg Hpre) as (s1 & s2 & X1 & X2 & Hg2 & _).
  destruct (unlink_acts s' ra k t Hg' (unlink_pre_obs _ _ _ _ _ Ho Hpre)) as (s1' & s2' & X1' & X2' & Hg2' & _).
  destruct (exec_act_obs _ _ _ _ _ _ _ _ Ho X1) as (y1 & Y1 & Ho1). rewrite X1' in Y1. injection Y1 as <-.
  destruct (exec_act_obs _ _ _ _ _ _ _ _ Ho1 X2) as (y2 & Y2 & Ho2). rewrite X2' in Y2. injection Y2 as <-.
  exists s2, s2'. split; [exact Hg2|]. split; [exact Hg2'|]. split; [exact Ho2|]. split; intros rest; unfold unlink_block; cbn [app].
  - destruct (hist_atomic f s _ p1 s1 None RUnit ((OAct (ATake (OReg ra) k t), p2) :: rest) X1) as [_ B1].
    destruct (hist_atomic f s1 _ p2 s2 None RUnit rest X2) as [_ B2]. rewrite B1, B2. reflexivity.
  - destruct (hist_atomic f' s' _ q1 s1' None RUnit ((OAct (ATake (OReg ra) k t), q2) :: rest) X1') as [_ B1].
    destruct (hist_atomic f' s1' _ q2 s2' None RUnit rest X2') as [_ B2]. rewrite B1, B2. reflexivity.
Qed.

(** THEOREM 2, from any pair of good call boundaries.  [h] is a history of
    quiet calls and link / unlink blocks ([rec_hist], checked along the run
    under its own oracles); [h'] makes the same calls with arbitrary other
    oracles and another fuel.  Only [h] needs the [rec_hist] side conditions:
    they are conditions on heaps and registers, which agree along the runs. *)
Theorem run_history_indep_gen f f' h : forall s, rec_hist (S f) s h -> forall s' h',
  good s -> good s' -> obs_eq s s' -> map fst h' = map fst h ->
  forallb completed (snd (run_history (S f) s h)) = true ->
  forallb completed (snd (run_history (S f') s' h')) = true ->
  snd (run_history (S f') s' h') = snd (run_history (S f) s h) /\
  obs_eq (fst (run_history (S f) s h)) (fst (run_history (S f') s' h')).
Proof.
  intros s Hr.
  induction Hr as [s|s o pri h Hq _ IH|s ra rb t k p1 p2 p3 h Hpre _ IH|s ra k t p1 p2 h Hpre _ IH];
    intros s' h' Hg Hg' Ho Hm C C'.
  - destruct h'; [|discriminate]. cbn [run_history fst snd]. auto.
  - destruct h' as [|[o' pri'] h']; [discriminate|]. cbn [map fst] in Hm. injection Hm as -> Hm.
    cbn [run_history] in *.
    pose proof (exec_op_oracle_independent pri pri' (S f) (S f') s s' o Hg Hg' Ho Hq) as T.
    destruct Hg as (HI & Hrec & Hns). destruct Hg' as (HI' & Hrec' & Hns').
    pose proof (exec_op_recorded_inv pri (S f) s o HI Hrec Hns Hq) as G1.
    pose proof (exec_op_recorded_inv pri' (S f') s' o HI' Hrec' Hns' Hq) as G1'.
    destruct (exec_op pri (S f) s o) as [s1 r] eqn:E. destruct (exec_op pri' (S f') s' o) as [s1' r'] eqn:E'.
    cbn [fst snd] in *.
    assert (Cr : completed r = true) by (destruct r; try reflexivity; cbn [snd forallb completed andb] in C; discriminate).
    assert (Cr' : completed r' = true) by (destruct r'; try reflexivity; cbn [snd forallb completed andb] in C'; discriminate).
    destruct (T Cr Cr') as [-> Ho1]. specialize (IH Cr s1' h').
    destruct r as [res| |e|]; try discriminate Cr.
    + destruct (run_history (S f) s1 h) as [s2 rs]. destruct (run_history (S f') s1' h') as [s2' rs'].
      cbn [fst snd forallb completed andb] in *. destruct (IH G1 G1' Ho1 Hm C C') as [-> Ho2]. auto.
    + destruct (run_history (S f) s1 h) as [s2 rs]. destruct (run_history (S f') s1' h') as [s2' rs'].
      cbn [fst snd forallb completed andb] in *. destruct (IH G1 G1' Ho1 Hm C C') as [-> Ho2]. auto.
  - destruct h' as [|[o1 q1] [|[o2 q2] [|[o3 q3] h']]]; try discriminate.
    unfold link_block in Hm. cbn [map fst app] in Hm. injection Hm as -> -> -> Hm.
    destruct (link_block_obs f f' s s' ra rb t k p1 p2 p3 q1 q2 q3 Hg Hg' Ho Hpre)
      as (s3 & s3' & Hg3 & Hg3' & Ho3 & B & B').
    pose proof (B []) as B0. rewrite app_nil_r in B0. rewrite B0 in IH. cbn [run_history fst] in IH.
    change ((OAct (AClone (HReg rb) t), q1) :: (OAct (AAdopt (HReg ra) (HReg t)), q2) ::
            (OAct (AStore t (OReg ra) k), q3) :: h') with (link_block ra rb t k q1 q2 q3 ++ h') in *.
    rewrite B in *. rewrite B' in *. cbn [fst snd forallb completed andb] in *.
    destruct (IH s3' h' Hg3 Hg3' Ho3 Hm C C') as [-> Ho4]. auto.
  - destruct h' as [|[o1 q1] [|[o2 q2] h']]; try discriminate.
    unfold unlink_block in Hm. cbn [map fst app] in Hm. injection Hm as -> -> Hm.
    destruct (unlink_block_obs f f' s s' ra k t p1 p2 q1 q2 Hg Hg' Ho Hpre)
      as (s3 & s3' & Hg3 & Hg3' & Ho3 & B & B').
    pose proof (B []) as B0. rewrite app_nil_r in B0. rewrite B0 in IH. cbn [run_history fst] in IH.
    change ((OAct (AUnadopt (HReg ra) (HSlot (OReg ra) k)), q1) :: (OAct (ATake (OReg ra) k t), q2) :: h')
      with (unlink_block ra k t q1 q2 ++ h') in *.
    rewrite B in *. rewrite B' in *. cbn [fst snd forallb completed andb] in *.
    destruct (IH s3' h' Hg3 Hg3' Ho3 Hm C C') as [-> Ho4]. auto.
Qed.

(** Rust reading: a program whose values have no destructor scripts and which
    changes its stored handles only through the link and unlink idioms returns
    the same results from every call and ends with the same heap and registers
    whatever the iteration order of the hash maps during each call; the
    destructor runs and the released tables and allocations are the same up
    to order. *)
Theorem run_history_oracle_independent f f' h h' :
  rec_hist (S f) init_state h -> map fst h' = map fst h ->
  forallb completed (snd (run_history (S f) init_state h)) = true ->
  forallb completed (snd (run_history (S f') init_state h')) = true ->
  snd (run_history (S f') init_state h') = snd (run_history (S f) init_state h) /\
  obs_eq (fst (run_history (S f) init_state h)) (fst (run_history (S f') init_state h')).
Proof.
  intros Hr Hm. apply (run_history_indep_gen f f' h init_state Hr init_state h' good_init good_init (obs_eq_refl _) Hm).
Qed.

(** ** 10. the hypotheses are satisfiable and the oracle matters

    Two objects linked into a cycle by the idiom; dropping the second outside
    handle collects the group.  The two oracles tear the members down in
    opposite orders: the logs differ, the theorem applies. *)
Definition ex_hist (p : list oid) : list (op * list oid) :=
  (OAct (ANew 0), []) :: (OAct (ANew 1), []) ::
  link_block 0 1 2 0 [] [] [] ++
  link_block 1 0 2 0 [] [] [] ++
  (OAct (ADrop 1), []) :: (OAct (ADrop 0), p) :: [].

Example ex_rec_hist : rec_hist 30 init_state (ex_hist []).
Proof.
  unfold ex_hist.
  apply rh_quiet; [reflexivity|intros _]. norm_state.
  apply rh_quiet; [reflexivity|intros _]. norm_state.
  apply rh_link; [eexists _, _, _, _; repeat split; reflexivity|]. norm_state.
  apply rh_link; [eexists _, _, _, _; repeat split; reflexivity|]. norm_state.
  apply rh_quiet; [reflexivity|intros _]. norm_state.
  apply rh_quiet; [reflexivity|intros _]. norm_state.
  apply rh_nil.
Qed.

Example ex_same_calls : map fst (ex_hist [0; 1]%nat) = map fst (ex_hist []).
Proof. reflexivity. Qed.

Example ex_completed :
  forallb completed (snd (run_history 30 init_state (ex_hist []))) = true /\
  forallb completed (snd (run_history 40 init_state (ex_hist [0; 1]%nat))) = true.
Proof. split; vm_compute; reflexivity. Qed.

(** the member order is really different *)
Example ex_logs_differ :
  dtors (log (fst (run_history 30 init_state (ex_hist [])))) = [0; 1]%nat /\
  dtors (log (fst (run_history 40 init_state (ex_hist [0; 1]%nat)))) = [1; 0]%nat.
Proof. split; vm_compute; reflexivity. Qed.

Example ex_independent :
  snd (run_history 40 init_state (ex_hist [0; 1]%nat)) = snd (run_history 30 init_state (ex_hist [])) /\
  obs_eq (fst (run_history 30 init_state (ex_hist []))) (fst (run_history 40 init_state (ex_hist [0; 1]%nat))).
Proof.
  apply (run_history_oracle_independent 29 39 _ _ ex_rec_hist ex_same_calls
           (proj1 ex_completed) (proj2 ex_completed)).
Qed.

(** ** 11. STRETCH: different table orders as well

    The link tables are hash maps too.  Two runs may differ not only in the
    member order of each teardown but also in the order of every table
    ([heap_perm]: the heaps agree box by box on every field except that
    corresponding tables are permutations of each other).  Faults are order
    dependent (the purge loop stops at the first peer whose table cannot be
    borrowed), so the relations below say nothing when a side halts; the
    theorems assume, as before, that both runs complete. *)

(** same registers and log, heaps up to table order *)
Definition hr_perm (s s' : state) : Prop :=
  heap_perm (heap_of s) (heap_of s') /\ regs s' = regs s /\ log s' = log s.

Definition aout_perm0 (x y : aout) : Prop :=
  match x, y with
  | AO s sf r p, AO s' sf' r' p' => hr_perm s s' /\ sf' = sf /\ r' = r /\ p' = p
  | APanicOut, APanicOut => True
  | AHalt _, _ | _, AHalt _ => True
  | _, _ => False
  end.

Lemma ao_perm_intro h1 h1' r1 l1 self res p :
  heap_perm h1 h1' -> aout_perm0 (AO (mk h1 r1 l1) self res p) (AO (mk h1' r1 l1) self res p).
Proof. intros H. repeat split; auto. Qed.

Lemma aout_perm0_halt_r x e : aout_perm0 x (AHalt e).
Proof. destruct x; exact I. Qed.

Section ActPerm.
Variables (h h' : heap) (r : list reg) (l : list event).
Hypothesis HP : heap_perm h h'.
Hypothesis Hwf : heap_wf h.
Notation s := (mk h r l).
Notation s' := (mk h' r l).

Lemma nth_value_perm o :
  match nth_error h o, nth_error h' o with
  | Some b, Some b' => box_perm b b'
  | None, None => True
  | _, _ => False
  end.
Proof. apply (Forall2_nth _ _ _ HP o). Qed.

Lemma resolve_owner_perm self w : resolve_owner s' self w = resolve_owner s self w.
Proof.
  destruct w as [x|]; cbn [resolve_owner]; [|reflexivity].
  change (reg_get s' x) with (reg_get s x). destruct (reg_get s x) as [o| | | |]; try reflexivity.
  cbn [heap_of mk]. pose proof (nth_value_perm o) as H.
  destruct (nth_error h o) as [b|], (nth_error h' o) as [b'|]; try contradiction; [|reflexivity].
  destruct H as (_ & _ & Hv & _). rewrite Hv. reflexivity.
Qed.

Lemma resolve_slot_perm self w k : resolve_slot s' self w k = resolve_slot s self w k.
Proof. unfold resolve_slot. rewrite resolve_owner_perm. reflexivity. Qed.

Lemma resolve_strong_perm self hr : resolve_strong s' self hr = resolve_strong s self hr.
Proof.
  destruct hr as [x|w k]; cbn [resolve_strong]; [reflexivity|]. rewrite resolve_slot_perm. reflexivity.
Qed.

Lemma resolve_weak_perm self hr : resolve_weak s' self hr = resolve_weak s self hr.
Proof.
  destruct hr as [x|w k]; cbn [resolve_weak]; [reflexivity|]. rewrite resolve_slot_perm. reflexivity.
Qed.

Lemma lift_perm ha ha' r1 l1 self (x x' : R heap) k k' :
  (forall a b, x = Ok a -> x' = Ok b -> heap_perm a b) ->
  (forall h1 h1', heap_perm h1 h1' -> aout_perm0 (k (mk h1 r1 l1)) (k' (mk h1' r1 l1))) ->
  aout_perm0 (lift (mk ha r1 l1) self x k) (lift (mk ha' r1 l1) self x' k').
Proof.
  intros Hx Hk. unfold lift. destruct x as [a|e], x' as [b|e']; try exact I.
  - apply Hk. apply Hx; reflexivity.
  - apply aout_perm0_halt_r.
Qed.

Lemma R_rel_both {A B} (P : A -> B -> Prop) x y : R_rel P x y -> forall a b, x = Ok a -> y = Ok b -> P a b.
Proof. intros H a b -> ->. exact H. Qed.

Lemma R_ok_both {A B} (P : A -> B -> Prop) x y : R_ok P x y -> forall a b, x = Ok a -> y = Ok b -> P a b.
Proof. intros H a b E1 E2. destruct (H a E1) as (b0 & E & Hp). congruence. Qed.

Lemma write_slot_perm r1 self ow k sl h1 h1' :
  heap_perm h1 h1' ->
  hr_perm (fst (write_slot (mk h1 r1 l) self ow k sl)) (fst (write_slot (mk h1' r1 l) self ow k sl)) /\
  snd (write_slot (mk h1' r1 l) self ow k sl) = snd (write_slot (mk h1 r1 l) self ow k sl).
Proof.
  intros H1. destruct ow as [o p|p]; cbn [write_slot heap_of mk].
  - pose proof (Forall2_nth _ _ _ H1 o) as H.
    destruct (nth_error h1 o) as [b|], (nth_error h1' o) as [b'|]; try contradiction; cbn [fst snd].
    + split; [|reflexivity]. split; [|auto]. cbn [heap_of set_heap mk].
      apply heap_perm_setb; [exact H1|]. apply box_perm_with_value. exact H.
    + split; [|reflexivity]. split; auto.
  - cbn [fst snd]. split; [|reflexivity]. split; auto.
Qed.

Lemma exec_new_perm self dst sc : aout_perm0 (exec_new s self dst sc) (exec_new s' self dst sc).
Proof.
  unfold exec_new, invalid. change (reg_free s' dst) with (reg_free s dst). destruct (reg_free s dst).
  - cbn [heap_of set_heap set_reg mk regs log]. rewrite (heap_perm_length _ _ HP).
    apply ao_perm_intro. apply heap_perm_app. exact HP.
  - apply ao_perm_intro. exact HP.
Qed.

Lemma clone_slots_perm ss : forall h1 h1', heap_perm h1 h1' ->
  R_rel heap_perm (clone_slots h1 ss) (clone_slots h1' ss).
Proof.
  induction ss as [|[o|[o|]|] ss IH]; intros h1 h1' H1; cbn [clone_slots]; auto.
  - eapply R_rel_bind; [apply inc_strong_perm; exact H1|]. intros; apply IH; assumption.
  - eapply R_rel_bind; [apply inc_weak_perm; exact H1|]. intros; apply IH; assumption.
Qed.

Ltac norm_s :=
  change (reg_get s') with (reg_get s); change (reg_free s') with (reg_free s);
  rewrite ?resolve_strong_perm, ?resolve_weak_perm, ?resolve_slot_perm;
  cbn [heap_of mk].

Ltac getb_both o b b' Hb :=
  let G := fresh "G" in
  pose proof (getb_perm h h' o HP) as G;
  destruct (getb h o) as [b|], (getb h' o) as [b'|]; cbn [R_rel] in G; try contradiction;
  [pose proof G as Hb | exact I].

Ltac leaf := first [ apply ao_perm_intro; try exact HP | exact I ].

Theorem exec_act_perm self a : aout_perm0 (exec_act s self a) (exec_act s' self a).
Proof.
  destruct a; cbn [exec_act]; unfold invalid; norm_s.
  - (* new *) apply exec_new_perm.
  - (* clone *)
    destruct (resolve_strong s self h0) as [[o lc]|]; [|leaf]. destruct (reg_free s dst); [|leaf].
    apply lift_perm; [apply R_rel_both, inc_strong_perm, HP|]. intros h1 h1' H1.
    cbn [set_reg mk heap_of regs log]. apply ao_perm_intro; exact H1.
  - (* drop *)
    destruct (reg_get s r0) as [o|w|o|p|]; try leaf.
    apply lift_perm; [apply R_rel_both, weak_drop_perm, HP|]. intros h1 h1' H1.
    cbn [set_reg mk heap_of regs log]. apply ao_perm_intro; exact H1.
  - (* downgrade *)
    destruct (resolve_strong s self h0) as [[o lc]|]; [|leaf]. destruct (reg_free s dst); [|leaf].
    apply lift_perm; [apply R_rel_both, inc_weak_perm, HP|]. intros h1 h1' H1.
    cbn [set_reg mk heap_of regs log]. apply ao_perm_intro; exact H1.
  - (* upgrade *)
    destruct (resolve_weak s self w) as [[o|]|]; try leaf; (destruct (reg_free s dst); [|leaf]); [|leaf].
    getb_both o b b' Hb. destruct Hb as (Hs & _). rewrite Hs. destruct (is_dead (strong b)); [leaf|].
    apply lift_perm; [apply R_rel_both, inc_strong_perm, HP|]. intros h1 h1' H1.
    cbn [set_reg mk heap_of regs log]. apply ao_perm_intro; exact H1.
  - (* clone weak *)
    destruct (resolve_weak s self w) as [[o|]|]; try leaf; (destruct (reg_free s dst); [|leaf]); [|leaf].
    apply lift_perm; [apply R_rel_both, inc_weak_perm, HP|]. intros h1 h1' H1.
    cbn [set_reg mk heap_of regs log]. apply ao_perm_intro; exact H1.
  - (* weak new *) destruct (reg_free s dst); leaf.
  - (* store *)
    destruct (slot_of_reg (reg_get s src)) as [sl|]; [|leaf].
    destruct (resolve_slot s self w k) as [[ow [| |]]|]; try leaf.
    change (set_reg s src REmpty) with (mk h (upd r src REmpty) l).
    change (set_reg s' src REmpty) with (mk h' (upd r src REmpty) l).
    destruct (write_slot_perm (upd r src REmpty) self ow k sl h h' HP) as [H1 H2].
    destruct (write_slot (mk h (upd r src REmpty) l) self ow k sl) as [s1 sf1].
    destruct (write_slot (mk h' (upd r src REmpty) l) self ow k sl) as [s1' sf1'].
    cbn [fst snd] in H1, H2. split; [exact H1|auto].
  - (* take *)
    destruct (resolve_slot s self w k) as [[ow sl]|]; [|leaf]. destruct (reg_of_slot sl) as [x|]; [|leaf].
    destruct (reg_free s dst); [|leaf].
    destruct (write_slot_perm r self ow k SEmpty h h' HP) as [H1 H2].
    destruct (write_slot s self ow k SEmpty) as [s1 sf1]. destruct (write_slot s' self ow k SEmpty) as [s1' sf1'].
    cbn [fst snd] in H1, H2. destruct H1 as (A & B & C). repeat split; auto.
    cbn [set_reg regs mk]. rewrite B. reflexivity.
  - (* adopt *)
    destruct (resolve_strong s self h1) as [[oa l1]|]; [|leaf]. destruct (resolve_strong s self h2) as [[ob l2]|]; [|leaf].
    apply lift_perm; [apply R_rel_both, adopt_perm; assumption|]. intros; apply ao_perm_intro; assumption.
  - (* unadopt *)
    destruct (resolve_strong s self h1) as [[oa l1]|]; [|leaf]. destruct (resolve_strong s self h2) as [[ob l2]|]; [|leaf].
    apply lift_perm; [apply R_rel_both, unadopt_perm; assumption|]. intros; apply ao_perm_intro; assumption.
  - (* try_unwrap *)
    destruct (reg_get s r0) as [o|w|o|p|]; try leaf. destruct (reg_free s dst); [|leaf].
    getb_both o b b' Hb. destruct Hb as (Hs & _). rewrite Hs.
    destruct (strong b) as [[|[q|q|]]|]; try leaf.
    apply lift_perm; [apply R_ok_both, release_links_perm; assumption|]. intros h1 h1' H1. cbn [heap_of mk].
    pose proof (getb_perm h1 h1' o H1) as G1.
    destruct (getb h1 o) as [b1|], (getb h1' o) as [b1'|]; cbn [R_rel] in G1; try contradiction; [|exact I].
    pose proof G1 as (_ & _ & Hv & _). rewrite Hv. destruct (value b1) as [p|]; [|exact I].
    apply lift_perm.
    + apply R_rel_both, weak_drop_perm. apply heap_perm_setb; [exact H1|].
      apply box_perm_with_strong, box_perm_with_value. exact G1.
    + intros h2 h2' H2. cbn [set_reg add_ev mk heap_of regs log]. apply ao_perm_intro; exact H2.
  - (* get_mut *)
    destruct (reg_get s r0) as [o|w|o|p|]; try leaf.
    getb_both o b b' Hb. destruct Hb as (Hs & Hw & _). rewrite Hs, Hw. destruct (weak b =? 0); leaf.
  - (* make_mut *)
    destruct (reg_get s r0) as [o|w|o|p|]; try leaf.
    pose proof (getb_perm h h' o HP) as Hb.
    destruct (getb h o) as [b|] eqn:Gb, (getb h' o) as [b'|]; cbn [R_rel] in Hb; try contradiction; [|exact I].
    pose proof Hb as (Hs & Hw & Hv & _). rewrite Hs, Hw, Hv, (heap_perm_length _ _ HP).
    destruct (strong b) as [[|[q|q|]]|].
    4:{ (* steal *)
        destruct (weak b =? 0); [exact I|]. destruct (weak b =? 1); [leaf|].
        destruct (value b) as [p|]; [|exact I].
        set (p' := {| pid := length h; slots := slots p; script := script p |}).
        assert (H1 : heap_perm (setb h o (with_value b None) ++ [new_box p']) (setb h' o (with_value b' None) ++ [new_box p'])).
        { apply heap_perm_app. apply heap_perm_setb; [exact HP|]. apply box_perm_with_value; exact Hb. }
        assert (W1 : heap_wf (setb h o (with_value b None) ++ [new_box p'])).
        { apply heap_wf_snoc; [|reflexivity]. apply Perm.heap_wf_setb; [exact Hwf|].
          exact (getb_wf _ _ _ Hwf Gb). }
        apply lift_perm; [apply R_ok_both, release_links_perm; assumption|]. intros h2 h2' H2. cbn [heap_of mk].
        pose proof (getb_perm h2 h2' o H2) as G1.
        destruct (getb h2 o) as [b1|], (getb h2' o) as [b1'|]; cbn [R_rel] in G1; try contradiction; [|exact I].
        pose proof G1 as (_ & Hw1 & _). rewrite Hw1. cbn [set_reg set_heap add_ev mk heap_of regs log].
        apply ao_perm_intro. apply heap_perm_setb; [exact H2|]. apply box_perm_with_weak, box_perm_with_strong. exact G1. }
    all: destruct (value b) as [p|]; [|exact I];
      (apply lift_perm; [apply R_rel_both, clone_slots_perm, HP|]); intros h1 h1' H1;
      cbn [set_reg set_heap add_ev mk heap_of regs log]; apply ao_perm_intro; apply heap_perm_app; exact H1.
  - (* into_raw *) destruct (reg_get s r0); leaf.
  - (* from_raw *) destruct (reg_get s r0); leaf.
  - (* inc_strong *)
    destruct (reg_get s r0) as [o|w|o|p|]; try leaf. destruct (reg_free s dst); [|leaf].
    apply lift_perm; [apply R_rel_both, inc_strong_perm, HP|]. intros h1 h1' H1.
    cbn [set_reg mk heap_of regs log]. apply ao_perm_intro; exact H1.
  - (* dec_strong *) destruct (reg_get s r0); leaf.
  - (* ptr_eq *)
    destruct (resolve_strong s self h1) as [[oa l1]|]; [|leaf]. destruct (resolve_strong s self h2) as [[ob l2]|]; leaf.
  - (* strong_count *)
    destruct (resolve_strong s self h0) as [[o lc]|]; [|leaf].
    getb_both o b b' Hb. destruct Hb as (Hs & _). rewrite Hs. leaf.
  - (* weak_count *)
    destruct (resolve_strong s self h0) as [[o lc]|]; [|leaf].
    getb_both o b b' Hb. destruct Hb as (_ & Hw & _). rewrite Hw. destruct (weak b =? 0); leaf.
  - (* weak strong_count *)
    destruct (resolve_weak s self w) as [[o|]|]; try leaf.
    getb_both o b b' Hb. destruct Hb as (Hs & _). rewrite Hs. leaf.
  - (* weak weak_count *)
    destruct (resolve_weak s self w) as [[o|]|]; try leaf.
    getb_both o b b' Hb. destruct Hb as (Hs & Hw & _). rewrite Hs, Hw.
    destruct (strong b) as [n|]; [|leaf]. destruct (0 <? n); [|leaf]. destruct (weak b =? 0); leaf.
  - (* deref *)
    destruct (resolve_strong s self h0) as [[o lc]|]; [|leaf].
    getb_both o b b' Hb. destruct Hb as (_ & _ & Hv & _). rewrite Hv. destruct (value b); leaf.
  - (* panic *) exact I.
Qed.
End ActPerm.

(** states up to table order and up to the order of the observed events *)
Definition obs_perm (s s' : state) : Prop :=
  heap_perm (heap_of s) (heap_of s') /\ regs s' = regs s /\
  Permutation (dtors (log s)) (dtors (log s')) /\ Permutation (frees (log s)) (frees (log s')) /\
  Permutation (tdrops (log s)) (tdrops (log s')).

Lemma obs_perm_intro s s' : heap_perm (heap_of s) (heap_of s') -> regs s' = regs s ->
  lperm (log s) (log s') -> obs_perm s s'.
Proof. intros H1 H2 (A & B & C). repeat split; assumption. Qed.

Lemma obs_perm_lperm s s' : obs_perm s s' -> lperm (log s) (log s').
Proof. intros (_ & _ & A & B & C). repeat split; assumption. Qed.

Lemma obs_eq_perm s s' : obs_eq s s' -> obs_perm s s'.
Proof. intros (Eh & Er & A). split; [rewrite Eh; apply heap_perm_refl|]. split; assumption. Qed.

Lemma obs_perm_refl s : obs_perm s s.
Proof. apply obs_eq_perm, obs_eq_refl. Qed.

Lemma obs_perm_add_ev s s' e : obs_perm s s' -> obs_perm (add_ev s e) (add_ev s' e).
Proof.
  intros Ho. pose proof (obs_perm_lperm _ _ Ho) as Hl. destruct Ho as (Hh & Hr & _).
  apply obs_perm_intro; cbn [heap_of regs log add_ev mk]; auto. apply lperm_cons; exact Hl.
Qed.

Lemma obs_perm_set_heap s s' h1 h1' : obs_perm s s' -> heap_perm h1 h1' ->
  obs_perm (set_heap s h1) (set_heap s' h1').
Proof.
  intros Ho H1. pose proof (obs_perm_lperm _ _ Ho) as Hl. destruct Ho as (Hh & Hr & _).
  apply obs_perm_intro; cbn [heap_of regs log set_heap mk]; auto.
Qed.

Definition aout_perm (x y : aout) : Prop :=
  match x, y with
  | AO s sf r p, AO s' sf' r' p' => obs_perm s s' /\ sf' = sf /\ r' = r /\ p' = p
  | APanicOut, APanicOut => True
  | AHalt _, _ | _, AHalt _ => True
  | _, _ => False
  end.

Lemma alog_obs_perm l l' t t' : hr_perm t t' -> lperm l l' -> obs_perm (alog l t) (alog l' t').
Proof.
  intros (Hh & Hr & Hlg) Hl. apply obs_perm_intro; cbn [heap_of regs log alog mk]; auto.
  rewrite Hlg. apply lperm_app; [apply lperm_refl|exact Hl].
Qed.

(** the atomic part of every action, on heaps with permuted tables *)
Theorem exec_act_obs_perm s s' self a :
  obs_perm s s' -> heap_wf (heap_of s) -> aout_perm (exec_act s self a) (exec_act s' self a).
Proof.
  intros Ho Hwf. pose proof (obs_perm_lperm _ _ Ho) as Hl. destruct Ho as (Hh & Hr & _).
  pose proof (exec_act_perm (heap_of s) (heap_of s') (regs s) [] Hh Hwf self a) as H.
  rewrite <- (alog_nil s), <- (alog_nil s'), Hr, !exec_act_alog.
  destruct (exec_act (mk (heap_of s) (regs s) []) self a) as [t sf r p|e|],
           (exec_act (mk (heap_of s') (regs s) []) self a) as [t' sf' r' p'|e'|];
    cbn [aout_perm0 alog_aout aout_perm] in *; auto.
  destruct H as (Ht & -> & -> & ->). split; [|auto]. apply alog_obs_perm; assumption.
Qed.

Theorem exec_new_obs_perm s s' self dst sc :
  obs_perm s s' -> aout_perm (exec_new s self dst sc) (exec_new s' self dst sc).
Proof.
  intros Ho. pose proof (obs_perm_lperm _ _ Ho) as Hl. destruct Ho as (Hh & Hr & _).
  pose proof (exec_new_perm (heap_of s) (heap_of s') (regs s) [] Hh self dst sc) as H.
  rewrite <- (alog_nil s), <- (alog_nil s'), Hr, !exec_new_alog.
  destruct (exec_new (mk (heap_of s) (regs s) []) self dst sc) as [t sf r p|e|],
           (exec_new (mk (heap_of s') (regs s) []) self dst sc) as [t' sf' r' p'|e'|];
    cbn [aout_perm0 alog_aout aout_perm] in *; auto.
  destruct H as (Ht & -> & -> & ->). split; [|auto]. apply alog_obs_perm; assumption.
Qed.

(** ** 12. steps on heaps with permuted tables *)
Inductive frame_perm : frame -> frame -> Prop :=
| fp_inners es es' : Forall2 inner_perm es es' -> frame_perm (FInners es) (FInners es')
| fp_same f : frame_perm f f.

Definition cfg_perm (c c' : config) : Prop :=
  obs_perm (st c) (st c') /\ Forall2 frame_perm (stack c) (stack c') /\ unw c' = unw c.

Definition out_perm (o o' : outcome) : Prop :=
  match o, o' with
  | Running c, Running c' => cfg_perm c c'
  | Finished s b, Finished s' b' => b' = b /\ obs_perm s s'
  | Halted _ _, _ | _, Halted _ _ => True
  | _, _ => False
  end.

Lemma out_perm_halt_r x s e : out_perm x (Halted s e).
Proof. destruct x; exact I. Qed.

Lemma frames_perm_refl k : Forall2 frame_perm k k.
Proof. induction k; constructor; auto using fp_same. Qed.

Lemma inner_perm_refl e : inner_perm e e.
Proof. repeat split; apply Permutation_refl. Qed.

Lemma inners_perm_refl es : Forall2 inner_perm es es.
Proof. induction es; constructor; auto using inner_perm_refl. Qed.

Lemma frame_perm_inners es f : frame_perm (FInners es) f ->
  exists es', f = FInners es' /\ Forall2 inner_perm es es'.
Proof. intros H. inversion H; subst; eauto using inners_perm_refl. Qed.

Lemma running_perm s s' k k' u : obs_perm s s' -> Forall2 frame_perm k k' ->
  out_perm (Running (cfg s k u)) (Running (cfg s' k' u)).
Proof. intros Ho Hk. split; [exact Ho|]. split; [exact Hk|reflexivity]. Qed.

(** every step except [Rc::drop] and script actions *)
Lemma step_perm_other pri pri' s s' fr fr' k k' u :
  obs_perm s s' -> frame_perm fr fr' -> Forall2 frame_perm k k' ->
  (forall o, fr <> FDropStrong o) -> (forall p a pc, fr <> FRunDtor p (a :: pc)) ->
  out_perm (step pri (cfg s (fr :: k) u)) (step pri' (cfg s' (fr' :: k') u)).
Proof.
  intros Ho Hfr Hk N1 N2.
  assert (Hinn : forall es es', Forall2 inner_perm es es' ->
            out_perm (step pri (cfg s (FInners es :: k) u)) (step pri' (cfg s' (FInners es' :: k') u))).
  { intros es es' He. destruct He as [|[[o v] t] [[o' v'] t'] es1 es1' (Eo & Ev & _) He]; cbn [step st stack unw].
    - apply running_perm; assumption.
    - cbn [fst snd] in Eo, Ev. subst o' v'. apply running_perm; [exact Ho|].
      constructor; [apply fp_same|]. constructor; [apply fp_same|]. constructor; [apply fp_inners; exact He|exact Hk]. }
  inversion Hfr as [es es' He|f]; subst; [apply Hinn; exact He|].
  destruct fr' as [o|p|p pc|ss|o|es|o|keys|r0]; cbn [step st stack unw].
  - elim (N1 o). reflexivity.
  - apply running_perm; [apply obs_perm_add_ev; exact Ho|]. constructor; [apply fp_same|exact Hk].
  - destruct pc as [|a pc]; [|elim (N2 p a pc); reflexivity].
    apply running_perm; [exact Ho|]. constructor; [apply fp_same|exact Hk].
  - destruct ss as [|[o|w|] ss].
    + apply running_perm; assumption.
    + apply running_perm; [exact Ho|]. constructor; [apply fp_same|]. constructor; [apply fp_same|exact Hk].
    + pose proof (weak_drop_perm _ _ w (proj1 Ho)) as Hw.
      destruct (weak_drop (heap_of s) w) as [h1|], (weak_drop (heap_of s') w) as [h1'|]; cbn [R_rel] in Hw;
        try contradiction; [|exact I].
      apply running_perm; [apply obs_perm_set_heap; assumption|]. constructor; [apply fp_same|exact Hk].
    + apply running_perm; [exact Ho|]. constructor; [apply fp_same|exact Hk].
  - pose proof (getb_perm _ _ o (proj1 Ho)) as G.
    destruct (getb (heap_of s) o) as [b|], (getb (heap_of s') o) as [b'|]; cbn [R_rel] in G; try contradiction; [|exact I].
    pose proof (box_perm_links _ _ G) as Hl.
    destruct (links b) as [t|], (links b') as [t'|]; cbn [opt_perm] in Hl; try contradiction; [|exact I].
    assert (H1 : heap_perm (setb (heap_of s) o (with_links b None)) (setb (heap_of s') o (with_links b' None))).
    { apply heap_perm_setb; [exact (proj1 Ho)|]. apply box_perm_with_links; [exact G|exact I]. }
    pose proof (dec_weak_free_perm _ _ o H1) as Hd.
    destruct (dec_weak_free (setb (heap_of s) o (with_links b None)) o) as [h2|],
             (dec_weak_free (setb (heap_of s') o (with_links b' None)) o) as [h2'|]; cbn [R_rel] in Hd;
      try contradiction; [|exact I].
    apply running_perm; [|exact Hk]. apply obs_perm_add_ev, obs_perm_set_heap; assumption.
  - apply Hinn. apply inners_perm_refl.
  - apply running_perm; [apply obs_perm_add_ev; exact Ho|exact Hk].
  - pose proof (finish_group_perm keys _ _ (proj1 Ho)) as Hf.
    destruct (finish_group (heap_of s) keys) as [h1|], (finish_group (heap_of s') keys) as [h1'|]; cbn [R_rel] in Hf;
      try contradiction; [|exact I].
    apply running_perm; [apply obs_perm_set_heap; assumption|exact Hk].
  - apply running_perm; [apply obs_perm_add_ev; exact Ho|exact Hk].
Qed.

Lemma ev_rel_lperm l l' : Forall2 ev_rel l l' -> lperm l l'.
Proof.
  induction 1 as [|e e' l l' He _ IH]; [apply lperm_refl|].
  destruct He; [apply lperm_group|apply lperm_cons]; exact IH.
Qed.

(** [Rc::drop] with two oracles on heaps with permuted tables (from
    [drop_strong_perm], which relates logs event by event) *)
Lemma drop_strong_obs_perm pri pri' s s' o s1 push s1' push' :
  obs_perm s s' -> heap_wf (heap_of s) ->
  drop_strong pri s o = Ok (s1, push) -> drop_strong pri' s' o = Ok (s1', push') ->
  obs_perm s1 s1' /\ Forall2 frame_rel push push'.
Proof.
  intros Ho Hwf. pose proof (obs_perm_lperm _ _ Ho) as Hl. destruct Ho as (Hh & Hr & _).
  rewrite <- (alog_nil s), <- (alog_nil s'), Hr, !drop_strong_alog.
  destruct (drop_strong pri (mk (heap_of s) (regs s) []) o) as [[t1 p1]|] eqn:E; [|discriminate].
  destruct (drop_strong pri' (mk (heap_of s') (regs s) []) o) as [[t1' p1']|] eqn:E'; [|discriminate].
  cbn [alog_R]. intros H H'; injection H as <- <-; injection H' as <- <-.
  assert (SP : state_perm (mk (heap_of s) (regs s) []) (mk (heap_of s') (regs s) [])).
  { split; [exact Hh|]. split; [reflexivity|constructor]. }
  destruct (drop_strong_perm pri pri' _ _ o _ _ _ _ SP Hwf E E') as [(Hh1 & Hr1 & Hl1) Hfr].
  split; [|exact Hfr]. apply obs_perm_intro; cbn [heap_of regs log alog mk]; auto.
  apply lperm_app; [apply ev_rel_lperm; exact Hl1|exact Hl].
Qed.

(** what [Rc::drop] can push *)
Lemma drop_strong_shape pri s o s1 push : drop_strong pri s o = Ok (s1, push) ->
  push = [] \/ (exists v, push = [FDtorStart v; FAfterValue o]) \/
  (exists es ks, push = [FInners es; FFinishGroup ks] /\ NoDup ks).
Proof.
  assert (SU : forall s0 s2 p2, start_unreachable s0 o = Ok (s2, p2) -> exists v, p2 = [FDtorStart v; FAfterValue o]).
  { intros s0 s2 p2. unfold start_unreachable, bind. destruct (getb (heap_of s0) o) as [b|]; [|discriminate].
    destruct (value b) as [v|]; [|discriminate]. intros H; injection H as _ <-. eauto. }
  unfold drop_strong, bind. destruct (getb (heap_of s) o) as [b|]; [|discriminate].
  destruct (strong b) as [n|]; [|intros H; injection H as _ <-; auto].
  destruct (n =? 0); [intros H; injection H as _ <-; auto|].
  destruct (get_links _ o) as [[|e t]|]; [| |discriminate].
  { destruct (n - 1 =? 0); [intros H; right; left; eapply SU; exact H|intros H; injection H as _ <-; auto]. }
  destruct (n - 1 =? 0).
  { destruct (purge_loop _ o (e :: t)) as [h2|]; [|discriminate]. cbn [bind].
    destruct (set_links h2 o []) as [h3|]; [|discriminate]. intros H; right; left; eapply SU; exact H. }
  destruct (orphaned_cycle _ o) as [[[[cyc|] pops] visits]|] eqn:OC; [|intros H; injection H as _ <-; auto|discriminate].
  pose proof (orphaned_cycle_nodup _ _ _ _ _ OC) as Hnd.
  destruct (bust_all _ _ _) as [h2|]; [|discriminate]. destruct (gather h2 _ []) as [[h3 es]|]; [|discriminate].
  intros H; injection H as _ <-. right; right. eexists _, _. split; [reflexivity|].
  eapply Permutation_NoDup; [|exact Hnd]. apply Permutation_map, Permutation_sym, order_cycle_perm. exact Hnd.
Qed.

Lemma frame_rel_inners es f : frame_rel (FInners es) f -> exists es', f = FInners es' /\ inners_rel es es'.
Proof.
  intros H. inversion H; subst; [eauto|]. exists es. split; [reflexivity|].
  exists es. split; [apply Permutation_refl|apply inners_perm_refl].
Qed.

Lemma frame_rel_finish ks f : frame_rel (FFinishGroup ks) f -> exists ks', f = FFinishGroup ks' /\ Permutation ks ks'.
Proof. intros H. inversion H; subst; eauto using Permutation_refl. Qed.

Lemma frame_rel_plain f f' : (forall es, f <> FInners es) -> (forall ks, f <> FFinishGroup ks) ->
  frame_rel f f' -> f' = f.
Proof. intros N1 N2 H. inversion H; subst; [elim (N1 es)|elim (N2 ks)|]; reflexivity. Qed.

(** what the teardown of a group does depends on the members and their values only *)
Lemma inn_weaks_inner_perm es es' : Forall2 inner_perm es es' -> inn_weaks es' = inn_weaks es.
Proof.
  induction 1 as [|e e' es es' (_ & Ev & _) _ IH]; [reflexivity|].
  unfold inn_weaks in *. cbn [flat_map]. rewrite Ev, IH. reflexivity.
Qed.

Lemma inn_log_inner_perm es es' : Forall2 inner_perm es es' -> inn_log es' = inn_log es.
Proof.
  intros H. unfold inn_log. f_equal. induction H as [|e e' es es' (Eo & Ev & _) _ IH]; [reflexivity|].
  cbn [flat_map]. rewrite Eo, Ev, IH. reflexivity.
Qed.

Lemma wd_list_hperm ws : forall h h', heap_perm h h' -> R_rel heap_perm (wd_list h ws) (wd_list h' ws).
Proof.
  induction ws as [|o ws IH]; intros h h' HP; cbn [wd_list]; [exact HP|].
  eapply R_rel_bind; [apply dec_weak_free_perm; exact HP|]. intros; apply IH; assumption.
Qed.

(** ** 13. two runs, two oracles, two table orders *)
Theorem run_indep_perm pri pri' : forall f f' c c' sf bf sf' bf',
  cfg_perm c c' -> ok c -> ok c' ->
  run pri f c = Finished sf bf -> run pri' f' c' = Finished sf' bf' ->
  bf' = bf /\ obs_perm sf sf'.
Proof.
  induction f as [f IH] using lt_wf_ind. intros f' c c' sf bf sf' bf' Hrel Hok Hok' H H'.
  destruct c as [s k u], c' as [s' k' u']. destruct Hrel as (Ho & Hk & Eu). cbn [st stack unw] in Ho, Hk, Eu. subst u'.
  pose proof (run_fin_step _ _ _ _ _ H) as S. pose proof (run_fin_step _ _ _ _ _ H') as S'.
  (* the two steps are related *)
  assert (Hlock : out_perm (step pri (cfg s k u)) (step pri' (cfg s' k' u)) -> bf' = bf /\ obs_perm sf sf').
  { intros Hout. destruct (step pri (cfg s k u)) as [c1|s1 b1|s1 e1] eqn:E1,
                          (step pri' (cfg s' k' u)) as [c1'|s1' b1'|s1' e1'] eqn:E1'; cbn [out_perm] in Hout;
      try contradiction.
    - destruct S as (f1 & -> & R1). destruct S' as (f1' & -> & R1').
      apply (IH f1 (Nat.lt_succ_diag_r f1) f1' c1 c1' sf bf sf' bf'); auto.
      + apply (ok_step pri _ _ Hok E1).
      + apply (ok_step pri' _ _ Hok' E1').
    - destruct S as [<- <-]. destruct S' as [<- <-]. exact Hout. }
  destruct Hk as [|fr fr' k1 k1' Hfr Hk1].
  { apply Hlock. cbn [step st stack unw]. split; [reflexivity|exact Ho]. }
  assert (Hns : ns_frame fr).
  { destruct Hok as (_ & _ & (_ & _ & Hf)). cbn [stack] in Hf. inversion Hf; assumption. }
  destruct (match fr with FDropStrong _ => true | _ => false end) eqn:Edrop.
  2:{ apply Hlock. apply step_perm_other; auto.
      - intros o ->. discriminate.
      - intros p a pc ->. cbn [ns_frame] in Hns. destruct Hns as [_ Hns]. discriminate. }
  destruct fr as [o| | | | | | | |]; try discriminate. clear Edrop Hns.
  inversion Hfr; subst. cbn [step st stack unw] in S, S'.
  destruct (drop_strong pri s o) as [[s1 push]|] eqn:E; [|contradiction].
  destruct (drop_strong pri' s' o) as [[s1' push']|] eqn:E'; [|contradiction].
  pose proof (ti_wf _ (inv_tbl _ _ (proj1 Hok))) as Hwf. cbn [st] in Hwf.
  destruct (drop_strong_obs_perm pri pri' s s' o _ _ _ _ Ho Hwf E E') as [Ho1 Hpush].
  assert (Hplain : push' = push -> bf' = bf /\ obs_perm sf sf').
  { intros ->. apply Hlock. cbn [step st stack unw]. rewrite E, E'. apply running_perm; [exact Ho1|].
    apply Forall2_app; [apply frames_perm_refl|exact Hk1]. }
  destruct (drop_strong_shape pri s o s1 push E) as [->|[(v & ->)|(es & ks & -> & Hnd)]].
  { apply Hplain. inversion Hpush. reflexivity. }
  { apply Hplain. inversion Hpush as [|? f1 ? l1 Hf1 Hl1]; subst. inversion Hl1 as [|? f2 ? l2 Hf2 Hl2]; subst.
    inversion Hl2; subst. apply frame_rel_plain in Hf1; [|discriminate|discriminate].
    apply frame_rel_plain in Hf2; [|discriminate|discriminate]. subst. reflexivity. }
  (* a group is collected *)
  inversion Hpush as [|? f1 ? l1 Hf1 Hl1]; subst. inversion Hl1 as [|? f2 ? l2 Hf2 Hl2]; subst. inversion Hl2; subst.
  apply frame_rel_inners in Hf1 as (es' & -> & (mid & HPe & Hmid)).
  apply frame_rel_finish in Hf2 as (ks' & -> & HPk).
  destruct S as (f1 & -> & R1). destruct S' as (f1' & -> & R1'). cbn [app] in R1, R1'.
  pose proof (group_inner_ok pri s o k1 u s1 es ks Hok E) as Hin.
  pose proof (group_inner_ok pri' s' o k1' u s1' es' ks' Hok' E') as Hin'.
  destruct (group_phase pri es ks _ k1 u f1 sf bf Hin R1) as (f2 & sA & hw & Hlt & RA & RcA & RegA & LogA & WA & FA).
  destruct (group_phase pri' es' ks' _ k1' u f1' sf' bf' Hin' R1') as (f2' & sB & hw' & Hlt' & RB & RcB & RegB & LogB & WB & FB).
  rewrite (inn_weaks_inner_perm _ _ Hmid) in WB. rewrite (inn_log_inner_perm _ _ Hmid) in LogB.
  apply (wd_list_perm _ _ (inn_weaks_perm _ _ HPe)) in WA.
  pose proof (R_rel_ok _ _ _ _ _ (wd_list_hperm (inn_weaks mid) _ _ (proj1 Ho1)) WA WB) as Hhw.
  destruct (finish_group_frames hw hw' ks ks' Hhw HPk Hnd _ FA) as (hB & FB2 & HhB).
  rewrite FB in FB2. injection FB2 as <-.
  apply (IH f2 ltac:(lia) f2' (cfg sA k1 u) (cfg sB k1' u) sf bf sf' bf'); auto.
  - split; [|split; [exact Hk1|reflexivity]]. cbn [st].
    apply obs_perm_intro; [exact HhB|destruct Ho1 as (_ & Hr1 & _); congruence|].
    rewrite LogA, LogB. apply lperm_app; [apply inn_log_perm; exact HPe|apply obs_perm_lperm; exact Ho1].
  - eapply ok_reach; [|exact Hok]. eapply rc_step; [|exact RcA]. cbn [step st stack unw]. rewrite E. reflexivity.
  - eapply ok_reach; [|exact Hok']. eapply rc_step; [|exact RcB]. cbn [step st stack unw]. rewrite E'. reflexivity.
Qed.

(** ** 14. THEOREM 1 and THEOREM 2 up to table order *)
Lemma op_start_obs_perm s s' o : obs_perm s s' -> heap_wf (heap_of s) ->
  aout_perm (op_start s o) (op_start s' o).
Proof. intros Ho Hwf. destruct o; cbn [op_start]; [apply exec_act_obs_perm; assumption|apply exec_new_obs_perm; exact Ho]. Qed.

(** Rust reading: as [exec_op_oracle_independent], and the two runs may also
    start from heaps whose hash maps iterate in different orders; every
    counter, every value, the liveness of every allocation and the set of
    records of every table agree afterwards. *)
Theorem exec_op_table_order_independent pri pri' f f' s s' o :
  good s -> good s' -> obs_perm s s' -> quiet_op o = true ->
  completed (snd (exec_op pri f s o)) = true -> completed (snd (exec_op pri' f' s' o)) = true ->
  snd (exec_op pri' f' s' o) = snd (exec_op pri f s o) /\
  obs_perm (fst (exec_op pri f s o)) (fst (exec_op pri' f' s' o)).
Proof.
  intros (HI & Hrec & Hns) (HI' & Hrec' & Hns') Ho Hq. rewrite !exec_op_unfold.
  pose proof (op_start_obs_perm s s' o Ho (ti_wf _ (inv_tbl _ _ HI))) as A.
  pose proof (op_start_recorded s o) as Hst. pose proof (op_start_recorded s' o) as Hst'.
  destruct (op_start s o) as [s1 self r push|e|], (op_start s' o) as [s1' self' r' push'|e'|];
    cbn [aout_perm fst snd completed] in *; try contradiction; try discriminate; auto.
  destruct A as (Ho1 & -> & -> & ->).
  specialize (Hst _ _ _ _ HI Hrec Hns Hq eq_refl). specialize (Hst' _ _ _ _ HI' Hrec' Hns' Hq eq_refl).
  destruct (run pri f (cfg s1 push false)) as [c|sA bA|sA e] eqn:RA; [discriminate| |discriminate].
  destruct (run pri' f' (cfg s1' push false)) as [c|sB bB|sB e] eqn:RB;
    [intros _; discriminate| |intros _; discriminate].
  intros _ _.
  assert (Hrel : cfg_perm (cfg s1 push false) (cfg s1' push false)).
  { split; [exact Ho1|]. split; [apply frames_perm_refl|reflexivity]. }
  destruct (run_indep_perm pri pri' f f' _ _ sA bA sB bB Hrel Hst Hst' RA RB) as [-> Hob].
  destruct bA; cbn [fst snd]; auto.
Qed.

Lemma exec_act_ao_perm s s' self a s1 sf r p s1' sf' r' p' :
  obs_perm s s' -> heap_wf (heap_of s) ->
  exec_act s self a = AO s1 sf r p -> exec_act s' self a = AO s1' sf' r' p' -> obs_perm s1 s1'.
Proof.
  intros Ho Hwf E E'. pose proof (exec_act_obs_perm s s' self a Ho Hwf) as H. rewrite E, E' in H. apply H.
Qed.

Lemma obsp_reg_get s s' r : obs_perm s s' -> reg_get s' r = reg_get s r.
Proof. intros (_ & Er & _). unfold reg_get. rewrite Er. reflexivity. Qed.

Lemma obsp_reg_free s s' r : obs_perm s s' -> reg_free s' r = reg_free s r.
Proof. intros Ho. unfold reg_free. rewrite (obsp_reg_get _ _ r Ho). destruct Ho as (_ & -> & _). reflexivity. Qed.

Lemma link_pre_obsp s s' ra rb t k : obs_perm s s' -> link_pre s ra rb t k -> link_pre s' ra rb t k.
Proof.
  intros Ho (oa & ob & b & p & H1 & H2 & H3 & H4 & H5 & H6).
  destruct (heap_perm_nth _ _ _ _ (proj1 Ho) H4) as (b' & Hb' & (_ & _ & Hv & _)).
  exists oa, ob, b', p. rewrite !(obsp_reg_get _ _ _ Ho), (obsp_reg_free _ _ _ Ho). rewrite Hv. auto 10.
Qed.

Lemma unlink_pre_obsp s s' ra k t : obs_perm s s' -> unlink_pre s ra k t -> unlink_pre s' ra k t.
Proof.
  intros Ho (oa & ob & b & p & H1 & H2 & H3 & H4 & H5).
  destruct (heap_perm_nth _ _ _ _ (proj1 Ho) H3) as (b' & Hb' & (_ & _ & Hv & _)).
  exists oa, ob, b', p. rewrite !(obsp_reg_get _ _ _ Ho), (obsp_reg_free _ _ _ Ho). rewrite Hv. auto 10.
Qed.

Lemma inv_wf s k : Inv s k -> heap_wf (heap_of s).
Proof. intros HI. apply (ti_wf _ (inv_tbl _ _ HI)). Qed.

Lemma link_block_obsp f f' s s' ra rb t k p1 p2 p3 q1 q2 q3 :
  good s -> good s' -> obs_perm s s' -> link_pre s ra rb t k ->
  exists s3 s3', good s3 /\ good s3' /\ obs_perm s3 s3' /\
    (forall rest, run_history (S f) s (link_block ra rb t k p1 p2 p3 ++ rest) =
       (fst (run_history (S f) s3 rest),
        ODone RUnit :: ODone RUnit :: ODone RUnit :: snd (run_history (S f) s3 rest))) /\
    (forall rest, run_history (S f') s' (link_block ra rb t k q1 q2 q3 ++ rest) =
       (fst (run_history (S f') s3' rest),
        ODone RUnit :: ODone RUnit :: ODone RUnit :: snd (run_history (S f') s3' rest))).
Proof.
  intros Hg Hg' Ho Hpre.
  destruct (link_acts s ra rb t k Hg Hpre) as (s1 & s2 & s3 & X1 & X2 & X3 & Hg3).
  destruct (link_acts s' ra rb t k Hg' (link_pre_obsp _ _ _ _ _ _ Ho Hpre)) as (s1' & s2' & s3' & X1' & X2' & X3' & Hg3').
  destruct Hg as (HI & _).
  pose proof (atomic_inv _ _ _ _ _ _ HI X1) as HI1. pose proof (atomic_inv _ _ _ _ _ _ HI1 X2) as HI2.
  pose proof (exec_act_ao_perm _ _ _ _ _ _ _ _ _ _ _ _ Ho (inv_wf _ _ HI) X1 X1') as Ho1.
  pose proof (exec_act_ao_perm _ _ _ _ _ _ _ _ _ _ _ _ Ho1 (inv_wf _ _ HI1) X2 X2') as Ho2.
  pose proof (exec_act_ao_perm _ _ _ _ _ _ _ _ _ _ _ _ Ho2 (inv_wf _ _ HI2) X3 X3') as Ho3.
  exists s3, s3'. split; [exact Hg3|]. split; [exact Hg3'|]. split; [exact Ho3|]. split; intros rest; unfold link_block; cbn [app].
  - destruct (hist_atomic f s _ p1 s1 None RUnit
                ((OAct (AAdopt (HReg ra) (HReg t)), p2) :: (OAct (AStore t (OReg ra) k), p3) :: rest) X1) as [_ B1].
    destruct (hist_atomic f s1 _ p2 s2 None RUnit ((OAct (AStore t (OReg ra) k), p3) :: rest) X2) as [_ B2].
    destruct (hist_atomic f s2 _ p3 s3 None RUnit rest X3) as [_ B3].
    rewrite B1, B2, B3. reflexivity.
  - destruct (hist_atomic f' s' _ q1 s1' None RUnit
                ((OAct (AAdopt (HReg ra) (HReg t)), q2) :: (OAct (AStore t (OReg ra) k), q3) :: rest) X1') as [_ B1].
    destruct (hist_atomic f' s1' _ q2 s2' None RUnit ((OAct (AStore t (OReg ra) k), q3) :: rest) X2') as [_ B2].
    destruct (hist_atomic f' s2' _ q3 s3' None RUnit rest X3') as [_ B3].
    rewrite B1, B2, B3. reflexivity.
Qed.

Lemma unlink_block_obsp f f' s s' ra k t p1 p2 q1 q2 :
  good s -> good s' -> obs_perm s s' -> unlink_pre s ra k t ->
  exists s2 s2', good s2 /\ good s2' /\ obs_perm s2 s2' /\
    (forall rest, run_history (S f) s (unlink_block ra k t p1 p2 ++ rest) =
       (fst (run_history (S f) s2 rest), ODone RUnit :: ODone RUnit :: snd (run_history (S f) s2 rest))) /\
    (forall rest, run_history (S f') s' (unlink_block ra k t q1 q2 ++ rest) =
       (fst (run_history (S f') s2' rest), ODone RUnit :: ODone RUnit :: snd (run_history (S f') s2' rest))).
Proof.
  intros Hg Hg' Ho Hpre.
  destruct (unlink_acts s ra k t Hg Hpre) as (s1 & s2 & X1 & X2 & Hg2 & _).
  destruct (unlink_acts s' ra k t Hg' (unlink_pre_obsp _ _ _ _ _ Ho Hpre)) as (s1' & s2' & X1' & X2' & Hg2' & _).
  destruct Hg as (HI & _). pose proof (atomic_inv _ _ _ _ _ _ HI X1) as HI1.
  pose proof (exec_act_ao_perm _ _ _ _ _ _ _ _ _ _ _ _ Ho (inv_wf _ _ HI) X1 X1') as Ho1.
  pose proof (exec_act_ao_perm _ _ _ _ _ _ _ _ _ _ _ _ Ho1 (inv_wf _ _ HI1) X2 X2') as Ho2.
  exists s2, s2'. split; [exact Hg2|]. split; [exact Hg2'|]. split; [exact Ho2|]. split; intros rest; unfold unlink_block; cbn [app].
  - destruct (hist_atomic f s _ p1 s1 None RUnit ((OAct (ATake (OReg ra) k t), p2) :: rest) X1) as [_ B1].
    destruct (hist_atomic f s1 _ p2 s2 None RUnit rest X2) as [_ B2]. rewrite B1, B2. reflexivity.
  - destruct (hist_atomic f' s' _ q1 s1' None RUnit ((OAct (ATake (OReg ra) k t), q2) :: rest) X1') as [_ B1].
    destruct (hist_atomic f' s1' _ q2 s2' None RUnit rest X2') as [_ B2]. rewrite B1, B2. reflexivity.
Qed.

(** THEOREM 2 up to table order: the two runs may start from heaps that
    differ in the order of their tables (for instance two executions of the
    same program in which the allocator returned other addresses). *)
Theorem run_history_table_order_independent f f' h : forall s, rec_hist (S f) s h -> forall s' h',
  good s -> good s' -> obs_perm s s' -> map fst h' = map fst h ->
  forallb completed (snd (run_history (S f) s h)) = true ->
  forallb completed (snd (run_history (S f') s' h')) = true ->
  snd (run_history (S f') s' h') = snd (run_history (S f) s h) /\
  obs_perm (fst (run_history (S f) s h)) (fst (run_history (S f') s' h')).
Proof.
  intros s Hr.
  induction Hr as [s|s o pri h Hq _ IH|s ra rb t k p1 p2 p3 h Hpre _ IH|s ra k t p1 p2 h Hpre _ IH];
    intros s' h' Hg Hg' Ho Hm C C'.
  - destruct h'; [|discriminate]. cbn [run_history fst snd]. auto.
  - destruct h' as [|[o' pri'] h']; [discriminate|]. cbn [map fst] in Hm. injection Hm as -> Hm.
    cbn [run_history] in *.
    pose proof (exec_op_table_order_independent pri pri' (S f) (S f') s s' o Hg Hg' Ho Hq) as T.
    destruct Hg as (HI & Hrec & Hns). destruct Hg' as (HI' & Hrec' & Hns').
    pose proof (exec_op_recorded_inv pri (S f) s o HI Hrec Hns Hq) as G1.
    pose proof (exec_op_recorded_inv pri' (S f') s' o HI' Hrec' Hns' Hq) as G1'.
    destruct (exec_op pri (S f) s o) as [s1 r] eqn:E. destruct (exec_op pri' (S f') s' o) as [s1' r'] eqn:E'.
    cbn [fst snd] in *.
    assert (Cr : completed r = true) by (destruct r; try reflexivity; cbn [snd forallb completed andb] in C; discriminate).
    assert (Cr' : completed r' = true) by (destruct r'; try reflexivity; cbn [snd forallb completed andb] in C'; discriminate).
    destruct (T Cr Cr') as [-> Ho1]. specialize (IH Cr s1' h').
    destruct r as [res| |e|]; try discriminate Cr.
    + destruct (run_history (S f) s1 h) as [s2 rs]. destruct (run_history (S f') s1' h') as [s2' rs'].
      cbn [fst snd forallb completed andb] in *. destruct (IH G1 G1' Ho1 Hm C C') as [-> Ho2]. auto.
    + destruct (run_history (S f) s1 h) as [s2 rs]. destruct (run_history (S f') s1' h') as [s2' rs'].
      cbn [fst snd forallb completed andb] in *. destruct (IH G1 G1' Ho1 Hm C C') as [-> Ho2]. auto.
  - destruct h' as [|[o1 q1] [|[o2 q2] [|[o3 q3] h']]]; try discriminate.
    unfold link_block in Hm. cbn [map fst app] in Hm. injection Hm as -> -> -> Hm.
    destruct (link_block_obsp f f' s s' ra rb t k p1 p2 p3 q1 q2 q3 Hg Hg' Ho Hpre)
      as (s3 & s3' & Hg3 & Hg3' & Ho3 & B & B').
    pose proof (B []) as B0. rewrite app_nil_r in B0. rewrite B0 in IH. cbn [run_history fst] in IH.
    change ((OAct (AClone (HReg rb) t), q1) :: (OAct (AAdopt (HReg ra) (HReg t)), q2) ::
            (OAct (AStore t (OReg ra) k), q3) :: h') with (link_block ra rb t k q1 q2 q3 ++ h') in *.
    rewrite B in *. rewrite B' in *. cbn [fst snd forallb completed andb] in *.
    destruct (IH s3' h' Hg3 Hg3' Ho3 Hm C C') as [-> Ho4]. auto.
  - destruct h' as [|[o1 q1] [|[o2 q2] h']]; try discriminate.
    unfold unlink_block in Hm. cbn [map fst app] in Hm. injection Hm as -> -> Hm.
    destruct (unlink_block_obsp f f' s s' ra k t p1 p2 q1 q2 Hg Hg' Ho Hpre)
      as (s3 & s3' & Hg3 & Hg3' & Ho3 & B & B').
    pose proof (B []) as B0. rewrite app_nil_r in B0. rewrite B0 in IH. cbn [run_history fst] in IH.
    change ((OAct (AUnadopt (HReg ra) (HSlot (OReg ra) k)), q1) :: (OAct (ATake (OReg ra) k t), q2) :: h')
      with (unlink_block ra k t q1 q2 ++ h') in *.
    rewrite B in *. rewrite B' in *. cbn [fst snd forallb completed andb] in *.
    destruct (IH s3' h' Hg3 Hg3' Ho3 Hm C C') as [-> Ho4]. auto.
Qed.

(** ** 15. the table-order theorems are not vacuous

    [good] does not depend on the order of the tables: every clause of the
    invariant and of [recorded] reads the tables through [lget] only. *)
Lemma box_perm_live b b' : box_perm b b' -> live b' = live b.
Proof. intros (Hs & _). unfold live. rewrite Hs. reflexivity. Qed.

Lemma total_w_box_perm f h h' : heap_perm h h' -> total (w_box f) h' = total (w_box f) h.
Proof.
  induction 1 as [|b b' h h' (_ & _ & Hv & _) _ IH]; [reflexivity|]. cbn [total]. rewrite IH.
  unfold w_box. rewrite Hv. reflexivity.
Qed.

Lemma shape_ok_perm b b' : box_perm b b' -> shape_ok b -> shape_ok b'.
Proof.
  intros Hb (S1 & S2 & S3 & S4). pose proof (box_perm_live _ _ Hb) as Hl.
  pose proof (box_perm_links _ _ Hb) as Hk. pose proof (box_perm_btable _ _ Hb) as Ht.
  destruct Hb as (Hs & Hw & Hv & Hf & _). unfold shape_ok. rewrite Hl, Hs, Hw, Hv, Hf.
  split; [|split; [|split]].
  - intros E. destruct (S1 E) as (A & B & C). split; [exact A|]. split; [|exact C].
    destruct (links b), (links b'); cbn [opt_perm] in Hk; try contradiction; congruence.
  - intros E. destruct (S2 E) as (A & B). split; [exact A|]. rewrite B in Ht. apply Permutation_nil in Ht. exact Ht.
  - intros E. specialize (S3 E). rewrite S3 in Hk. destruct (links b'); [contradiction|reflexivity].
  - exact S4.
Qed.

Theorem Inv_heap_perm s k h' : Inv s k -> heap_perm (heap_of s) h' -> Inv (set_heap s h') k.
Proof.
  intros HI HP. pose proof (inv_wf _ _ HI) as Hwf.
  assert (Hlg : forall o l, lget h' o l = lget (heap_of s) o l) by (intros; apply heap_perm_lget; assumption).
  assert (Hb : forall o b', nth_error h' o = Some b' -> exists b, nth_error (heap_of s) o = Some b /\ box_perm b b').
  { intros o b'. apply heap_perm_nth_r. exact HP. }
  assert (HW : forall f, W f (set_heap s h') k = W f s k).
  { intros f. unfold W, w_held. cbn [regs heap_of set_heap mk]. rewrite (total_w_box_perm f _ _ HP). reflexivity. }
  assert (Hheld : forall f, w_held f (set_heap s h') = w_held f s).
  { intros f. unfold w_held. cbn [regs heap_of set_heap mk]. rewrite (total_w_box_perm f _ _ HP). reflexivity. }
  destruct HI as [Hshape Htbl Hcnt Hnd Hin]. split; cbn [heap_of log set_heap mk].
  - intros o b' H. destruct (Hb o b' H) as (b & Hbo & Hbb). eapply shape_ok_perm; [exact Hbb|]. apply (Hshape o b Hbo).
  - destruct Htbl as [T1 T2 T3 T4]. split.
    + eapply heap_perm_wf; eassumption.
    + intros a b. rewrite !Hlg. apply T2.
    + intros a x kd Hp. rewrite Hlg in Hp. destruct (T3 a x kd Hp) as (bx & Hbx & Hl).
      destruct (heap_perm_nth _ _ _ _ HP Hbx) as (bx' & Hbx' & Hbb). exists bx'. split; [exact Hbx'|].
      rewrite (box_perm_live _ _ Hbb). exact Hl.
    + intros a x Hp. rewrite Hlg in Hp. apply (T4 a x Hp).
  - destruct Hcnt as [C1 C2 C3 C4 C5 C6]. split; cbn [heap_of log set_heap mk].
    + intros o b' n H Hs. destruct (Hb o b' H) as (b & Hbo & Hbb). rewrite HW.
      apply (C1 o b n Hbo). destruct Hbb as (E & _). congruence.
    + intros o b' H. destruct (Hb o b' H) as (b & Hbo & Hbb). rewrite HW.
      pose proof (C2 o b Hbo) as E. unfold liveN in *. rewrite (box_perm_live _ _ Hbb).
      destruct Hbb as (_ & Ew & _). rewrite Ew. exact E.
    + intros o b' H. destruct (Hb o b' H) as (b & Hbo & Hbb). pose proof (C3 o b Hbo) as E.
      assert (is_dying b' = is_dying b) as ->; [|exact E].
      unfold is_dying. pose proof (box_perm_links _ _ Hbb) as Hk. destruct Hbb as (Es & _). rewrite Es.
      destruct (links b), (links b'); cbn [opt_perm] in Hk; try contradiction; reflexivity.
    + intros o b' H Hp. destruct (Hb o b' H) as (b & Hbo & Hbb). destruct (C4 o b Hbo Hp) as [E1 E2].
      pose proof (box_perm_links _ _ Hbb) as Hk. destruct Hbb as (Es & _). split; [congruence|].
      rewrite E2 in Hk. destruct (links b'); [contradiction|reflexivity].
    + intros o H. rewrite !HW. apply C5. apply nth_error_None. apply nth_error_None in H.
      rewrite (heap_perm_length _ _ HP) in H. exact H.
    + intros o b' H Hp. destruct (Hb o b' H) as (b & Hbo & Hbb). destruct Hbb as (Es & _). rewrite Es. apply (C6 o b Hbo Hp).
  - intros o Hp. rewrite Hheld in Hp. destruct (Hnd o Hp) as (b & Hbo & Hl).
    destruct (heap_perm_nth _ _ _ _ HP Hbo) as (b' & Hb' & Hbb). exists b'. split; [exact Hb'|].
    rewrite (box_perm_live _ _ Hbb). exact Hl.
  - eapply inert_ok_heap; [|exact Hin]. intros o b Hbo.
    destruct (heap_perm_nth _ _ _ _ HP Hbo) as (b' & Hb' & Hbb). exists b'. split; [exact Hb'|].
    rewrite (box_perm_live _ _ Hbb). destruct Hbb as (Es & _). rewrite Es. auto.
Qed.

Theorem good_heap_perm s h' : good s -> heap_perm (heap_of s) h' -> good (set_heap s h').
Proof.
  intros (HI & Hrec & (Hn & Hr & Hk)) HP. split; [apply Inv_heap_perm; assumption|]. split.
  - intros a b' p Hb' Hv y. cbn [heap_of set_heap mk] in *.
    destruct (heap_perm_nth_r _ _ _ _ HP Hb') as (b & Hb & (_ & _ & Ev & _)).
    rewrite (heap_perm_lget _ _ _ _ HP (inv_wf _ _ HI)). apply (Hrec a b p Hb). congruence.
  - split; [|split; [exact Hr|exact Hk]]. intros a b' p Hb' Hv. cbn [st bnd heap_of set_heap mk] in *.
    destruct (heap_perm_nth_r _ _ _ _ HP Hb') as (b & Hb & (_ & _ & Ev & _)). apply (Hn a b p Hb). congruence.
Qed.

(** one object adopts two others; in the second state its table lists the two
    records in the other order.  Dropping its last handle purges the peers in
    another order; both runs release the same things. *)
Definition ex2_hist : list (op * list oid) :=
  (OAct (ANew 0), []) :: (OAct (ANew 1), []) :: (OAct (ANew 2), []) ::
  link_block 0 1 3 0 [] [] [] ++ link_block 0 2 3 1 [] [] [].

Definition ex2_state : state := fst (run_history 30 init_state ex2_hist).

Definition swap_first_two (t : table) : table :=
  match t with e1 :: e2 :: t' => e2 :: e1 :: t' | _ => t end.

Definition ex2_heap' : heap :=
  match heap_of ex2_state with
  | b :: h => with_links b (option_map swap_first_two (links b)) :: h
  | [] => []
  end.

Example ex2_tables_differ :
  option_map links (nth_error (heap_of ex2_state) 0) = Some (Some [((1%nat, Fwd), 1); ((2%nat, Fwd), 1)]) /\
  option_map links (nth_error ex2_heap' 0) = Some (Some [((2%nat, Fwd), 1); ((1%nat, Fwd), 1)]).
Proof. split; vm_compute; reflexivity. Qed.

Example ex2_good : good ex2_state.
Proof.
  assert (Hr : rec_hist 30 init_state ex2_hist).
  { unfold ex2_hist.
    apply rh_quiet; [reflexivity|intros _]. norm_state.
    apply rh_quiet; [reflexivity|intros _]. norm_state.
    apply rh_quiet; [reflexivity|intros _]. norm_state.
    apply rh_link; [eexists _, _, _, _; repeat split; reflexivity|]. norm_state.
    rewrite <- (app_nil_r (link_block 0 2 3 1 [] [] [])).
    apply rh_link; [eexists _, _, _, _; repeat split; reflexivity|]. apply rh_nil. }
  apply (proj2 (rec_hist_ok 29 ex2_hist init_state good_init Hr)). vm_compute. reflexivity.
Qed.

Example ex2_heap_perm : heap_perm (heap_of ex2_state) ex2_heap'.
Proof.
  vm_compute. constructor; [|apply heap_perm_refl].
  repeat split. cbn [links]. apply perm_swap.
Qed.

Example ex2_table_order_independent :
  let s := ex2_state in let s' := set_heap ex2_state ex2_heap' in
  snd (exec_op [] 40 s' (OAct (ADrop 0))) = snd (exec_op [] 30 s (OAct (ADrop 0))) /\
  obs_perm (fst (exec_op [] 30 s (OAct (ADrop 0)))) (fst (exec_op [] 40 s' (OAct (ADrop 0)))).
Proof.
  intros s s'.
  apply exec_op_table_order_independent; try (vm_compute; reflexivity).
  - exact ex2_good.
  - apply good_heap_perm; [exact ex2_good|exact ex2_heap_perm].
  - apply obs_perm_intro; [exact ex2_heap_perm|reflexivity|apply lperm_refl].
Qed.

Print Assumptions step_alog.
Print Assumptions run_indep.
Print Assumptions exec_op_oracle_independent.
Print Assumptions run_history_indep_gen.
Print Assumptions run_history_oracle_independent.
Print Assumptions ex_independent.
Print Assumptions exec_act_obs_perm.
Print Assumptions run_indep_perm.
Print Assumptions exec_op_table_order_independent.
Print Assumptions run_history_table_order_independent.
Print Assumptions good_heap_perm.
Print Assumptions ex2_table_order_independent.
