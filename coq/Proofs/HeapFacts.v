(** * Facts about the checked heap and about adopt.rs at the level of recorded
    counts. *)
From CR Require Import Base Atomic LinksFacts.
Local Open Scope N_scope.

(** ** [upd] / [nth_error] *)
Lemma upd_length {A} (l : list A) i x : length (upd l i x) = length l.
Proof. revert i; induction l as [|a l IH]; intros [|i]; cbn; auto. Qed.

Lemma nth_error_upd_same {A} (l : list A) i x :
  (i < length l)%nat -> nth_error (upd l i x) i = Some x.
Proof.
  revert i; induction l as [|a l IH]; intros [|i] H; cbn in *; try lia; auto.
  apply IH; lia.
Qed.

Lemma nth_error_upd_other {A} (l : list A) i j x :
  i <> j -> nth_error (upd l i x) j = nth_error l j.
Proof.
  revert i j; induction l as [|a l IH]; intros [|i] [|j] H; cbn; auto; try congruence.
Qed.

Lemma nth_error_upd {A} (l : list A) i j x :
  nth_error (upd l i x) j =
  if Nat.eqb i j then (if Nat.ltb i (length l) then Some x else None) else nth_error l j.
Proof.
  destruct (Nat.eqb_spec i j) as [->|H].
  - destruct (Nat.ltb_spec j (length l)) as [H|H].
    + apply nth_error_upd_same; exact H.
    + apply nth_error_None. rewrite upd_length. exact H.
  - apply nth_error_upd_other; exact H.
Qed.

Lemma nth_error_app_new {A} (l : list A) x : nth_error (l ++ [x]) (length l) = Some x.
Proof. rewrite nth_error_app2 by lia. rewrite Nat.sub_diag. reflexivity. Qed.

Lemma nth_error_app_old {A} (l : list A) x i :
  (i < length l)%nat -> nth_error (l ++ [x]) i = nth_error l i.
Proof. intros H. apply nth_error_app1; exact H. Qed.

(** ** [getb] / [setb] *)
Lemma getb_ok h o b : getb h o = Ok b -> nth_error h o = Some b /\ freed b = false.
Proof.
  unfold getb. destruct (nth_error h o) as [b'|]; [|discriminate].
  destruct (freed b') eqn:E; [discriminate|]. intros H; injection H as <-. auto.
Qed.

Lemma getb_intro h o b : nth_error h o = Some b -> freed b = false -> getb h o = Ok b.
Proof. unfold getb. intros -> ->. reflexivity. Qed.

Lemma getb_lt h o b : getb h o = Ok b -> (o < length h)%nat.
Proof. intros H. apply getb_ok in H as [H _]. apply nth_error_Some. congruence. Qed.

(** the table of a box, as seen by the rest of the development: the count
    recorded under [l] in box [o]; 0 when the box or the table is absent *)
Definition btable (b : box) : table :=
  match links b with Some t => t | None => [] end.

Definition lget (h : heap) (o : oid) (l : link) : N :=
  match nth_error h o with
  | Some b => tbl_get (btable b) l
  | None => 0
  end.

(** everything about a box except its table *)
Definition same_but_links (b b' : box) : Prop :=
  strong b' = strong b /\ weak b' = weak b /\ value b' = value b /\ freed b' = freed b /\
  (links b = None <-> links b' = None).

Definition heap_same_but_links (h h' : heap) : Prop :=
  length h' = length h /\
  forall o b, nth_error h o = Some b ->
    exists b', nth_error h' o = Some b' /\ same_but_links b b'.

Lemma same_but_links_refl b : same_but_links b b.
Proof. unfold same_but_links; tauto. Qed.

Lemma heap_same_but_links_refl h : heap_same_but_links h h.
Proof. split; auto. intros o b H. exists b. split; auto using same_but_links_refl. Qed.

Lemma heap_same_but_links_trans h1 h2 h3 :
  heap_same_but_links h1 h2 -> heap_same_but_links h2 h3 -> heap_same_but_links h1 h3.
Proof.
  intros [L1 H1] [L2 H2]. split; [congruence|].
  intros o b Hb. destruct (H1 o b Hb) as (b2 & Hb2 & S2).
  destruct (H2 o b2 Hb2) as (b3 & Hb3 & S3). exists b3. split; auto.
  unfold same_but_links in *. intuition congruence.
Qed.

(** ** [links_insert] / [links_remove] *)
Lemma links_insert_spec h o l h' :
  links_insert h o l = Ok h' ->
  (forall o' l', lget h' o' l' =
     lget h o' l' + (if Nat.eqb o' o && link_eqb l' l then 1 else 0)) /\
  heap_same_but_links h h'.
Proof.
  unfold links_insert, bind. destruct (getb h o) as [b|] eqn:G; [|discriminate].
  destruct (links b) as [t|] eqn:Lk; [|discriminate]. intros H; injection H as <-.
  pose proof (getb_lt _ _ _ G) as Hlt. apply getb_ok in G as [Gn Gf]. split.
  - intros o' l'. unfold lget, setb. rewrite nth_error_upd.
    destruct (Nat.eqb_spec o o') as [<-|Hne].
    + apply Nat.ltb_lt in Hlt. rewrite Hlt, Gn, Nat.eqb_refl. cbn [andb].
      unfold btable; cbn [with_talloc with_links links]. rewrite Lk, tbl_get_insert.
      destruct (link_eqb l' l) eqn:E; [|lia]. apply link_eqb_eq in E; subst. reflexivity.
    + assert (Nat.eqb o' o = false) as -> by (apply Nat.eqb_neq; congruence). cbn [andb]. lia.
  - split; [apply upd_length|]. intros o' b' Hb'. unfold setb. rewrite nth_error_upd.
    destruct (Nat.eqb_spec o o') as [<-|Hne].
    + apply Nat.ltb_lt in Hlt. rewrite Hlt. eexists; split; [reflexivity|].
      assert (b' = b) as -> by congruence.
      unfold same_but_links; cbn. rewrite Lk. repeat split; auto; discriminate.
    + exists b'. split; auto using same_but_links_refl.
Qed.

Definition box_wf (b : box) : Prop := tbl_wf (btable b).
Definition heap_wf (h : heap) : Prop := forall o b, nth_error h o = Some b -> box_wf b.

Lemma links_insert_wf h o l h' : heap_wf h -> links_insert h o l = Ok h' -> heap_wf h'.
Proof.
  unfold links_insert, bind. intros Hwf. destruct (getb h o) as [b|] eqn:G; [|discriminate].
  destruct (links b) as [t|] eqn:Lk; [|discriminate]. intros H; injection H as <-.
  apply getb_ok in G as [Gn Gf]. intros o' b'. unfold setb. rewrite nth_error_upd.
  destruct (Nat.eqb_spec o o') as [<-|Hne]; [|apply Hwf].
  destruct (Nat.ltb o (length h)); [|discriminate]. intros H; injection H as <-.
  unfold box_wf, btable; cbn. apply tbl_insert_wf.
  specialize (Hwf o b Gn). unfold box_wf, btable in Hwf. rewrite Lk in Hwf. exact Hwf.
Qed.

Lemma links_remove_spec h o l n h' :
  heap_wf h -> links_remove h o l n = Ok h' ->
  (forall o' l', lget h' o' l' =
     if Nat.eqb o' o && link_eqb l' l then lget h o l - n else lget h o' l') /\
  heap_same_but_links h h' /\ heap_wf h'.
Proof.
  unfold links_remove, get_links, set_links, bind. intros Hwf.
  destruct (getb h o) as [b|] eqn:G; [|discriminate].
  destruct (links b) as [t|] eqn:Lk; [|discriminate]. intros H; injection H as <-.
  pose proof (getb_lt _ _ _ G) as Hlt. apply getb_ok in G as [Gn Gf].
  assert (Ht : tbl_wf t).
  { specialize (Hwf o b Gn). unfold box_wf, btable in Hwf. rewrite Lk in Hwf. exact Hwf. }
  apply Nat.ltb_lt in Hlt. split; [|split].
  - intros o' l'. unfold lget, setb. rewrite nth_error_upd.
    destruct (Nat.eqb_spec o o') as [<-|Hne].
    + rewrite Hlt, Gn, Nat.eqb_refl. cbn [andb].
      unfold btable; cbn [with_links links]. rewrite Lk, tbl_get_remove by exact Ht. reflexivity.
    + assert (Nat.eqb o' o = false) as -> by (apply Nat.eqb_neq; congruence). reflexivity.
  - split; [apply upd_length|]. intros o' b' Hb'. unfold setb. rewrite nth_error_upd.
    destruct (Nat.eqb_spec o o') as [<-|Hne].
    + rewrite Hlt. eexists; split; [reflexivity|]. assert (b' = b) as -> by congruence.
      unfold same_but_links; cbn. rewrite Lk. repeat split; auto; discriminate.
    + exists b'. split; auto using same_but_links_refl.
  - intros o' b'. unfold setb. rewrite nth_error_upd.
    destruct (Nat.eqb_spec o o') as [<-|Hne]; [|apply Hwf].
    rewrite Hlt. intros H; injection H as <-.
    unfold box_wf, btable; cbn. apply tbl_remove_wf; exact Ht.
Qed.

(** ** adopt.rs *)

(** [adopt_unchecked] through distinct handles: one forward record in the
    owner, one backward record in the target, nothing else changes — no
    counter, no value, no other table entry (C06, C08). *)
Theorem adopt_spec h a b h' :
  adopt h false a b = Ok h' ->
  (forall o l, lget h' o l = lget h o l
      + (if Nat.eqb o a && link_eqb l (b, Fwd) then 1 else 0)
      + (if Nat.eqb o b && link_eqb l (a, Bwd) then 1 else 0)) /\
  heap_same_but_links h h'.
Proof.
  unfold adopt, bind. destruct (links_insert h a (b, Fwd)) as [h1|] eqn:E1; [|discriminate].
  intros E2. apply links_insert_spec in E1 as [S1 P1]. apply links_insert_spec in E2 as [S2 P2].
  split; [|eapply heap_same_but_links_trans; eauto].
  intros o l. rewrite S2, S1. reflexivity.
Qed.

Theorem adopt_same_handle_spec h a h' :
  adopt h true a a = Ok h' ->
  (forall o l, lget h' o l = lget h o l
      + (if Nat.eqb o a && link_eqb l (a, Loop) then 1 else 0)) /\
  heap_same_but_links h h'.
Proof. unfold adopt. apply links_insert_spec. Qed.

Lemma adopt_wf h same a b h' : heap_wf h -> adopt h same a b = Ok h' -> heap_wf h'.
Proof.
  unfold adopt, bind. intros Hwf. destruct same.
  - apply links_insert_wf; exact Hwf.
  - destruct (links_insert h a (b, Fwd)) as [h1|] eqn:E1; [|discriminate].
    intros E2. eapply links_insert_wf; [|exact E2]. eapply links_insert_wf; eauto.
Qed.

(** [unadopt]: at most one record removed at each end, a no-op when none
    exists (truncated subtraction), nothing else changes. *)
Theorem unadopt_spec h a b h' :
  heap_wf h -> unadopt h false a b = Ok h' ->
  (forall o l, lget h' o l =
      if Nat.eqb o b && link_eqb l (a, Bwd) then
        (if Nat.eqb b a && link_eqb (a, Bwd) (b, Fwd) then lget h a (b, Fwd) - 1 else lget h b (a, Bwd)) - 1
      else if Nat.eqb o a && link_eqb l (b, Fwd) then lget h a (b, Fwd) - 1
      else lget h o l) /\
  heap_same_but_links h h' /\ heap_wf h'.
Proof.
  unfold unadopt, bind. intros Hwf.
  destruct (links_remove h a (b, Fwd) 1) as [h1|] eqn:E1; [|discriminate].
  intros E2. apply links_remove_spec in E1 as (S1 & P1 & W1); [|exact Hwf].
  apply links_remove_spec in E2 as (S2 & P2 & W2); [|exact W1].
  split; [|split; [eapply heap_same_but_links_trans; eauto | exact W2]].
  intros o l. rewrite S2. destruct (Nat.eqb o b && link_eqb l (a, Bwd)) eqn:C1.
  - rewrite S1. reflexivity.
  - rewrite S1. reflexivity.
Qed.

(** the readable corollary: forward count of the pair, and its mirror *)
Corollary unadopt_counts h a b h' :
  heap_wf h -> unadopt h false a b = Ok h' ->
  lget h' a (b, Fwd) = lget h a (b, Fwd) - 1 /\
  lget h' b (a, Bwd) = lget h b (a, Bwd) - 1.
Proof.
  intros Hwf H. destruct (unadopt_spec _ _ _ _ Hwf H) as (S & _ & _). split.
  - rewrite S. assert (link_eqb (b, Fwd) (a, Bwd) = false) as ->.
    { apply link_eqb_neq. congruence. }
    rewrite andb_false_r, Nat.eqb_refl, link_eqb_refl. reflexivity.
  - rewrite S. rewrite Nat.eqb_refl, link_eqb_refl. cbn [andb].
    assert (link_eqb (a, Bwd) (b, Fwd) = false) as ->.
    { apply link_eqb_neq. congruence. }
    rewrite andb_false_r. reflexivity.
Qed.

Corollary adopt_counts h a b h' :
  adopt h false a b = Ok h' ->
  lget h' a (b, Fwd) = lget h a (b, Fwd) + 1 /\
  lget h' b (a, Bwd) = lget h b (a, Bwd) + 1.
Proof.
  intros H. destruct (adopt_spec _ _ _ _ H) as (S & _). split; rewrite S.
  - rewrite Nat.eqb_refl, link_eqb_refl. cbn [andb].
    assert (link_eqb (b, Fwd) (a, Bwd) = false) as -> by (apply link_eqb_neq; congruence).
    rewrite andb_false_r. lia.
  - rewrite Nat.eqb_refl, link_eqb_refl. cbn [andb].
    assert (link_eqb (a, Bwd) (b, Fwd) = false) as -> by (apply link_eqb_neq; congruence).
    rewrite andb_false_r. lia.
Qed.

(** symmetry of the recorded graph: every forward record is mirrored *)
Definition symmetric (h : heap) : Prop :=
  forall a b, lget h a (b, Fwd) = lget h b (a, Bwd).

Theorem adopt_symmetric h same a b h' :
  symmetric h -> adopt h same a b = Ok h' -> (same = true -> a = b) -> symmetric h'.
Proof.
  intros Hs H Hsame x y. destruct same.
  - specialize (Hsame eq_refl); subst b.
    destruct (adopt_same_handle_spec _ _ _ H) as (S & _). rewrite !S.
    assert (forall z, link_eqb (z, Fwd) (a, Loop) = false) as E1 by (intros; apply link_eqb_neq; congruence).
    assert (forall z, link_eqb (z, Bwd) (a, Loop) = false) as E2 by (intros; apply link_eqb_neq; congruence).
    rewrite E1, E2, !andb_false_r. rewrite Hs. lia.
  - destruct (adopt_spec _ _ _ _ H) as (S & _). rewrite !S, Hs.
    assert (forall z w, link_eqb (z, Fwd) (w, Bwd) = false) as E1 by (intros; apply link_eqb_neq; congruence).
    assert (forall z w, link_eqb (z, Bwd) (w, Fwd) = false) as E2 by (intros; apply link_eqb_neq; congruence).
    rewrite E1, E2, !andb_false_r, !N.add_0_r.
    assert (Nat.eqb x a && link_eqb (y, Fwd) (b, Fwd) = Nat.eqb y b && link_eqb (x, Bwd) (a, Bwd)) as ->; [|lia].
    destruct (Nat.eqb_spec x a), (Nat.eqb_spec y b); subst; cbn [andb];
      rewrite ?link_eqb_refl; auto;
      try (symmetry; apply link_eqb_neq; congruence); try (apply link_eqb_neq; congruence).
Qed.
