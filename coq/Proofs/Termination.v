(** * Termination: every call returns.

    Collection is synchronous: a top-level call pushes frames on the machine's
    stack and runs until the stack is empty.  This file shows that this always
    happens after a bounded number of steps, for every heap, every register
    file, every pending stack and whatever the destructor scripts do.

    The proof is by an explicit measure [mu K c : nat] that strictly decreases
    at every step.  [K] is the price of one script action; it has to pay for
    the frames the action pushes and for the object the action may create.  The
    only unbounded creation is the clone branch of [make_mut], which copies the
    slot vector of an existing value, so [K] depends on a bound [M] on the
    length of the slot vectors of the values in the heap; that bound is
    preserved by every step ([hb M]). *)
From CR Require Import Base Atomic Machine LinksFacts HeapFacts.

(** ** The values of a heap *)
Definition vals (h : heap) : list (option payload) := map value h.

(** weight of a payload = weight of the frame [FDtorStart p] *)
Definition pw (K : nat) (p : payload) : nat :=
  K * length (script p) + 3 + 4 * length (slots p).

(** a value that is still in its box pays, in addition, for the frames that
    surround its destructor ([FAfterValue], or [FTableDrop] and its share of
    [FInners]) *)
Definition ovw (K : nat) (v : option payload) : nat :=
  match v with Some p => pw K p + 2 | None => 0 end.

Fixpoint vw (K : nat) (vs : list (option payload)) : nat :=
  match vs with [] => 0 | v :: vs' => ovw K v + vw K vs' end.

Definition hw (K : nat) (h : heap) : nat := vw K (vals h).

(** bound on the slot vectors of the values in the heap *)
Definition obnd (M : nat) (v : option payload) : Prop :=
  match v with Some p => length (slots p) <= M | None => True end.

Definition hb (M : nat) (h : heap) : Prop := Forall (obnd M) (vals h).

(** registers: only a loose value (result of try_unwrap) carries weight *)
Definition rw (K : nat) (r : reg) : nat :=
  match r with RLoose p => pw K p | _ => 0 end.

Fixpoint rsw (K : nat) (rs : list reg) : nat :=
  match rs with [] => 0 | r :: rs' => rw K r + rsw K rs' end.

Fixpoint iw (K : nat) (es : list inner) : nat :=
  match es with [] => 0 | (_, v, _) :: es' => 2 + pw K v + iw K es' end.

Definition fw (K : nat) (f : frame) : nat :=
  match f with
  | FDropStrong _ => 3
  | FDtorStart p => pw K p
  | FRunDtor p pc => K * length pc + 2 + 4 * length (slots p)
  | FDropSlots ss => 1 + 4 * length ss
  | FAfterValue _ => 1
  | FInners es => 1 + iw K es
  | FTableDrop _ => 1
  | FFinishGroup _ => 1
  | FRes _ => 1
  end.

Fixpoint kw (K : nat) (k : list frame) : nat :=
  match k with [] => 0 | f :: k' => fw K f + kw K k' end.

Definition sw (K : nat) (s : state) : nat := hw K (heap_of s) + rsw K (regs s).

(** the measure *)
Definition mu (K : nat) (c : config) : nat := sw K (st c) + kw K (stack c).

(** ** Lists *)
Lemma upd_same_id {A} (l : list A) i x : nth_error l i = Some x -> upd l i x = l.
Proof.
  revert i; induction l as [|a l IH]; intros [|i] H; cbn in *; try congruence.
  f_equal. apply IH. exact H.
Qed.

Lemma map_upd {A B} (f : A -> B) (l : list A) i x : map f (upd l i x) = upd (map f l) i (f x).
Proof.
  revert i; induction l as [|a l IH]; intros [|i]; cbn; auto. f_equal. apply IH.
Qed.

Lemma vals_upd h o b : vals (setb h o b) = upd (vals h) o (value b).
Proof. apply map_upd. Qed.

Lemma vals_app h b : vals (h ++ [b]) = vals h ++ [value b].
Proof. unfold vals. rewrite map_app. reflexivity. Qed.

Lemma vals_nth h o b : nth_error h o = Some b -> nth_error (vals h) o = Some (value b).
Proof. intros H. unfold vals. rewrite nth_error_map, H. reflexivity. Qed.

Lemma vals_getb h o b : getb h o = Ok b -> nth_error (vals h) o = Some (value b).
Proof. intros H. apply vals_nth. apply getb_ok in H. tauto. Qed.

Lemma setb_vals h o b b' :
  getb h o = Ok b -> value b' = value b -> vals (setb h o b') = vals h.
Proof.
  intros G E. rewrite vals_upd, E. apply upd_same_id. apply vals_getb. exact G.
Qed.

Lemma vw_upd K vs o v v' :
  nth_error vs o = Some v -> vw K (upd vs o v') + ovw K v = vw K vs + ovw K v'.
Proof.
  revert o; induction vs as [|a vs IH]; intros [|o] H; cbn [nth_error upd vw] in *; try discriminate.
  - injection H as ->. lia.
  - specialize (IH o H). lia.
Qed.

Lemma vw_app K vs v : vw K (vs ++ [v]) = vw K vs + ovw K v.
Proof. induction vs as [|a vs IH]; cbn [app vw]; lia. Qed.

Lemma vb_upd M vs o v : Forall (obnd M) vs -> obnd M v -> Forall (obnd M) (upd vs o v).
Proof.
  intros H Hv. revert o; induction H as [|a vs Ha H IH]; intros [|o]; cbn [upd]; auto.
Qed.

Lemma vb_app M vs v : Forall (obnd M) vs -> obnd M v -> Forall (obnd M) (vs ++ [v]).
Proof. intros H Hv. apply Forall_app. split; auto. Qed.

Lemma vb_nth M vs o p :
  Forall (obnd M) vs -> nth_error vs o = Some (Some p) -> length (slots p) <= M.
Proof.
  intros H E. apply nth_error_In in E. rewrite Forall_forall in H. exact (H _ E).
Qed.

Lemma rsw_upd K rs r x :
  rsw K (upd rs r x) + rw K (nth r rs REmpty) <= rsw K rs + rw K x.
Proof.
  revert r; induction rs as [|a rs IH]; intros [|r]; cbn [upd rsw nth rw]; try lia.
  specialize (IH r). lia.
Qed.

Lemma rsw_upd0 K rs r x : rw K x = 0 -> rsw K (upd rs r x) <= rsw K rs.
Proof. intros H. pose proof (rsw_upd K rs r x). lia. Qed.

Lemma kw_app K k1 k2 : kw K (k1 ++ k2) = kw K k1 + kw K k2.
Proof. induction k1 as [|f k1 IH]; cbn [app kw]; lia. Qed.

Lemma iw_app K es e : iw K (es ++ [e]) = iw K es + iw K [e].
Proof.
  induction es as [|[[o v] t] es IH]; cbn [app iw] in *; [|rewrite IH]; destruct e as [[o' v'] t']; cbn [iw]; lia.
Qed.

(** ** The atomic functions that do not move values *)
Lemma inc_strong_vals h o h' : inc_strong h o = Ok h' -> vals h' = vals h.
Proof.
  unfold inc_strong, bind. destruct (getb h o) as [b|] eqn:G; [|discriminate].
  destruct (strong b) as [n|]; [|discriminate]. destruct (n =? 0)%N; [discriminate|].
  intros H; injection H as <-. eapply setb_vals; eauto.
Qed.

Lemma inc_weak_vals h o h' : inc_weak h o = Ok h' -> vals h' = vals h.
Proof.
  unfold inc_weak, bind. destruct (getb h o) as [b|] eqn:G; [|discriminate].
  destruct (weak b =? 0)%N; [discriminate|].
  intros H; injection H as <-. eapply setb_vals; eauto.
Qed.

Lemma dec_weak_free_vals h o h' : dec_weak_free h o = Ok h' -> vals h' = vals h.
Proof.
  unfold dec_weak_free, bind. destruct (getb h o) as [b|] eqn:G; [|discriminate].
  destruct (weak b =? 0)%N; [discriminate|].
  intros H; injection H as <-. eapply setb_vals; eauto.
  destruct (weak b - 1 =? 0)%N; reflexivity.
Qed.

Lemma weak_drop_vals h w h' : weak_drop h w = Ok h' -> vals h' = vals h.
Proof.
  destruct w as [o|]; cbn [weak_drop].
  - apply dec_weak_free_vals.
  - intros H; injection H as <-. reflexivity.
Qed.

Lemma links_insert_vals h o l h' : links_insert h o l = Ok h' -> vals h' = vals h.
Proof.
  unfold links_insert, bind. destruct (getb h o) as [b|] eqn:G; [|discriminate].
  destruct (links b) as [t|]; [|discriminate].
  intros H; injection H as <-. eapply setb_vals; eauto.
Qed.

Lemma set_links_vals h o t h' : set_links h o t = Ok h' -> vals h' = vals h.
Proof.
  unfold set_links, bind. destruct (getb h o) as [b|] eqn:G; [|discriminate].
  intros H; injection H as <-. eapply setb_vals; eauto.
Qed.

Lemma links_remove_vals h o l n h' : links_remove h o l n = Ok h' -> vals h' = vals h.
Proof.
  unfold links_remove, bind. destruct (get_links h o) as [t|]; [|discriminate].
  apply set_links_vals.
Qed.

Lemma adopt_vals h same a b h' : adopt h same a b = Ok h' -> vals h' = vals h.
Proof.
  unfold adopt, bind. destruct same.
  - apply links_insert_vals.
  - destruct (links_insert h a (b, Fwd)) as [h1|] eqn:E1; [|discriminate].
    intros E2. apply links_insert_vals in E1, E2. congruence.
Qed.

Lemma unadopt_vals h same a b h' : unadopt h same a b = Ok h' -> vals h' = vals h.
Proof.
  unfold unadopt, bind. destruct same.
  - apply links_remove_vals.
  - destruct (links_remove h a (b, Fwd) 1) as [h1|] eqn:E1; [|discriminate].
    intros E2. apply links_remove_vals in E1, E2. congruence.
Qed.

Lemma purge_loop_vals this entries : forall h h',
  purge_loop h this entries = Ok h' -> vals h' = vals h.
Proof.
  induction entries as [|[[x kd] n] rest IH]; intros h h'; cbn [purge_loop].
  - intros H; injection H as <-. reflexivity.
  - destruct (Nat.eqb x this); [apply IH|]. unfold bind.
    destruct (links_remove h x (this, Fwd) n) as [h1|] eqn:E1; [|discriminate].
    destruct (links_remove h1 x (this, Bwd) n) as [h2|] eqn:E2; [|discriminate].
    intros E3. apply IH in E3. apply links_remove_vals in E1, E2. congruence.
Qed.

Lemma purge_peers_vals h this h' : purge_peers h this = Ok h' -> vals h' = vals h.
Proof.
  unfold purge_peers, bind. destruct (get_links h this) as [t|]; [|discriminate].
  apply purge_loop_vals.
Qed.

Lemma release_links_vals h o h' : release_links h o = Ok h' -> vals h' = vals h.
Proof.
  unfold release_links, bind. destruct (purge_peers h o) as [h1|] eqn:E1; [|discriminate].
  destruct (getb h1 o) as [b|] eqn:G; [|discriminate].
  destruct (links b) as [t|]; [|discriminate].
  intros H; injection H as <-. apply purge_peers_vals in E1. rewrite <- E1.
  eapply setb_vals; eauto.
Qed.

Lemma bust_one_vals h keys k c h' : bust_one h keys k c = Ok h' -> vals h' = vals h.
Proof.
  unfold bust_one, bind. destruct (getb h k) as [b|] eqn:G; [|discriminate].
  destruct (links b) as [t|]; [|discriminate]. cbn [with_links strong].
  destruct (strong b) as [n|]; [|discriminate].
  intros H; injection H as <-. eapply setb_vals; eauto.
Qed.

Lemma bust_all_vals keys cyc : forall h h', bust_all h keys cyc = Ok h' -> vals h' = vals h.
Proof.
  induction cyc as [|[k c] cyc IH]; intros h h'; cbn [bust_all].
  - intros H; injection H as <-. reflexivity.
  - unfold bind. destruct (bust_one h keys k c) as [h1|] eqn:E1; [|discriminate].
    intros E2. apply IH in E2. apply bust_one_vals in E1. congruence.
Qed.

Lemma finish_group_vals keys : forall h h', finish_group h keys = Ok h' -> vals h' = vals h.
Proof.
  induction keys as [|k keys IH]; intros h h'; cbn [finish_group].
  - intros H; injection H as <-. reflexivity.
  - unfold bind. destruct (getb h k) as [b|]; [|discriminate].
    destruct (is_dead (strong b)); [|apply IH].
    destruct (dec_weak_free h k) as [h1|] eqn:E1; [|discriminate].
    intros E2. apply IH in E2. apply dec_weak_free_vals in E1. congruence.
Qed.

Lemma clone_slots_vals ss : forall h h', clone_slots h ss = Ok h' -> vals h' = vals h.
Proof.
  induction ss as [|sl ss IH]; intros h h'; cbn [clone_slots].
  - intros H; injection H as <-. reflexivity.
  - destruct sl as [o|[o|]|]; try apply IH; unfold bind.
    + destruct (inc_strong h o) as [h1|] eqn:E1; [|discriminate].
      intros E2. apply IH in E2. apply inc_strong_vals in E1. congruence.
    + destruct (inc_weak h o) as [h1|] eqn:E1; [|discriminate].
      intros E2. apply IH in E2. apply inc_weak_vals in E1. congruence.
Qed.

(** ** Phase two of drop_cycle: the gathered values leave the heap *)
Lemma gather_mu K M keys : forall h acc h' inn,
  gather h keys acc = Ok (h', inn) ->
  hw K h' + iw K inn = hw K h + iw K acc /\ (hb M h -> hb M h').
Proof.
  induction keys as [|k keys IH]; intros h acc h' inn; cbn [gather].
  - intros H; injection H as <- <-. auto.
  - unfold bind. destruct (getb h k) as [b|] eqn:G; [|discriminate].
    destruct (negb (is_dead (strong b))); [apply IH|].
    destruct (is_uninit (strong b)); [apply IH|].
    destruct (value b) as [v|] eqn:V; [|discriminate].
    destruct (links b) as [t|]; [|discriminate].
    intros H. apply IH in H as [H1 H2].
    apply vals_getb in G. rewrite V in G.
    unfold hw, hb in *. rewrite vals_upd in H1, H2. cbn [with_links with_value value] in H1, H2.
    pose proof (vw_upd K _ _ _ None G) as U. rewrite iw_app in H1. cbn [iw ovw] in *.
    split; [lia|]. intros B. apply H2. apply vb_upd; [exact B|exact I].
Qed.

(** ** [Rc::drop], the atomic part *)
Lemma start_unreachable_mu K M s o s' push :
  start_unreachable s o = Ok (s', push) ->
  hw K (heap_of s') + kw K push < hw K (heap_of s) /\ regs s' = regs s /\
  (hb M (heap_of s) -> hb M (heap_of s')).
Proof.
  unfold start_unreachable, bind. destruct (getb (heap_of s) o) as [b|] eqn:G; [|discriminate].
  destruct (value b) as [v|] eqn:V; [|discriminate].
  intros H; injection H as <- <-. cbn [heap_of regs set_heap mk kw fw].
  apply vals_getb in G. rewrite V in G. unfold hw, hb. rewrite vals_upd.
  cbn [with_value value]. pose proof (vw_upd K _ _ _ None G) as U. cbn [ovw] in U.
  split; [lia|]. split; [reflexivity|]. intros B. apply vb_upd; [exact B|exact I].
Qed.

Lemma drop_strong_mu pri K M s o s' push :
  drop_strong pri s o = Ok (s', push) ->
  hw K (heap_of s') + kw K push <= hw K (heap_of s) + 2 /\ regs s' = regs s /\
  (hb M (heap_of s) -> hb M (heap_of s')).
Proof.
  unfold drop_strong, bind. destruct (getb (heap_of s) o) as [b|] eqn:G; [|discriminate].
  destruct (strong b) as [n|].
  2:{ intros H; injection H as <- <-. cbn [kw]. split; [lia|auto]. }
  destruct (n =? 0)%N.
  { intros H; injection H as <- <-. cbn [kw]. split; [lia|auto]. }
  assert (V1 : vals (setb (heap_of s) o (with_strong b (Cnt (n - 1)))) = vals (heap_of s)).
  { eapply setb_vals; eauto. }
  set (h1 := setb (heap_of s) o (with_strong b (Cnt (n - 1)))) in *.
  destruct (get_links h1 o) as [t|]; [|discriminate].
  destruct t as [|e t].
  - destruct (n - 1 =? 0)%N.
    + intros H. apply (start_unreachable_mu K M) in H as (H1 & H2 & H3).
      cbn [heap_of regs set_heap mk] in *. unfold hw, hb in *. rewrite V1 in *.
      split; [lia|auto].
    + intros H; injection H as <- <-. cbn [heap_of regs set_heap mk kw].
      unfold hw, hb. rewrite V1. split; [lia|auto].
  - destruct (n - 1 =? 0)%N.
    + destruct (purge_loop h1 o (e :: t)) as [h2|] eqn:E2; [|discriminate].
      destruct (set_links h2 o []) as [h3|] eqn:E3; [|discriminate].
      apply purge_loop_vals in E2. apply set_links_vals in E3.
      intros H. apply (start_unreachable_mu K M) in H as (H1 & H2 & H3).
      cbn [heap_of regs set_heap mk] in *. unfold hw, hb in *. rewrite E3, E2, V1 in *.
      split; [lia|auto].
    + destruct (orphaned_cycle h1 o) as [[[oc pops] visits]|]; [|discriminate].
      destruct oc as [cyc|].
      * set (cyc' := order_cycle pri cyc).
        destruct (bust_all h1 (map fst cyc') cyc') as [h2|] eqn:E2; [|discriminate].
        destruct (gather h2 (map fst cyc') []) as [[h3 inners]|] eqn:E3; [|discriminate].
        intros H; injection H as <- <-. cbn [heap_of regs set_heap add_ev mk kw fw].
        apply bust_all_vals in E2. apply (gather_mu K M) in E3 as [H1 H2].
        unfold hw, hb in *. rewrite E2, V1 in *. cbn [iw] in H1.
        split; [lia|auto].
      * intros H; injection H as <- <-. cbn [heap_of regs set_heap add_ev mk kw].
        unfold hw, hb. rewrite V1. split; [lia|auto].
Qed.

(** ** One script action *)
Lemma resolve_owner_inv s self w ow :
  resolve_owner s self w = Some ow ->
  match ow with
  | WSelf p => self = Some p
  | WBox o p => exists b, nth_error (heap_of s) o = Some b /\ value b = Some p
  end.
Proof.
  unfold resolve_owner. destruct w as [r|].
  - destruct (reg_get s r) as [o| | | |]; try discriminate.
    destruct (nth_error (heap_of s) o) as [b|] eqn:E; [|discriminate].
    destruct (value b) as [p|] eqn:V; [|discriminate].
    intros H; injection H as <-. exists b. auto.
  - destruct self as [p|]; [|discriminate]. intros H; injection H as <-. reflexivity.
Qed.

Lemma resolve_slot_owner s self w k ow sl :
  resolve_slot s self w k = Some (ow, sl) -> resolve_owner s self w = Some ow.
Proof.
  unfold resolve_slot. destruct (resolve_owner s self w) as [ow'|]; [|discriminate].
  destruct (nth_error (slots (owner_payload ow')) k); [|discriminate].
  intros H; injection H as <- _. reflexivity.
Qed.

Definition keeps_self (self self1 : option payload) : Prop :=
  forall p, self = Some p -> exists q, self1 = Some q /\ length (slots q) = length (slots p).

Lemma keeps_self_refl self : keeps_self self self.
Proof. intros p Hp. exists p. auto. Qed.

Lemma write_slot_mu K M s0 s self w k ow sl0 sl s1 self1 :
  resolve_slot s0 self w k = Some (ow, sl0) -> heap_of s = heap_of s0 ->
  write_slot s self ow k sl = (s1, self1) ->
  hw K (heap_of s1) = hw K (heap_of s) /\ regs s1 = regs s /\
  (hb M (heap_of s) -> hb M (heap_of s1)) /\ keeps_self self self1.
Proof.
  intros R Hh W. apply resolve_slot_owner in R. apply resolve_owner_inv in R.
  destruct ow as [o p|p]; cbn [write_slot] in W.
  - destruct R as (b & Hb & V). rewrite Hh, Hb in W. injection W as <- <-.
    cbn [heap_of regs set_heap mk]. rewrite Hh.
    apply vals_nth in Hb. rewrite V in Hb.
    unfold hw, hb. rewrite vals_upd. cbn [with_value value].
    pose proof (vw_upd K _ _ _ (Some (set_payload_slot p k sl)) Hb) as U.
    assert (P : pw K (set_payload_slot p k sl) = pw K p).
    { unfold pw, set_payload_slot; cbn [script slots]. rewrite upd_length. reflexivity. }
    cbn [ovw] in U. rewrite P in U.
    split; [lia|]. split; [reflexivity|]. split; [|apply keeps_self_refl].
    intros B. apply vb_upd; [exact B|]. cbn [obnd set_payload_slot slots].
    rewrite upd_length. eapply vb_nth; eauto.
  - injection W as <- <-. split; [reflexivity|]. split; [reflexivity|]. split; [auto|].
    intros p0 Hp0. rewrite R in Hp0. injection Hp0 as <-.
    eexists; split; [reflexivity|]. cbn [set_payload_slot slots]. apply upd_length.
Qed.

Definition act_ok K M s (self : option payload) s1 (self1 : option payload) push : Prop :=
  (hb M (heap_of s) -> hb M (heap_of s1)) /\
  (hb M (heap_of s) -> sw K s1 + kw K push <= sw K s + 8 + 4 * M) /\
  keeps_self self self1.

Lemma act_ok_simple K M s self s1 push :
  vals (heap_of s1) = vals (heap_of s) -> rsw K (regs s1) <= rsw K (regs s) ->
  kw K push <= 3 -> act_ok K M s self s1 self push.
Proof.
  intros V R P. unfold act_ok, sw, hw, hb. rewrite V.
  split; [auto|]. split; [lia|apply keeps_self_refl].
Qed.

Ltac dm H :=
  match type of H with
  | match ?x with _ => _ end = _ => let E := fresh "E" in destruct x eqn:E
  end.

Ltac inv_AO H := injection H as <- <- _ <-.

Ltac vals_tac :=
  repeat match goal with
  | E : inc_strong _ _ = Ok _ |- _ => apply inc_strong_vals in E
  | E : inc_weak _ _ = Ok _ |- _ => apply inc_weak_vals in E
  | E : weak_drop _ _ = Ok _ |- _ => apply weak_drop_vals in E
  | E : adopt _ _ _ _ = Ok _ |- _ => apply adopt_vals in E
  | E : unadopt _ _ _ _ = Ok _ |- _ => apply unadopt_vals in E
  | E : release_links _ _ = Ok _ |- _ => apply release_links_vals in E
  | E : clone_slots _ _ = Ok _ |- _ => apply clone_slots_vals in E
  end.

Ltac simple_fin :=
  apply act_ok_simple; cbn [heap_of regs set_reg set_heap add_ev mk kw fw];
  [ first [reflexivity | vals_tac; congruence]
  | first [lia | apply rsw_upd0; reflexivity]
  | lia ].

Ltac triv H := unfold invalid in H; inv_AO H; simple_fin.

Lemma act_new K M s self dst s1 self1 r push :
  4 <= M ->
  exec_new s self dst [] = AO s1 self1 r push -> act_ok K M s self s1 self1 push.
Proof.
  intros HM H. unfold exec_new in H. destruct (reg_free s dst); [|triv H].
  inv_AO H. unfold act_ok, sw, hw, hb. cbn [heap_of regs set_reg set_heap mk kw].
  rewrite vals_app, vw_app. cbn [new_box value ovw obnd]. unfold pw; cbn [script slots length].
  change (length empty_slots) with 4.
  pose proof (rsw_upd0 K (regs s) dst (RStrong (length (heap_of s))) eq_refl) as U.
  split; [intros B; apply vb_app; [exact B|cbn [obnd slots]; change (length empty_slots) with 4; lia]|].
  split; [intros _; lia|apply keeps_self_refl].
Qed.

Lemma act_drop K M s self r0 s1 self1 r push :
  exec_act s self (ADrop r0) = AO s1 self1 r push -> act_ok K M s self s1 self1 push.
Proof.
  intros H. cbn [exec_act] in H. destruct (reg_get s r0) as [o|w|o|p|] eqn:E.
  - inv_AO H; simple_fin.
  - unfold lift in H. destruct (weak_drop (heap_of s) w) as [h1|] eqn:E1; [|discriminate].
    inv_AO H; simple_fin.
  - triv H.
  - inv_AO H. unfold act_ok, sw, hw, hb. cbn [heap_of regs set_reg set_heap mk kw fw].
    pose proof (rsw_upd K (regs s) r0 REmpty) as U. unfold reg_get in E. rewrite E in U.
    cbn [rw] in U. split; [auto|]. split; [intros _; lia|apply keeps_self_refl].
  - triv H.
Qed.

Lemma act_store K M s self src w k s1 self1 r push :
  exec_act s self (AStore src w k) = AO s1 self1 r push -> act_ok K M s self s1 self1 push.
Proof.
  intros H. cbn [exec_act] in H.
  destruct (slot_of_reg (reg_get s src)) as [sl|]; [|triv H].
  destruct (resolve_slot s self w k) as [[ow sl0]|] eqn:R; [|triv H].
  destruct sl0 as [o|wk|]; try (triv H).
  destruct (write_slot (set_reg s src REmpty) self ow k sl) as [s1' self1'] eqn:W.
  inv_AO H. eapply (write_slot_mu K M) in W; [|exact R|reflexivity].
  destruct W as (W1 & W2 & W3 & W4). cbn [heap_of regs set_reg mk] in *.
  unfold act_ok, sw. rewrite W1, W2.
  pose proof (rsw_upd0 K (regs s) src REmpty eq_refl) as U.
  split; [exact W3|]. split; [intros _; cbn [kw]; lia|exact W4].
Qed.

Lemma reg_of_slot_rw K sl x : reg_of_slot sl = Some x -> rw K x = 0.
Proof. destruct sl; cbn; intros H; try discriminate; injection H as <-; reflexivity. Qed.

Lemma act_take K M s self w k dst s1 self1 r push :
  exec_act s self (ATake w k dst) = AO s1 self1 r push -> act_ok K M s self s1 self1 push.
Proof.
  intros H. cbn [exec_act] in H.
  destruct (resolve_slot s self w k) as [[ow sl0]|] eqn:R; [|triv H].
  destruct (reg_of_slot sl0) as [x|] eqn:X; [|triv H].
  destruct (reg_free s dst); [|triv H].
  destruct (write_slot s self ow k SEmpty) as [s1' self1'] eqn:W.
  inv_AO H. eapply (write_slot_mu K M) in W; [|exact R|reflexivity].
  destruct W as (W1 & W2 & W3 & W4). cbn [heap_of regs set_reg mk] in *.
  unfold act_ok, sw. cbn [heap_of regs set_reg mk]. rewrite W1, W2.
  pose proof (rsw_upd0 K (regs s) dst x (reg_of_slot_rw K _ _ X)) as U.
  split; [exact W3|]. split; [intros _; cbn [kw]; lia|exact W4].
Qed.

Lemma act_try_unwrap K M s self r0 dst s1 self1 r push :
  exec_act s self (ATryUnwrap r0 dst) = AO s1 self1 r push -> act_ok K M s self s1 self1 push.
Proof.
  intros H. cbn [exec_act] in H.
  destruct (reg_get s r0) as [o|w|o|p|] eqn:E; try (triv H).
  destruct (reg_free s dst); [|triv H].
  destruct (getb (heap_of s) o) as [b|] eqn:G; [|discriminate].
  assert (D : forall x, AO s self RErr [] = x -> x = AO s1 self1 r push ->
              act_ok K M s self s1 self1 push).
  { intros x <- H'. triv H'. }
  destruct (strong b) as [n|]; [|exact (D _ eq_refl H)].
  destruct n as [|q]; [exact (D _ eq_refl H)|].
  destruct q as [q|q|]; try (exact (D _ eq_refl H)). clear D.
  unfold lift in H.
  destruct (release_links (heap_of s) o) as [h1|] eqn:E1; [|discriminate].
  cbn [heap_of set_heap mk] in H.
  destruct (getb h1 o) as [b1|] eqn:G1; [|discriminate].
  destruct (value b1) as [p|] eqn:V; [|discriminate].
  destruct (weak_drop (setb h1 o (with_strong (with_value b1 None) (Cnt 0))) (Some o))
    as [h3|] eqn:E3; [|discriminate].
  inv_AO H. apply release_links_vals in E1. apply weak_drop_vals in E3.
  apply vals_getb in G1. rewrite V, E1 in G1.
  rewrite vals_upd, E1 in E3. cbn [with_strong with_value value] in E3.
  unfold act_ok, sw, hw, hb. cbn [heap_of regs set_reg set_heap add_ev mk kw]. rewrite E3.
  pose proof (vw_upd K _ _ _ None G1) as U1. cbn [ovw] in U1.
  pose proof (rsw_upd K (upd (regs s) r0 REmpty) dst (RLoose p)) as U2. cbn [rw] in U2.
  pose proof (rsw_upd0 K (regs s) r0 REmpty eq_refl) as U3.
  split; [intros B; apply vb_upd; [exact B|exact I]|].
  split; [intros _; lia|apply keeps_self_refl].
Qed.

(** the slot vector of a clone: either the original's, or (detached clone)
    the [NSLOTS] empty slots *)
Lemma cloned_slots_cases ss : cloned_slots ss = ss \/ cloned_slots ss = empty_slots.
Proof. unfold cloned_slots. destruct (clone_detached ss); auto. Qed.

Lemma cloned_slots_length ss : length (cloned_slots ss) <= Nat.max (length ss) 4.
Proof.
  destruct (cloned_slots_cases ss) as [-> | ->]; [lia|].
  change (length empty_slots) with 4. lia.
Qed.

Lemma act_make_mut K M s self r0 s1 self1 r push :
  4 <= M ->
  exec_act s self (AMakeMut r0) = AO s1 self1 r push -> act_ok K M s self s1 self1 push.
Proof.
  intros HM H. cbn [exec_act] in H.
  destruct (reg_get s r0) as [o|w|o|p|] eqn:E; try (triv H).
  destruct (getb (heap_of s) o) as [b|] eqn:G; [|discriminate].
  (* the clone branch *)
  assert (D : forall x,
    match value b with
    | Some p =>
        lift s self (clone_slots (heap_of s) (cloned_slots (slots p))) (fun s2 =>
          AO (set_reg (set_heap s2 (heap_of s2 ++
                 [new_box {| pid := length (heap_of s); slots := cloned_slots (slots p);
                             script := [] |}]))
                r0 (RStrong (length (heap_of s)))) self RUnit [FDropStrong o])
    | None => AHalt (HFault FkValueMoved o)
    end = x -> x = AO s1 self1 r push -> act_ok K M s self s1 self1 push).
  { intros x <- H'. destruct (value b) as [p|] eqn:V; [|discriminate]. unfold lift in H'.
    destruct (clone_slots (heap_of s) (cloned_slots (slots p))) as [h1|] eqn:E1; [|discriminate].
    inv_AO H'. apply clone_slots_vals in E1. apply vals_getb in G. rewrite V in G.
    pose proof (cloned_slots_length (slots p)) as Hc.
    unfold act_ok, sw, hw, hb. cbn [heap_of regs set_reg set_heap mk kw fw].
    rewrite vals_app, vw_app, E1. cbn [new_box value ovw obnd]. unfold pw; cbn [script slots length].
    pose proof (rsw_upd0 K (regs s) r0 (RStrong (length (heap_of s))) eq_refl) as U.
    split; [intros B; apply vb_app; [exact B|]; cbn [obnd slots];
            pose proof (vb_nth _ _ _ _ B G) as Hp; lia|].
    split; [|apply keeps_self_refl].
    intros B. pose proof (vb_nth _ _ _ _ B G) as Hp. lia. }
  destruct (strong b) as [n|]; [|exact (D _ eq_refl H)].
  destruct n as [|q]; [exact (D _ eq_refl H)|].
  destruct q as [q|q|]; try (exact (D _ eq_refl H)). clear D.
  destruct (weak b =? 0)%N; [discriminate|].
  destruct (weak b =? 1)%N; [inv_AO H; simple_fin|].
  destruct (value b) as [p|] eqn:V; [|discriminate].
  unfold lift in H.
  set (p' := {| pid := length (heap_of s); slots := slots p; script := script p |}) in *.
  destruct (release_links (setb (heap_of s) o (with_value b None) ++ [new_box p']) o)
    as [h1|] eqn:E1; [|discriminate].
  cbn [heap_of set_heap mk] in H.
  destruct (getb h1 o) as [b1|] eqn:G1; [|discriminate].
  inv_AO H. apply release_links_vals in E1. pose proof (vals_getb _ _ _ G1) as G1'.
  apply vals_getb in G. rewrite V in G.
  rewrite vals_app, vals_upd in E1. cbn [with_value value new_box] in E1.
  unfold act_ok, sw, hw, hb. cbn [heap_of regs set_reg set_heap add_ev mk kw].
  rewrite vals_upd. cbn [with_weak with_strong value].
  rewrite (upd_same_id _ _ _ G1'), E1, vw_app.
  pose proof (vw_upd K _ _ _ None G) as U1. cbn [ovw] in *.
  assert (P : pw K p' = pw K p) by reflexivity.
  pose proof (rsw_upd0 K (regs s) r0 (RStrong (length (heap_of s))) eq_refl) as U.
  split; [|split; [intros _; lia|apply keeps_self_refl]].
  intros B. apply vb_app; [apply vb_upd; [exact B|exact I]|].
  cbn [obnd]. subst p'. cbn [slots]. eapply vb_nth; eauto.
Qed.

(** the effect of one script action on the measure: it may add at most
    [8 + 4 * M] (frames pushed plus one new object) *)
Lemma exec_act_mu K M s self a s1 self1 r push :
  4 <= M ->
  exec_act s self a = AO s1 self1 r push -> act_ok K M s self s1 self1 push.
Proof.
  intros HM H.
  destruct a;
    first [ eapply act_new; eassumption | eapply act_drop; eassumption
          | eapply act_store; eassumption | eapply act_take; eassumption
          | eapply act_try_unwrap; eassumption | eapply act_make_mut; eassumption
          | idtac ].
  all: cbn [exec_act] in H; unfold lift, invalid in H.
  all: repeat dm H; try discriminate H; inv_AO H; simple_fin.
Qed.

(** ** Unwinding *)
Lemma leak_all_state keys : forall s,
  heap_of (fold_left (fun s x => add_ev s (EvLeak x)) keys s) = heap_of s /\
  regs (fold_left (fun s x => add_ev s (EvLeak x)) keys s) = regs s.
Proof.
  induction keys as [|x keys IH]; intros s; cbn [fold_left]; [auto|].
  destruct (IH (add_ev s (EvLeak x))) as [H1 H2]. rewrite H1, H2. auto.
Qed.

(** a panic never adds work: pending scripts are abandoned, their fields are
    still dropped, obligations that are skipped are leaked *)
Lemma unwind_stack_mu K s k : forall s1 k1,
  unwind_stack s k = (s1, k1) ->
  heap_of s1 = heap_of s /\ regs s1 = regs s /\ kw K k1 <= kw K k.
Proof.
  induction k as [|f k IH]; intros s1 k1; cbn [unwind_stack].
  - intros H; injection H as <- <-. auto.
  - destruct (unwind_stack s k) as [s' k'] eqn:E. destruct (IH _ _ eq_refl) as (H1 & H2 & H3).
    destruct f; intros H; injection H as <- <-; cbn [kw fw heap_of regs add_ev mk];
      try (split; [exact H1|split; [exact H2|lia]]).
    destruct (leak_all_state keys s') as [L1 L2]. rewrite L1, L2.
    split; [exact H1|split; [exact H2|lia]].
Qed.

(** ** One step *)

(** Every step of the machine strictly decreases the measure, provided one
    script action is priced high enough ([K]) for the bound [M] on the slot
    vectors in the heap; that bound is preserved. *)
Theorem step_decreases pri K M c c' :
  4 <= M -> 10 + 4 * M <= K -> hb M (heap_of (st c)) ->
  step pri c = Running c' ->
  hb M (heap_of (st c')) /\ mu K c' < mu K c.
Proof.
  intros HM HK B. destruct c as [s k u]. unfold step, mu. cbn [st stack unw] in *.
  destruct k as [|f k]; [discriminate|]. destruct f as [o|p|p pc|ss|o|es|o|keys|r0].
  - (* FDropStrong *)
    destruct (drop_strong pri s o) as [[s1 push]|] eqn:E; [|discriminate].
    intros H; injection H as <-. cbn [st stack].
    apply (drop_strong_mu pri K M) in E as (E1 & E2 & E3).
    unfold sw. rewrite kw_app, E2. cbn [kw fw]. split; [auto|lia].
  - (* FDtorStart *)
    intros H; injection H as <-. cbn [st stack kw fw heap_of add_ev mk].
    unfold sw, pw. cbn [heap_of regs add_ev mk]. split; [exact B|lia].
  - (* FRunDtor *)
    destruct pc as [|a pc].
    + intros H; injection H as <-. cbn [st stack kw fw]. split; [exact B|lia].
    + destruct (exec_act s (Some p) a) as [s1 self r push| |] eqn:E; [|discriminate|].
      * intros H; injection H as <-. cbn [st stack].
        apply (exec_act_mu K M) in E; [|exact HM]. destruct E as (E1 & E2 & E3).
        specialize (E1 B). specialize (E2 B). destruct (E3 p eq_refl) as (q & -> & Hq).
        rewrite kw_app. cbn [kw fw length]. rewrite Hq. split; [exact E1|lia].
      * destruct u; [discriminate|].
        destruct (unwind_stack s k) as [s1 k1] eqn:EU. intros H; injection H as <-.
        apply (unwind_stack_mu K) in EU as (E1 & E2 & E3). cbn [st stack kw fw length].
        unfold sw. rewrite E1, E2. split; [exact B|lia].
  - (* FDropSlots *)
    destruct ss as [|sl ss].
    + intros H; injection H as <-. cbn [st stack kw fw]. split; [exact B|lia].
    + destruct sl as [o|w|].
      * intros H; injection H as <-. cbn [st stack kw fw length]. split; [exact B|lia].
      * destruct (weak_drop (heap_of s) w) as [h1|] eqn:E; [|discriminate].
        intros H; injection H as <-. apply weak_drop_vals in E.
        cbn [st stack kw fw length]. unfold sw, hw, hb in *. cbn [heap_of regs set_heap mk].
        rewrite E. split; [exact B|lia].
      * intros H; injection H as <-. cbn [st stack kw fw length]. split; [exact B|lia].
  - (* FAfterValue *)
    destruct (getb (heap_of s) o) as [b|] eqn:G; [|discriminate].
    destruct (links b) as [t|]; [|discriminate].
    destruct (dec_weak_free (setb (heap_of s) o (with_links b None)) o) as [h2|] eqn:E; [|discriminate].
    intros H; injection H as <-. apply dec_weak_free_vals in E.
    rewrite (setb_vals _ _ _ (with_links b None) G eq_refl) in E.
    cbn [st stack kw fw]. unfold sw, hw, hb in *. cbn [heap_of regs set_heap add_ev mk].
    rewrite E. split; [exact B|lia].
  - (* FInners *)
    destruct es as [|[[o v] t] es].
    + intros H; injection H as <-. cbn [st stack kw fw]. split; [exact B|lia].
    + intros H; injection H as <-. cbn [st stack kw fw iw]. split; [exact B|lia].
  - (* FTableDrop *)
    intros H; injection H as <-. cbn [st stack kw fw]. unfold sw. cbn [heap_of regs add_ev mk].
    split; [exact B|lia].
  - (* FFinishGroup *)
    destruct (finish_group (heap_of s) keys) as [h1|] eqn:E; [|discriminate].
    intros H; injection H as <-. apply finish_group_vals in E.
    cbn [st stack kw fw]. unfold sw, hw, hb in *. cbn [heap_of regs set_heap mk].
    rewrite E. split; [exact B|lia].
  - (* FRes *)
    intros H; injection H as <-. cbn [st stack kw fw]. unfold sw. cbn [heap_of regs add_ev mk].
    split; [exact B|lia].
Qed.

(** ** Running *)
Definition stopped (o : outcome) : Prop :=
  match o with Running _ => False | _ => True end.

Lemma run_bounded pri K M :
  4 <= M -> 10 + 4 * M <= K ->
  forall n c, hb M (heap_of (st c)) -> mu K c < n -> stopped (run pri n c).
Proof.
  intros HM HK. induction n as [|n IH]; intros c B Hn; [lia|].
  cbn [run]. destruct (step pri c) as [c'| |] eqn:E; cbn [stopped]; auto.
  destruct (step_decreases pri K M c c' HM HK B E) as [B' Hlt].
  apply IH; [exact B'|lia].
Qed.

(** the longest slot vector among the values in the heap *)
Fixpoint hmax (h : heap) : nat :=
  match h with
  | [] => 0
  | b :: h' =>
      Nat.max (match value b with Some p => length (slots p) | None => 0 end) (hmax h')
  end.

Lemma hb_mono M M' h : M <= M' -> hb M h -> hb M' h.
Proof.
  intros HM. unfold hb. apply Forall_impl. intros [p|]; cbn [obnd]; [lia|auto].
Qed.

Lemma hb_hmax h : hb (hmax h) h.
Proof.
  induction h as [|b h IH]; unfold hb; cbn [vals map hmax]; constructor.
  - destruct (value b) as [p|]; cbn [obnd]; [lia|exact I].
  - apply (hb_mono (hmax h)); [lia|exact IH].
Qed.

Definition slot_bound (c : config) : nat := Nat.max NSLOTS (hmax (heap_of (st c))).

(** what one script action is charged *)
Definition action_price (c : config) : nat := 10 + 4 * slot_bound c.

(** an explicit number of steps after which [c] has stopped *)
Definition fuel_bound (c : config) : nat := S (mu (action_price c) c).

(** Collection is synchronous: from any configuration — any heap, any
    registers, any pending stack, any destructor scripts — the machine stops
    (returns, panics out, or hits a checked fault / abort) within
    [fuel_bound c] steps.  In Rust terms: no [Rc::drop], no cycle teardown and
    no user [Drop] impl built from the modelled API can make a call diverge. *)
Theorem run_fuel_bound pri c : stopped (run pri (fuel_bound c) c).
Proof.
  unfold fuel_bound, action_price.
  apply (run_bounded pri (10 + 4 * slot_bound c) (slot_bound c)); unfold slot_bound, NSLOTS; try lia.
  apply (hb_mono (hmax (heap_of (st c)))); [lia|apply hb_hmax].
Qed.

Theorem run_terminates : forall pri c,
  exists fuel, match run pri fuel c with Running _ => False | _ => True end.
Proof. intros pri c. exists (fuel_bound c). exact (run_fuel_bound pri c). Qed.

(** ** Fuel monotonicity: the outcome does not depend on the fuel once it
    suffices *)
Lemma run_mono pri n m : forall c,
  stopped (run pri n c) -> run pri (n + m) c = run pri n c.
Proof.
  induction n as [|n IH]; intros c H; cbn [run] in *; [contradiction|].
  cbn [Nat.add run]. destruct (step pri c) as [c'| |]; auto.
Qed.

Corollary run_fuel_irrelevant pri n m c :
  stopped (run pri n c) -> stopped (run pri m c) -> run pri n c = run pri m c.
Proof.
  intros Hn Hm. destruct (Nat.le_ge_cases n m) as [L|L].
  - replace m with (n + (m - n)) by lia. symmetry. apply run_mono. exact Hn.
  - replace n with (m + (n - m)) by lia. apply run_mono. exact Hm.
Qed.

Corollary run_enough pri n c :
  fuel_bound c <= n -> run pri n c = run pri (fuel_bound c) c.
Proof.
  intros L. replace n with (fuel_bound c + (n - fuel_bound c)) by lia.
  apply run_mono. apply run_fuel_bound.
Qed.

(** ** Top-level calls *)

(** the configuration a call starts from, if it gets that far *)
Definition op_start (s : state) (o : op) : option config :=
  match (match o with
         | OAct a => exec_act s None a
         | ONewS dst sc => exec_new s None dst sc
         end) with
  | AO s1 _ _ push => Some {| st := s1; stack := push; unw := false |}
  | _ => None
  end.

Definition op_fuel (s : state) (o : op) : nat :=
  match op_start s o with Some c => fuel_bound c | None => 0 end.

Lemma exec_op_fuel_iff pri fuel s o :
  snd (exec_op pri fuel s o) <> OFuel <->
  match op_start s o with Some c => stopped (run pri fuel c) | None => True end.
Proof.
  unfold exec_op, op_start.
  destruct (match o with
            | OAct a => exec_act s None a
            | ONewS dst sc => exec_new s None dst sc
            end) as [s1 self r push|e|]; cbn [snd]; [|split; [auto|discriminate]..].
  destruct (run pri fuel {| st := s1; stack := push; unw := false |}) as [c|s2 b|s2 e];
    cbn [snd stopped].
  - split; [congruence|contradiction].
  - destruct b; cbn [snd]; split; auto; discriminate.
  - split; [auto|discriminate].
Qed.

(** Every API call returns: with [op_fuel s o] steps (or more) the call
    [o] issued in state [s] does not run out of fuel. *)
Theorem exec_op_fuel_enough pri s o fuel :
  op_fuel s o <= fuel -> snd (exec_op pri fuel s o) <> OFuel.
Proof.
  intros L. apply exec_op_fuel_iff. unfold op_fuel in L.
  destruct (op_start s o) as [c|]; [|exact I].
  rewrite (run_enough pri fuel c L). apply run_fuel_bound.
Qed.

Theorem exec_op_returns : forall pri s o, exists fuel, snd (exec_op pri fuel s o) <> OFuel.
Proof. intros pri s o. exists (op_fuel s o). apply exec_op_fuel_enough. lia. Qed.

(** The result of a call (final state and outcome) is the same for any two
    amounts of fuel that suffice. *)
Theorem exec_op_fuel_irrelevant pri n m s o :
  snd (exec_op pri n s o) <> OFuel -> snd (exec_op pri m s o) <> OFuel ->
  exec_op pri n s o = exec_op pri m s o.
Proof.
  intros Hn Hm. apply exec_op_fuel_iff in Hn, Hm. unfold exec_op, op_start in *.
  destruct (match o with
            | OAct a => exec_act s None a
            | ONewS dst sc => exec_new s None dst sc
            end) as [s1 self r push|e|]; auto.
  rewrite (run_fuel_irrelevant pri n m _ Hn Hm). reflexivity.
Qed.

Corollary exec_op_mono pri n m s o :
  snd (exec_op pri n s o) <> OFuel -> n <= m -> exec_op pri m s o = exec_op pri n s o.
Proof.
  intros Hn L. assert (Hn' := Hn). apply exec_op_fuel_iff in Hn'.
  unfold exec_op, op_start in *.
  destruct (match o with
            | OAct a => exec_act s None a
            | ONewS dst sc => exec_new s None dst sc
            end) as [s1 self r push|e|]; auto.
  replace m with (n + (m - n)) by lia. rewrite (run_mono pri n (m - n) _ Hn'). reflexivity.
Qed.

(** ** A closed form for the bound

    Three sizes of a configuration: [script_total] — the number of script
    actions that remain to be run, over all values wherever they live (heap,
    loose registers, frames); [slot_total] — the number of slots of all these
    values (plus the slot vectors already being dropped); [item_total] — the
    number of values plus the number of frames. *)
Definition osl (v : option payload) : nat :=
  match v with Some p => length (script p) | None => 0 end.
Definition onl (v : option payload) : nat :=
  match v with Some p => length (slots p) | None => 0 end.
Definition ocn (v : option payload) : nat :=
  match v with Some _ => 1 | None => 0 end.

Fixpoint vsum (g : option payload -> nat) (vs : list (option payload)) : nat :=
  match vs with [] => 0 | v :: vs' => g v + vsum g vs' end.

Definition reg_val (r : reg) : option payload :=
  match r with RLoose p => Some p | _ => None end.

Fixpoint isum (g : option payload -> nat) (es : list inner) : nat :=
  match es with [] => 0 | (_, v, _) :: es' => g (Some v) + isum g es' end.

Definition fscripts (f : frame) : nat :=
  match f with
  | FDtorStart p => length (script p)
  | FRunDtor _ pc => length pc
  | FInners es => isum osl es
  | _ => 0
  end.

Definition fslots (f : frame) : nat :=
  match f with
  | FDtorStart p | FRunDtor p _ => length (slots p)
  | FDropSlots ss => length ss
  | FInners es => isum onl es
  | _ => 0
  end.

Definition fitems (f : frame) : nat :=
  match f with FInners es => 1 + isum ocn es | _ => 1 end.

Fixpoint ksum (g : frame -> nat) (k : list frame) : nat :=
  match k with [] => 0 | f :: k' => g f + ksum g k' end.

Definition total (gv : option payload -> nat) (gf : frame -> nat) (c : config) : nat :=
  vsum gv (vals (heap_of (st c))) + vsum gv (map reg_val (regs (st c))) + ksum gf (stack c).

Definition script_total : config -> nat := total osl fscripts.
Definition slot_total : config -> nat := total onl fslots.
Definition item_total : config -> nat := total ocn fitems.

Lemma vw_le K vs : vw K vs <= K * vsum osl vs + 4 * vsum onl vs + 5 * vsum ocn vs.
Proof.
  induction vs as [|[p|] vs IH]; cbn [vw vsum ovw osl onl ocn]; unfold pw; lia.
Qed.

Lemma rsw_le K rs :
  rsw K rs <= K * vsum osl (map reg_val rs) + 4 * vsum onl (map reg_val rs)
              + 5 * vsum ocn (map reg_val rs).
Proof.
  induction rs as [|r rs IH]; cbn [rsw map vsum]; [lia|].
  destruct r as [o|w|o|p|]; cbn [rw reg_val osl onl ocn]; unfold pw; lia.
Qed.

Lemma iw_le K es : iw K es <= K * isum osl es + 4 * isum onl es + 5 * isum ocn es.
Proof.
  induction es as [|[[o v] t] es IH]; cbn [iw isum osl onl ocn]; unfold pw; lia.
Qed.

Lemma kw_le K k : kw K k <= K * ksum fscripts k + 4 * ksum fslots k + 5 * ksum fitems k.
Proof.
  induction k as [|f k IH]; cbn [kw ksum]; [lia|].
  destruct f as [o|p|p pc|ss|o|es|o|keys|r0]; cbn [fw fscripts fslots fitems]; unfold pw;
    try lia.
  pose proof (iw_le K es). lia.
Qed.

Lemma mu_le K c : mu K c <= K * script_total c + 4 * slot_total c + 5 * item_total c.
Proof.
  unfold mu, sw, hw, script_total, slot_total, item_total, total.
  pose proof (vw_le K (vals (heap_of (st c)))). pose proof (rsw_le K (regs (st c))).
  pose proof (kw_le K (stack c)). lia.
Qed.

Lemma hmax_le h : hmax h <= vsum onl (vals h).
Proof.
  induction h as [|b h IH]; cbn [hmax vals map vsum]; [lia|].
  fold (vals h). unfold onl at 1. lia.
Qed.

(** Closed form: the number of steps of a run is at most linear in the number
    of slots and items, plus, for each remaining script action, a price that is
    linear in the longest slot vector in the heap.  Without destructor scripts
    ([script_total c = 0]) the bound is linear in the size of the
    configuration. *)
Theorem fuel_bound_closed c :
  fuel_bound c <=
  1 + (10 + 4 * Nat.max 4 (hmax (heap_of (st c)))) * script_total c
    + 4 * slot_total c + 5 * item_total c.
Proof.
  unfold fuel_bound. pose proof (mu_le (action_price c) c) as H.
  unfold action_price, slot_bound, NSLOTS in *. lia.
Qed.

Corollary fuel_bound_crude c :
  fuel_bound c <=
  1 + (26 + 4 * slot_total c) * script_total c + 4 * slot_total c + 5 * item_total c.
Proof.
  pose proof (fuel_bound_closed c) as H.
  assert (L : hmax (heap_of (st c)) <= slot_total c).
  { unfold slot_total, total. pose proof (hmax_le (heap_of (st c))). lia. }
  assert (L' : Nat.max 4 (hmax (heap_of (st c))) <= 4 + slot_total c) by lia.
  assert (10 + 4 * Nat.max 4 (hmax (heap_of (st c))) <= 26 + 4 * slot_total c) as L2 by lia.
  pose proof (Nat.mul_le_mono_r _ _ (script_total c) L2). lia.
Qed.

Theorem run_closed_bound pri c n :
  1 + (26 + 4 * slot_total c) * script_total c + 4 * slot_total c + 5 * item_total c <= n ->
  stopped (run pri n c).
Proof.
  intros L. rewrite run_enough; [apply run_fuel_bound|].
  pose proof (fuel_bound_crude c). lia.
Qed.

Print Assumptions step_decreases.
Print Assumptions run_fuel_bound.
Print Assumptions run_terminates.
Print Assumptions run_mono.
Print Assumptions run_fuel_irrelevant.
Print Assumptions exec_op_returns.
Print Assumptions exec_op_fuel_enough.
Print Assumptions exec_op_fuel_irrelevant.
Print Assumptions exec_op_mono.
Print Assumptions fuel_bound_closed.
Print Assumptions run_closed_bound.
