(** * Base: identifiers, link tables (link.rs), boxes and the checked heap.

    Executable definitions only; facts about them live in Proofs/. *)
From Coq Require Export List NArith Bool Arith Lia.
Export ListNotations.

Definition oid := nat.                        (* allocation identity, never reused *)

(** ** link.rs: [Kind], [Link], [Links] *)
Inductive kind := Fwd | Bwd | Loop.

Definition kind_eqb (a b : kind) : bool :=
  match a, b with
  | Fwd, Fwd | Bwd, Bwd | Loop, Loop => true
  | _, _ => false
  end.

Definition link := (oid * kind)%type.

Definition link_eqb (a b : link) : bool :=
  Nat.eqb (fst a) (fst b) && kind_eqb (snd a) (snd b).

(** The registry [HashMap<Link, usize>] as an association list. The order of
    the list stands for the iteration order of the hash map. *)
Definition table := list (link * N).

Fixpoint tbl_get (t : table) (l : link) : N :=
  match t with
  | [] => 0%N
  | (l', c) :: t' => if link_eqb l l' then c else tbl_get t' l
  end.

(** replace the count of an existing key, or append a new entry *)
Fixpoint tbl_set (t : table) (l : link) (c : N) : table :=
  match t with
  | [] => [(l, c)]
  | (l', c') :: t' =>
      if link_eqb l l' then (l', c) :: t' else (l', c') :: tbl_set t' l c
  end.

Fixpoint tbl_del (t : table) (l : link) : table :=
  match t with
  | [] => []
  | (l', c') :: t' => if link_eqb l l' then t' else (l', c') :: tbl_del t' l
  end.

(** [Links::insert]: [*entry(other).or_insert(0) += 1] *)
Definition tbl_insert (t : table) (l : link) : table :=
  tbl_set t l (tbl_get t l + 1)%N.

(** [Links::remove]: [count.checked_sub(strong).and_then(NonZeroUsize::new)] *)
Definition tbl_remove (t : table) (l : link) (n : N) : table :=
  let c := tbl_get t l in
  if (n <? c)%N then tbl_set t l (c - n)%N else tbl_del t l.

(** ** Lists as arrays *)
Fixpoint upd {A} (l : list A) (i : nat) (x : A) : list A :=
  match l, i with
  | [], _ => []
  | _ :: t, O => x :: t
  | h :: t, S i' => h :: upd t i' x
  end.

Fixpoint memb (x : nat) (l : list nat) : bool :=
  match l with
  | [] => false
  | y :: l' => Nat.eqb x y || memb x l'
  end.

(** ** Actions: the history language (DESIGN 3.2) *)
Inductive oref := OReg (r : nat) | OSelf.
Inductive href := HReg (r : nat) | HSlot (w : oref) (k : nat).

Inductive act :=
| ANew (dst : nat)
| AClone (h : href) (dst : nat)
| ADrop (r : nat)
| ADowngrade (h : href) (dst : nat)
| AUpgrade (w : href) (dst : nat)
| ACloneWeak (w : href) (dst : nat)
| AWeakNew (dst : nat)
| AStore (src : nat) (w : oref) (k : nat)
| ATake (w : oref) (k : nat) (dst : nat)
| AAdopt (h1 h2 : href)
| AUnadopt (h1 h2 : href)
| ATryUnwrap (r dst : nat)
| AGetMut (r : nat)
| AMakeMut (r : nat)
| AIntoRaw (r : nat)
| AFromRaw (r : nat)
| AIncStrong (r dst : nat)
| ADecStrong (r : nat)
| APtrEq (h1 h2 : href)
| AStrongCount (h : href)
| AWeakCount (h : href)
| AWStrongCount (w : href)
| AWWeakCount (w : href)
| ADeref (h : href)
| APanic.

Inductive op :=
| OAct (a : act)
| ONewS (dst : nat) (script : list act).

(** ** Boxes *)
Inductive scount := Cnt (n : N) | Uninit.    (* usize counter | usize::MAX marker *)

Inductive slot := SStrong (o : oid) | SWeak (w : option oid) | SEmpty.

Record payload := { pid : nat; slots : list slot; script : list act }.

Record box := {
  strong : scount;
  weak : N;
  links : option table;      (* None = moved out of the RcBox *)
  talloc : bool;             (* the table's heap storage has been allocated *)
  value : option payload;    (* None = moved out of the RcBox *)
  freed : bool               (* the RcBox allocation has been released *)
}.

Definition with_strong (b : box) (s : scount) : box :=
  {| strong := s; weak := weak b; links := links b; talloc := talloc b;
     value := value b; freed := freed b |}.
Definition with_weak (b : box) (w : N) : box :=
  {| strong := strong b; weak := w; links := links b; talloc := talloc b;
     value := value b; freed := freed b |}.
Definition with_links (b : box) (l : option table) : box :=
  {| strong := strong b; weak := weak b; links := l; talloc := talloc b;
     value := value b; freed := freed b |}.
Definition with_talloc (b : box) (a : bool) : box :=
  {| strong := strong b; weak := weak b; links := links b; talloc := a;
     value := value b; freed := freed b |}.
Definition with_value (b : box) (v : option payload) : box :=
  {| strong := strong b; weak := weak b; links := links b; talloc := talloc b;
     value := v; freed := freed b |}.
Definition with_freed (b : box) (f : bool) : box :=
  {| strong := strong b; weak := weak b; links := links b; talloc := talloc b;
     value := value b; freed := f |}.

Definition is_uninit (s : scount) : bool :=
  match s with Uninit => true | Cnt _ => false end.

(** [RcInnerPtr::is_dead]: [strong == 0 || strong == usize::MAX] *)
Definition is_dead (s : scount) : bool :=
  match s with Uninit => true | Cnt n => (n =? 0)%N end.

(** ** Checked memory: every access to a box goes through [getb] *)
Inductive fkind :=
| FkNoBox         (* handle to an allocation that never existed (impossible) *)
| FkFreed         (* access to a released RcBox *)
| FkTableMoved    (* links() on a moved-out table *)
| FkValueMoved    (* value read after it was moved out *)
| FkUnderflow     (* counter decremented below zero *)
| FkFuel.         (* the trace ran out of fuel (proved impossible) *)

Inductive halt := HFault (k : fkind) (o : oid) | HAbort.

Inductive R (A : Type) := Ok (a : A) | Bad (h : halt).
Arguments Ok {A} a.
Arguments Bad {A} h.

Definition bind {A B} (x : R A) (f : A -> R B) : R B :=
  match x with Ok a => f a | Bad h => Bad h end.

Notation "'let*' x ':=' e 'in' f" := (bind e (fun x => f))
  (at level 200, x pattern, e at level 100, f at level 200, right associativity).

Definition heap := list box.

Definition getb (h : heap) (o : oid) : R box :=
  match nth_error h o with
  | None => Bad (HFault FkNoBox o)
  | Some b => if freed b then Bad (HFault FkFreed o) else Ok b
  end.

Definition setb (h : heap) (o : oid) (b : box) : heap := upd h o b.

(** [RcBox::links()] then [borrow()] *)
Definition get_links (h : heap) (o : oid) : R table :=
  let* b := getb h o in
  match links b with
  | Some t => Ok t
  | None => Bad (HFault FkTableMoved o)
  end.

Definition set_links (h : heap) (o : oid) (t : table) : R heap :=
  let* b := getb h o in Ok (setb h o (with_links b (Some t))).
