(** * Machine: everything during which user code (value destructors) can run,
    as a small-step machine with an explicit continuation stack (DESIGN 3.3,
    Appendix B), and the interpretation of the history language. *)
From CR Require Import Base Atomic.

Definition NSLOTS : nat := 4.
Definition NREGS : nat := 8.

(** ** Program-held handles *)
Inductive reg :=
| RStrong (o : oid)
| RWeak (w : option oid)
| RRaw (o : oid)                 (* result of into_raw: owns one strong count *)
| RLoose (p : payload)           (* value returned by try_unwrap *)
| REmpty.

Inductive result :=
| RUnit
| RInvalid                       (* the call is not enabled; nothing happened *)
| RBool (b : bool)
| RNat (n : N)
| RCnt (c : scount)
| RNone
| RSome
| RErr.

Inductive event :=
| EvDtor (p : nat)               (* destructor of payload [p] starts *)
| EvTableDropped (o : oid)       (* heap storage of [o]'s table released *)
| EvFreed (o : oid)
| EvTrace (o : oid) (pops visits : N)
| EvGroup (keys : list oid)      (* drop_cycle on these members, in order *)
| EvLeak (o : oid)               (* finish obligation skipped by unwinding *)
| EvRes (r : result).            (* result of a script action *)

Record state := {
  heap_of : heap;
  regs : list reg;
  log : list event                (* newest first *)
}.

Definition mk (h : heap) (r : list reg) (l : list event) : state :=
  {| heap_of := h; regs := r; log := l |}.
Definition set_heap (s : state) (h : heap) : state := mk h (regs s) (log s).
Definition set_reg (s : state) (r : nat) (x : reg) : state :=
  mk (heap_of s) (upd (regs s) r x) (log s).
Definition add_ev (s : state) (e : event) : state :=
  mk (heap_of s) (regs s) (e :: log s).

Definition init_state : state := mk [] (repeat REmpty NREGS) [].

(** ** Frames *)
Inductive frame :=
| FDropStrong (o : oid)                      (* Rc::drop of one handle to o *)
| FDtorStart (p : payload)                   (* Drop for Node begins *)
| FRunDtor (p : payload) (pc : list act)     (* script in progress *)
| FDropSlots (ss : list slot)                (* field drop glue *)
| FAfterValue (o : oid)                      (* rest of drop_unreachable* *)
| FInners (es : list inner)                  (* drop(inners) *)
| FTableDrop (o : oid)                       (* second field of an inners tuple *)
| FFinishGroup (keys : list oid)             (* phase three of drop_cycle *)
| FRes (r : result).                         (* a script action returns: its result is logged *)

(** ** Resolving handle references *)
Definition reg_get (s : state) (r : nat) : reg := nth r (regs s) REmpty.

Definition reg_free (s : state) (r : nat) : bool :=
  Nat.ltb r (length (regs s)) &&
  match reg_get s r with REmpty => true | _ => false end.

(** where a handle object lives; used for [ptr::eq(this, other)] *)
Inductive hloc := LReg (r : nat) | LObj (o : oid) (k : nat) | LSelf (k : nat).

Definition hloc_eqb (a b : hloc) : bool :=
  match a, b with
  | LReg r, LReg r' => Nat.eqb r r'
  | LObj o k, LObj o' k' => Nat.eqb o o' && Nat.eqb k k'
  | LSelf k, LSelf k' => Nat.eqb k k'
  | _, _ => false
  end.

Inductive owner := WBox (o : oid) (p : payload) | WSelf (p : payload).

(** the object whose slots are addressed: a live object through a strong
    handle in a register, or the value whose destructor is running *)
Definition resolve_owner (s : state) (self : option payload) (w : oref) : option owner :=
  match w with
  | OSelf => match self with Some p => Some (WSelf p) | None => None end
  | OReg r =>
      match reg_get s r with
      | RStrong o =>
          match nth_error (heap_of s) o with
          | Some b => match value b with Some p => Some (WBox o p) | None => None end
          | None => None
          end
      | _ => None
      end
  end.

Definition owner_payload (w : owner) : payload :=
  match w with WBox _ p => p | WSelf p => p end.

Definition owner_loc (w : owner) (k : nat) : hloc :=
  match w with WBox o _ => LObj o k | WSelf _ => LSelf k end.

Definition resolve_slot (s : state) (self : option payload) (w : oref) (k : nat)
  : option (owner * slot) :=
  match resolve_owner s self w with
  | None => None
  | Some ow =>
      match nth_error (slots (owner_payload ow)) k with
      | Some sl => Some (ow, sl)
      | None => None
      end
  end.

Definition resolve_strong (s : state) (self : option payload) (h : href) : option (oid * hloc) :=
  match h with
  | HReg r => match reg_get s r with RStrong o => Some (o, LReg r) | _ => None end
  | HSlot w k =>
      match resolve_slot s self w k with
      | Some (ow, SStrong o) => Some (o, owner_loc ow k)
      | _ => None
      end
  end.

Definition resolve_weak (s : state) (self : option payload) (h : href) : option (option oid) :=
  match h with
  | HReg r => match reg_get s r with RWeak w => Some w | _ => None end
  | HSlot w k =>
      match resolve_slot s self w k with
      | Some (_, SWeak t) => Some t
      | _ => None
      end
  end.

Definition set_payload_slot (p : payload) (k : nat) (sl : slot) : payload :=
  {| pid := pid p; slots := upd (slots p) k sl; script := script p |}.

(** write slot [k] of the addressed object *)
Definition write_slot (s : state) (self : option payload) (ow : owner) (k : nat) (sl : slot)
  : state * option payload :=
  match ow with
  | WSelf p => (s, Some (set_payload_slot p k sl))
  | WBox o p =>
      match nth_error (heap_of s) o with
      | Some b => (set_heap s (setb (heap_of s) o (with_value b (Some (set_payload_slot p k sl)))), self)
      | None => (s, self)
      end
  end.

(** ** Executing one action atomically *)
Inductive aout :=
| AO (s : state) (self : option payload) (r : result) (push : list frame)
| AHalt (h : halt)
| APanicOut.

Definition lift (s : state) (self : option payload) (x : R heap)
           (k : state -> aout) : aout :=
  match x with
  | Ok h => k (set_heap s h)
  | Bad e => AHalt e
  end.

Definition invalid (s : state) (self : option payload) : aout := AO s self RInvalid [].

Definition new_box (p : payload) : box :=
  {| strong := Cnt 1; weak := 1; links := Some []; talloc := false;
     value := Some p; freed := false |}.

Definition empty_slots : list slot := repeat SEmpty NSLOTS.

(** [Clone for Node]: clone every handle in slot order *)
Fixpoint clone_slots (h : heap) (ss : list slot) : R heap :=
  match ss with
  | [] => Ok h
  | SStrong o :: ss' => let* h1 := inc_strong h o in clone_slots h1 ss'
  | SWeak (Some o) :: ss' => let* h1 := inc_weak h o in clone_slots h1 ss'
  | _ :: ss' => clone_slots h ss'
  end.

(** [Clone for Node] chooses what to copy: a node whose last slot holds a
    dangling Weak ([Weak::new()]) clones to a DETACHED node (no handle is
    copied); every other node clones all its handles. Both kinds of [Clone]
    impl occur in practice; only the detached one lets [make_mut] release the
    last outside handle of an adoption group. *)
Definition clone_detached (ss : list slot) : bool :=
  match nth_error ss (NSLOTS - 1) with Some (SWeak None) => true | _ => false end.

Definition cloned_slots (ss : list slot) : list slot :=
  if clone_detached ss then empty_slots else ss.

Definition slot_of_reg (x : reg) : option slot :=
  match x with
  | RStrong o => Some (SStrong o)
  | RWeak w => Some (SWeak w)
  | _ => None
  end.

Definition reg_of_slot (x : slot) : option reg :=
  match x with
  | SStrong o => Some (RStrong o)
  | SWeak w => Some (RWeak w)
  | SEmpty => None
  end.

Definition exec_new (s : state) (self : option payload) (dst : nat) (sc : list act) : aout :=
  if reg_free s dst then
    let o := length (heap_of s) in
    let p := {| pid := o; slots := empty_slots; script := sc |} in
    AO (set_reg (set_heap s (heap_of s ++ [new_box p])) dst (RStrong o)) self RUnit []
  else invalid s self.

Definition exec_act (s : state) (self : option payload) (a : act) : aout :=
  let h := heap_of s in
  match a with
  | ANew dst => exec_new s self dst []
  | AClone hr dst =>
      match resolve_strong s self hr with
      | Some (o, _) =>
          if reg_free s dst then
            lift s self (inc_strong h o) (fun s1 => AO (set_reg s1 dst (RStrong o)) self RUnit [])
          else invalid s self
      | None => invalid s self
      end
  | ADrop r =>
      match reg_get s r with
      | RStrong o => AO (set_reg s r REmpty) self RUnit [FDropStrong o]
      | RWeak w => lift s self (weak_drop h w) (fun s1 => AO (set_reg s1 r REmpty) self RUnit [])
      | RLoose p => AO (set_reg s r REmpty) self RUnit [FDtorStart p]
      | _ => invalid s self
      end
  | ADowngrade hr dst =>
      match resolve_strong s self hr with
      | Some (o, _) =>
          if reg_free s dst then
            lift s self (inc_weak h o) (fun s1 => AO (set_reg s1 dst (RWeak (Some o))) self RUnit [])
          else invalid s self
      | None => invalid s self
      end
  | AUpgrade wr dst =>
      match resolve_weak s self wr with
      | Some w =>
          if reg_free s dst then
            match w with
            | None => AO s self RNone []
            | Some o =>
                match getb h o with
                | Bad e => AHalt e
                | Ok b =>
                    if is_dead (strong b) then AO s self RNone []
                    else lift s self (inc_strong h o)
                           (fun s1 => AO (set_reg s1 dst (RStrong o)) self RSome [])
                end
            end
          else invalid s self
      | None => invalid s self
      end
  | ACloneWeak wr dst =>
      match resolve_weak s self wr with
      | Some w =>
          if reg_free s dst then
            match w with
            | None => AO (set_reg s dst (RWeak None)) self RUnit []
            | Some o => lift s self (inc_weak h o)
                          (fun s1 => AO (set_reg s1 dst (RWeak (Some o))) self RUnit [])
            end
          else invalid s self
      | None => invalid s self
      end
  | AWeakNew dst =>
      if reg_free s dst then AO (set_reg s dst (RWeak None)) self RUnit []
      else invalid s self
  | AStore src w k =>
      match slot_of_reg (reg_get s src), resolve_slot s self w k with
      | Some sl, Some (ow, SEmpty) =>
          let '(s1, self1) := write_slot (set_reg s src REmpty) self ow k sl in
          AO s1 self1 RUnit []
      | _, _ => invalid s self
      end
  | ATake w k dst =>
      match resolve_slot s self w k with
      | Some (ow, sl) =>
          match reg_of_slot sl with
          | Some x =>
              if reg_free s dst then
                let '(s1, self1) := write_slot s self ow k SEmpty in
                AO (set_reg s1 dst x) self1 RUnit []
              else invalid s self
          | None => invalid s self
          end
      | None => invalid s self
      end
  | AAdopt h1 h2 =>
      match resolve_strong s self h1, resolve_strong s self h2 with
      | Some (a, l1), Some (b, l2) =>
          lift s self (adopt h (hloc_eqb l1 l2) a b) (fun s1 => AO s1 self RUnit [])
      | _, _ => invalid s self
      end
  | AUnadopt h1 h2 =>
      match resolve_strong s self h1, resolve_strong s self h2 with
      | Some (a, l1), Some (b, l2) =>
          lift s self (unadopt h (hloc_eqb l1 l2) a b) (fun s1 => AO s1 self RUnit [])
      | _, _ => invalid s self
      end
  | ATryUnwrap r dst =>
      match reg_get s r with
      | RStrong o =>
          if reg_free s dst then
            match getb h o with
            | Bad e => AHalt e
            | Ok b =>
                match strong b with
                | Cnt 1%N =>
                    lift s self (release_links h o) (fun s1 =>
                    match getb (heap_of s1) o with
                    | Bad e => AHalt e
                    | Ok b1 =>
                        match value b1 with
                        | None => AHalt (HFault FkValueMoved o)
                        | Some p =>
                            let h2 := setb (heap_of s1) o
                                        (with_strong (with_value b1 None) (Cnt 0)) in
                            lift s1 self (weak_drop h2 (Some o)) (fun s2 =>
                              AO (add_ev (set_reg (set_reg s2 r REmpty) dst (RLoose p))
                                         (EvTableDropped o)) self RSome [])
                        end
                    end)
                | _ => AO s self RErr []
                end
            end
          else invalid s self
      | _ => invalid s self
      end
  | AGetMut r =>
      match reg_get s r with
      | RStrong o =>
          match getb h o with
          | Bad e => AHalt e
          | Ok b =>
              if (weak b =? 0)%N then AHalt (HFault FkUnderflow o)
              else AO s self (RBool ((weak b =? 1)%N &&
                      match strong b with Cnt 1%N => true | _ => false end)) []
          end
      | _ => invalid s self
      end
  | AMakeMut r =>
      match reg_get s r with
      | RStrong o =>
          match getb h o with
          | Bad e => AHalt e
          | Ok b =>
              let o' := length h in
              match strong b with
              | Cnt 1%N =>
                  if (weak b =? 0)%N then AHalt (HFault FkUnderflow o)
                  else if (weak b =? 1)%N then AO s self RUnit []
                  else
                    (* steal: only Weak handles are left *)
                    match value b with
                    | None => AHalt (HFault FkValueMoved o)
                    | Some p =>
                        let p' := {| pid := o'; slots := slots p; script := script p |} in
                        let h1 := setb h o (with_value b None) ++ [new_box p'] in
                        lift s self (release_links h1 o) (fun s1 =>
                        match getb (heap_of s1) o with
                        | Bad e => AHalt e
                        | Ok b1 =>
                            let h2 := setb (heap_of s1) o
                                        (with_weak (with_strong b1 (Cnt 0)) (weak b1 - 1)) in
                            AO (add_ev (set_reg (set_heap s1 h2) r (RStrong o'))
                                       (EvTableDropped o)) self RUnit []
                        end)
                    end
              | _ =>
                  (* clone the value into a fresh allocation, drop the old handle *)
                  match value b with
                  | None => AHalt (HFault FkValueMoved o)
                  | Some p =>
                      lift s self (clone_slots h (cloned_slots (slots p))) (fun s1 =>
                        let p' := {| pid := o'; slots := cloned_slots (slots p); script := [] |} in
                        AO (set_reg (set_heap s1 (heap_of s1 ++ [new_box p'])) r (RStrong o'))
                           self RUnit [FDropStrong o])
                  end
              end
          end
      | _ => invalid s self
      end
  | AIntoRaw r =>
      match reg_get s r with
      | RStrong o => AO (set_reg s r (RRaw o)) self RUnit []
      | _ => invalid s self
      end
  | AFromRaw r =>
      match reg_get s r with
      | RRaw o => AO (set_reg s r (RStrong o)) self RUnit []
      | _ => invalid s self
      end
  | AIncStrong r dst =>
      match reg_get s r with
      | RRaw o =>
          if reg_free s dst then
            lift s self (inc_strong h o) (fun s1 => AO (set_reg s1 dst (RRaw o)) self RUnit [])
          else invalid s self
      | _ => invalid s self
      end
  | ADecStrong r =>
      match reg_get s r with
      | RRaw o => AO (set_reg s r REmpty) self RUnit [FDropStrong o]
      | _ => invalid s self
      end
  | APtrEq h1 h2 =>
      match resolve_strong s self h1, resolve_strong s self h2 with
      | Some (a, _), Some (b, _) => AO s self (RBool (Nat.eqb a b)) []
      | _, _ => invalid s self
      end
  | AStrongCount hr =>
      match resolve_strong s self hr with
      | Some (o, _) =>
          match getb h o with
          | Bad e => AHalt e
          | Ok b => AO s self (RCnt (strong b)) []
          end
      | None => invalid s self
      end
  | AWeakCount hr =>
      match resolve_strong s self hr with
      | Some (o, _) =>
          match getb h o with
          | Bad e => AHalt e
          | Ok b => if (weak b =? 0)%N then AHalt (HFault FkUnderflow o)
                    else AO s self (RNat (weak b - 1)) []
          end
      | None => invalid s self
      end
  | AWStrongCount wr =>
      match resolve_weak s self wr with
      | Some None => AO s self (RNat 0) []
      | Some (Some o) =>
          match getb h o with
          | Bad e => AHalt e
          | Ok b => AO s self (RNat (match strong b with Uninit => 0 | Cnt n => n end)) []
          end
      | None => invalid s self
      end
  | AWWeakCount wr =>
      match resolve_weak s self wr with
      | Some None => AO s self (RNat 0) []
      | Some (Some o) =>
          match getb h o with
          | Bad e => AHalt e
          | Ok b =>
              match strong b with
              | Uninit => AO s self (RNat 0) []
              | Cnt n =>
                  if (0 <? n)%N then
                    if (weak b =? 0)%N then AHalt (HFault FkUnderflow o)
                    else AO s self (RNat (weak b - 1)) []
                  else AO s self (RNat 0) []
              end
          end
      | None => invalid s self
      end
  | ADeref hr =>
      match resolve_strong s self hr with
      | Some (o, _) =>
          match getb h o with
          | Bad e => AHalt e
          | Ok b =>
              match value b with
              | Some p => AO s self (RNat (N.of_nat (pid p))) []
              | None => AHalt (HFault FkValueMoved o)
              end
          end
      | None => invalid s self
      end
  | APanic => APanicOut
  end.

(** ** [Rc::drop] (drop.rs), one atomic step *)

(** the common tail of drop_unreachable / drop_unreachable_with_adoptions up to
    the point where the value's destructor is called *)
Definition start_unreachable (s : state) (o : oid) : R (state * list frame) :=
  let h := heap_of s in
  let* b := getb h o in
  (* the is_uninit test always succeeds here: strong was just set to 0 *)
  match value b with
  | None => Bad (HFault FkValueMoved o)
  | Some v =>
      Ok (set_heap s (setb h o (with_value (with_strong b Uninit) None)),
          [FDtorStart v; FAfterValue o])
  end.

Definition drop_strong (pri : list oid) (s : state) (o : oid) : R (state * list frame) :=
  let h := heap_of s in
  let* b := getb h o in
  match strong b with
  | Uninit => Ok (s, [])
  | Cnt n =>
      if (n =? 0)%N then Ok (s, [])
      else
        let n' := (n - 1)%N in
        let h1 := setb h o (with_strong b (Cnt n')) in
        let s1 := set_heap s h1 in
        let* t := get_links h1 o in
        match t with
        | [] =>
            if (n' =? 0)%N then start_unreachable s1 o else Ok (s1, [])
        | _ :: _ =>
            if (n' =? 0)%N then
              (* drop_unreachable_with_adoptions *)
              let* h2 := purge_loop h1 o t in
              let* h3 := set_links h2 o [] in
              start_unreachable (set_heap s1 h3) o
            else
              let* (oc, pops, visits) := orphaned_cycle h1 o in
              let s2 := add_ev s1 (EvTrace o pops visits) in
              match oc with
              | None => Ok (s2, [])
              | Some cyc =>
                  let cyc' := order_cycle pri cyc in
                  let keys := map fst cyc' in
                  let* h2 := bust_all h1 keys cyc' in
                  let* (h3, inners) := gather h2 keys [] in
                  Ok (add_ev (set_heap s2 h3) (EvGroup keys),
                      [FInners inners; FFinishGroup keys])
              end
        end
  end.

(** ** Small-step semantics *)
Record config := { st : state; stack : list frame; unw : bool }.

Inductive outcome :=
| Running (c : config)
| Finished (s : state) (panicked : bool)
| Halted (s : state) (h : halt).

(** what a pending frame turns into when a panic unwinds through it *)
Fixpoint unwind_stack (s : state) (k : list frame) : state * list frame :=
  match k with
  | [] => (s, [])
  | f :: k' =>
      let '(s1, k1) := unwind_stack s k' in
      match f with
      | FRunDtor p _ => (s1, FDropSlots (slots p) :: k1)
      | FRes _ => (s1, k1)                    (* the call never returns *)
      | FAfterValue o => (add_ev s1 (EvLeak o), k1)
      | FFinishGroup keys => (fold_left (fun s x => add_ev s (EvLeak x)) keys s1, k1)
      | _ => (s1, f :: k1)
      end
  end.

Definition step (pri : list oid) (c : config) : outcome :=
  let s := st c in
  match stack c with
  | [] => Finished s (unw c)
  | f :: k =>
      match f with
      | FDropStrong o =>
          match drop_strong pri s o with
          | Ok (s1, push) => Running {| st := s1; stack := push ++ k; unw := unw c |}
          | Bad e => Halted s e
          end
      | FDtorStart p =>
          Running {| st := add_ev s (EvDtor (pid p)); stack := FRunDtor p (script p) :: k; unw := unw c |}
      | FRunDtor p [] =>
          Running {| st := s; stack := FDropSlots (slots p) :: k; unw := unw c |}
      | FRunDtor p (a :: pc) =>
          match exec_act s (Some p) a with
          | AO s1 self r push =>
              let p1 := match self with Some q => q | None => p end in
              Running {| st := s1;
                         stack := push ++ FRes r :: FRunDtor p1 pc :: k; unw := unw c |}
          | AHalt e => Halted s e
          | APanicOut =>
              if unw c then Halted s HAbort
              else
                let '(s1, k1) := unwind_stack s k in
                Running {| st := s1; stack := FDropSlots (slots p) :: k1; unw := true |}
          end
      | FDropSlots [] => Running {| st := s; stack := k; unw := unw c |}
      | FDropSlots (sl :: ss) =>
          match sl with
          | SStrong o =>
              Running {| st := s; stack := FDropStrong o :: FDropSlots ss :: k; unw := unw c |}
          | SWeak w =>
              match weak_drop (heap_of s) w with
              | Ok h1 => Running {| st := set_heap s h1; stack := FDropSlots ss :: k; unw := unw c |}
              | Bad e => Halted s e
              end
          | SEmpty => Running {| st := s; stack := FDropSlots ss :: k; unw := unw c |}
          end
      | FAfterValue o =>
          (* move the table out and drop it, then dec_weak / deallocate *)
          match getb (heap_of s) o with
          | Bad e => Halted s e
          | Ok b =>
              match links b with
              | None => Halted s (HFault FkTableMoved o)
              | Some _ =>
                  let h1 := setb (heap_of s) o (with_links b None) in
                  match dec_weak_free h1 o with
                  | Ok h2 => Running {| st := add_ev (set_heap s h2) (EvTableDropped o);
                                        stack := k; unw := unw c |}
                  | Bad e => Halted s e
                  end
              end
          end
      | FInners [] => Running {| st := s; stack := k; unw := unw c |}
      | FInners ((o, v, _) :: es) =>
          Running {| st := s; stack := FDtorStart v :: FTableDrop o :: FInners es :: k; unw := unw c |}
      | FTableDrop o =>
          Running {| st := add_ev s (EvTableDropped o); stack := k; unw := unw c |}
      | FFinishGroup keys =>
          match finish_group (heap_of s) keys with
          | Ok h1 => Running {| st := set_heap s h1; stack := k; unw := unw c |}
          | Bad e => Halted s e
          end
      | FRes r => Running {| st := add_ev s (EvRes r); stack := k; unw := unw c |}
      end
  end.

Fixpoint run (pri : list oid) (fuel : nat) (c : config) : outcome :=
  match fuel with
  | O => Running c
  | S f =>
      match step pri c with
      | Running c' => run pri f c'
      | o => o
      end
  end.

(** ** Top-level calls *)
Inductive op_outcome :=
| ODone (r : result)
| OPanicked
| OHalt (h : halt)
| OFuel.

Definition exec_op (pri : list oid) (fuel : nat) (s : state) (o : op) : state * op_outcome :=
  let first :=
    match o with
    | OAct a => exec_act s None a
    | ONewS dst sc => exec_new s None dst sc
    end in
  match first with
  | AHalt e => (s, OHalt e)
  | APanicOut => (s, OPanicked)
  | AO s1 _ r push =>
      match run pri fuel {| st := s1; stack := push; unw := false |} with
      | Finished s2 false => (s2, ODone r)
      | Finished s2 true => (s2, OPanicked)
      | Halted s2 e => (s2, OHalt e)
      | Running c => (st c, OFuel)
      end
  end.

(** a history: calls with the choice oracle of each *)
Fixpoint run_history (fuel : nat) (s : state) (h : list (op * list oid))
  : state * list op_outcome :=
  match h with
  | [] => (s, [])
  | (o, pri) :: h' =>
      let '(s1, r) := exec_op pri fuel s o in
      match r with
      | OHalt _ | OFuel => (s1, [r])
      | _ => let '(s2, rs) := run_history fuel s1 h' in (s2, r :: rs)
      end
  end.
