(** * Atomic: the code regions of adopt.rs, cycle.rs, drop.rs and rc.rs during
    which no user code can run, transcribed function by function. *)
From CR Require Import Base.

(** ** Counters (rc.rs, [RcInnerPtr]) *)

(** [inc_strong]: aborts when [strong == 0 || strong == usize::MAX]. (The
    overflow branch [strong + 1 == usize::MAX] is not modelled.) *)
Definition inc_strong (h : heap) (o : oid) : R heap :=
  let* b := getb h o in
  match strong b with
  | Uninit => Bad HAbort
  | Cnt n => if (n =? 0)%N then Bad HAbort
             else Ok (setb h o (with_strong b (Cnt (n + 1))))
  end.

(** [inc_weak]: aborts when [weak == 0]. *)
Definition inc_weak (h : heap) (o : oid) : R heap :=
  let* b := getb h o in
  if (weak b =? 0)%N then Bad HAbort
  else Ok (setb h o (with_weak b (weak b + 1))).

(** [dec_weak] followed by "deallocate when zero" — the tail shared by
    [Weak::drop], [drop_unreachable], [drop_unreachable_with_adoptions] and
    phase three of [drop_cycle]. *)
Definition dec_weak_free (h : heap) (o : oid) : R heap :=
  let* b := getb h o in
  if (weak b =? 0)%N then Bad (HFault FkUnderflow o)
  else
    let w := (weak b - 1)%N in
    let b' := with_weak b w in
    Ok (setb h o (if (w =? 0)%N then with_freed b' true else b')).

(** [Weak::drop] *)
Definition weak_drop (h : heap) (w : option oid) : R heap :=
  match w with
  | None => Ok h
  | Some o => dec_weak_free h o
  end.

(** ** adopt.rs *)
Definition links_insert (h : heap) (o : oid) (l : link) : R heap :=
  let* b := getb h o in
  match links b with
  | None => Bad (HFault FkTableMoved o)
  | Some t => Ok (setb h o (with_talloc (with_links b (Some (tbl_insert t l))) true))
  end.

Definition links_remove (h : heap) (o : oid) (l : link) (n : N) : R heap :=
  let* t := get_links h o in set_links h o (tbl_remove t l n).

(** [adopt_unchecked(this, other)]; [same] = [ptr::eq(this, other)] on the
    handle objects, [a] and [b] the allocations they point to. *)
Definition adopt (h : heap) (same : bool) (a b : oid) : R heap :=
  if same then links_insert h a (b, Loop)
  else
    let* h1 := links_insert h a (b, Fwd) in
    links_insert h1 b (a, Bwd).

Definition unadopt (h : heap) (same : bool) (a b : oid) : R heap :=
  if same then links_remove h a (b, Loop) 1
  else
    let* h1 := links_remove h a (b, Fwd) 1 in
    links_remove h1 b (a, Bwd) 1.

(** ** The purge loop of [drop_unreachable_with_adoptions] and [release_links]

    [for (item, &strong) in links.borrow().iter()]: entries naming [this] are
    skipped, for every other entry both the forward and the backward record for
    [this] are removed from the peer's table. *)
Fixpoint purge_loop (h : heap) (this : oid) (entries : table) : R heap :=
  match entries with
  | [] => Ok h
  | ((x, _), n) :: rest =>
      if Nat.eqb x this then purge_loop h this rest
      else
        let* h1 := links_remove h x (this, Fwd) n in
        let* h2 := links_remove h1 x (this, Bwd) n in
        purge_loop h2 this rest
  end.

Definition purge_peers (h : heap) (this : oid) : R heap :=
  let* t := get_links h this in purge_loop h this t.

(** ** cycle.rs: [cycle_refs] *)

(** the result map [cycle_owned_refs], keyed by allocation (all keys are
    Forward links since Loopback entries are skipped) *)
Definition omap := list (oid * N).

Fixpoint own_get (m : omap) (k : oid) : N :=
  match m with
  | [] => 0%N
  | (k', c) :: m' => if Nat.eqb k k' then c else own_get m' k
  end.

Fixpoint own_has (m : omap) (k : oid) : bool :=
  match m with
  | [] => false
  | (k', _) :: m' => Nat.eqb k k' || own_has m' k
  end.

(** [entry(link).and_modify(|c| *c += strong).or_insert(strong)] *)
Fixpoint own_add (m : omap) (k : oid) (c : N) : omap :=
  match m with
  | [] => [(k, c)]
  | (k', c') :: m' =>
      if Nat.eqb k k' then (k', (c' + c)%N) :: m' else (k', c') :: own_add m' k c
  end.

(** [entry(link.as_forward()).or_default()] *)
Definition own_dflt (m : omap) (k : oid) : omap :=
  if own_has m k then m else m ++ [(k, 0%N)].

(** one pass over the entries of a visited node's table: returns the updated
    result map and the links pushed on the worklist, in push order *)
Fixpoint visit_entries (t : table) (own : omap) (pushed : list oid) : omap * list oid :=
  match t with
  | [] => (own, pushed)
  | ((x, Loop), _) :: t' => visit_entries t' own pushed
  | ((x, Fwd), c) :: t' => visit_entries t' (own_add own x c) (pushed ++ [x])
  | ((x, Bwd), _) :: t' => visit_entries t' (own_dflt own x) pushed
  end.

(** the worklist loop; [disc] is the [Vec] used as a stack (head = top) *)
Fixpoint trace_go (fuel : nat) (h : heap) (disc vis : list oid) (own : omap)
         (pops visits : N) : R (omap * N * N) :=
  match fuel with
  | O => Bad (HFault FkFuel 0)
  | S f =>
      match disc with
      | [] => Ok (own, pops, visits)
      | n :: rest =>
          if memb n vis then trace_go f h rest vis own (pops + 1) visits
          else
            let* t := get_links h n in
            let '(own', pushed) := visit_entries t own [] in
            trace_go f h (rev pushed ++ rest) (n :: vis) own' (pops + 1) (visits + 1)
      end
  end.

Fixpoint total_entries (h : heap) : nat :=
  match h with
  | [] => 0
  | b :: h' => (match links b with Some t => length t | None => 0 end) + total_entries h'
  end.

(** enough for every heap: each allocation is visited at most once and pushes
    at most its table's length (Proofs/TraceFacts.v, [trace_fuel_enough]) *)
Definition trace_fuel (h : heap) : nat := 2 + length h + total_entries h.

Definition cycle_refs (h : heap) (o : oid) : R (omap * N * N) :=
  trace_go (trace_fuel h) h [o] [] [] 0 0.

(** [item.strong() > cycle_owned_refs] *)
Definition sgt (s : scount) (c : N) : bool :=
  match s with Uninit => true | Cnt n => (c <? n)%N end.

(** [cycle.iter().any(..)] with its short circuit *)
Fixpoint has_external (h : heap) (own : omap) : R bool :=
  match own with
  | [] => Ok false
  | (k, c) :: own' =>
      let* b := getb h k in
      if sgt (strong b) c then Ok true else has_external h own'
  end.

(** [Rc::orphaned_cycle]; also returns the trace counters (pops, visits) *)
Definition orphaned_cycle (h : heap) (o : oid) : R (option omap * N * N) :=
  let* (own, pops, visits) := cycle_refs h o in
  match own with
  | [] => Ok (None, pops, visits)
  | _ :: _ =>
      let* ext := has_external h own in
      Ok (if ext then None else Some own, pops, visits)
  end.

(** ** drop.rs: [drop_cycle], phases one and two *)

(** [extract_if]: remove the Forward/Loopback entries whose key is in [cycle].
    Keys of [cycle] are Forward links, so Loopback entries always stay. *)
Fixpoint bust_table (t : table) (keys : list oid) : table :=
  match t with
  | [] => []
  | ((x, Fwd), c) :: t' =>
      if memb x keys then bust_table t' keys else ((x, Fwd), c) :: bust_table t' keys
  | e :: t' => e :: bust_table t' keys
  end.

(** phase one for one member: bust its links, then
    [for _ in 0..refcount.min(strong) { dec_strong }] *)
Definition bust_one (h : heap) (keys : list oid) (k : oid) (refcount : N) : R heap :=
  let* b := getb h k in
  match links b with
  | None => Bad (HFault FkTableMoved k)
  | Some t =>
      let b1 := with_links b (Some (bust_table t keys)) in
      match strong b1 with
      | Uninit => Bad (HFault FkUnderflow k)   (* arithmetic on the sentinel *)
      | Cnt n => Ok (setb h k (with_strong b1 (Cnt (n - N.min refcount n))))
      end
  end.

Fixpoint bust_all (h : heap) (keys : list oid) (cyc : omap) : R heap :=
  match cyc with
  | [] => Ok h
  | (k, c) :: cyc' => let* h1 := bust_one h keys k c in bust_all h1 keys cyc'
  end.

(** phase two: every member that is dead and not yet uninit is marked uninit
    and its value and table are moved into [inners] *)
Definition inner := (oid * payload * table)%type.

Fixpoint gather (h : heap) (keys : list oid) (acc : list inner) : R (heap * list inner) :=
  match keys with
  | [] => Ok (h, acc)
  | k :: keys' =>
      let* b := getb h k in
      if negb (is_dead (strong b)) then gather h keys' acc
      else if is_uninit (strong b) then gather h keys' acc
      else
        match value b, links b with
        | None, _ => Bad (HFault FkValueMoved k)
        | _, None => Bad (HFault FkTableMoved k)
        | Some v, Some t =>
            let b' := with_links (with_value (with_strong b Uninit) None) None in
            gather (setb h k b') keys' (acc ++ [(k, v, t)])
        end
  end.

(** phase three: every member that is dead loses the implicit weak *)
Fixpoint finish_group (h : heap) (keys : list oid) : R heap :=
  match keys with
  | [] => Ok h
  | k :: keys' =>
      let* b := getb h k in
      if is_dead (strong b) then
        let* h1 := dec_weak_free h k in finish_group h1 keys'
      else finish_group h keys'
  end.

(** member order of one teardown = iteration order of the trace's hash map.
    [pri] is the choice oracle: members are taken in the order in which they
    occur in [pri], the rest in the model's own order. *)
Fixpoint dedup (l : list nat) : list nat :=
  match l with
  | [] => []
  | x :: l' => x :: filter (fun y => negb (Nat.eqb x y)) (dedup l')
  end.

Definition order_cycle (pri : list oid) (cyc : omap) : omap :=
  let keys := map fst cyc in
  map (fun k => (k, own_get cyc k)) (filter (fun x => memb x keys) (dedup pri))
  ++ filter (fun e => negb (memb (fst e) pri)) cyc.

(** ** [release_links] (drop.rs): purge the peers, move the table out, drop it *)
Definition release_links (h : heap) (o : oid) : R heap :=
  let* h1 := purge_peers h o in
  let* b := getb h1 o in
  match links b with
  | None => Bad (HFault FkTableMoved o)
  | Some _ => Ok (setb h1 o (with_links b None))
  end.
